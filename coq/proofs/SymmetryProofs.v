(* C15: the board symmetries commute with the rules.  Lemmas general in the
   board size; the finite facts about the regenerated matrices are in
   proofs/TieSymmetry.v.  The road part of `winner` is in proofs/SymmetryRoad.v. *)
From Coq Require Import ZArith List Bool Lia Permutation.
From TV Require gen.Consts.
From TV Require Import model.Tak model.Road model.Symmetry.
From TV Require Import proofs.ListUtil proofs.Table proofs.MoveId proofs.TieSymmetry.
Import ListNotations.
Open Scope Z_scope.

(* the guard under which the model's list accesses are the code's: a board of
   size^2 stacks (same predicate as proofs/Generator.v) *)
Definition wf (p : position) : Prop :=
  0 <= size p /\ zlen (board p) = size p * size p.

Lemma in_bounds_iff n x y : in_bounds n x y = true <-> 0 <= x < n /\ 0 <= y < n.
Proof. unfold in_bounds. rewrite !andb_true_iff, !Z.leb_le, !Z.ltb_lt. lia. Qed.
Lemma bool_eq_iff (a b : bool) : (a = true <-> b = true) -> a = b.
Proof. destruct a, b; intros H; try reflexivity; [symmetry|]; apply H; reflexivity. Qed.

(* ================= 1. geometry of one symmetry (general in size) ================= *)
Ltac red_sym := cbn [apply_sym apply_lin mat_vec dot map combine zsum fold_right fst snd].

(* g maps Z^2 to Z^2; a square is on the board iff its image is (so an
   off-board square is sent to an off-board square) *)
Lemma sym_in_bounds g n v : In g syms ->
  in_bounds n (fst (apply_sym g n v)) (snd (apply_sym g n v)) = in_bounds n (fst v) (snd v).
Proof.
  intros Hg. apply bool_eq_iff. rewrite !in_bounds_iff. destruct v as [x y].
  case_syms Hg; red_sym; lia.
Qed.
Lemma sym_inv_l g n v : In g syms -> apply_sym (sym_inv g) n (apply_sym g n v) = v.
Proof.
  intros Hg. destruct v as [x y]. case_syms Hg; cbn [sym_inv]; red_sym; f_equal; lia.
Qed.
Lemma sym_inv_r g n v : In g syms -> apply_sym g n (apply_sym (sym_inv g) n v) = v.
Proof.
  intros Hg. destruct v as [x y]. case_syms Hg; cbn [sym_inv]; red_sym; f_equal; lia.
Qed.
Lemma sym_inv_in g : In g syms -> In (sym_inv g) syms.
Proof. intros Hg. apply syms_closed_inv. assumption. Qed.
Lemma sym_injective g n v w : In g syms -> apply_sym g n v = apply_sym g n w -> v = w.
Proof.
  intros Hg H. rewrite <- (sym_inv_l g n v Hg), <- (sym_inv_l g n w Hg). rewrite H. reflexivity.
Qed.
(* g(v + d) = g(v) + lin(g)(d) *)
Lemma sym_affine g n x y dx dy : In g syms ->
  apply_sym g n (x + dx, y + dy) =
  (fst (apply_sym g n (x, y)) + fst (apply_lin g (dx, dy)),
   snd (apply_sym g n (x, y)) + snd (apply_lin g (dx, dy))).
Proof. intros Hg. case_syms Hg; red_sym; f_equal; lia. Qed.
(* composition of maps is the matrix product *)
Lemma sym_compose g h n v : In g syms -> In h syms ->
  apply_sym (mat_mul g h) n v = apply_sym g n (apply_sym h n v).
Proof.
  intros Hg Hh. destruct v as [x y].
  case_syms Hg; case_syms Hh;
    match goal with |- context [mat_mul ?a ?b] =>
      let m := eval vm_compute in (mat_mul a b) in change (mat_mul a b) with m end;
    red_sym; f_equal; lia.
Qed.
Lemma sym_id n v : apply_sym mat_id n v = v.
Proof. destruct v as [x y]. unfold mat_id. red_sym. f_equal; lia. Qed.

(* the direction table: a slide type is sent to the slide type whose direction
   is the image of its direction under the linear part; no KeyError *)
Definition tdir (g : mat) (t : mtype) : mtype :=
  if is_slide t then
    match from_direction (fst (apply_lin g (direction t))) (snd (apply_lin g (direction t))) with
    | Some t' => t'
    | None => t
    end
  else t.
Lemma sym_direction g t : In g syms -> is_slide t = true ->
  from_direction (fst (apply_lin g (direction t))) (snd (apply_lin g (direction t))) = Some (tdir g t) /\
  is_slide (tdir g t) = true /\
  direction (tdir g t) = apply_lin g (direction t).
Proof.
  intros Hg Ht. case_syms Hg; destruct t; try discriminate Ht; vm_compute; auto.
Qed.
Lemma tdir_place g t : is_slide t = false -> tdir g t = t.
Proof. intros H. unfold tdir. rewrite H. reflexivity. Qed.
Lemma tdir_is_slide g t : In g syms -> is_slide (tdir g t) = is_slide t.
Proof.
  intros Hg. destruct (is_slide t) eqn:Ht.
  - apply sym_direction; assumption.
  - rewrite tdir_place by assumption. assumption.
Qed.

(* transform_move never raises for the eight matrices *)
Lemma transform_move_total g m n : In g syms ->
  transform_move_opt g m n = Some (transform_move g m n) /\
  transform_move g m n =
    mkMove (fst (apply_sym g n (mx m, my m))) (snd (apply_sym g n (mx m, my m))) (tdir g (mt m)) (mslides m).
Proof.
  intros Hg. unfold transform_move, transform_move_opt.
  destruct (is_slide (mt m)) eqn:Ht.
  - destruct (sym_direction g (mt m) Hg Ht) as (Hd & _ & _). rewrite Hd. auto.
  - rewrite tdir_place by assumption. auto.
Qed.

Lemma sym_on_board g n x y : In g syms ->
  (0 <= fst (apply_sym g n (x, y)) < n /\ 0 <= snd (apply_sym g n (x, y)) < n) <->
  (0 <= x < n /\ 0 <= y < n).
Proof.
  intros Hg. rewrite <- !in_bounds_iff. rewrite (sym_in_bounds g n (x, y) Hg). reflexivity.
Qed.

(* ================= 2. boards as functions on squares ================= *)
Lemma upd_length {A} (l : list A) k v : length (upd l k v) = length l.
Proof. revert k; induction l as [|a l IH]; intros [|k]; simpl; auto. Qed.
Lemma nth_upd_same {A} (l : list A) k v d : (k < length l)%nat -> nth k (upd l k v) d = v.
Proof.
  revert k; induction l as [|a l IH]; intros [|k] H; simpl in *; try lia; auto. apply IH. lia.
Qed.
Lemma nth_upd_other {A} (l : list A) k j v d : k <> j -> nth j (upd l k v) d = nth j l d.
Proof.
  revert k j; induction l as [|a l IH]; intros [|k] [|j] H; simpl; auto; try congruence.
Qed.
Lemma updz_zlen {A} (l : list A) i v : zlen (updz l i v) = zlen l.
Proof. unfold zlen, updz. rewrite upd_length. reflexivity. Qed.

Lemma idx_range n x y : 0 <= x < n -> 0 <= y < n -> 0 <= x + y * n < n * n.
Proof. nia. Qed.
Lemma idx_inj n x y x' y' : 0 <= x < n -> 0 <= x' < n -> x + y * n = x' + y' * n -> x = x' /\ y = y'.
Proof.
  intros Hx Hx' H.
  assert (y = y').
  { destruct (Z.lt_trichotomy y y') as [Hlt|[Heq|Hgt]]; [exfalso|assumption|exfalso].
    - assert ((y + 1) * n <= y' * n) by (apply Z.mul_le_mono_nonneg_r; lia). lia.
    - assert ((y' + 1) * n <= y * n) by (apply Z.mul_le_mono_nonneg_r; lia). lia. }
  subst. lia.
Qed.

(* the stack on square v of a board list of a size-n board *)
Definition gb (n : Z) (b : list stack) (v : Z * Z) : stack := getz [] b (fst v + snd v * n).
Lemma sq_gb p x y : sq p x y = gb (size p) (board p) (x, y).
Proof. unfold sq, gb. simpl. f_equal. lia. Qed.

Lemma board_ext n (b1 b2 : list stack) : 0 <= n -> zlen b1 = n * n -> zlen b2 = n * n ->
  (forall x y, 0 <= x < n -> 0 <= y < n -> gb n b1 (x, y) = gb n b2 (x, y)) -> b1 = b2.
Proof.
  intros Hn H1 H2 H. unfold zlen in *. apply (@nth_ext stack _ _ [] []); [lia|].
  intros k Hk.
  assert (Hn0 : 0 < n) by nia.
  assert (Hkz : 0 <= Z.of_nat k < n * n) by lia.
  specialize (H (Z.of_nat k mod n) (Z.of_nat k / n)). unfold gb, getz in H. simpl in H.
  replace (Z.to_nat (Z.of_nat k mod n + Z.of_nat k / n * n)) with k in H.
  - apply H.
    + apply Z.mod_pos_bound. lia.
    + split; [apply Z.div_pos; lia|]. apply Z.div_lt_upper_bound; lia.
  - pose proof (Z.div_mod (Z.of_nat k) n). lia.
Qed.

Lemma gb_updz n b x y s x' y' : zlen b = n * n ->
  0 <= x < n -> 0 <= y < n -> 0 <= x' < n -> 0 <= y' < n ->
  gb n (updz b (x + y * n) s) (x', y') = if (x =? x') && (y =? y') then s else gb n b (x', y').
Proof.
  unfold gb, updz, getz, zlen; simpl. intros Hl Hx Hy Hx' Hy'.
  pose proof (idx_range n x y Hx Hy). pose proof (idx_range n x' y' Hx' Hy').
  destruct ((x =? x') && (y =? y')) eqn:E.
  - apply andb_prop in E. destruct E as [E1 E2]. apply Z.eqb_eq in E1, E2. subst.
    apply nth_upd_same. lia.
  - apply nth_upd_other. intro Heq.
    assert (Hi : x + y * n = x' + y' * n) by lia.
    apply idx_inj in Hi; lia.
Qed.

Lemma fold_left_ext {A B} (f g : A -> B -> A) l : (forall a x, f a x = g a x) ->
  forall a, fold_left f l a = fold_left g l a.
Proof. intros H. induction l as [|x l IH]; intros a; simpl; [reflexivity|]. rewrite H. apply IH. Qed.
Lemma fold_left_flat_map {A B C} (f : A -> C -> A) (h : B -> list C) l :
  forall a, fold_left f (flat_map h l) a = fold_left (fun a x => fold_left f (h x) a) l a.
Proof. induction l as [|x l IH]; intros a; simpl; [reflexivity|]. rewrite fold_left_app. apply IH. Qed.
Lemma fold_left_map {A B C} (f : A -> C -> A) (k : B -> C) l :
  forall a, fold_left f (map k l) a = fold_left (fun a x => f a (k x)) l a.
Proof. induction l as [|x l IH]; intros a; simpl; [reflexivity|]. apply IH. Qed.

(* a sequence of stores with pairwise distinct keys *)
Section FoldUpd.
  Context {K A : Type} (key : K -> nat) (val : K -> A) (d : A).
  Definition store (acc : list A) (k : K) := upd acc (key k) (val k).
  Lemma fold_store_length l : forall b, length (fold_left store l b) = length b.
  Proof. induction l as [|k l IH]; intros b; simpl; [reflexivity|]. rewrite IH. apply upd_length. Qed.
  Lemma fold_store_notin l : forall b i, ~ In i (map key l) ->
    nth i (fold_left store l b) d = nth i b d.
  Proof.
    induction l as [|k l IH]; intros b i Hi; simpl; [reflexivity|]. simpl in Hi.
    rewrite IH by tauto. apply nth_upd_other. tauto.
  Qed.
  Lemma fold_store_nth l : forall b k0, NoDup (map key l) -> In k0 l -> (key k0 < length b)%nat ->
    nth (key k0) (fold_left store l b) d = val k0.
  Proof.
    induction l as [|k l IH]; intros b k0 Hnd Hin Hlt; simpl in *; [contradiction|].
    inversion Hnd as [|? ? Hna Hnd']; subst. destruct Hin as [->|Hin].
    - rewrite fold_store_notin by assumption. apply nth_upd_same. assumption.
    - apply IH; [assumption|assumption|]. unfold store. rewrite upd_length. assumption.
  Qed.
End FoldUpd.

Lemma all_squares_iff n v : In v (all_squares n) <-> 0 <= fst v < n /\ 0 <= snd v < n.
Proof.
  unfold all_squares. rewrite in_flat_map. split.
  - intros (x & Hx & Hv). apply in_map_iff in Hv. destruct Hv as (y & <- & Hy).
    apply in_zrange in Hx. apply in_zrange in Hy. simpl. lia.
  - intros (Hx & Hy). exists (fst v). split; [apply in_zrange; assumption|].
    apply in_map_iff. exists (snd v). split; [destruct v; reflexivity|apply in_zrange; assumption].
Qed.
Lemma all_squares_nodup n : NoDup (all_squares n).
Proof.
  unfold all_squares. apply NoDup_flat_map.
  - apply zrange_nodup.
  - intros x _. apply NoDup_map_inj; [|apply zrange_nodup]. intros a b _ _ H. congruence.
  - intros a b v _ _ Ha Hb. apply in_map_iff in Ha. apply in_map_iff in Hb.
    destruct Ha as (? & <- & _). destruct Hb as (? & Hb & _). congruence.
Qed.

(* the double loop, flattened: one store per square, in x-major order *)
Definition okey (g : mat) (n : Z) (v : Z * Z) : nat :=
  Z.to_nat (fst (apply_sym g n v) + snd (apply_sym g n v) * n).
Lemma tpb_flat g n b : tpb g n b = fold_left (store (okey g n) (gb n b)) (all_squares n) b.
Proof.
  unfold tpb, all_squares. rewrite fold_left_flat_map. apply fold_left_ext. intros a i.
  rewrite fold_left_map. apply fold_left_ext. intros a' j.
  unfold store, okey, gb, updz. destruct (apply_sym g n (i, j)) as [oi oj]. simpl.
  f_equal. f_equal. lia.
Qed.
Lemma tpb_length g n b : length (tpb g n b) = length b.
Proof. rewrite tpb_flat. apply fold_store_length. Qed.
Lemma tpb_zlen g n b : zlen (tpb g n b) = zlen b.
Proof. unfold zlen. rewrite tpb_length. reflexivity. Qed.

(* the guard of the model's `updz`: for the eight matrices every store of the
   double loop hits an index in [0, size*size), so neither Python's negative
   indexing nor an IndexError can occur *)
Lemma index_guard g n i j : In g syms -> 0 <= i < n -> 0 <= j < n ->
  0 <= fst (apply_sym g n (i, j)) + snd (apply_sym g n (i, j)) * n < n * n.
Proof.
  intros Hg Hi Hj. apply idx_range; apply (sym_on_board g n i j Hg); lia.
Qed.

Lemma okey_nodup g n : In g syms -> NoDup (map (okey g n) (all_squares n)).
Proof.
  intros Hg. apply NoDup_map_inj; [|apply all_squares_nodup].
  intros [x y] [x' y'] Ha Hb H. apply all_squares_iff in Ha. apply all_squares_iff in Hb. simpl in Ha, Hb.
  unfold okey in H.
  pose proof (proj2 (sym_on_board g n x y Hg) Ha) as Hia.
  pose proof (proj2 (sym_on_board g n x' y' Hg) Hb) as Hib.
  pose proof (idx_range n _ _ (proj1 Hia) (proj2 Hia)).
  pose proof (idx_range n _ _ (proj1 Hib) (proj2 Hib)).
  assert (Hz : fst (apply_sym g n (x, y)) + snd (apply_sym g n (x, y)) * n =
               fst (apply_sym g n (x', y')) + snd (apply_sym g n (x', y')) * n) by lia.
  apply idx_inj in Hz; try lia. destruct Hz as (Hz1 & Hz2).
  apply (sym_injective g n _ _ Hg). apply injective_projections; assumption.
Qed.

(* the transformed board holds at g(v) what the board held at v *)
Lemma tpb_gb g n b x y : In g syms -> zlen b = n * n -> 0 <= x < n -> 0 <= y < n ->
  gb n (tpb g n b) (apply_sym g n (x, y)) = gb n b (x, y).
Proof.
  intros Hg Hl Hx Hy. rewrite tpb_flat. unfold gb at 1, getz.
  change (Z.to_nat (fst (apply_sym g n (x, y)) + snd (apply_sym g n (x, y)) * n)) with (okey g n (x, y)).
  apply (fold_store_nth (okey g n) (gb n b) []).
  - apply okey_nodup. assumption.
  - apply all_squares_iff. simpl. lia.
  - unfold okey. pose proof (index_guard g n x y Hg Hx Hy). unfold zlen in Hl. lia.
Qed.
Lemma tpb_gb_inv g n b x y : In g syms -> zlen b = n * n -> 0 <= x < n -> 0 <= y < n ->
  gb n (tpb g n b) (x, y) = gb n b (apply_sym (sym_inv g) n (x, y)).
Proof.
  intros Hg Hl Hx Hy.
  pose proof (proj2 (sym_on_board (sym_inv g) n x y (sym_inv_in g Hg)) (conj Hx Hy)) as Hi.
  destruct (apply_sym (sym_inv g) n (x, y)) as [u w] eqn:E. simpl in Hi.
  rewrite <- (tpb_gb g n b u w Hg Hl) by lia. rewrite <- E. rewrite sym_inv_r by assumption. reflexivity.
Qed.

(* a store before the transform is a store at the image square after it *)
Lemma tpb_updz g n b x y s : In g syms -> 0 <= n -> zlen b = n * n -> 0 <= x < n -> 0 <= y < n ->
  tpb g n (updz b (x + y * n) s) =
  updz (tpb g n b) (fst (apply_sym g n (x, y)) + snd (apply_sym g n (x, y)) * n) s.
Proof.
  intros Hg Hn Hl Hx Hy. apply (board_ext n); [assumption| | |].
  - rewrite tpb_zlen, updz_zlen. assumption.
  - rewrite updz_zlen, tpb_zlen. assumption.
  - intros x' y' Hx' Hy'.
    pose proof (proj2 (sym_on_board g n x y Hg) (conj Hx Hy)) as Hi.
    rewrite gb_updz; try lia; [|rewrite tpb_zlen; assumption].
    rewrite !tpb_gb_inv; try assumption; [|rewrite updz_zlen; assumption].
    pose proof (proj2 (sym_on_board (sym_inv g) n x' y' (sym_inv_in g Hg)) (conj Hx' Hy')) as Hj.
    destruct (apply_sym (sym_inv g) n (x', y')) as [u w] eqn:E. simpl in Hj.
    rewrite gb_updz; try lia.
    assert (Hiff : (x =? u) && (y =? w) =
                   (fst (apply_sym g n (x, y)) =? x') && (snd (apply_sym g n (x, y)) =? y')).
    { apply bool_eq_iff. rewrite !andb_true_iff, !Z.eqb_eq. split.
      - intros (-> & ->). rewrite <- E. rewrite sym_inv_r by assumption. auto.
      - intros (H1 & H2).
        assert (Hv : apply_sym g n (x, y) = (x', y')) by (apply injective_projections; assumption).
        rewrite <- Hv in E. rewrite sym_inv_l in E by assumption. inversion E. auto. }
    rewrite Hiff. reflexivity.
Qed.

(* ================= 3. transform_position commutes with move ================= *)
Lemma tp_wf g p : wf p -> wf (transform_position g p).
Proof. intros (Hn & Hl). split; simpl; [assumption|]. rewrite tpb_zlen. assumption. Qed.

Lemma tp_sq g p x y : In g syms -> wf p -> 0 <= x < size p -> 0 <= y < size p ->
  sq (transform_position g p) (fst (apply_sym g (size p) (x, y))) (snd (apply_sym g (size p) (x, y))) =
  sq p x y.
Proof.
  intros Hg (Hn & Hl) Hx Hy. rewrite !sq_gb. cbn [transform_position size board].
  rewrite <- surjective_pairing. apply tpb_gb; assumption.
Qed.

Lemma move_place_commutes g p m : In g syms -> wf p ->
  0 <= mx m < size p -> 0 <= my m < size p ->
  option_map (transform_position g) (move_place p m) =
  move_place (transform_position g p)
    (mkMove (fst (apply_sym g (size p) (mx m, my m))) (snd (apply_sym g (size p) (mx m, my m)))
            (mt m) (mslides m)).
Proof.
  intros Hg Hwf Hx Hy. pose proof Hwf as (Hn & Hl). unfold move_place. cbn [mt mx my mslides].
  rewrite (tp_sq g p (mx m) (my m) Hg Hwf Hx Hy).
  change (ply (transform_position g p)) with (ply p).
  change (to_move (transform_position g p)) with (to_move p).
  change (size (transform_position g p)) with (size p).
  change (board (transform_position g p)) with (tpb g (size p) (board p)).
  change (wstones (transform_position g p)) with (wstones p).
  change (wcaps (transform_position g p)) with (wcaps p).
  change (bstones (transform_position g p)) with (bstones p).
  change (bcaps (transform_position g p)) with (bcaps p).
  destruct ((ply p <? 2) && negb (mtype_eqb (mt m) PlaceFlat)); [reflexivity|].
  destruct (sq p (mx m) (my m)); [|reflexivity].
  rewrite <- (tpb_updz g (size p) (board p) (mx m) (my m) _ Hg Hn Hl Hx Hy).
  destruct (if ply p <? 2 then flip (to_move p) else to_move p);
    destruct (mtype_eqb (mt m) PlaceCapstone);
    match goal with |- context [?a <=? 0] => destruct (a <=? 0) end; reflexivity.
Qed.

Lemma slide_go_commutes g p dx dy : In g syms -> wf p ->
  forall drops x y carry nb, zlen nb = size p * size p ->
  slide_go (transform_position g p)
           (fst (apply_lin g (dx, dy))) (snd (apply_lin g (dx, dy)))
           (fst (apply_sym g (size p) (x, y))) (snd (apply_sym g (size p) (x, y)))
           carry (tpb g (size p) nb) drops =
  option_map (tpb g (size p)) (slide_go p dx dy x y carry nb drops).
Proof.
  intros Hg (Hn & Hl). induction drops as [|d ds IH]; intros x y carry nb Hnb; [reflexivity|].
  cbn [slide_go].
  change (size (transform_position g p)) with (size p).
  change (board (transform_position g p)) with (tpb g (size p) (board p)).
  set (n := size p) in *.
  pose proof (sym_affine g n x y dx dy Hg) as Haff.
  replace (fst (apply_sym g n (x, y)) + fst (apply_lin g (dx, dy)))
    with (fst (apply_sym g n (x + dx, y + dy))) by (rewrite Haff; reflexivity).
  replace (snd (apply_sym g n (x, y)) + snd (apply_lin g (dx, dy)))
    with (snd (apply_sym g n (x + dx, y + dy))) by (rewrite Haff; reflexivity).
  rewrite (sym_in_bounds g n (x + dx, y + dy) Hg). cbn [fst snd].
  destruct (in_bounds n (x + dx) (y + dy)) eqn:Hb; [|reflexivity]. cbn [negb].
  apply in_bounds_iff in Hb. destruct Hb as (Hbx & Hby).
  assert (Horig : getz [] (tpb g n (board p))
                    (fst (apply_sym g n (x + dx, y + dy)) + snd (apply_sym g n (x + dx, y + dy)) * n) =
                  getz [] (board p) (x + dx + (y + dy) * n))
    by (exact (tpb_gb g n (board p) (x + dx) (y + dy) Hg Hl Hbx Hby)).
  rewrite Horig.
  assert (Hcont : forall o k,
    slide_go (transform_position g p) (fst (apply_lin g (dx, dy))) (snd (apply_lin g (dx, dy)))
      (fst (apply_sym g n (x + dx, y + dy))) (snd (apply_sym g n (x + dx, y + dy)))
      (firstn k carry)
      (updz (tpb g n nb)
         (fst (apply_sym g n (x + dx, y + dy)) + snd (apply_sym g n (x + dx, y + dy)) * n)
         (skipn k carry ++ o)) ds =
    option_map (tpb g n)
      (slide_go p dx dy (x + dx) (y + dy) (firstn k carry)
         (updz nb (x + dx + (y + dy) * n) (skipn k carry ++ o)) ds)).
  { intros o k. rewrite <- (tpb_updz g n nb (x + dx) (y + dy) _ Hg Hn Hnb Hbx Hby).
    apply IH. rewrite updz_zlen. assumption. }
  destruct (getz [] (board p) (x + dx + (y + dy) * n)) as [|top rest]; [apply Hcont|].
  destruct (pkind top); [apply Hcont| |reflexivity].
  destruct carry as [|c [|c' carry']]; try reflexivity.
  destruct (kind_eqb (pkind c) Capstone); [apply Hcont|reflexivity].
Qed.

Lemma move_slide_commutes g p m drops : In g syms -> wf p ->
  0 <= mx m < size p -> 0 <= my m < size p -> is_slide (mt m) = true ->
  option_map (transform_position g) (move_slide p m drops) =
  move_slide (transform_position g p)
    (mkMove (fst (apply_sym g (size p) (mx m, my m))) (snd (apply_sym g (size p) (mx m, my m)))
            (tdir g (mt m)) (mslides m)) drops.
Proof.
  intros Hg Hwf Hx Hy Ht. pose proof Hwf as (Hn & Hl). unfold move_slide. cbn [mt mx my mslides].
  rewrite (tp_sq g p (mx m) (my m) Hg Hwf Hx Hy).
  change (ply (transform_position g p)) with (ply p).
  change (to_move (transform_position g p)) with (to_move p).
  change (size (transform_position g p)) with (size p).
  change (board (transform_position g p)) with (tpb g (size p) (board p)).
  destruct (ply p <? 2); [reflexivity|].
  destruct (existsb (fun d => d <? 1) drops); [reflexivity|].
  destruct ((size p <? zsum drops) || (zlen (sq p (mx m) (my m)) <? zsum drops)); [reflexivity|].
  destruct (zsum drops <? 1); [reflexivity|].
  destruct (sq p (mx m) (my m)) as [|top rest] eqn:Est; [reflexivity|].
  destruct (negb (color_eqb (pcolor top) (to_move p))); [reflexivity|].
  destruct (sym_direction g (mt m) Hg Ht) as (_ & _ & Hd). rewrite Hd.
  destruct (direction (mt m)) as [dx dy].
  rewrite (surjective_pairing (apply_lin g (dx, dy))).
  rewrite <- (tpb_updz g (size p) (board p) (mx m) (my m) _ Hg Hn Hl Hx Hy).
  rewrite (slide_go_commutes g p dx dy Hg Hwf) by (rewrite updz_zlen; assumption).
  destruct (slide_go p dx dy (mx m) (my m) _ _ drops); reflexivity.
Qed.

(* transforming a position and a move and then playing = playing and then
   transforming; `None` (IllegalMove) on one side iff on the other.  m is ANY
   move record: off-board squares, bad drop counts, slides = None included. *)
Theorem move_commutes g p m : wf p -> In g syms ->
  option_map (transform_position g) (move p m) =
  move (transform_position g p) (transform_move g m (size p)).
Proof.
  intros Hwf Hg. destruct (transform_move_total g m (size p) Hg) as (_ & ->).
  unfold move. cbn [mx my mt mslides].
  change (size (transform_position g p)) with (size p).
  rewrite (sym_in_bounds g (size p) (mx m, my m) Hg). cbn [fst snd].
  destruct (in_bounds (size p) (mx m) (my m)) eqn:Hb; [|reflexivity]. cbn [negb].
  apply in_bounds_iff in Hb. destruct Hb as (Hx & Hy).
  rewrite (tdir_is_slide g (mt m) Hg).
  destruct (is_slide (mt m)) eqn:Ht.
  - destruct (mslides m) as [drops|]; [|reflexivity].
    apply move_slide_commutes; assumption.
  - rewrite (tdir_place g (mt m) Ht). apply move_place_commutes; assumption.
Qed.

(* legality is preserved both ways *)
Corollary legality_invariant g p m : wf p -> In g syms ->
  (move p m = None <-> move (transform_position g p) (transform_move g m (size p)) = None).
Proof.
  intros Hwf Hg. rewrite <- (move_commutes g p m Hwf Hg).
  destruct (move p m); simpl; split; congruence.
Qed.

(* ================= 4. side to move, ply, reserves, size ================= *)
(* holds for every matrix: attrs.evolve(pos, board=sqs) copies the other fields *)
Theorem ply_side_reserves_invariant g p :
  ply (transform_position g p) = ply p /\
  to_move (transform_position g p) = to_move p /\
  size (transform_position g p) = size p /\
  (wstones (transform_position g p), wcaps (transform_position g p)) = (wstones p, wcaps p) /\
  (bstones (transform_position g p), bcaps (transform_position g p)) = (bstones p, bcaps p).
Proof. repeat split. Qed.

(* orthogonal adjacency is preserved (both ways) *)
Lemma sym_adjacent g n a b : In g syms ->
  adjacent (apply_sym g n a) (apply_sym g n b) = adjacent a b.
Proof.
  intros Hg. destruct a as [ax ay], b as [bx b_y]. unfold adjacent.
  case_syms Hg; red_sym; lia.
Qed.

(* two different matrices are different maps of every board with >= 2 squares a side *)
Lemma sym_distinct_maps n g h : 2 <= n -> In g syms -> In h syms ->
  (forall x y, 0 <= x < n -> 0 <= y < n -> apply_sym g n (x, y) = apply_sym h n (x, y)) -> g = h.
Proof.
  intros Hn Hg Hh H.
  pose proof (H 0 0 ltac:(lia) ltac:(lia)) as H00. pose proof (H 1 0 ltac:(lia) ltac:(lia)) as H10.
  clear H. case_syms Hg; case_syms Hh; try reflexivity; exfalso;
    cbn [apply_sym mat_vec dot map combine zsum fold_right fst snd] in H00, H10;
    apply pair_equal_spec in H00; apply pair_equal_spec in H10; lia.
Qed.

(* ================= 5. the transformed board is a permutation of the board ================= *)
Definition unidx (n k : Z) : Z * Z := (k mod n, k / n).
Definition index_order (n : Z) : list (Z * Z) := map (unidx n) (zrange (n * n)).

Lemma unidx_bounds n k : 0 < n -> 0 <= k < n * n ->
  0 <= fst (unidx n k) < n /\ 0 <= snd (unidx n k) < n /\ fst (unidx n k) + snd (unidx n k) * n = k.
Proof.
  intros Hn Hk. unfold unidx. simpl.
  pose proof (Z.mod_pos_bound k n Hn). pose proof (Z.div_mod k n ltac:(lia)).
  assert (0 <= k / n) by (apply Z.div_pos; lia).
  assert (k / n < n) by (apply Z.div_lt_upper_bound; lia). lia.
Qed.
Lemma index_order_iff n v : 0 < n -> (In v (index_order n) <-> 0 <= fst v < n /\ 0 <= snd v < n).
Proof.
  intros Hn. unfold index_order. rewrite in_map_iff. split.
  - intros (k & <- & Hk). apply in_zrange in Hk. pose proof (unidx_bounds n k Hn Hk). lia.
  - intros (Hx & Hy). exists (fst v + snd v * n). pose proof (idx_range n _ _ Hx Hy) as Hr. split.
    + pose proof (unidx_bounds n _ Hn Hr) as (H1 & H2 & H3).
      apply idx_inj in H3; try lia. destruct v; simpl in *. apply injective_projections; simpl; lia.
    + apply in_zrange. assumption.
Qed.
Lemma index_order_nodup n : 0 < n -> NoDup (index_order n).
Proof.
  intros Hn. unfold index_order. apply NoDup_map_inj; [|apply zrange_nodup].
  intros a b Ha Hb H. apply in_zrange in Ha. apply in_zrange in Hb.
  pose proof (unidx_bounds n a Hn Ha). pose proof (unidx_bounds n b Hn Hb). rewrite H in *. lia.
Qed.
Lemma board_as_map n (b : list stack) : 0 < n -> zlen b = n * n -> b = map (gb n b) (index_order n).
Proof.
  intros Hn Hl. unfold zlen in Hl.
  assert (Hlen : length (map (gb n b) (index_order n)) = length b).
  { unfold index_order, zrange. rewrite !map_length, seq_length. lia. }
  unfold index_order, zrange in *. rewrite !map_map in *.
  apply (@nth_ext stack _ _ [] (gb n b (unidx n (Z.of_nat 0)))); [symmetry; exact Hlen|].
  intros k Hk.
  rewrite (map_nth (fun x => gb n b (unidx n (Z.of_nat x))) (seq 0 (Z.to_nat (n * n))) 0%nat k).
  rewrite seq_nth by lia. simpl (0 + k)%nat.
  pose proof (unidx_bounds n (Z.of_nat k) Hn ltac:(lia)) as (_ & _ & H3).
  unfold gb, getz. rewrite H3. rewrite Nat2Z.id. reflexivity.
Qed.

Theorem tpb_permutation g n b : In g syms -> 0 <= n -> zlen b = n * n -> Permutation (tpb g n b) b.
Proof.
  intros Hg Hn Hl. destruct (Z.eq_dec n 0) as [->|Hn0]; [apply Permutation_refl|].
  assert (Hpos : 0 < n) by lia.
  rewrite (board_as_map n (tpb g n b) Hpos) by (rewrite tpb_zlen; assumption).
  rewrite (map_ext_in _ (fun v => gb n b (apply_sym (sym_inv g) n v))).
  2:{ intros [x y] Hv. apply index_order_iff in Hv; [|assumption]. simpl in Hv.
      apply tpb_gb_inv; tauto. }
  rewrite <- (map_map (apply_sym (sym_inv g) n) (gb n b)).
  apply (Permutation_trans (l' := map (gb n b) (index_order n)));
    [|rewrite <- (board_as_map n b Hpos Hl); apply Permutation_refl].
  apply Permutation_map. apply NoDup_Permutation.
  - apply NoDup_map_inj; [|apply index_order_nodup; assumption].
    intros v w _ _ H. apply (sym_injective (sym_inv g) n); [apply sym_inv_in; assumption|assumption].
  - apply index_order_nodup. assumption.
  - intros v. rewrite in_map_iff. rewrite index_order_iff by assumption. split.
    + intros (w & <- & Hw). apply index_order_iff in Hw; [|assumption]. destruct w as [x y].
      apply (sym_on_board (sym_inv g) n x y); [apply sym_inv_in; assumption|assumption].
    + intros Hv. exists (apply_sym g n v). split; [apply sym_inv_l; assumption|].
      apply index_order_iff; [assumption|]. destruct v as [x y]. apply (sym_on_board g n x y Hg). assumption.
Qed.

Lemma perm_forallb {A} (f : A -> bool) l l' : Permutation l l' -> forallb f l = forallb f l'.
Proof.
  induction 1 as [|x l l' _ IH|x y l|l l' l'' _ IH1 _ IH2]; simpl; try congruence.
  destruct (f x), (f y); reflexivity.
Qed.
Lemma perm_filter_length {A} (f : A -> bool) l l' : Permutation l l' ->
  length (filter f l) = length (filter f l').
Proof.
  induction 1 as [|x l l' _ IH|x y l|l l' l'' _ IH1 _ IH2]; simpl; try congruence.
  - destruct (f x); simpl; congruence.
  - destruct (f x), (f y); reflexivity.
Qed.

(* flat counts, board-full test, reserves: unchanged *)
Theorem flat_count_invariant g p c : wf p -> In g syms ->
  flat_count_of (transform_position g p) c = flat_count_of p c.
Proof.
  intros (Hn & Hl) Hg. unfold flat_count_of, zlen. cbn [transform_position board]. f_equal.
  apply perm_filter_length. apply tpb_permutation; assumption.
Qed.
Theorem board_full_invariant g p : wf p -> In g syms ->
  board_full (transform_position g p) = board_full p.
Proof.
  intros (Hn & Hl) Hg. unfold board_full. cbn [transform_position board].
  apply perm_forallb. apply tpb_permutation; assumption.
Qed.
Theorem out_of_pieces_invariant g p : out_of_pieces (transform_position g p) = out_of_pieces p.
Proof. reflexivity. Qed.
Theorem flats_winner_invariant g p : wf p -> In g syms ->
  flats_winner (transform_position g p) = flats_winner p.
Proof. intros Hwf Hg. unfold flats_winner. rewrite !flat_count_invariant by assumption. reflexivity. Qed.

(* ================= 6. the group acts on positions ================= *)
Lemma tp_id p : wf p -> transform_position mat_id p = p.
Proof.
  intros (Hn & Hl). destruct p as [n ws wc bs bc pl b]. unfold transform_position. simpl in *.
  f_equal. apply (board_ext n); [assumption|rewrite tpb_zlen; assumption|assumption|].
  intros x y Hx Hy. rewrite <- (sym_id n (x, y)) at 1. apply tpb_gb; [apply mat_id_in_syms|assumption..].
Qed.
Lemma tp_compose g h p : wf p -> In g syms -> In h syms ->
  transform_position (mat_mul g h) p = transform_position g (transform_position h p).
Proof.
  intros (Hn & Hl) Hg Hh. unfold transform_position. simpl. f_equal.
  set (n := size p) in *. set (b := board p) in *.
  pose proof (syms_closed_mul g h Hg Hh) as Hgh.
  apply (board_ext n); [assumption|rewrite tpb_zlen; assumption|rewrite !tpb_zlen; assumption|].
  intros x y Hx Hy.
  rewrite (tpb_gb_inv (mat_mul g h) n b x y Hgh Hl Hx Hy).
  rewrite (tpb_gb_inv g n (tpb h n b) x y Hg) by (try rewrite tpb_zlen; assumption).
  pose proof (proj2 (sym_on_board (sym_inv g) n x y (sym_inv_in g Hg)) (conj Hx Hy)) as Hi.
  destruct (apply_sym (sym_inv g) n (x, y)) as [u w] eqn:E. simpl in Hi.
  rewrite (tpb_gb_inv h n b u w Hh Hl) by lia. f_equal.
  apply (sym_injective (mat_mul g h) n _ _ Hgh). rewrite sym_inv_r by assumption.
  rewrite sym_compose by assumption. rewrite sym_inv_r by assumption. rewrite <- E.
  rewrite sym_inv_r by assumption. reflexivity.
Qed.

(* ================= 7. symmetries(p) ================= *)
Lemma piece_eqb_spec a b : piece_eqb a b = true <-> a = b.
Proof. destruct a as [[] []], b as [[] []]; cbv; split; intros H; congruence. Qed.
Lemma position_eqb_spec p q : position_eqb p q = true <-> p = q.
Proof.
  destruct p, q. unfold position_eqb. simpl.
  rewrite !andb_true_iff, !Z.eqb_eq. unfold board_eqb, stack_eqb.
  rewrite (list_eqb_spec _ (list_eqb_spec _ piece_eqb_spec)). split.
  - intros ((((((-> & ->) & ->) & ->) & ->) & ->) & ->). reflexivity.
  - intros H. injection H. intros; subst. repeat split.
Qed.

Definition sym_step (p : position) (out : list (mat * position)) (g : mat) :=
  let t := transform_position g p in
  if forallb (fun gq => negb (position_eqb t (snd gq))) out then out ++ [(g, t)] else out.
Lemma fresh_spec t (out : list (mat * position)) :
  forallb (fun gq => negb (position_eqb t (snd gq))) out = true <-> ~ In t (map snd out).
Proof.
  rewrite forallb_forall. split.
  - intros H Hin. apply in_map_iff in Hin. destruct Hin as (gq & <- & Hgq).
    specialize (H gq Hgq). apply negb_true_iff in H.
    assert (position_eqb (snd gq) (snd gq) = true) by (apply position_eqb_spec; reflexivity). congruence.
  - intros H gq Hgq. apply negb_true_iff. destruct (position_eqb t (snd gq)) eqn:E; [|reflexivity].
    apply position_eqb_spec in E. exfalso. apply H. subst. apply in_map. assumption.
Qed.

Lemma fresh_false t (out : list (mat * position)) :
  forallb (fun gq => negb (position_eqb t (snd gq))) out = false -> In t (map snd out).
Proof.
  induction out as [|a out IH]; simpl; [discriminate|].
  destruct (position_eqb t (snd a)) eqn:E; simpl.
  - intros _. left. apply position_eqb_spec in E. auto.
  - intros H. right. auto.
Qed.

Lemma sym_fold_spec p gs : forall out, NoDup (map snd out) ->
  let r := fold_left (sym_step p) gs out in
  (exists ext, r = out ++ ext) /\ NoDup (map snd r) /\
  (forall q, In q (map snd r) <-> In q (map snd out) \/ exists g, In g gs /\ q = transform_position g p) /\
  (forall g q, In (g, q) r -> In (g, q) out \/ (In g gs /\ q = transform_position g p)).
Proof.
  induction gs as [|g gs IH]; intros out Hnd; cbn [fold_left].
  - repeat split.
    + exists []. rewrite app_nil_r. reflexivity.
    + assumption.
    + tauto.
    + intros [H|(g & Hf & _)]; [assumption|destruct Hf].
    + tauto.
  - set (out' := sym_step p out g).
    assert (Hnd' : NoDup (map snd out')).
    { unfold out', sym_step. destruct (forallb _ out) eqn:E; [|assumption].
      apply fresh_spec in E. rewrite map_app. simpl. apply NoDup_app; [assumption|repeat constructor; simpl; tauto|].
      intros x Hx [<-|[]]. contradiction. }
    assert (Hin' : forall q, In q (map snd out') <-> In q (map snd out) \/ q = transform_position g p).
    { intros q. unfold out', sym_step. destruct (forallb _ out) eqn:E.
      - rewrite map_app, in_app_iff. simpl. intuition.
      - split; [tauto|]. intros [H | ->]; [assumption|]. apply fresh_false. assumption. }
    assert (Hpair' : forall g0 q, In (g0, q) out' -> In (g0, q) out \/ (g0 = g /\ q = transform_position g p)).
    { intros g0 q. unfold out', sym_step. destruct (forallb _ out); [|tauto].
      rewrite in_app_iff. simpl. intros [H|[H|[]]]; [tauto|]. injection H. intros; subst. tauto. }
    assert (Hext' : exists e, out' = out ++ e).
    { unfold out', sym_step. destruct (forallb _ out); [eexists; reflexivity|].
      exists []. rewrite app_nil_r. reflexivity. }
    destruct (IH out' Hnd') as ((ext & Hext) & Hnd2 & Hin2 & Hpair2).
    repeat split.
    + destruct Hext' as (e & He). exists (e ++ ext). rewrite Hext, He, app_assoc. reflexivity.
    + assumption.
    + intros Hq. apply Hin2 in Hq. destruct Hq as [Hq|(g0 & Hg0 & ->)].
      * apply Hin' in Hq. destruct Hq as [Hq | ->]; [tauto|]. right. exists g. simpl. tauto.
      * right. exists g0. simpl. tauto.
    + intros [Hq|(g0 & [<- | Hg0] & ->)]; apply Hin2.
      * left. apply Hin'. tauto.
      * left. apply Hin'. tauto.
      * right. exists g0. tauto.
    + intros g0 q H. apply Hpair2 in H. destruct H as [H|(H1 & H2)].
      * apply Hpair' in H. destruct H as [H|(-> & ->)]; [tauto|]. right. simpl. tauto.
      * right. simpl. tauto.
Qed.

(* symmetries(p): starts with (identity, p); the variants are pairwise distinct;
   their set is the orbit of p; every entry is (g, transform_position g p) *)
Theorem symmetries_spec p : wf p ->
  (exists rest, symmetries p = (mat_id, p) :: rest) /\
  NoDup (map snd (symmetries p)) /\
  (forall q, In q (map snd (symmetries p)) <-> exists g, In g syms /\ q = transform_position g p) /\
  (forall g q, In (g, q) (symmetries p) -> In g syms /\ q = transform_position g p).
Proof.
  intros Hwf. unfold symmetries, symmetries_of.
  change (fun out g => let t := transform_position g p in
            if forallb (fun gq => negb (position_eqb t (snd gq))) out then out ++ [(g, t)] else out)
    with (sym_step p).
  destruct (sym_fold_spec p syms [] ltac:(constructor)) as (_ & Hnd & Hin & Hpair).
  repeat split.
  - pose proof syms_head_id as Hh. remember syms as l eqn:El. destruct l as [|g0 tl]; [discriminate Hh|].
    simpl in Hh. subst g0. cbn [fold_left].
    change (sym_step p [] mat_id) with [(mat_id, transform_position mat_id p)].
    rewrite (tp_id p Hwf).
    destruct (sym_fold_spec p tl [(mat_id, p)]) as ((ext & Hext) & _).
    { repeat constructor. simpl. tauto. }
    exists ext. exact Hext.
  - assumption.
  - intros Hq. apply Hin in Hq. destruct Hq as [[]|Hq]. assumption.
  - intros Hq. apply Hin. right. assumption.
  - apply Hpair in H. destruct H as [[]|(H & _)]. assumption.
  - apply Hpair in H. destruct H as [[]|(_ & H)]. assumption.
Qed.

(* ================= 8. the eight matrices are the symmetry group of the square ================= *)
(* finite part (computed on the regenerated matrices) + the maps they induce *)
Theorem syms_are_D4 :
  length syms = 8%nat /\ NoDup syms /\
  (* pairwise distinct as maps of any board with at least 2 squares a side *)
  (forall n g h, 2 <= n -> In g syms -> In h syms ->
     (forall x y, 0 <= x < n -> 0 <= y < n -> apply_sym g n (x, y) = apply_sym h n (x, y)) -> g = h) /\
  (* identity *)
  (In mat_id syms /\ forall n v, apply_sym mat_id n v = v) /\
  (* closed under composition; composition of maps = matrix product *)
  (forall g h, In g syms -> In h syms ->
     In (mat_mul g h) syms /\ forall n v, apply_sym (mat_mul g h) n v = apply_sym g n (apply_sym h n v)) /\
  (* closed under inverse *)
  (forall g, In g syms ->
     In (sym_inv g) syms /\ mat_mul g (sym_inv g) = mat_id /\ mat_mul (sym_inv g) g = mat_id /\
     forall n v, apply_sym (sym_inv g) n (apply_sym g n v) = v /\ apply_sym g n (apply_sym (sym_inv g) n v) = v) /\
  (* the linear parts are exactly the 8 signed permutation matrices *)
  (forall a b c d, In [[a; b]; [c; d]] (map lin2 syms) <-> signed_perm a b c d).
Proof.
  split; [exact syms_length|]. split; [exact syms_distinct|].
  split; [exact sym_distinct_maps|].
  split; [split; [exact mat_id_in_syms|exact sym_id]|].
  split; [intros g h Hg Hh; split; [apply syms_closed_mul; assumption|intros n v; apply sym_compose; assumption]|].
  split; [|exact syms_lin_signed_perms].
  intros g Hg. destruct (syms_closed_inv g Hg) as (H1 & H2 & H3). repeat split; try assumption.
  - apply sym_inv_l; assumption.
  - apply sym_inv_r; assumption.
Qed.

(* general in the board size: each matrix is a bijection of [0,size)^2 that
   preserves orthogonal adjacency (and sends off-board squares off the board) *)
Theorem sym_square_bijection n g : In g syms ->
  (forall x y, (0 <= fst (apply_sym g n (x, y)) < n /\ 0 <= snd (apply_sym g n (x, y)) < n) <->
               (0 <= x < n /\ 0 <= y < n)) /\
  (forall v w, apply_sym g n v = apply_sym g n w -> v = w) /\
  (forall x y, 0 <= x < n -> 0 <= y < n ->
     exists u w, 0 <= u < n /\ 0 <= w < n /\ apply_sym g n (u, w) = (x, y)) /\
  (forall a b, adjacent (apply_sym g n a) (apply_sym g n b) = adjacent a b).
Proof.
  intros Hg. split; [intros x y; apply sym_on_board; assumption|].
  split; [intros v w; apply sym_injective; assumption|].
  split; [|intros a b; apply sym_adjacent; assumption].
  intros x y Hx Hy.
  pose proof (proj2 (sym_on_board (sym_inv g) n x y (sym_inv_in g Hg)) (conj Hx Hy)) as Hi.
  destruct (apply_sym (sym_inv g) n (x, y)) as [u w] eqn:E. simpl in Hi.
  exists u, w. split; [tauto|]. split; [tauto|]. rewrite <- E. apply sym_inv_r. assumption.
Qed.
