(* C18 - the tie between python/tak/self_play.py and model/Workers.v: gen/WorkersIR.v is regenerated
   from the source on every run; the lemmas below are re-checked against it.  Each lemma names the
   piece of the protocol it ties; a change of the source that alters that piece breaks that lemma. *)
From Coq Require Import ZArith List Bool Lia Arith.
From TV Require Import gen.WorkersIR model.Workers model.WorkersDenote proofs.WorkersInv proofs.WorkersProofs.
Import ListNotations.
Open Scope Z_scope.

(* `if p.exitcode not in [0, None]: raise` is the model's bad_exit, for every exit code *)
Lemma tie_timeout_exit_codes : forall st, raises (ir_exit_test workers_ir) (exit_code st) = bad_exit st.
Proof.
  intros st. destruct st; try reflexivity; cbn; rewrite ?orb_false_r; reflexivity.
Qed.

(* queue bounds: cmd = 2*workers, games = workers *)
Lemma tie_queue_bounds : forall s,
  bound (ir_cmd_bound workers_ir) (nworkers s) = cmd_cap s /\ bound (ir_games_bound workers_ir) (nworkers s) = games_cap s.
Proof. intros s. unfold bound, cmd_cap, games_cap. cbn. lia. Qed.

Ltac tie_unfold s :=
  unfold ir_step, step; pose proof (tie_queue_bounds s) as [Bc Bg]; rewrite ?Bc, ?Bg; cbn -[Nat.ltb Z.of_nat bound].

(* dispatch loop: `while todo > 0: cmd.put(next_id, block=False); next_id += 1; todo -= 1` *)
Lemma tie_dispatch_put : forall s, ir_step workers_ir EPut s = step current EPut s.
Proof.
  intros s. tie_unfold s. destruct (pc (par s)); try reflexivity.
  destruct (todo (par s)) as [|t]; [reflexivity|]. match goal with |- context [Nat.ltb ?a ?b] => destruct (Nat.ltb a b) end; reflexivity.
Qed.
(* `except queue.Full: break`: the parent goes on to its timed get *)
Lemma tie_dispatch_full : forall s, ir_step workers_ir EFull s = step current EFull s.
Proof.
  intros s. tie_unfold s. destruct (pc (par s)); try reflexivity.
  destruct (todo (par s)) as [|t]; [reflexivity|]. match goal with |- context [Nat.ltb ?a ?b] => destruct (Nat.ltb a b) end; reflexivity.
Qed.
(* the dispatch loop ends exactly when todo = 0 *)
Lemma tie_dispatch_end : forall s, ir_step workers_ir EFillEnd s = step current EFillEnd s.
Proof.
  intros s. tie_unfold s. destruct (pc (par s)); try reflexivity. destruct (todo (par s)) as [|t]; reflexivity.
Qed.
(* `except queue.Empty`: inspect the exit codes, raise + kill all, or go round again *)
Lemma tie_timeout : forall s, ir_step workers_ir ETimeout s = step current ETimeout s.
Proof.
  intros s. unfold ir_step, step. destruct (pc (par s)); try reflexivity.
  assert (E : existsb (fun st => raises (ir_exit_test workers_ir) (exit_code st)) (ws s) = existsb bad_exit (ws s)).
  { induction (ws s) as [|a l IH]; [reflexivity|]. cbn [existsb]. rewrite IH, tie_timeout_exit_codes. reflexivity. }
  rewrite E. cbn. rewrite andb_true_r. reflexivity.
Qed.
(* games.put blocks when `workers` transcripts are queued *)
Lemma tie_games_bound : forall w s, ir_step workers_ir (WFinish w) s = step current (WFinish w) s.
Proof. intros w s. tie_unfold s. reflexivity. Qed.
(* stop(): one sentinel per worker ... *)
Lemma tie_stop_sentinels : forall s, ir_step workers_ir EStop s = step current EStop s.
Proof.
  intros s. unfold ir_step, step, bound. cbn. destruct (pc (par s)); try reflexivity.
  unfold set_pc. rewrite Nat.add_0_r, Nat.add_0_r. reflexivity.
Qed.
Lemma tie_stop_put : forall s, ir_step workers_ir EStopPut s = step current EStopPut s.
Proof. intros s. tie_unfold s. reflexivity. Qed.
(* ... put with block=False: queue.Full escapes from stop() when cmd is full *)
Lemma tie_stop_full : forall s, ir_step workers_ir EStopFull s = step current EStopFull s.
Proof.
  intros s. tie_unfold s. destruct (pc (par s)); reflexivity.
Qed.
(* `except Exception: ...; sys.exit(1)` with the epilogue inside the try: a failing worker exits at once, status 1 *)
Lemma tie_worker_exception : forall w s, ir_step workers_ir (FRaise w) s = step current (FRaise w) s.
Proof. intros w s. unfold ir_step, step. cbn. reflexivity. Qed.
(* stop() joins with a deadline and kills what is left *)
Lemma tie_join_deadline : forall s, ir_step workers_ir EJoinTimeout s = step current EJoinTimeout s.
Proof. intros s. unfold ir_step, step. cbn. reflexivity. Qed.

(* order of the steps, exceptions caught, spawn context, one process per worker, try/finally stop ... *)
Lemma workers_ir_structure : structure_ok workers_ir = true.
Proof. vm_compute. reflexivity. Qed.

(* the configuration the source denotes is the one the theorems about `current` speak about *)
Lemma workers_ir_denotes_current : denote workers_ir = Some current.
Proof. vm_compute. reflexivity. Qed.

(* the IR-denoted protocol and the model take the same steps *)
Lemma tie_steps_agree : forall e s, ir_step workers_ir e s = step current e s.
Proof.
  intros e s. destruct e; try reflexivity;
    first [apply tie_dispatch_put | apply tie_dispatch_full | apply tie_dispatch_end | apply tie_timeout
          | apply tie_stop_sentinels | apply tie_stop_put | apply tie_stop_full | apply tie_join_deadline
          | apply tie_games_bound | apply tie_worker_exception].
Qed.

Lemma ir_run_is_run : forall tr s, ir_run workers_ir tr s = run current tr s.
Proof.
  induction tr as [|e tr IH]; intros s; simpl; [reflexivity|]. rewrite tie_steps_agree.
  destruct (step current e s); [apply IH|reflexivity].
Qed.

Lemma ir_reachable_reachable : forall s, ir_reachable workers_ir s -> reachable current s.
Proof.
  intros s (n & tr & H). rewrite ir_run_is_run in H. eapply reachable_run; [apply reach_init|exact H].
Qed.

(* the properties, for the protocol regenerated from the source *)
Lemma tie_returns_exactly_N : forall s, ir_reachable workers_ir s -> outcome (par s) = OReturned ->
  length (collected (par s)) = target (par s) /\ NoDup (collected (par s)) /\
  Permutation.Permutation (collected (par s)) (zseq (next_id (par s) - Z.of_nat (target (par s))) (target (par s))).
Proof. intros s R. apply returns_exactly_N_l with (cfg := current). apply ir_reachable_reachable. exact R. Qed.

Lemma tie_failure_detected : forall s tr s', ir_reachable workers_ir s -> ir_run workers_ir tr s = Some s' ->
  no_ev is_begin tr -> no_ev is_midput tr -> outcome (par s) = ORunning -> intact s -> has_failed s ->
  (gets tr >= outstanding s + 1)%nat -> finished s'.
Proof.
  intros s tr s' R H. rewrite ir_run_is_run in H. apply failure_detected_l with (cfg := current); [|exact H].
  apply ir_reachable_reachable. exact R.
Qed.

Lemma tie_fault_leaves_nonzero_exit : forall e s s', ir_step workers_ir e s = Some s' -> is_fault e = true -> has_failed s'.
Proof. intros e s s' H. rewrite tie_steps_agree in H. eapply fault_sets_failed; eauto. Qed.

Lemma tie_request_progress : forall s, ir_reachable workers_ir s ->
  outcome (par s) = ORunning -> no_exit s -> intact s -> rdead s = false -> (nworkers s >= 1)%nat ->
  exists e s', is_fault e = false /\ e <> ETimeout /\ ir_step workers_ir e s = Some s'.
Proof.
  intros s R O NE IT RD W. destruct (request_progress_l current s (ir_reachable_reachable _ R) O NE IT RD W) as (e & s' & A & B & C).
  exists e, s'. rewrite tie_steps_agree. auto.
Qed.

Lemma tie_stop_never_blocked : forall s, stopping s -> exists e s', is_stop_step e = true /\ ir_step workers_ir e s = Some s'.
Proof. intros s St. destruct (stop_never_blocked s St) as (e & s' & A & B). exists e, s'. rewrite tie_steps_agree. auto. Qed.
