(* Facts about the Python-semantics library model/PySem.v: what each operation
   yields INSIDE the bounds the hand-written model (model/Tak.v) assumes.  These
   are the bounds obligations that turn the generated code (gen/GameGen.v) into
   the hand model; outside the bounds the operations crash or wrap, and the
   equivalence proofs must show that those cases are not reached. *)
From Coq Require Import ZArith String List Bool Lia.
From TV Require Import model.Tak model.PySem proofs.MoveRulesUtil.
Import ListNotations.
Open Scope Z_scope.

(* ---------- the monad ---------- *)
Lemma bind_ret_r {A} (c : res A) : bind c (fun x => ret x) = c.
Proof. destruct c; reflexivity. Qed.

Lemma bind_map {A B} (f : A -> B) (c : res A) : bind c (fun x => ret (f x)) = res_map f c.
Proof. destruct c; reflexivity. Qed.

Lemma embed_ok {A} (o : option A) v : embed o = Ok v <-> o = Some v.
Proof. destruct o; simpl; split; intros H; congruence. Qed.

Lemma embed_illegal {A} (o : option A) : embed o = Illegal <-> o = None.
Proof. destruct o; simpl; split; intros H; congruence. Qed.

Lemma embed_no_crash {A} (o : option A) e : embed o <> Crash e.
Proof. destruct o; discriminate. Qed.

(* ---------- lengths ---------- *)
Lemma len_zlen {A} (l : list A) : len l = zlen l.
Proof. reflexivity. Qed.

Lemma len_nil {A} : len (@nil A) = 0.
Proof. reflexivity. Qed.

Lemma len_cons_gtb {A} (a : A) l : (len (a :: l) >? 0) = true.
Proof. rewrite len_zlen, zlen_cons. pose proof (zlen_nonneg l). apply Z.gtb_lt. lia. Qed.

Lemma len_cons_eqb0 {A} (a : A) l : (len (a :: l) =? 0) = false.
Proof. rewrite len_zlen, zlen_cons. pose proof (zlen_nonneg l). apply Z.eqb_neq. lia. Qed.

Lemma len_cons2_eqb1 {A} (a b : A) l : (len (a :: b :: l) =? 1) = false.
Proof. rewrite len_zlen, !zlen_cons. pose proof (zlen_nonneg l). apply Z.eqb_neq. lia. Qed.

Lemma zlen_cons_gtb {A} (a : A) l : (zlen (a :: l) >? 0) = true.
Proof. exact (len_cons_gtb a l). Qed.
Lemma zlen_cons_eqb0 {A} (a : A) l : (zlen (a :: l) =? 0) = false.
Proof. exact (len_cons_eqb0 a l). Qed.
Lemma zlen_cons2_eqb1 {A} (a b : A) l : (zlen (a :: b :: l) =? 1) = false.
Proof. exact (len_cons2_eqb1 a b l). Qed.

(* ---------- indexing inside the bounds ---------- *)
Lemma py_index_in n i : 0 <= i < n -> py_index n i = Some i.
Proof.
  intros H. unfold py_index.
  destruct (0 <=? i) eqn:E1; [|lia]. destruct (i <? n) eqn:E2; [|lia]. reflexivity.
Qed.

Lemma nth_error_getz {A} (d : A) (l : list A) i :
  0 <= i < zlen l -> nth_error l (Z.to_nat i) = Some (getz d l i).
Proof.
  intros H. unfold getz. apply nth_error_nth'. unfold zlen in H. lia.
Qed.

(* l[i] with 0 <= i < len(l) is the hand model's totalised access *)
Lemma py_getitem_ok {A} (d : A) (l : list A) i :
  0 <= i < zlen l -> py_getitem l i = Ok (getz d l i).
Proof.
  intros H. unfold py_getitem. rewrite py_index_in by exact H.
  rewrite (nth_error_getz d) by exact H. reflexivity.
Qed.

Lemma py_getitem_0_cons {A} (a : A) l : py_getitem (a :: l) 0 = Ok a.
Proof.
  rewrite (py_getitem_ok a); [reflexivity|]. rewrite zlen_cons. pose proof (zlen_nonneg l). lia.
Qed.

(* the crash the hand model cannot see: indexing an empty list *)
Lemma py_getitem_nil {A} i : py_getitem (@nil A) i = Crash IndexError.
Proof.
  unfold py_getitem. destruct (py_index _ i) as [k|]; [|reflexivity]. destruct (Z.to_nat k); reflexivity.
Qed.

(* l[i] = v with 0 <= i < len(l) *)
Lemma py_setitem_ok {A} (l : list A) i v :
  0 <= i < zlen l -> py_setitem l i v = Ok (updz l i v).
Proof. intros H. unfold py_setitem. rewrite py_index_in by exact H. reflexivity. Qed.

Lemma py_tuple2_get_0 {A} (t : A * A) : py_tuple2_get t 0 = Ok (fst t).
Proof. reflexivity. Qed.
Lemma py_tuple2_get_1 {A} (t : A * A) : py_tuple2_get t 1 = Ok (snd t).
Proof. reflexivity. Qed.

(* ---------- slices ---------- *)
(* l[:k], k >= 0 (any k: Python clamps at the length, and so does firstn) *)
Lemma py_slice_prefix {A} (l : list A) k :
  0 <= k -> py_slice l None (Some k) = firstn (Z.to_nat k) l.
Proof.
  intros Hk. unfold py_slice, py_bound. destruct (k <? 0) eqn:E; [lia|].
  rewrite Z.sub_0_r. change (skipn (Z.to_nat 0) l) with l.
  destruct (Z_le_gt_dec k (zlen l)) as [H|H].
  - rewrite Z.min_l by lia. reflexivity.
  - rewrite Z.min_r by lia. unfold zlen in *. rewrite !firstn_all2 by lia. reflexivity.
Qed.

(* l[k:], k >= 0 *)
Lemma py_slice_suffix {A} (l : list A) k :
  0 <= k -> py_slice l (Some k) None = skipn (Z.to_nat k) l.
Proof.
  intros Hk. unfold py_slice, py_bound. destruct (k <? 0) eqn:E; [lia|].
  destruct (Z_le_gt_dec k (zlen l)) as [H|H].
  - rewrite Z.min_l by lia. apply firstn_all2. rewrite skipn_length. unfold zlen in *. lia.
  - rewrite Z.min_r by lia. unfold zlen in *.
    rewrite (skipn_all2 (n := Z.to_nat k)) by lia.
    rewrite skipn_all2 by lia. apply firstn_nil.
Qed.

(* l[-d:], d >= 1: the last d pieces.  (For d = 0 Python yields the WHOLE list
   and for d < 0 it drops |d| pieces from the front: this is where the guard
   `drop < 1` of _move_slide is needed.) *)
Lemma py_slice_last {A} (l : list A) d :
  1 <= d -> py_slice l (Some (- d)) None = skipn (Z.to_nat (zlen l - d)) l.
Proof.
  intros Hd. unfold py_slice, py_bound. destruct (- d <? 0) eqn:E; [|lia].
  replace (Z.to_nat (Z.max 0 (zlen l + - d))) with (Z.to_nat (zlen l - d)) by lia.
  apply firstn_all2. rewrite skipn_length. unfold zlen. lia.
Qed.

(* l[:-d], d >= 1: all but the last d pieces *)
Lemma py_slice_butlast {A} (l : list A) d :
  1 <= d -> py_slice l None (Some (- d)) = firstn (Z.to_nat (zlen l - d)) l.
Proof.
  intros Hd. unfold py_slice, py_bound. destruct (- d <? 0) eqn:E; [|lia].
  change (skipn (Z.to_nat 0) l) with l.
  replace (Z.to_nat (Z.max 0 (zlen l + - d) - 0)) with (Z.to_nat (zlen l - d)) by lia.
  reflexivity.
Qed.

(* l[:] is a copy; l[0:b] is l[:b] *)
Lemma py_slice_all {A} (l : list A) : py_slice l None None = l.
Proof.
  unfold py_slice, py_bound. rewrite Z.sub_0_r. change (skipn (Z.to_nat 0) l) with l.
  apply firstn_all2. unfold zlen. lia.
Qed.

Lemma py_slice_from0 {A} (l : list A) b : py_slice l (Some 0) b = py_slice l None b.
Proof.
  unfold py_slice. replace (py_bound (zlen l) (Some 0) 0) with 0; [reflexivity|].
  unfold py_bound. change (0 <? 0) with false. cbv iota. pose proof (zlen_nonneg l). lia.
Qed.

(* normalise the slices of the generated code to the firstn / skipn of the hand model; every rewrite carries its
   bounds obligation, discharged by lia from the hypotheses in the context *)
Ltac py_slices :=
  repeat first
    [ rewrite py_slice_all
    | rewrite py_slice_from0
    | rewrite py_slice_last by lia
    | rewrite py_slice_butlast by lia
    | rewrite py_slice_prefix by lia
    | rewrite py_slice_suffix by lia ].

(* the hazards, as facts about PySem: l[-0:] is the whole list, not the empty one *)
Lemma py_slice_minus_zero {A} (l : list A) : py_slice l (Some (- 0)) None = l.
Proof. change (- 0) with 0. rewrite py_slice_suffix by lia. reflexivity. Qed.

Lemma py_range_zrange n : py_range n = zrange n.
Proof. reflexivity. Qed.

(* ---------- Z comparisons the code spells the other way round ---------- *)
Ltac bool_lia :=
  apply Bool.eq_iff_eq_true;
  rewrite ?andb_true_iff, ?orb_true_iff, ?negb_true_iff, ?andb_false_iff, ?orb_false_iff,
          ?Z.geb_le, ?Z.gtb_lt, ?Z.leb_le, ?Z.ltb_lt, ?Z.eqb_eq, ?Z.leb_gt, ?Z.ltb_ge, ?Z.eqb_neq;
  lia.

(* ---------- l * n, l[-1], l[-1] = v ---------- *)
Lemma py_list_repeat_single {A} (x : A) n : py_list_repeat [x] n = repeat x (Z.to_nat n).
Proof. unfold py_list_repeat. induction (Z.to_nat n) as [|k IH]; [reflexivity|]. cbn. rewrite IH. reflexivity. Qed.

(* l[-1] and l[-1] = v on a non-empty list *)
Lemma py_getitem_last {A} (d : A) l : l <> [] -> py_getitem l (-1) = Ok (last l d).
Proof.
  intros Hl. unfold py_getitem, PySem.py_index. pose proof (zlen_nonneg l).
  assert (Hlen : 1 <= zlen l) by (destruct l; [congruence|rewrite zlen_cons; pose proof (zlen_nonneg l); lia]).
  replace ((0 <=? -1) && (-1 <? zlen l)) with false by reflexivity.
  replace ((-1 <? 0) && (0 <=? zlen l + -1)) with true by (symmetry; bool_lia).
  replace (Z.to_nat (zlen l + -1)) with (length l - 1)%nat by (unfold zlen; lia).
  rewrite nth_error_nth' with (d := d) by (unfold zlen in Hlen; lia).
  f_equal. f_equal. clear. induction l as [|a [|b t] IH]; [reflexivity|reflexivity|].
  cbn [length last]. replace (S (S (length t)) - 1)%nat with (S (length (b :: t) - 1)) by (cbn; lia).
  cbn [nth]. exact IH.
Qed.

Lemma upd_last {A} (l : list A) v : l <> [] -> upd l (length l - 1) v = removelast l ++ [v].
Proof.
  induction l as [|a l IH]; intros Hl; [congruence|]. destruct l as [|b t]; [reflexivity|].
  change (length (a :: b :: t) - 1)%nat with (S (length t)).
  change (removelast (a :: b :: t)) with (a :: removelast (b :: t)).
  cbn [upd app]. f_equal. specialize (IH ltac:(discriminate)).
  change (length (b :: t) - 1)%nat with (length t - 0)%nat in IH. rewrite Nat.sub_0_r in IH. exact IH.
Qed.

Lemma py_setitem_last {A} (l : list A) v : l <> [] -> py_setitem l (-1) v = Ok (removelast l ++ [v]).
Proof.
  intros Hl. unfold py_setitem, PySem.py_index.
  assert (Hlen : 1 <= zlen l) by (destruct l; [congruence|rewrite zlen_cons; pose proof (zlen_nonneg l); lia]).
  replace ((0 <=? -1) && (-1 <? zlen l)) with false by reflexivity.
  replace ((-1 <? 0) && (0 <=? zlen l + -1)) with true by (symmetry; bool_lia).
  replace (Z.to_nat (zlen l + -1)) with (length l - 1)%nat by (unfold zlen; lia).
  rewrite upd_last by exact Hl. reflexivity.
Qed.

