(* Compositions across properties (work package X), symmetry side:

   C15 + C03 (+ C01)
     C15 proves that one move commutes with a board symmetry.  C03 describes
     the SET of legal moves of a position as the accepted entries of the id
     table.  Together: the id table of a size is closed under every symmetry,
     the set of legal moves of the transformed position is the transform of
     the set of legal moves, the correspondence is one-to-one - and, through
     C01, the same in rulebook terms including the successor positions. *)
From Coq Require Import ZArith List Bool Lia Permutation.
From TV Require gen.Consts.
From TV Require Import model.Tak model.Symmetry spec.MoveSpec spec.Rules.
From TV Require Import proofs.Table proofs.TieSymmetry.
From TV Require proofs.MoveRules proofs.Generator proofs.Compose proofs.SymmetryProofs proofs.SymmetryExamples.
Import ListNotations.
Open Scope Z_scope.

(* the linear part is linear *)
Lemma apply_lin_scale g k dx dy : In g syms ->
  apply_lin g (k * dx, k * dy) = (k * fst (apply_lin g (dx, dy)), k * snd (apply_lin g (dx, dy))).
Proof.
  intros Hg. case_syms Hg;
    cbn [apply_lin mat_vec dot map combine zsum fold_right fst snd]; f_equal; lia.
Qed.

(* the end square of a slide of k squares is mapped to the end square of the transformed slide *)
Lemma slide_end_transform g n x y t k : In g syms -> is_slide t = true ->
  apply_sym g n (x + k * fst (direction t), y + k * snd (direction t)) =
  (fst (apply_sym g n (x, y)) + k * fst (direction (SymmetryProofs.tdir g t)),
   snd (apply_sym g n (x, y)) + k * snd (direction (SymmetryProofs.tdir g t))).
Proof.
  intros Hg Ht. destruct (SymmetryProofs.sym_direction g t Hg Ht) as (_ & _ & Hd).
  rewrite (SymmetryProofs.sym_affine g n x y _ _ Hg), Hd.
  destruct (direction t) as [dx dy]. cbn [fst snd]. rewrite (apply_lin_scale g k dx dy Hg). reflexivity.
Qed.

(* C03's move universe is closed under the symmetries, both ways *)
Lemma wf_move_transform g n m : In g syms ->
  (wf_move n m <-> wf_move n (transform_move g m n)).
Proof.
  intros Hg. destruct (SymmetryProofs.transform_move_total g m n Hg) as (_ & ->).
  unfold wf_move. cbn [mx my mt mslides].
  rewrite (SymmetryProofs.tdir_is_slide g (mt m) Hg).
  pose proof (SymmetryProofs.sym_on_board g n (mx m) (my m) Hg) as Hob.
  destruct (is_slide (mt m)) eqn:Ht.
  - assert (Hend : forall s : list Z,
      (0 <= fst (apply_sym g n (mx m, my m)) + zlen s * fst (direction (SymmetryProofs.tdir g (mt m))) < n /\
       0 <= snd (apply_sym g n (mx m, my m)) + zlen s * snd (direction (SymmetryProofs.tdir g (mt m))) < n) <->
      (0 <= mx m + zlen s * fst (direction (mt m)) < n /\ 0 <= my m + zlen s * snd (direction (mt m)) < n)).
    { intros s.
      pose proof (SymmetryProofs.sym_on_board g n (mx m + zlen s * fst (direction (mt m)))
                                              (my m + zlen s * snd (direction (mt m))) Hg) as H.
      rewrite (slide_end_transform g n (mx m) (my m) (mt m) (zlen s) Hg Ht) in H. cbn [fst snd] in H. exact H. }
    split.
    + intros (Hx & Hy & s & Hs & Hgd & He). split; [|split]; try tauto.
      exists s. split; [exact Hs|]. split; [exact Hgd|]. apply Hend. exact He.
    + intros (Hx & Hy & s & Hs & Hgd & He). split; [|split]; try tauto.
      exists s. split; [exact Hs|]. split; [exact Hgd|]. apply Hend. tauto.
  - tauto.
Qed.

Theorem table_closed_under_syms g n m : In g syms -> 0 <= n ->
  (In m (table n) <-> In (transform_move g m n) (table n)).
Proof. intros Hg Hn. rewrite !(table_spec n _ Hn). apply wf_move_transform. exact Hg. Qed.

(* m |-> transform_move g m n is one-to-one *)
Lemma tdir_injective g t t' : In g syms -> SymmetryProofs.tdir g t = SymmetryProofs.tdir g t' -> t = t'.
Proof. intros Hg. case_syms Hg; destruct t, t'; vm_compute; congruence. Qed.

Theorem transform_move_injective g n m m' : In g syms ->
  transform_move g m n = transform_move g m' n -> m = m'.
Proof.
  intros Hg. destruct (SymmetryProofs.transform_move_total g m n Hg) as (_ & ->).
  destruct (SymmetryProofs.transform_move_total g m' n Hg) as (_ & ->).
  intros H. injection H as Hx Hy Ht Hs.
  assert (Hv : apply_sym g n (mx m, my m) = apply_sym g n (mx m', my m'))
    by (apply injective_projections; assumption).
  apply (SymmetryProofs.sym_injective g n _ _ Hg) in Hv. injection Hv as Hx' Hy'.
  apply (tdir_injective g _ _ Hg) in Ht.
  destruct m, m'. cbn in *. congruence.
Qed.

(* the set of legal moves of the transformed position is the transform of the set of legal moves *)
Theorem legal_moves_transform g p m : SymmetryProofs.wf p -> In g syms ->
  (In m (filter (Generator.accepted p) (table (size p))) <->
   In (transform_move g m (size p))
      (filter (Generator.accepted (transform_position g p)) (table (size (transform_position g p))))).
Proof.
  intros Hwf Hg. change (size (transform_position g p)) with (size p).
  rewrite !filter_In. rewrite <- (table_closed_under_syms g (size p) m Hg (proj1 Hwf)).
  assert (Hacc : Generator.accepted p m = Generator.accepted (transform_position g p) (transform_move g m (size p))).
  { unfold Generator.accepted. pose proof (SymmetryProofs.legality_invariant g p m Hwf Hg) as Hl.
    destruct (move p m) as [q|]; destruct (move (transform_position g p) (transform_move g m (size p))) as [q'|];
      try reflexivity; exfalso.
    - destruct Hl as (_ & Hl). discriminate (Hl eq_refl).
    - destruct Hl as (Hl & _). discriminate (Hl eq_refl). }
  rewrite Hacc. reflexivity.
Qed.

(* ... as lists: same number of legal moves, the transformed list is a permutation *)
Corollary legal_moves_transform_perm g p : SymmetryProofs.wf p -> In g syms ->
  Permutation (map (fun m => transform_move g m (size p)) (filter (Generator.accepted p) (table (size p))))
              (filter (Generator.accepted (transform_position g p)) (table (size p))).
Proof.
  intros Hwf Hg. apply NoDup_Permutation.
  - apply ListUtil.NoDup_map_inj.
    + intros a b _ _ H. exact (transform_move_injective g (size p) a b Hg H).
    + apply ListUtil.NoDup_filter, table_nodup.
  - apply ListUtil.NoDup_filter, table_nodup.
  - intros m'. split.
    + intros Hin. apply in_map_iff in Hin. destruct Hin as (m & <- & Hm).
      apply (legal_moves_transform g p m Hwf Hg). exact Hm.
    + intros Hin.
      (* the preimage is the move transformed by the inverse symmetry *)
      pose proof (SymmetryProofs.sym_inv_in g Hg) as Hgi.
      set (m := transform_move (sym_inv g) m' (size p)).
      assert (Em : transform_move g m (size p) = m').
      { unfold m. destruct (SymmetryProofs.transform_move_total (sym_inv g) m' (size p) Hgi) as (_ & ->).
        destruct (SymmetryProofs.transform_move_total g
                    (mkMove (fst (apply_sym (sym_inv g) (size p) (mx m', my m')))
                            (snd (apply_sym (sym_inv g) (size p) (mx m', my m')))
                            (SymmetryProofs.tdir (sym_inv g) (mt m')) (mslides m')) (size p) Hg) as (_ & ->).
        cbn [mx my mt mslides]. rewrite <- surjective_pairing, (SymmetryProofs.sym_inv_r g (size p) _ Hg).
        assert (Ht : SymmetryProofs.tdir g (SymmetryProofs.tdir (sym_inv g) (mt m')) = mt m').
        { clear - Hg. case_syms Hg; destruct (mt m'); vm_compute; reflexivity. }
        rewrite Ht. destruct m'; reflexivity. }
      apply in_map_iff. exists m. split; [exact Em|].
      apply (legal_moves_transform g p m Hwf Hg). rewrite Em. exact Hin.
Qed.

(* ---------- the same in rulebook terms (C01), with the successors ---------- *)
Lemma wf_pos_sym_wf p : Rules.wf_pos p -> SymmetryProofs.wf p.
Proof. intros (Hs & Hl & _). split; [lia|exact Hl]. Qed.

Lemma wf_pos_transform g p : In g syms -> Rules.wf_pos p -> Rules.wf_pos (transform_position g p).
Proof.
  intros Hg (Hs & Hl & Hb). split; [exact Hs|]. split.
  - cbn [transform_position size board]. rewrite SymmetryProofs.tpb_zlen. exact Hl.
  - cbn [transform_position board].
    eapply Permutation_Forall; [|exact Hb]. apply Permutation_sym.
    apply SymmetryProofs.tpb_permutation; [exact Hg|lia|exact Hl].
Qed.

Theorem rulebook_step_transform g p m p' : Rules.wf_pos p -> In g syms ->
  legal_step p m p' ->
  legal_step (transform_position g p) (transform_move g m (size p)) (transform_position g p').
Proof.
  intros Hwf Hg Hstep. apply (MoveRules.move_complete _ _ _ Hwf) in Hstep.
  pose proof (SymmetryProofs.move_commutes g p m (wf_pos_sym_wf p Hwf) Hg) as Hc. rewrite Hstep in Hc. simpl in Hc.
  apply MoveRules.move_sound; [apply wf_pos_transform; assumption|]. symmetry. exact Hc.
Qed.

Theorem rulebook_moves_transform g p m : Rules.wf_pos p -> In g syms ->
  ((Generator.canonical m /\ exists p', legal_step p m p') <->
   (Generator.canonical (transform_move g m (size p)) /\
    exists p'', legal_step (transform_position g p) (transform_move g m (size p)) p'')).
Proof.
  intros Hwf Hg. pose proof (wf_pos_transform g p Hg Hwf) as Hwf'.
  rewrite <- (proj2 (Compose.table_filter_is_rulebook p Hwf) m).
  pose proof (proj2 (Compose.table_filter_is_rulebook (transform_position g p) Hwf') (transform_move g m (size p))) as H'.
  rewrite <- H'. apply legal_moves_transform; [apply wf_pos_sym_wf; exact Hwf|exact Hg].
Qed.

(* the hypotheses are satisfiable: C15's example position (4x4, custom reserves), the rotation,
   the crushing slide *)
Example ex_legal_moves_transform :
  SymmetryProofs.wf SymmetryExamples.ex_pos /\ In SymmetryExamples.rot syms /\
  In SymmetryExamples.ex_crush (filter (Generator.accepted SymmetryExamples.ex_pos) (table 4)) /\
  In (transform_move SymmetryExamples.rot SymmetryExamples.ex_crush 4)
     (filter (Generator.accepted (transform_position SymmetryExamples.rot SymmetryExamples.ex_pos)) (table 4)) /\
  transform_move SymmetryExamples.rot SymmetryExamples.ex_crush 4 <> SymmetryExamples.ex_crush.
Proof.
  destruct SymmetryExamples.ex_hypotheses as (Hwf & Hg & _).
  split; [exact Hwf|]. split; [exact Hg|].
  assert (H1 : In SymmetryExamples.ex_crush (filter (Generator.accepted SymmetryExamples.ex_pos) (table 4))).
  { apply filter_In. split; [|vm_compute; reflexivity].
    apply (table_spec 4); [lia|]. vm_compute. repeat split; try discriminate.
    eexists. repeat split; try reflexivity; try discriminate. repeat constructor; discriminate. }
  split; [exact H1|]. split.
  - exact (proj1 (legal_moves_transform SymmetryExamples.rot SymmetryExamples.ex_pos _ Hwf Hg) H1).
  - vm_compute. discriminate.
Qed.
