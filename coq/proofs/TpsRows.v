(* C13, part 3: one rank (parse_row / _format_row). *)
From Coq Require Import ZArith List Bool Lia.
From TV Require Import model.Tak model.Tps spec.TpsSpec proofs.TpsStrings proofs.TpsCells.
Import ListNotations.
Open Scope Z_scope.

(* ---------- parse_cells ---------- *)

Lemma parse_cells_acc bits : forall acc,
  parse_cells bits acc = match parse_cells bits [] with Some r => Some (acc ++ r) | None => None end.
Proof.
  induction bits as [|b bits IH]; intros acc.
  - simpl. rewrite app_nil_r. reflexivity.
  - simpl. destruct (parse_cell b) as [sqs|]; [|reflexivity].
    rewrite (IH (acc ++ sqs)). rewrite (IH sqs).
    destruct (parse_cells bits []); [|reflexivity]. rewrite app_assoc. reflexivity.
Qed.

Lemma parse_cells_iff bits sqs :
  parse_cells bits [] = Some sqs <-> exists sqss, Forall2 cell_shape bits sqss /\ sqs = concat sqss.
Proof.
  revert sqs. induction bits as [|b bits IH]; intros sqs.
  - simpl. split.
    + intros H. inversion H. exists []. split; [constructor|reflexivity].
    + intros (sqss & HF & ->). inversion HF. reflexivity.
  - simpl. split.
    + destruct (parse_cell b) as [s1|] eqn:Eb; [|discriminate].
      rewrite parse_cells_acc. destruct (parse_cells bits []) as [r|] eqn:Er; [|discriminate].
      intros H. inversion H. subst sqs.
      destruct (proj1 (IH r) eq_refl) as (sqss & HF & ->).
      exists (s1 :: sqss). split; [|reflexivity]. constructor; [|assumption].
      apply parse_cell_iff. assumption.
    + intros (sqss & HF & ->). inversion HF as [|? s1 ? sqss' Hc HF']; subst.
      apply parse_cell_iff in Hc. rewrite Hc. rewrite parse_cells_acc.
      rewrite (proj2 (IH (concat sqss'))); [reflexivity|].
      exists sqss'. split; [assumption|reflexivity].
Qed.

Lemma shapes_meaning bits sqss :
  Forall2 cell_shape bits sqss -> concat sqss = map stack_of_text (flat_map expand_cell bits).
Proof.
  induction 1 as [|b s bits sqss Hc HF IH]; [reflexivity|].
  simpl. rewrite map_app. rewrite IH. rewrite (cell_shape_meaning b s Hc). reflexivity.
Qed.

(* the squares of a rank are the spec's reading of its expanded cells, left to right *)
Lemma parse_row_meaning r rsq :
  parse_row r = Some rsq -> rsq = map stack_of_text (cells_of_group r).
Proof.
  unfold parse_row. intros H. apply parse_cells_iff in H. destruct H as (sqss & HF & ->).
  apply shapes_meaning. assumption.
Qed.

Lemma parse_row_width r rsq : parse_row r = Some rsq -> zlen rsq = group_width r.
Proof.
  intros H. rewrite (parse_row_meaning r rsq H). unfold group_width, zlen. rewrite map_length. reflexivity.
Qed.

(* ---------- count_empty ---------- *)

Lemma count_empty_repeat k rest : count_empty rest = O -> count_empty (repeat [] k ++ rest) = k.
Proof. intros H. induction k as [|k IH]; simpl; [assumption|]. rewrite IH. reflexivity. Qed.

Lemma count_empty_split row : row = repeat [] (count_empty row) ++ skipn (count_empty row) row.
Proof.
  induction row as [|sq row IH]; [reflexivity|].
  destruct sq as [|p sq]; [|reflexivity].
  simpl. f_equal. assumption.
Qed.

Lemma count_empty_le row : (count_empty row <= length row)%nat.
Proof.
  induction row as [|sq row IH]; [simpl; lia|]. destruct sq; simpl; lia.
Qed.

Lemma count_empty_zero_head sq row : count_empty (sq :: row) = O -> sq <> [].
Proof. destruct sq; simpl; [discriminate|]. intros _. discriminate. Qed.

(* ---------- writer then reader, one rank ---------- *)

Lemma x_cell_parse (x : nat) : (1 <= x <= 8)%nat ->
  parse_cell (ch_x :: (if (1 <? x)%nat then str_of_Z (Z.of_nat x) else [])) = Some (repeat [] x).
Proof.
  intros Hx.
  assert (Hc : x = 1%nat \/ x = 2%nat \/ x = 3%nat \/ x = 4%nat \/ x = 5%nat \/ x = 6%nat \/ x = 7%nat \/ x = 8%nat) by lia.
  destruct Hc as [->|[->|[->|[->|[->|[->|[->| ->]]]]]]]; reflexivity.
Qed.

Lemma format_cells_parse f : forall row,
  (length row <= f)%nat -> (length row <= 8)%nat -> Forall wf_stack row ->
  parse_cells (format_cells f row) [] = Some row.
Proof.
  induction f as [|f IH]; intros row Hf H8 Hwf.
  - destruct row; [reflexivity|simpl in Hf; lia].
  - destruct row as [|sq rest]; [reflexivity|].
    cbn [format_cells]. destruct (0 <? count_empty (sq :: rest))%nat eqn:E.
    + apply Nat.ltb_lt in E.
      pose proof (count_empty_le (sq :: rest)) as Hle.
      pose proof (count_empty_split (sq :: rest)) as Hsp.
      set (x := count_empty (sq :: rest)) in *.
      cbn [parse_cells]. rewrite x_cell_parse by lia.
      rewrite parse_cells_acc. rewrite IH.
      * rewrite app_nil_l. f_equal. symmetry. exact Hsp.
      * rewrite skipn_length. simpl length in *. lia.
      * rewrite skipn_length. lia.
      * rewrite Hsp in Hwf. apply Forall_app in Hwf. tauto.
    + apply Nat.ltb_ge in E. assert (E0 : count_empty (sq :: rest) = O) by lia.
      apply count_empty_zero_head in E0.
      inversion Hwf as [|? ? Hsq Hrest]; subst.
      cbn [parse_cells]. rewrite parse_cell_format_square by assumption.
      rewrite parse_cells_acc. rewrite IH; [reflexivity|simpl in Hf; lia|simpl in H8; lia|assumption].
Qed.

Lemma format_cells_chars f : forall row cell c,
  In cell (format_cells f row) -> In c cell -> cell_char c.
Proof.
  induction f as [|f IH]; intros row cell c Hcell Hc; [destruct Hcell|].
  destruct row as [|sq rest]; [destruct Hcell|].
  cbn [format_cells] in Hcell. destruct (0 <? count_empty (sq :: rest))%nat.
  - destruct Hcell as [<-|Hcell]; [|eapply IH; eassumption].
    destruct Hc as [<-|Hc]; [left; reflexivity|].
    destruct (1 <? count_empty (sq :: rest))%nat; [|destruct Hc].
    rewrite str_of_Z_nonneg in Hc by lia. right. left.
    destruct (digits_spec (Z.of_nat (count_empty (sq :: rest)))) as (_ & Hd & _); [lia|]. apply Hd. assumption.
  - destruct Hcell as [<-|Hcell]; [|eapply IH; eassumption].
    eapply format_square_chars. eassumption.
Qed.

Lemma format_cells_nonempty f sq rest : format_cells (S f) (sq :: rest) <> [].
Proof. cbn [format_cells]. destruct (0 <? count_empty (sq :: rest))%nat; discriminate. Qed.

Lemma join_chars sep l c : In c (join sep l) -> In c sep \/ exists a, In a l /\ In c a.
Proof.
  induction l as [|a l IH]; [intros []|].
  destruct l as [|b l].
  - simpl. intros H. right. exists a. split; [left; reflexivity|assumption].
  - rewrite join_cons2. intros H. apply in_app_or in H. destruct H as [H|H].
    + right. exists a. split; [left; reflexivity|assumption].
    + apply in_app_or in H. destruct H as [H|H]; [left; assumption|].
      destruct (IH H) as [H'|(a' & Ha & Hc)]; [left; assumption|].
      right. exists a'. split; [right; assumption|assumption].
Qed.

Lemma format_row_chars row c : In c (format_row row) -> cell_char c \/ c = ch_comma.
Proof.
  unfold format_row. intros H. apply join_chars in H. destruct H as [[<-|[]]|(a & Ha & Hc)].
  - right. reflexivity.
  - left. eapply format_cells_chars; eassumption.
Qed.

Lemma parse_row_format_row row :
  (1 <= length row <= 8)%nat -> Forall wf_stack row -> parse_row (format_row row) = Some row.
Proof.
  intros Hl Hwf. unfold parse_row, format_row.
  rewrite split_join.
  - apply format_cells_parse; [lia|lia|assumption].
  - destruct row as [|sq rest]; [simpl in Hl; lia|]. simpl length. apply format_cells_nonempty.
  - apply Forall_forall. intros cell Hcell Hin.
    destruct (cell_char_not_sep ch_comma) as (Hx & _); [|congruence].
    eapply format_cells_chars; eassumption.
Qed.

(* ---------- reader then writer, one canonical rank ---------- *)

Lemma shapes_head_nonempty bits sqss :
  Forall2 cell_shape bits sqss ->
  match bits with c' :: _ => is_x_cell c' = false | [] => True end ->
  count_empty (concat sqss) = O.
Proof.
  intros HF Hh. destruct HF as [|b s bits sqss Hc HF]; [reflexivity|].
  destruct Hc as [|d Hd|cols k Hne]; [discriminate|discriminate|].
  simpl. pose proof (stack_of_nonempty cols k Hne). destruct (stack_of cols k); [congruence|reflexivity].
Qed.

Lemma format_cells_canonical bits sqss :
  Forall2 cell_shape bits sqss -> canonical_cells bits = true ->
  forall f, (length (concat sqss) <= f)%nat -> format_cells f (concat sqss) = bits.
Proof.
  induction 1 as [|b s bits sqss Hc HF IH]; intros Hcan f Hf.
  - destruct f; reflexivity.
  - cbn [canonical_cells] in Hcan. apply andb_true_iff in Hcan. destruct Hcan as [Hcan Hrest].
    apply andb_true_iff in Hcan. destruct Hcan as [Hx1 Hadj].
    apply negb_true_iff in Hx1. apply negb_true_iff in Hadj.
    specialize (IH Hrest).
    simpl concat in *. rewrite app_length in Hf.
    destruct Hc as [|d Hd|cols k Hne].
    + (* "x" *)
      change (is_x_cell [ch_x]) with true in Hadj. cbn [andb] in Hadj.
      assert (H0 : count_empty (concat sqss) = O).
      { apply (shapes_head_nonempty bits sqss HF). destruct bits; [exact I|assumption]. }
      destruct f as [|f]; [simpl in Hf; lia|].
      simpl app. cbn [format_cells]. cbn [count_empty]. rewrite H0.
      simpl. f_equal. apply IH. simpl in Hf. lia.
    + (* "x<d>", d <> 1 *)
      change (is_x_cell [ch_x; d]) with true in Hadj. cbn [andb] in Hadj.
      assert (H0 : count_empty (concat sqss) = O).
      { apply (shapes_head_nonempty bits sqss HF). destruct bits; [exact I|assumption]. }
      assert (Hd1 : d <> ch_1).
      { intro E. subst d. unfold str_eqb in Hx1. simpl in Hx1. discriminate. }
      set (k := Z.to_nat (d - ch_0)) in *.
      assert (Hk : (2 <= k <= 8)%nat) by (unfold k, ch_0, ch_1, ch_8 in *; lia).
      rewrite repeat_length in Hf.
      destruct f as [|f]; [lia|].
      destruct k as [|k'] eqn:Ek; [lia|].
      simpl repeat. rewrite <- app_comm_cons. cbn [format_cells].
      change ([] :: repeat [] k' ++ concat sqss) with (repeat [] (S k') ++ concat sqss).
      rewrite count_empty_repeat by assumption.
      assert (Hlt0 : (0 <? S k')%nat = true) by (apply Nat.ltb_lt; lia).
      assert (Hlt1 : (1 <? S k')%nat = true) by (apply Nat.ltb_lt; lia).
      rewrite Hlt0, Hlt1.
      rewrite skipn_app. rewrite repeat_length. rewrite Nat.sub_diag.
      rewrite skipn_all2 by (rewrite repeat_length; lia). simpl app. simpl skipn.
      f_equal.
      * f_equal. rewrite str_of_Z_nonneg by lia. rewrite digits_small by lia.
        f_equal. rewrite <- Ek. unfold k. unfold ch_0, ch_1, ch_8 in *. lia.
      * apply IH. lia.
    + (* a stack *)
      pose proof (stack_of_nonempty cols k Hne) as Hnn.
      destruct f as [|f]; [simpl in Hf; lia|].
      simpl app. cbn [format_cells].
      destruct (stack_of cols k) as [|p st] eqn:Est; [congruence|].
      cbn [count_empty]. change (0 <? 0)%nat with false. cbv iota.
      rewrite <- Est. rewrite format_square_stack_of by assumption.
      f_equal. apply IH. simpl in Hf. lia.
Qed.

Lemma format_row_parse_row r rsq :
  parse_row r = Some rsq -> canonical_cells (split ch_comma r) = true -> format_row rsq = r.
Proof.
  unfold parse_row, format_row. intros H Hcan.
  apply parse_cells_iff in H. destruct H as (sqss & HF & ->).
  rewrite (format_cells_canonical _ _ HF Hcan) by lia.
  apply join_split.
Qed.

(* the writer's cells are canonical *)
Lemma is_x_cell_format_square sq : sq <> [] -> is_x_cell (format_square sq) = false.
Proof.
  intros Hne. unfold format_square.
  destruct (rev sq) as [|p r] eqn:E.
  - apply (f_equal (@rev _)) in E. rewrite rev_involutive in E. simpl in E. congruence.
  - simpl. destruct (pcolor p); reflexivity.
Qed.

Lemma format_cells_head_x f row :
  match format_cells f row with
  | c :: _ => is_x_cell c = true -> (0 < count_empty row)%nat
  | [] => True
  end.
Proof.
  destruct f as [|f]; [exact I|]. destruct row as [|sq rest]; [exact I|].
  cbn [format_cells]. destruct (0 <? count_empty (sq :: rest))%nat eqn:E.
  - intros _. apply Nat.ltb_lt. assumption.
  - apply Nat.ltb_ge in E. assert (E0 : count_empty (sq :: rest) = O) by lia.
    apply count_empty_zero_head in E0. rewrite is_x_cell_format_square by assumption. discriminate.
Qed.

Lemma count_empty_skipn row : count_empty (skipn (count_empty row) row) = O.
Proof.
  induction row as [|sq row IH]; [reflexivity|]. destruct sq; [simpl; assumption|reflexivity].
Qed.

Lemma format_cells_are_canonical f : forall row,
  (length row <= 8)%nat -> canonical_cells (format_cells f row) = true.
Proof.
  induction f as [|f IH]; intros row H8; [reflexivity|].
  destruct row as [|sq rest]; [reflexivity|].
  cbn [format_cells]. destruct (0 <? count_empty (sq :: rest))%nat eqn:E.
  - pose proof (count_empty_le (sq :: rest)) as Hle.
    set (x := count_empty (sq :: rest)) in *.
    cbn [canonical_cells]. rewrite IH by (rewrite skipn_length; lia).
    rewrite andb_true_r. apply andb_true_iff. split.
    + apply negb_true_iff. destruct (1 <? x)%nat eqn:E1; [|reflexivity].
      apply Nat.ltb_lt in E1. rewrite str_of_Z_nonneg by lia. rewrite digits_small by lia.
      unfold str_eqb. cbn [list_eqb]. change (ch_x =? ch_x) with true. cbn [andb].
      destruct (ch_0 + Z.of_nat x =? ch_1) eqn:E2; [apply Z.eqb_eq in E2; unfold ch_0, ch_1 in E2; lia|reflexivity].
    + apply negb_true_iff. unfold is_x_cell at 1. change (ch_x =? ch_x) with true. cbn [andb].
      pose proof (format_cells_head_x f (skipn x (sq :: rest))) as Hh.
      destruct (format_cells f (skipn x (sq :: rest))) as [|c' t]; [reflexivity|].
      destruct (is_x_cell c') eqn:Ec; [|reflexivity].
      specialize (Hh eq_refl). unfold x in Hh. rewrite count_empty_skipn in Hh. lia.
  - apply Nat.ltb_ge in E. assert (E0 : count_empty (sq :: rest) = O) by lia.
    apply count_empty_zero_head in E0.
    cbn [canonical_cells]. rewrite IH by (simpl in H8; lia).
    rewrite is_x_cell_format_square by assumption. cbn [andb negb]. rewrite ?andb_true_r.
    apply negb_true_iff. unfold format_square.
    destruct (rev sq) as [|p r] eqn:Er.
    + apply (f_equal (@rev _)) in Er. rewrite rev_involutive in Er. simpl in Er. congruence.
    + simpl. destruct (pcolor p); reflexivity.
Qed.
