(* T11 - Transcript.results, Transcript.logits and play_one_game REGENERATED from python/tak/self_play.py
   (gen/SelfPlayGen.v, written against model/PySem.v and model/SelfPlaySem.v) equal the hand-written model/SelfPlay.v.

   The engine is an oracle in both: a stream of answers, one per engine.analyze.  The code takes the next position
   from the chosen CHILD (`tree.children[k].position`); the hand model applies the move (`move position m`).  The
   equality is therefore stated under `kids_ok`: along the run, the children of every consumed answer carry the
   positions `move` gives (what C08 proves of the real engine, proofs/ComposeSelfPlay.v), and the sampler's index is
   not negative (a negative index would wrap in Python; the hand model calls it BadIndex).
   The `while True` loop runs on fuel max(ply_limit + 2, 1): gen_play_loop shows that this is enough (the ply grows by
   one per iteration and the limit test comes first), so Crash OutOfFuel is not an outcome. *)
From Coq Require Import ZArith QArith Qabs String List Bool Lia.
From TV Require gen.Consts.
From TV Require Import model.Tak model.Road model.PySem model.SelfPlay model.SelfPlaySem spec.SelfPlaySpec.
From TV Require Import proofs.MoveRulesUtil proofs.PySemLemmas proofs.GameGenEq proofs.SelfPlayProofs proofs.Table proofs.MoveId.
From TV Require gen.GameGen gen.EncodingGen gen.SelfPlayGen.
Import ListNotations.
Open Scope Z_scope.

(* ---------- Transcript.results ---------- *)
Theorem gen_results_eq tr : SelfPlayGen.results tr = map inject_Z (SelfPlay.results tr).
Proof.
  unfold SelfPlayGen.results, SelfPlay.results. rewrite map_map. destruct (t_result tr) as [w|].
  - apply map_ext. intros p. rewrite gen_to_move_eq. cbn [label]. destruct (color_eqb (to_move p) w); reflexivity.
  - rewrite py_list_repeat_single. unfold len, zlen. rewrite Nat2Z.id. cbn [label].
    induction (t_positions tr) as [|p l IH]; [reflexivity|]. cbn. f_equal. exact IH.
Qed.

(* ---------- play_one_game ---------- *)
(* the outcome of the hand model inside the outcome type of the generated code: a finished game is its transcript; the
   error outcomes are the Python exceptions they stand for *)
Definition exn_of (e : sp_error) : exn :=
  match e with
  | Exhausted => OracleExhausted
  | ZeroSims => ZeroDivisionError
  | BadIndex => IndexError
  | IllegalCandidate => Unmodelled      (* cannot occur when the children carry the positions `move` gives *)
  end.
Definition embed_outcome (o : outcome) : res transcript :=
  match o with Done tr _ _ => Ok tr | Err e => Crash (exn_of e) end.

(* the hypothesis under which "take the child's position" (the code) is "apply the move" (the hand model): along the
   run from pos, every answer that is consumed has children (m, q) with move pos m = Some q, and the sampler's index
   is not negative.  This is what C08 proves of the real engine (proofs/ComposeSelfPlay.v). *)
Fixpoint kids_ok (cfg : sp_config) (pos : position) (s : list otree) : Prop :=
  if sp_ply_limit cfg <? ply pos then True else
  match winner pos with
  | (_, Some _) => True
  | (_, None) =>
    match s with
    | [] => True
    | t :: rest =>
      0 <= ot_pick t /\
      Forall (fun c => move pos (fst c) = Some (snd c)) (ot_children t) /\
      (if (ot_sims t =? 0) || resigns cfg (answer_of t) then True else
       match nthz (ot_children t) (ot_pick t) with
       | Some c => kids_ok cfg (snd c) rest
       | None => True
       end)
    end
  end.

Definition tr_app (log tr : transcript) : transcript :=
  mkTr (t_positions log ++ t_positions tr) (t_moves log ++ t_moves tr) (t_probs log ++ t_probs tr)
       (t_values log ++ t_values tr) (t_result tr).

Definition st_log (st : engine * position * transcript) : transcript := snd st.

Lemma nthz_map {A B} (f : A -> B) l i : nthz (map f l) i = option_map f (nthz l i).
Proof. unfold nthz. destruct (i <? 0); [reflexivity|]. apply nth_error_map. Qed.

Lemma py_getitem_nthz {A} (l : list A) i : 0 <= i ->
  py_getitem l i = match nthz l i with Some v => Ok v | None => Crash IndexError end.
Proof.
  intros Hi. unfold nthz. destruct (i <? 0) eqn:E; [lia|]. unfold py_getitem, PySem.py_index.
  destruct ((0 <=? i) && (i <? zlen l)) eqn:E1; [reflexivity|].
  replace ((i <? 0) && (0 <=? zlen l + i)) with false by (symmetry; bool_lia).
  destruct (nth_error l (Z.to_nat i)) eqn:En; [|reflexivity].
  exfalso. assert (nth_error l (Z.to_nat i) <> None) by congruence. apply nth_error_Some in H.
  apply andb_false_iff in E1. unfold zlen in E1. destruct E1 as [E1|E1]; lia.
Qed.

(* an accepted move keeps the board a list of size^2 stacks (the translated has_road indexes the board) *)
Lemma slide_go_zlen p dx dy : forall drops x y carry nb b,
  slide_go p dx dy x y carry nb drops = Some b -> zlen b = zlen nb.
Proof.
  induction drops as [|d ds IH]; intros x y carry nb b H; cbn [slide_go] in H; [inversion H; reflexivity|].
  destruct (negb (in_bounds (size p) (x + dx) (y + dy))); [discriminate|].
  destruct (getz [] (board p) (x + dx + (y + dy) * size p)) as [|top rest].
  - apply IH in H. rewrite H. apply zlen_updz.
  - destruct (pkind top).
    + apply IH in H. rewrite H. apply zlen_updz.
    + destruct carry as [|c [|c' carry']]; try discriminate.
      destruct (kind_eqb (pkind c) Capstone); [|discriminate]. apply IH in H. rewrite H. apply zlen_updz.
    + discriminate.
Qed.

Lemma move_road_ok p m q : road_ok p -> move p m = Some q -> road_ok q.
Proof.
  intros (Hn & Hs) H. unfold road_ok, shape in *. unfold move in H.
  destruct (negb (in_bounds (size p) (mx m) (my m))); [discriminate|].
  destruct (is_slide (mt m)).
  - destruct (mslides m) as [drops|]; [|discriminate]. unfold move_slide in H.
    destruct (ply p <? 2); [discriminate|]. destruct (existsb _ drops); [discriminate|].
    destruct (_ || _); [discriminate|]. destruct (zsum drops <? 1); [discriminate|].
    destruct (sq p (mx m) (my m)) as [|top rest]; [discriminate|].
    destruct (negb _); [discriminate|]. destruct (direction (mt m)) as [dx dy].
    destruct (slide_go _ _ _ _ _ _ _ _) as [b|] eqn:Eg; [|discriminate]. injection H as <-.
    apply slide_go_zlen in Eg. rewrite zlen_updz in Eg. cbn [size board with_board]. split; [exact Hn|]. rewrite Eg. exact Hs.
  - unfold move_place in H. destruct (_ && _); [discriminate|].
    destruct (sq p (mx m) (my m)); [|discriminate].
    repeat match type of H with
           | (if ?c then None else _) = Some _ => destruct c; [discriminate|]
           | (let _ := _ in _) = _ => cbv zeta in H
           end.
    injection H as <-.
    destruct (if ply p <? 2 then flip (to_move p) else to_move p), (mtype_eqb (mt m) PlaceCapstone);
      cbn [size board]; rewrite zlen_updz; split; assumption.
Qed.

Lemma gen_play_loop cfg : forall fuel pos s log, road_ok pos ->
  kids_ok cfg pos s -> (Z.to_nat (sp_ply_limit cfg - ply pos + 1) < fuel)%nat ->
  res_map st_log (SelfPlayGen.play_one_game_while1 fuel cfg s pos log) =
  match play_loop cfg pos (map answer_of s) with
  | Done tr _ _ => Ok (tr_app log tr)
  | Err e => Crash (exn_of e)
  end.
Proof.
  induction fuel as [|fuel IH]; intros pos s log Hok Hk Hf; [lia|].
  cbn [SelfPlayGen.play_one_game_while1].
  destruct s as [|t rest]; cbn [map play_loop kids_ok] in *.
  all: rewrite Z.gtb_ltb; destruct (sp_ply_limit cfg <? ply pos) eqn:El.
  all: try (cbn [res_map st_log snd]; unfold tr_app; destruct log; cbn; rewrite !app_nil_r; reflexivity).
  all: rewrite (gen_winner_ok pos Hok); cbn [bind]; destruct (winner pos) as [c [r|]].
  all: try (cbn [res_map st_log snd]; unfold tr_app; destruct log; cbn; rewrite !app_nil_r; reflexivity).
  - reflexivity.
  - cbn [engine_analyze bind]. cbv zeta. destruct Hk as (Hpick & Hkids & Hrest).
    cbn [answer_of a_sims a_value a_vzero a_moves a_probs a_pick] in *. unfold py_fdiv_int.
    destruct (ot_sims t =? 0) eqn:Es; [reflexivity|]. cbn [bind orb] in *.
    change (py_fge (py_fabs (ot_vzero t)) (sp_threshold cfg)) with (resigns cfg (answer_of t)).
    destruct (resigns cfg (answer_of t)) eqn:Er.
    + unfold resign_winner. cbn [answer_of a_vzero].
      change (py_fge (ot_vzero t) (sp_threshold cfg)) with (Qle_bool (sp_threshold cfg) (ot_vzero t)).
      rewrite gen_to_move_eq.
      destruct (Qle_bool (sp_threshold cfg) (ot_vzero t)); [|rewrite gen_flip_eq]; cbn [bind ret res_map st_log snd];
        unfold tr_app; destruct log; cbn; reflexivity.
    + cbn [engine_tree_probs op_pick]. rewrite py_getitem_nthz by exact Hpick. rewrite nthz_map.
      destruct (nthz (ot_children t) (ot_pick t)) as [[m q]|] eqn:En; cbn [option_map bind]; [|reflexivity].
      assert (Hm : move pos m = Some q).
      { rewrite Forall_forall in Hkids. apply (Hkids (m, q)). unfold nthz in En. destruct (ot_pick t <? 0); [discriminate|].
        eapply nth_error_In; exact En. }
      cbn [fst]. rewrite Hm. cbn [child_position snd]. rewrite IH.
      * destruct (play_loop cfg q (map answer_of rest)) as [tr e f|e]; cbn [cons_row]; [|reflexivity].
        unfold tr_app. destruct log. cbn. rewrite <- !app_assoc. reflexivity.
      * exact (move_road_ok _ _ _ Hok Hm).
      * exact Hrest.
      * rewrite (move_ply _ _ _ Hm). apply Z.ltb_ge in El. lia.
Qed.

Lemma tr_app_new tr : tr_app tr_new tr = tr.
Proof. destruct tr; reflexivity. Qed.

(* play_one_game: board sizes whose default piece counts exist (Config(size) reads DEFAULT_PIECES[size]) *)
Theorem gen_play_one_game_eq cfg s : 0 <= sp_size cfg <= 8 -> kids_ok cfg (start cfg) s ->
  SelfPlayGen.play_one_game cfg s = embed_outcome (SelfPlay.play_one_game cfg (map answer_of s)).
Proof.
  intros Hsz Hk. unfold SelfPlayGen.play_one_game, SelfPlay.play_one_game.
  rewrite gen_from_config_eq by (split; intros _; cbn [csize]; lia). cbn [bind]. cbv zeta. fold (start cfg).
  assert (Hok : road_ok (start cfg)).
  { split; [cbn; lia|]. unfold shape, start, from_config. cbn [board size csize]. unfold zlen. rewrite repeat_length. nia. }
  pose proof (gen_play_loop cfg (Z.to_nat (Z.max (sp_ply_limit cfg + 2) 1)) (start cfg) s tr_new Hok Hk) as H.
  assert (Hp : ply (start cfg) = 0) by reflexivity.
  specialize (H ltac:(rewrite Hp; lia)).
  destruct (SelfPlayGen.play_one_game_while1 _ cfg s (start cfg) tr_new) as [[[e p] l]| |x];
    destruct (play_loop cfg (start cfg) (map answer_of s)) as [tr ex f|er]; cbn in H; try discriminate H; cbn [bind embed_outcome].
  - injection H as ->. rewrite tr_app_new. reflexivity.
  - exact H.
Qed.

(* in particular the fuel max(ply_limit + 2, 1) is enough, and the only exceptions are those of the hand model *)
Corollary gen_play_outcomes cfg s : 0 <= sp_size cfg <= 8 -> kids_ok cfg (start cfg) s ->
  (exists tr, SelfPlayGen.play_one_game cfg s = Ok tr) \/
  (exists e, SelfPlayGen.play_one_game cfg s = Crash e /\ (e = OracleExhausted \/ e = ZeroDivisionError \/ e = IndexError)).
Proof.
  intros Hsz Hk. rewrite gen_play_one_game_eq by assumption.
  destruct (SelfPlay.play_one_game cfg (map answer_of s)) as [tr e f|e] eqn:E; [left; exists tr; reflexivity|].
  right. exists (exn_of e). split; [reflexivity|]. destruct e; cbn; auto.
  (* IllegalCandidate: excluded by kids_ok *)
  exfalso. revert E Hk. unfold SelfPlay.play_one_game. generalize (start cfg) as pos. clear Hsz.
  induction s as [|t rest IH]; intros pos E Hk; cbn [map play_loop kids_ok] in *.
  - destruct (sp_ply_limit cfg <? ply pos); [discriminate|]. destruct (winner pos) as [c [r|]]; discriminate.
  - destruct (sp_ply_limit cfg <? ply pos); [discriminate|]. destruct (winner pos) as [c [r|]]; [discriminate|].
    destruct Hk as (Hpick & Hkids & Hrest). cbn [answer_of a_sims a_moves a_pick] in *.
    destruct (ot_sims t =? 0); [discriminate|]. cbn [orb] in Hrest.
    destruct (resigns cfg (answer_of t)); [discriminate|].
    rewrite nthz_map in E. destruct (nthz (ot_children t) (ot_pick t)) as [[m q]|] eqn:En; cbn [option_map] in E; [|discriminate].
    assert (Hm : move pos m = Some q).
    { rewrite Forall_forall in Hkids. apply (Hkids (m, q)). unfold nthz in En. destruct (ot_pick t <? 0); [discriminate|].
      eapply nth_error_In; exact En. }
    cbn [fst] in E. rewrite Hm in E. cbn [snd] in Hrest.
    destruct (play_loop cfg q (map answer_of rest)) as [tr e f|e] eqn:E2; cbn [cons_row] in E; [discriminate|].
    injection E as ->. exact (IH q E2 Hrest).
Qed.

(* ---------- encoding.MOVES_BY_SIZE / MOVES_TO_ID / MAX_MOVE_ID / encode_move ---------- *)
Lemma gen_moves_by_size : EncodingGen.MOVES_BY_SIZE = Ok (map table [0; 1; 2; 3; 4; 5; 6]).
Proof.
  unfold EncodingGen.MOVES_BY_SIZE. change (py_range 7) with [0; 1; 2; 3; 4; 5; 6]. cbn [py_mapM map].
  rewrite !gen_table_eq by lia. reflexivity.
Qed.

Lemma gen_max_move_id : EncodingGen.MAX_MOVE_ID = Ok Consts.MAX_MOVE_ID.
Proof.
  unfold EncodingGen.MAX_MOVE_ID. rewrite gen_moves_by_size. cbn [bind].
  rewrite (py_getitem_last []) by discriminate. cbn [bind last map]. unfold len. apply f_equal.
  vm_compute. reflexivity.
Qed.

Definition embed_key {A} (o : option A) : res A := match o with Some v => Ok v | None => Crash KeyError end.

Lemma dict_of_enumerate_get m : forall l k, NoDup l ->
  py_dict_get_last mv_eqb (map (fun '(i, x) => (x, i)) (py_enumerate_from k l)) m = embed_key (index_of m l k).
Proof.
  induction l as [|h t IH]; intros k Hnd; [reflexivity|].
  inversion Hnd as [|? ? Hna Hnd']; subst. cbn [py_enumerate_from map py_dict_get_last index_of].
  rewrite (IH (k + 1) Hnd'). destruct (mv_eqb h m) eqn:E.
  - apply mv_eqb_spec in E. subst h. destruct (index_of m t (k + 1)) as [i|] eqn:Ei; [|reflexivity].
    exfalso. apply index_of_sound in Ei. destruct Ei as (_ & Hn). apply Hna. eapply nth_error_In; exact Hn.
  - destruct (index_of m t (k + 1)); reflexivity.
Qed.

(* encode_move(size, m) for the sizes the tables are built for: the id, or KeyError *)
Lemma gen_encode_move_eq n m : 0 <= n <= 6 ->
  EncodingGen.encode_move n m = embed_key (index_of m (table n) 0).
Proof.
  intros Hn. unfold EncodingGen.encode_move, EncodingGen.MOVES_TO_ID. rewrite gen_moves_by_size. cbn [bind ret].
  assert (Hc : n = 0 \/ n = 1 \/ n = 2 \/ n = 3 \/ n = 4 \/ n = 5 \/ n = 6) by lia.
  assert (Hg : forall k, (k < 7)%nat -> py_getitem
      (map (fun moves => map (fun '(i, m0) => (m0, i)) (py_enumerate moves)) (map table [0; 1; 2; 3; 4; 5; 6])) (Z.of_nat k) =
      Ok (map (fun '(i, m0) => (m0, i)) (py_enumerate (table (Z.of_nat k))))).
  { intros k Hk. rewrite py_getitem_nthz by lia. unfold nthz. replace (Z.of_nat k <? 0) with false by (symmetry; apply Z.ltb_ge; lia).
    rewrite Nat2Z.id. do 7 (destruct k as [|k]; [reflexivity|]). lia. }
  specialize (Hg (Z.to_nat n) ltac:(lia)). rewrite Z2Nat.id in Hg by lia. rewrite Hg. cbn [bind].
  apply dict_of_enumerate_get. apply table_nodup.
Qed.

(* ---------- Transcript.logits ---------- *)
Definition logits_exn (e : exn) : bool := match e with IndexError | KeyError => true | _ => false end.
Definition lagrees {A} (r : res A) (o : option A) : Prop :=
  match r, o with
  | Ok v, Some w => v = w
  | Crash e, None => logits_exn e = true
  | _, _ => False
  end.

Lemma upd_upd {A} : forall (l : list A) i a b, upd (upd l i a) i b = upd l i b.
Proof. induction l as [|h t IH]; intros [|i] a b; cbn; try reflexivity. f_equal. apply IH. Qed.

Lemma nth_error_upd_same {A} : forall (l : list A) i a, (i < length l)%nat -> nth_error (upd l i a) i = Some a.
Proof. induction l as [|h t IH]; intros [|i] a H; cbn in *; try lia; [reflexivity|]. apply IH. lia. Qed.

Lemma skipn_nth_error {A} : forall j (l : list A),
  match nth_error l j with Some p => skipn j l = p :: skipn (S j) l | None => skipn j l = [] end.
Proof. induction j as [|j IH]; intros [|a l]; cbn; try reflexivity. apply IH. Qed.

Lemma py_setitem_nat {A} (l : list A) (i : nat) v : (i < length l)%nat -> py_setitem l (Z.of_nat i) v = Ok (upd l i v).
Proof. intros H. rewrite py_setitem_ok by (unfold zlen; lia). unfold updz. rewrite Nat2Z.id. reflexivity. Qed.

Lemma py_getitem_nat {A} (l : list A) (i : nat) :
  py_getitem l (Z.of_nat i) = match nth_error l i with Some v => Ok v | None => Crash IndexError end.
Proof. rewrite py_getitem_nthz by lia. unfold nthz. replace (Z.of_nat i <? 0) with false by (symmetry; apply Z.ltb_ge; lia). rewrite Nat2Z.id. reflexivity. Qed.

(* one row: the candidates j, j+1, .. of row i are written into logits[i] *)
Lemma gen_logits_fill tr n (i : nat) ps : 0 <= n <= 6 -> nth_error (t_probs tr) i = Some ps ->
  forall ms (j : nat) L row, nth_error L i = Some row ->
  lagrees (SelfPlayGen.logits_for2 tr n (Z.of_nat i) L (py_enumerate_from (Z.of_nat j) ms))
          (option_map (fun r => upd L i r) (logits_fill (table n) ms (skipn j ps) row)).
Proof.
  intros Hn Hps. induction ms as [|m ms IH]; intros j L row HL.
  - cbn. assert (Hi : (i < length L)%nat) by (apply nth_error_Some; congruence).
    clear - HL Hi. revert i HL Hi. induction L as [|h t IH]; intros [|i] HL Hi; cbn in *; try lia; try congruence.
    f_equal. apply IH; [exact HL|lia].
  - cbn [py_enumerate_from SelfPlayGen.logits_for2 logits_fill].
    assert (Hi : (i < length L)%nat) by (apply nth_error_Some; congruence).
    rewrite (gen_encode_move_eq n m Hn). pose proof (skipn_nth_error j ps) as Hsk.
    destruct (index_of m (table n) 0) as [k|] eqn:Ek; cbn [embed_key bind].
    2: { destruct (skipn j ps); reflexivity. }
    rewrite py_getitem_nat, Hps. cbn [bind]. rewrite py_getitem_nat.
    destruct (nth_error ps j) as [p|]; rewrite Hsk; [|reflexivity]. cbn [bind].
    rewrite py_getitem_nat, HL. cbn [bind]. apply index_of_sound in Ek. destruct Ek as (Hk0 & _).
    unfold set_at. destruct ((0 <=? k) && (k <? zlen row)) eqn:Er.
    + rewrite py_setitem_ok by (apply andb_true_iff in Er; lia). cbn [bind].
      rewrite py_setitem_nat by exact Hi. cbn [bind].
      replace (Z.of_nat j + 1) with (Z.of_nat (S j)) by lia.
      specialize (IH (S j) (upd L i (updz row k p)) (updz row k p) (nth_error_upd_same L i _ Hi)).
      destruct (logits_fill (table n) ms (skipn (S j) ps) (updz row k p)) as [r|]; cbn [option_map] in *; [|exact IH].
      rewrite upd_upd in IH. exact IH.
    + unfold py_setitem, PySem.py_index. rewrite Er.
      replace ((k <? 0) && (0 <=? zlen row + k)) with false by (symmetry; bool_lia). reflexivity.
Qed.

(* all rows *)
Lemma gen_logits_rows tr n : 0 <= n <= 6 -> (length (t_moves tr) <= length (t_probs tr))%nat ->
  forall mss (i : nat) done, length done = i -> skipn i (t_moves tr) = mss ->
  lagrees (SelfPlayGen.logits_for1 tr n (done ++ repeat zero_row (length mss)) (map Z.of_nat (seq i (length mss))))
          (option_map (app done) (logits_rows_t (table n) mss (skipn i (t_probs tr)))).
Proof.
  intros Hn Hlen. induction mss as [|ms mss IH]; intros i done Hd Hsk.
  - cbn. rewrite !app_nil_r. reflexivity.
  - cbn [length seq map SelfPlayGen.logits_for1 logits_rows_t repeat].
    pose proof (skipn_nth_error i (t_moves tr)) as Hm. rewrite Hsk in Hm.
    destruct (nth_error (t_moves tr) i) as [ms'|] eqn:Em; [|discriminate Hm]. injection Hm as <- Hsk'.
    rewrite py_getitem_nat, Em. cbn [bind].
    assert (Hip : (i < length (t_probs tr))%nat).
    { assert (nth_error (t_moves tr) i <> None) by congruence. apply nth_error_Some in H. lia. }
    pose proof (skipn_nth_error i (t_probs tr)) as Hp.
    destruct (nth_error (t_probs tr) i) as [ps|] eqn:Ep; [|apply nth_error_None in Ep; lia]. rewrite Hp.
    assert (HL : nth_error (done ++ zero_row :: repeat zero_row (length mss)) i = Some zero_row).
    { rewrite nth_error_app2 by lia. rewrite Hd, Nat.sub_diag. reflexivity. }
    pose proof (gen_logits_fill tr n i ps Hn Ep ms 0%nat _ zero_row HL) as HF. cbn [skipn] in HF.
    change (Z.of_nat 0) with 0 in HF. unfold py_enumerate. unfold logits_row_t.
    destruct (SelfPlayGen.logits_for2 tr n (Z.of_nat i) _ (py_enumerate_from 0 ms)) as [L'| |e];
      destruct (logits_fill (table n) ms ps zero_row) as [r|]; cbn [option_map lagrees] in HF; try contradiction; cbn [bind].
    + subst L'. assert (Hu : upd (done ++ zero_row :: repeat zero_row (length mss)) i r = (done ++ [r]) ++ repeat zero_row (length mss)).
      { clear - Hd. subst i. induction done as [|h t IHd]; cbn; [reflexivity|]. f_equal. exact IHd. }
      rewrite Hu. specialize (IH (S i) (done ++ [r]) ltac:(rewrite app_length; cbn; lia) (eq_sym Hsk')).
      destruct (logits_rows_t (table n) mss (skipn (S i) (t_probs tr))) as [rs|]; cbn [option_map] in *; [|exact IH].
      replace ((done ++ [r]) ++ rs) with (done ++ r :: rs) in IH by (rewrite <- app_assoc; reflexivity). exact IH.
    + exact HF.
Qed.

(* Transcript.logits: the first position has a size the id tables exist for (0..6; a negative size would index the
   tables from the end), and there is a probability row for every candidate row (hand model and code differ on a
   missing row under an EMPTY candidate list; a played game has equally many: C11_lists_aligned) *)
Theorem gen_logits_agrees tr :
  (forall p0, nth_error (t_positions tr) 0 = Some p0 -> 0 <= size p0 <= 6) ->
  (length (t_moves tr) <= length (t_probs tr))%nat ->
  lagrees (SelfPlayGen.logits tr) (SelfPlay.logits tr).
Proof.
  intros Hsz Hlen. unfold SelfPlayGen.logits, SelfPlay.logits. rewrite gen_max_move_id. cbn [bind].
  unfold py_zeros2, len. pose proof (zlen_nonneg (t_moves tr)).
  replace ((zlen (t_moves tr) <? 0) || (Consts.MAX_MOVE_ID <? 0)) with false by (symmetry; unfold Consts.MAX_MOVE_ID; bool_lia).
  cbn [bind]. destruct (t_positions tr) as [|p0 ps]; [reflexivity|]. rewrite py_getitem_0_cons. cbn [bind]. cbv zeta.
  specialize (Hsz p0 eq_refl). unfold logits_rows.
  pose proof (gen_logits_rows tr (size p0) Hsz Hlen (t_moves tr) 0%nat [] eq_refl eq_refl) as H1.
  cbn [app skipn option_map] in H1. fold zero_row. unfold zlen. rewrite Nat2Z.id, repeat_length.
  unfold py_range. rewrite Nat2Z.id.
  destruct (logits_rows_t (table (size p0)) (t_moves tr) (t_probs tr)) as [rs|]; cbn [option_map] in H1; exact H1.
Qed.

(* ====================== C11 transported to the translated source ====================== *)
Lemma gen_play_done cfg s tr : 0 <= sp_size cfg <= 8 -> kids_ok cfg (start cfg) s ->
  SelfPlayGen.play_one_game cfg s = Ok tr ->
  exists e f, SelfPlay.play_one_game cfg (map answer_of s) = Done tr e f.
Proof.
  intros Hsz Hk H. rewrite gen_play_one_game_eq in H by assumption.
  destruct (SelfPlay.play_one_game cfg (map answer_of s)) as [tr' e f|e]; cbn in H; [|discriminate H].
  injection H as ->. eauto.
Qed.

Theorem gen_transcript_chain cfg s tr : 0 <= sp_size cfg <= 8 -> kids_ok cfg (start cfg) s ->
  SelfPlayGen.play_one_game cfg s = Ok tr ->
  (forall p0, nth_error (t_positions tr) 0 = Some p0 -> p0 = start cfg) /\
  (forall i p q, nth_error (t_positions tr) i = Some p -> nth_error (t_positions tr) (S i) = Some q ->
     exists a m, nth_error (map answer_of s) i = Some a /\ nth_error (t_moves tr) i = Some (a_moves a) /\
                 picks a m /\ In m (a_moves a) /\ move p m = Some q) /\
  (forall i p, nth_error (t_positions tr) i = Some p -> ply p = Z.of_nat i).
Proof. intros Hsz Hk H. destruct (gen_play_done cfg s tr Hsz Hk H) as (e & f & HD). exact (transcript_chain _ _ _ _ _ HD). Qed.

Theorem gen_stops_exactly cfg s tr : 0 <= sp_size cfg <= 8 -> kids_ok cfg (start cfg) s ->
  SelfPlayGen.play_one_game cfg s = Ok tr -> exists e f,
  (forall i p, nth_error (t_positions tr) i = Some p -> ~ over_limit cfg p /\ ~ terminal p) /\
  (forall i a, (S i < length (t_positions tr))%nat -> nth_error (map answer_of s) i = Some a -> ~ resign_now cfg a) /\
  match e with
  | ExitLimit => over_limit cfg f /\ final_after cfg (start cfg) (map answer_of s) tr f
  | ExitRules r => ~ over_limit cfg f /\ snd (winner f) = Some r /\ final_after cfg (start cfg) (map answer_of s) tr f
  | ExitResign => exists n a, length (t_positions tr) = S n /\ nth_error (t_positions tr) n = Some f /\
                    nth_error (map answer_of s) n = Some a /\ resign_now cfg a
  end.
Proof. intros Hsz Hk H. destruct (gen_play_done cfg s tr Hsz Hk H) as (e & f & HD). exists e, f. exact (stops_exactly _ _ _ _ _ HD). Qed.

Theorem gen_result_correct cfg s tr : 0 <= sp_size cfg <= 8 -> kids_ok cfg (start cfg) s ->
  SelfPlayGen.play_one_game cfg s = Ok tr -> exists e f,
  SelfPlay.play_one_game cfg (map answer_of s) = Done tr e f /\
  match e with
  | ExitRules r => snd (winner f) = Some r /\ t_result tr = fst (winner f)
  | ExitLimit => t_result tr = None
  | ExitResign =>
      exists n a, length (t_positions tr) = S n /\ nth_error (t_positions tr) n = Some f /\
        nth_error (map answer_of s) n = Some a /\ resign_now cfg a /\
        ((sp_threshold cfg <= a_vzero a)%Q -> t_result tr = Some (to_move f)) /\
        (~ (sp_threshold cfg <= a_vzero a)%Q -> t_result tr = Some (flip (to_move f))) /\
        ((0 < sp_threshold cfg)%Q ->
           ((0 < a_vzero a)%Q -> t_result tr = Some (to_move f)) /\
           ((a_vzero a < 0)%Q -> t_result tr = Some (flip (to_move f))) /\
           ~ (a_vzero a == 0)%Q)
  end.
Proof.
  intros Hsz Hk H. destruct (gen_play_done cfg s tr Hsz Hk H) as (e & f & HD). exists e, f. split; [exact HD|].
  exact (result_correct _ _ _ _ _ HD).
Qed.

(* the labels of the translated Transcript.results: +1 where the winner is to move, -1 where the loser is, 0 throughout
   when there is no winner *)
Theorem gen_labels_correct tr :
  length (SelfPlayGen.results tr) = length (t_positions tr) /\
  (t_result tr = None -> forall i p, nth_error (t_positions tr) i = Some p -> nth_error (SelfPlayGen.results tr) i = Some (inject_Z 0)) /\
  (forall w, t_result tr = Some w -> forall i p, nth_error (t_positions tr) i = Some p ->
     (to_move p = w -> nth_error (SelfPlayGen.results tr) i = Some (inject_Z 1)) /\
     (to_move p = flip w -> nth_error (SelfPlayGen.results tr) i = Some (inject_Z (-1)))).
Proof.
  rewrite gen_results_eq. destruct (labels_correct tr) as (H1 & H2 & H3).
  split; [rewrite map_length; exact H1|]. split.
  - intros Hn i p Hp. rewrite nth_error_map, (H2 Hn i p Hp). reflexivity.
  - intros w Hw i p Hp. destruct (H3 w Hw i p Hp) as (Ha & Hb).
    split; intros Ht; rewrite nth_error_map; [rewrite (Ha Ht)|rewrite (Hb Ht)]; reflexivity.
Qed.

(* ---------- the hypotheses are satisfiable: a 3x3 game in which Black resigns at ply 1 ---------- *)
Definition ex_child : mv * position :=
  (mkMove 0 0 PlaceFlat None, mkPos 3 10 0 9 0 1 ([mkPiece Black Flat] :: repeat [] 8)).
Definition ex_stream : list otree :=
  [mkOTree [ex_child] [1%Q] (1 # 2)%Q 2 (1 # 10)%Q 0;
   mkOTree [(mkMove 1 1 PlaceFlat None,
            mkPos 3 9 0 9 0 2 [[mkPiece Black Flat]; []; []; []; [mkPiece White Flat]; []; []; []; []])] [1%Q] (-(3))%Q 4 (-(99 # 100))%Q 0].
Example gen_play_nonvacuous :
  let cfg := mkSp 3 (95 # 100)%Q 100 in
  0 <= sp_size cfg <= 8 /\ kids_ok cfg (start cfg) ex_stream /\
  exists tr, SelfPlayGen.play_one_game cfg ex_stream = Ok tr /\ length (t_positions tr) = 2%nat /\
             t_result tr = Some White /\ SelfPlayGen.results tr = [inject_Z 1; inject_Z (-1)] /\
             exists rows, SelfPlayGen.logits tr = Ok rows /\ length rows = 2%nat.
Proof.
  cbv zeta. split; [cbn; lia|]. split.
  - cbn -[move]. split; [lia|]. split; [repeat constructor; vm_compute; reflexivity|].
    split; [lia|]. split; [repeat constructor; vm_compute; reflexivity|exact I].
  - eexists. split; [vm_compute; reflexivity|]. split; [reflexivity|]. split; [reflexivity|]. split; [reflexivity|].
    eexists. split; [vm_compute; reflexivity|]. reflexivity.
Qed.

Lemma gen_move_tables :
  EncodingGen.MOVES_BY_SIZE = Ok (map table [0; 1; 2; 3; 4; 5; 6]) /\ EncodingGen.MAX_MOVE_ID = Ok Consts.MAX_MOVE_ID.
Proof. split; [exact gen_moves_by_size|exact gen_max_move_id]. Qed.
