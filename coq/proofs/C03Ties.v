(* C03 - the part that depends on constants regenerated from the source tree
   (gen/Consts.v): ALL_SLIDES lengths, the width of the id space. *)
From Coq Require Import ZArith List Bool Lia.
From TV Require gen.Consts.
From TV Require Import model.Tak proofs.ListUtil spec.MoveSpec proofs.Table proofs.MoveId
  proofs.TieGame proofs.C07Proofs proofs.Generator.
Import ListNotations.
Open Scope Z_scope.

(* on the sizes the id table is built for, everything the generator lists owns
   an id below the width of the policy head *)
Lemma generated_owns_id p m : 3 <= size p <= 6 -> In m (all_moves p) ->
  exists i, encode_move (size p) m = Some i /\ decode_move (size p) i = Some m /\
            0 <= i < Consts.MAX_MOVE_ID.
Proof.
  intros Hn Hin. assert (H0 : 0 <= size p) by lia.
  apply (gen_in_table p H0) in Hin. apply table_spec in Hin; [|assumption].
  destruct (encode_move_total (size p) m H0 Hin) as (i & Hi & He).
  exists i. split; [assumption|]. split; [apply encode_decode_move; assumption|].
  pose proof (ids_fit (size p) Hn). lia.
Qed.

Example generated_owns_id_ex :
  exists i, encode_move (size ex_pos) ex_crush = Some i /\ 0 <= i < Consts.MAX_MOVE_ID.
Proof.
  assert (H : 3 <= size ex_pos <= 6) by (simpl; lia).
  destruct (generated_owns_id ex_pos ex_crush H ex_crush_generated) as (i & He & _ & Hi). eauto.
Qed.

(* the model's drop-sequence lists have the lengths of the code's ALL_SLIDES *)
Lemma slides_tie : Consts.all_slides_lengths = map (fun n => zlen (all_slides n)) (seq 0 9).
Proof. exact tie_all_slides_lengths. Qed.
