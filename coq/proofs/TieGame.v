(* Tie (G): the constants regenerated from the repository equal the ones the
   model in model/Tak.v was written against.  Closed by computation. *)
From Coq Require Import ZArith List Bool.
From TV Require gen.Consts.
From TV Require Import model.Tak.
Import ListNotations.
Open Scope Z_scope.

Definition all_mtypes := [PlaceFlat; PlaceStanding; PlaceCapstone; SlideLeft; SlideRight; SlideUp; SlideDown].

Lemma tie_move_type_values : Consts.move_type_values = map mtype_code all_mtypes.
Proof. reflexivity. Qed.
Lemma tie_move_type_is_slide : Consts.move_type_is_slide = map is_slide all_mtypes.
Proof. reflexivity. Qed.
Lemma tie_directions :
  Consts.directions = map (fun t => (mtype_code t, direction t)) [SlideLeft; SlideRight; SlideUp; SlideDown].
Proof. reflexivity. Qed.
Lemma tie_default_pieces : Consts.default_pieces = default_pieces.
Proof. reflexivity. Qed.
Lemma tie_default_caps : Consts.default_caps = default_caps.
Proof. reflexivity. Qed.
Lemma tie_kind_is_road : Consts.kind_is_road = map kind_is_road [Flat; Standing; Capstone].
Proof. reflexivity. Qed.
Lemma tie_colors : Consts.color_values = [0; 1] /\ Consts.kind_values = [0; 1; 2].
Proof. split; reflexivity. Qed.
Lemma tie_all_slides_lengths :
  Consts.all_slides_lengths = map (fun n => zlen (all_slides n)) (seq 0 9).
Proof. vm_compute. reflexivity. Qed.
