(* C16 - the two analytic facts behind "the single-position evaluator returns a
   probability vector over all move ids and a value in [-1,1]", over Coq's
   real numbers (standard library Reals only, no Coquelicot).  These are facts
   about the mathematical softmax / tanh; the float32 kernels of torch are
   runtime behaviour (validated numerically by harness/props/c16.py).
   Axioms used (standard library): ClassicalDedekindReals.sig_forall_dec,
   ClassicalDedekindReals.sig_not_dec, FunctionalExtensionality.functional_extensionality_dep. *)
From Coq Require Import Reals List Lra ZArith.
From TV Require gen.Consts.
Import ListNotations.
Open Scope R_scope.

Fixpoint rsum (l : list R) : R := match l with [] => 0 | x :: t => x + rsum t end.
(* torch.softmax(logits, dim=0) of a vector *)
Definition softmax (l : list R) : list R := map (fun x => exp x / rsum (map exp l)) l.

Lemma rsum_exp_nonneg l : 0 <= rsum (map exp l).
Proof. induction l as [|x t IH]; simpl; [lra|]. pose proof (exp_pos x). lra. Qed.
Lemma rsum_exp_pos l : l <> [] -> 0 < rsum (map exp l).
Proof. destruct l as [|x t]; [contradiction|]. intros _. simpl. pose proof (exp_pos x). pose proof (rsum_exp_nonneg t). lra. Qed.
Lemma exp_le_rsum l x : In x l -> exp x <= rsum (map exp l).
Proof.
  induction l as [|y t IH]; [contradiction|]. simpl. intros [->|H].
  - pose proof (rsum_exp_nonneg t). lra.
  - specialize (IH H). pose proof (exp_pos y). lra.
Qed.
Lemma rsum_div l z : z <> 0 -> rsum (map (fun y => y / z) l) = rsum l / z.
Proof. intros Hz. induction l as [|x t IH]; simpl; [field; exact Hz|]. rewrite IH. field. exact Hz. Qed.

Theorem softmax_is_distribution l : l <> [] ->
  length (softmax l) = length l /\ (forall p, In p (softmax l) -> 0 < p <= 1) /\ rsum (softmax l) = 1.
Proof.
  intros Hne. pose proof (rsum_exp_pos l Hne) as Hz. unfold softmax. split; [apply map_length|]. split.
  - intros p Hp. apply in_map_iff in Hp. destruct Hp as [x [<- Hx]].
    pose proof (exp_pos x) as Hx0. pose proof (exp_le_rsum l x Hx) as Hx1. split.
    + apply Rdiv_lt_0_compat; assumption.
    + apply Rmult_le_reg_r with (rsum (map exp l)); [exact Hz|].
      unfold Rdiv. rewrite Rmult_assoc, Rinv_l by lra. lra.
  - rewrite <- (map_map exp (fun y => y / rsum (map exp l))). rewrite rsum_div by lra. field. lra.
Qed.

Theorem tanh_bounded x : -1 < tanh x < 1.
Proof.
  unfold tanh, sinh, cosh. pose proof (exp_pos x) as Ha. pose proof (exp_pos (- x)) as Hb.
  set (a := exp x) in *. set (b := exp (- x)) in *.
  replace ((a - b) / 2 / ((a + b) / 2)) with ((a - b) / (a + b)) by (field; lra).
  split; apply Rmult_lt_reg_r with (a + b); try lra; unfold Rdiv; rewrite Rmult_assoc, Rinv_l by lra; lra.
Qed.
Corollary tanh_abs_le_1 x : Rabs (tanh x) <= 1.
Proof. pose proof (tanh_bounded x). apply Rabs_le. lra. Qed.

(* ModelWrapper.evaluate on the real-valued outputs of the head: (softmax(moves), tanh(pre-activation)) *)
Definition evaluate_R (move_logits : list R) (v_pre : R) : list R * R := (softmax move_logits, tanh v_pre).

Theorem evaluate_is_distribution move_logits v_pre :
  Z.of_nat (length move_logits) = Consts.MAX_MOVE_ID ->
  let (probs, value) := evaluate_R move_logits v_pre in
  Z.of_nat (length probs) = Consts.MAX_MOVE_ID /\ (forall p, In p probs -> 0 < p <= 1) /\ rsum probs = 1 /\ -1 <= value <= 1.
Proof.
  intros Hlen. unfold evaluate_R.
  assert (Hne : move_logits <> []).
  { intros ->. simpl in Hlen. pose proof (eq_refl : (0 <? Consts.MAX_MOVE_ID)%Z = true) as Hpos.
    apply Z.ltb_lt in Hpos. rewrite <- Hlen in Hpos. inversion Hpos. }
  destruct (softmax_is_distribution move_logits Hne) as [H1 [H2 H3]].
  pose proof (tanh_bounded v_pre). repeat split; try assumption; try lra.
  - now rewrite H1.
  - apply H2; assumption.
  - apply H2; assumption.
Qed.

Example evaluate_example : Z.of_nat (length (repeat 0 (Z.to_nat Consts.MAX_MOVE_ID))) = Consts.MAX_MOVE_ID.
Proof. rewrite repeat_length. apply Z2Nat.id. now vm_compute. Qed.
