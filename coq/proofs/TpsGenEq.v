(* T13 - parse_tps / parse_row / format_tps / _format_row / _format_square REGENERATED from python/tak/ptn/tps.py
   (gen/TpsGen.v, written against the Python semantics of model/PySem.v; a str is the list of its code points) equal
   the hand-written model/Tps.v:
     gen_parse_tps_eq  : for EVERY string, TpsGen.parse_tps s = embed_tps (Tps.parse_tps s)   (no guard)
     gen_format_tps_eq : TpsGen.format_tps p = Ok (Tps.format_tps p) when the size and the move number stay below
                         the str() digit limit of the interpreter (10^4300)
   What makes the two agree is that every partial operation of the code is guarded: `board, who, move = bits` follows
   len(bits) == 3; int(move) follows isascii()/isdigit() and its ValueError (more than 4300 digits) is caught;
   int(who) follows who in ("1", "2"); b[0] follows `not b`; b[1] and int(b[1]) follow len(b) == 2 and
   b[1] in "12345678"; stack[-1] follows `not stack`; from_squares gets a size in 3..8; sq[0] in _format_square is
   reached only for non-empty squares; the two while loops of _format_row never run out of the fuel len(row) + 1.
   PySem's int() takes no position on strings that are not ASCII digits (Crash Unmodelled), so an unguarded int()
   cannot be proved equal to anything. *)
From Coq Require Import ZArith String List Bool Lia.
From TV Require Import model.Tak model.PySem model.Tps spec.TpsSpec.
From TV Require Import proofs.MoveRulesUtil proofs.PySemLemmas proofs.GameGenEq proofs.TpsStrings proofs.TpsRows proofs.TpsProofs.
From TV Require gen.GameGen gen.TpsGen.
Import ListNotations.
Open Scope Z_scope.

(* ====================== PySem's string operations are the hand model's ====================== *)
Lemma py_split1_eq sep s : py_split1 sep s = split sep s.
Proof. induction s as [|c t IH]; cbn; [reflexivity|]. rewrite IH. reflexivity. Qed.

Lemma py_join_eq sep l : py_join sep l = join sep l.
Proof. induction l as [|a t IH]; cbn; [reflexivity|]. destruct t; [reflexivity|]. rewrite IH. reflexivity. Qed.

Lemma py_join_nil_concat l : py_join [] l = concat l.
Proof.
  induction l as [|a t IH]; [reflexivity|]. cbn [py_join concat]. destruct t as [|b t'].
  - cbn. rewrite app_nil_r. reflexivity.
  - rewrite IH. reflexivity.
Qed.

(* isascii() and isdigit() together: non-empty, all code points '0'..'9' (the digit table has one ASCII range) *)
Lemma digit_ranges_tail : forallb (fun r => 128 <=? fst r) (tl py_digit_ranges) = true.
Proof. vm_compute. reflexivity. Qed.

Lemma py_isdigit_char_ascii c : c < 128 -> py_isdigit_char c = is_ascii_digit c.
Proof.
  intros Hc. unfold py_isdigit_char.
  change py_digit_ranges with ((48, 57) :: tl py_digit_ranges). cbn [existsb fst snd].
  replace (existsb _ (tl py_digit_ranges)) with false; [rewrite orb_false_r; reflexivity|].
  symmetry. pose proof digit_ranges_tail as H. induction (tl py_digit_ranges) as [|r l IH]; [reflexivity|].
  cbn [forallb existsb] in *. apply andb_true_iff in H. destruct H as [H1 H2]. rewrite IH by exact H2.
  apply Z.leb_le in H1. replace (fst r <=? c) with false by (symmetry; apply Z.leb_gt; lia). reflexivity.
Qed.

Lemma py_isascii_isdigit s : py_isascii s && py_isdigit s = is_ascii_digits s.
Proof.
  unfold py_isascii, py_isdigit, is_ascii_digits. destruct s as [|c t]; [reflexivity|]. cbn [truthy_list andb].
  induction (c :: t) as [|a l IH]; [reflexivity|]. cbn [forallb].
  rewrite <- IH. destruct (a <? 128) eqn:E; cbn [andb].
  - rewrite py_isdigit_char_ascii by lia. destruct (is_ascii_digit a); cbn [andb]; [reflexivity|].
    rewrite andb_false_r. reflexivity.
  - unfold is_ascii_digit. replace (a <=? ch_9) with false by (symmetry; apply Z.leb_gt; unfold ch_9; lia).
    rewrite andb_false_r. reflexivity.
Qed.

(* int(s) on ASCII digits *)
Lemma py_int_str_digits s : is_ascii_digits s = true ->
  py_int_str s = if max_str_digits <? zlen s then Crash ValueError else Ok (int_of_digits s).
Proof.
  intros H. unfold py_int_str.
  replace (truthy_list s && forallb (fun c => (48 <=? c) && (c <=? 57)) s) with (is_ascii_digits s)
    by (destruct s; reflexivity).
  rewrite H. reflexivity.
Qed.

(* str(n) below the digit limit *)
Definition str_limit : Z := 10 ^ py_int_max_str_digits.

Lemma py_digits_eq n : py_digits n = digits n.
Proof.
  unfold py_digits, digits. generalize (S (Z.to_nat (Z.log2 n))) as f. generalize (@nil Z) as acc. intros acc f.
  revert n acc. induction f as [|f IH]; intros n acc; [reflexivity|]. cbn. destruct (n <? 10); [reflexivity|]. apply IH.
Qed.

Lemma py_str_int_eq n : Z.abs n < str_limit -> py_str_int n = Ok (str_of_Z n).
Proof.
  intros H. unfold py_str_int. cbv zeta. rewrite py_digits_eq.
  assert (Hlen : zlen (digits (Z.abs n)) <= max_str_digits) by (apply digits_len_max; split; [lia|exact H]).
  change py_int_max_str_digits with max_str_digits.
  destruct (max_str_digits <? zlen (digits (Z.abs n))) eqn:E; [lia|].
  unfold str_of_Z. destruct (n <? 0) eqn:En.
  - rewrite Z.abs_neq by lia. reflexivity.
  - rewrite Z.abs_eq by lia. reflexivity.
Qed.

Lemma str_limit_big : 1000 <= str_limit.
Proof.
  unfold str_limit. change 1000 with (10 ^ 3). apply Z.pow_le_mono_r; [lia|]. unfold py_int_max_str_digits. lia.
Qed.
Global Opaque str_limit.

Lemma pysem_strings :
  (forall sep s, py_split1 sep s = split sep s) /\ (forall sep l, py_join sep l = join sep l) /\
  (forall s, py_isascii s && py_isdigit s = is_ascii_digits s) /\
  (forall s, is_ascii_digits s = true ->
     py_int_str s = if max_str_digits <? zlen s then Crash ValueError else Ok (int_of_digits s)) /\
  (forall n, Z.abs n < str_limit -> py_str_int n = Ok (str_of_Z n)).
Proof.
  split; [exact py_split1_eq|]. split; [exact py_join_eq|]. split; [exact py_isascii_isdigit|].
  split; [exact py_int_str_digits|exact py_str_int_eq].
Qed.

(* ====================== the parser ====================== *)
(* the code points of the literals the code uses *)
Lemma lits :
  ch "1" = ch_1 /\ ch "2" = ch_2 /\ ch "C" = ch_C /\ ch "S" = ch_S /\ ch "x" = ch_x /\ ch "," = ch_comma /\
  ch "/" = ch_slash /\ ch " " = ch_space /\ pystr "1" = [ch_1] /\ pystr "2" = [ch_2] /\ pystr "S" = [ch_S] /\
  pystr "C" = [ch_C] /\ pystr "x" = [ch_x] /\ pystr "," = [ch_comma] /\ pystr "/" = [ch_slash] /\
  pystr " " = [ch_space] /\ pystr "" = [].
Proof. repeat split; reflexivity. Qed.

Ltac lit_norm :=
  change (ch "1") with ch_1 in *; change (ch "2") with ch_2 in *; change (ch "C") with ch_C in *;
  change (ch "S") with ch_S in *; change (ch "x") with ch_x in *; change (ch ",") with ch_comma in *;
  change (ch "/") with ch_slash in *; change (ch " ") with ch_space in *;
  change (pystr "1") with [ch_1] in *; change (pystr "2") with [ch_2] in *; change (pystr "S") with [ch_S] in *;
  change (pystr "C") with [ch_C] in *; change (pystr "x") with [ch_x] in *; change (pystr ",") with [ch_comma] in *;
  change (pystr "/") with [ch_slash] in *; change (pystr " ") with [ch_space] in *;
  change (pystr "") with (@nil Z) in *.

(* ---------- parse_row ---------- *)
Lemma gen_parse_chars : forall cs stk marked,
  res_map fst (TpsGen.parse_row_for2 stk marked cs) = embed (parse_chars cs stk marked).
Proof.
  induction cs as [|c t IH]; intros stk marked; [reflexivity|].
  cbn [TpsGen.parse_row_for2 parse_chars]. lit_norm.
  destruct marked; [reflexivity|].
  destruct (c =? ch_1).
  { cbn [bind ret]. apply IH. }
  destruct (c =? ch_2).
  { cbn [bind ret]. apply IH. }
  destruct ((c =? ch_C) || (c =? ch_S)); [|reflexivity].
  destruct stk as [|q stk']; [reflexivity|]. cbn [truthy_list negb].
  rewrite (py_getitem_last (flat_of White)) by discriminate. cbn [bind]. cbv zeta.
  rewrite py_setitem_last by discriminate. cbn [bind ret]. apply IH.
Qed.

Lemma digit18_mem d : existsb (Z.eqb d) (pystr "12345678") = (ch_1 <=? d) && (d <=? ch_8).
Proof.
  change (pystr "12345678") with [49; 50; 51; 52; 53; 54; 55; 56]. cbn [existsb]. rewrite orb_false_r.
  unfold ch_1, ch_8. bool_lia.
Qed.

Lemma gen_parse_cells : forall bits squares,
  TpsGen.parse_row_for1 squares bits = embed (parse_cells bits squares).
Proof.
  induction bits as [|b t IH]; intros squares; [reflexivity|].
  cbn [TpsGen.parse_row_for1 parse_cells]. unfold parse_cell. lit_norm.
  destruct b as [|c0 rest]; [reflexivity|]. cbn [truthy_list negb]. rewrite py_getitem_0_cons. cbn [bind].
  destruct (c0 =? ch_x).
  - cbv zeta. destruct rest as [|d [|e rest']].
    + change (len [c0] >? 1) with false. cbn [bind ret]. rewrite py_list_repeat_single. apply IH.
    + change (len [c0; d] >? 1) with true. change (len [c0; d] =? 2) with true. cbn [negb].
      rewrite (py_getitem_ok 0 [c0; d] 1) by (cbn; lia). change (getz 0 [c0; d] 1) with d. cbn [bind ret].
      rewrite digit18_mem. destruct ((ch_1 <=? d) && (d <=? ch_8)) eqn:Ed; cbn [negb]; [|reflexivity].
      rewrite py_int_str_digits.
      * change (max_str_digits <? zlen [d]) with false. cbn [bind]. rewrite py_list_repeat_single.
        replace (int_of_digits [d]) with (d - ch_0) by (unfold int_of_digits; cbn; lia). apply IH.
      * unfold is_ascii_digits, is_ascii_digit. cbn [forallb]. rewrite andb_true_r.
        unfold ch_1, ch_8, ch_0, ch_9 in *. bool_lia.
    + replace (len (c0 :: d :: e :: rest') >? 1) with true
        by (symmetry; unfold len; rewrite !zlen_cons; pose proof (zlen_nonneg rest'); apply Z.gtb_lt; lia).
      replace (len (c0 :: d :: e :: rest') =? 2) with false
        by (symmetry; unfold len; rewrite !zlen_cons; pose proof (zlen_nonneg rest'); apply Z.eqb_neq; lia).
      reflexivity.
  - cbv zeta. pose proof (gen_parse_chars (c0 :: rest) [] false) as HC.
    destruct (TpsGen.parse_row_for2 [] false (c0 :: rest)) as [[stk mk]| |e];
      destruct (parse_chars (c0 :: rest) [] false) as [stk'|]; cbn in HC; try discriminate HC; cbn [bind].
    + injection HC as ->. apply IH.
    + reflexivity.
Qed.

Theorem gen_parse_row_eq r : TpsGen.parse_row r = embed (parse_row r).
Proof. unfold TpsGen.parse_row, parse_row. cbv zeta. lit_norm. rewrite py_split1_eq. apply gen_parse_cells. Qed.

(* ---------- parse_tps ---------- *)
Definition embed_tps (r : tps_result) : res position :=
  match r with Accept p => Ok p | Reject => Illegal | Unspecified => Crash ValueError end.

Lemma gen_parse_rows rows : forall it squares,
  TpsGen.parse_tps_for1 rows squares it = embed (parse_rows it (zlen rows) squares).
Proof.
  induction it as [|r t IH]; intros squares; [reflexivity|].
  cbn [TpsGen.parse_tps_for1 parse_rows]. rewrite gen_parse_row_eq.
  destruct (parse_row r) as [rsq|]; [|reflexivity]. cbn [embed bind]. unfold len, stack in *.
  destruct (zlen rsq =? zlen rows); cbn [negb]; [apply IH|reflexivity].
Qed.

Lemma str_eqb_true a b : str_eqb a b = true -> a = b.
Proof.
  revert b. induction a as [|x a IH]; intros [|y b] H; try discriminate H; [reflexivity|].
  cbn in H. apply andb_true_iff in H. destruct H as [H1 H2]. apply Z.eqb_eq in H1. subst. f_equal. apply IH. exact H2.
Qed.

Theorem gen_parse_tps_eq s : TpsGen.parse_tps s = embed_tps (parse_tps s).
Proof.
  unfold TpsGen.parse_tps, parse_tps. cbv zeta. lit_norm. rewrite py_split1_eq.
  destruct (split ch_space s) as [|board [|who [|move [|x l]]]]; try reflexivity; unfold str in *.
  2: { replace (len (board :: who :: move :: x :: l) =? 3) with false; [reflexivity|].
       symmetry. unfold len. rewrite !zlen_cons. pose proof (zlen_nonneg l). apply Z.eqb_neq. lia. }
  change (len [board; who; move] =? 3) with true. cbn [negb py_unpack3 bind].
  change (pystr_eqb who [ch_1]) with (str_eqb who [ch_1]). change (pystr_eqb who [ch_2]) with (str_eqb who [ch_2]).
  destruct (str_eqb who [ch_1] || str_eqb who [ch_2]) eqn:Ew; cbn [negb]; [|reflexivity].
  rewrite py_isascii_isdigit. destruct (is_ascii_digits move) eqn:Em; cbn [negb]; [|reflexivity].
  rewrite (py_int_str_digits move Em).
  destruct (max_str_digits <? zlen move); [reflexivity|]. cbn [py_try bind].
  destruct (int_of_digits move <? 1); [reflexivity|].
  assert (Hw : py_int_str who = Ok (int_of_digits who)).
  { apply orb_true_iff in Ew. destruct Ew as [E|E]; apply str_eqb_true in E; subst who; reflexivity. }
  rewrite Hw. cbn [bind]. rewrite py_split1_eq. unfold len.
  rewrite Z.gtb_ltb.
  match goal with |- context [(?a <? 3) || (8 <? ?a)] => destruct ((a <? 3) || (8 <? a)) eqn:En end; [reflexivity|].
  rewrite gen_parse_rows.
  unfold stack, str in *.
  match goal with |- context [parse_rows ?a ?b ?c] => destruct (parse_rows a b c) as [sqs|] end; [|reflexivity].
  cbn [embed bind]. rewrite gen_from_squares_eq.
  - destruct (from_squares _ _ _); reflexivity.
  - apply orb_false_iff in En. destruct En as [E1 E2]. split; intros _; cbn [csize]; lia.
Qed.

(* ====================== the writer ====================== *)
(* ---------- _format_square ---------- *)
Lemma gen_format_square_for1 : forall it out,
  TpsGen._format_square_for1 out it = out ++ map (fun p => [color_char (pcolor p)]) it.
Proof.
  induction it as [|p it IH]; intros out; cbn [TpsGen._format_square_for1 map]; [rewrite app_nil_r; reflexivity|].
  cbv zeta. rewrite IH. lit_norm. destruct (pcolor p); cbn [color_eqb color_char]; rewrite <- app_assoc; reflexivity.
Qed.

Lemma concat_map_single {A B} (g : A -> B) l : concat (map (fun p => [g p]) l) = map g l.
Proof. induction l as [|a l IH]; cbn; [reflexivity|]. rewrite IH. reflexivity. Qed.

(* sq[0] raises IndexError on an empty square: the writer is only called on non-empty ones *)
Lemma gen_format_square_eq sq : sq <> [] -> TpsGen._format_square sq = Ok (format_square sq).
Proof.
  intros Hne. destruct sq as [|top rest]; [congruence|].
  unfold TpsGen._format_square, format_square. cbv zeta. rewrite gen_format_square_for1, !py_getitem_0_cons.
  cbn [bind app]. lit_norm.
  destruct (pkind top); cbn [kind_eqb bind ret]; rewrite py_join_nil_concat, ?concat_app, concat_map_single;
    cbn [concat app]; rewrite ?app_nil_r; reflexivity.
Qed.

(* ---------- _format_row: the two while loops ---------- *)
Lemma skipn_nth_cons {A} (d : A) : forall k l, (k < length l)%nat -> skipn k l = nth k l d :: skipn (S k) l.
Proof.
  induction k as [|k IH]; intros [|a l] H; cbn in *; try lia; [reflexivity|]. apply IH. lia.
Qed.

Lemma skipn_add {A} : forall k x (l : list A), skipn x (skipn k l) = skipn (k + x) l.
Proof. induction k as [|k IH]; intros x [|a l]; cbn; try reflexivity; [destruct x; reflexivity|apply IH]. Qed.

(* inner loop: x runs over the empty squares starting at row[i] *)
Lemma gen_format_row_while2 (row : list (list piece)) (k : nat) : forall fuel (x : nat),
  (k + x <= length row)%nat -> (count_empty (skipn (k + x) row) < fuel)%nat ->
  TpsGen._format_row_while2 fuel row (Z.of_nat k) (Z.of_nat x) =
  Ok (Z.of_nat (x + count_empty (skipn (k + x) row))).
Proof.
  induction fuel as [|fuel IH]; intros x Hle Hf; [lia|].
  cbn [TpsGen._format_row_while2]. unfold len, zlen.
  destruct (Z.of_nat k + Z.of_nat x <? Z.of_nat (length row)) eqn:E.
  - assert (Hlt : (k + x < length row)%nat) by lia.
    rewrite (py_getitem_ok []) by (unfold zlen; lia). cbn [bind ret].
    unfold getz. replace (Z.to_nat (Z.of_nat k + Z.of_nat x)) with (k + x)%nat by lia.
    rewrite (skipn_nth_cons [] (k + x) row Hlt) in Hf |- *.
    destruct (nth (k + x) row []) as [|q s] eqn:En; cbn [truthy_list negb count_empty] in *.
    + cbv zeta. replace (Z.of_nat x + 1) with (Z.of_nat (S x)) by lia.
      rewrite IH; replace (k + S x)%nat with (S (k + x)) by lia; [|lia|lia]. f_equal. lia.
    + rewrite Nat.add_0_r. reflexivity.
  - assert (Heq : (k + x = length row)%nat) by lia. cbn [bind ret].
    rewrite Heq, skipn_all. cbn [count_empty]. rewrite Nat.add_0_r. reflexivity.
Qed.

(* outer loop: i = k squares of the row are written; the hand model's format_cells (any fuel that covers the rest) *)
Lemma gen_format_row_while1 (row : list (list piece)) : zlen row < str_limit ->
  forall fuel (k : nat) out hf, (k <= length row)%nat -> (length row - k <= hf)%nat -> (length row - k < fuel)%nat ->
  res_map fst (TpsGen._format_row_while1 fuel row out (Z.of_nat k)) = Ok (out ++ format_cells hf (skipn k row)).
Proof.
  intros Hlim. induction fuel as [|fuel IH]; intros k out hf Hk Hhf Hf; [lia|].
  cbn [TpsGen._format_row_while1]. unfold len at 1. unfold zlen at 1.
  destruct (Z.of_nat k <? Z.of_nat (length row)) eqn:E.
  - assert (Hlt : (k < length row)%nat) by lia. cbv zeta.
    pose proof (gen_format_row_while2 row k (Z.to_nat (len row + 1)) 0) as H2.
    rewrite Nat.add_0_r in H2. change (Z.of_nat 0) with 0 in H2. pose proof (count_empty_le (skipn k row)) as Hce. rewrite skipn_length in Hce.
    rewrite H2 by (unfold len, zlen; lia). clear H2. cbn [bind Nat.add].
    destruct hf as [|hf]; [lia|]. rewrite (skipn_nth_cons [] k row Hlt). cbn [format_cells].
    rewrite <- (skipn_nth_cons [] k row Hlt).
    remember (count_empty (skipn k row)) as c eqn:Ec.
    destruct c as [|c'].
    + change (Z.of_nat 0 >? 0) with false. change (0 <? 0)%nat with false. cbn [bind ret].
      rewrite (py_getitem_ok []) by (unfold zlen; lia). unfold getz. rewrite Nat2Z.id. cbn [bind].
      rewrite gen_format_square_eq.
      2: { intros Hnil. rewrite (skipn_nth_cons [] k row Hlt), Hnil in Ec. discriminate Ec. }
      cbn [bind ret]. replace (Z.of_nat k + 1) with (Z.of_nat (S k)) by lia.
      rewrite (IH (S k) _ hf) by lia. rewrite <- app_assoc. reflexivity.
    + replace (Z.of_nat (S c') >? 0) with true by (symmetry; apply Z.gtb_lt; lia).
      change (0 <? S c')%nat with true. cbn [bind ret].
      replace (Z.of_nat (S c') >? 1) with (1 <? S c')%nat
        by (destruct c'; [reflexivity|symmetry; apply Z.gtb_lt; lia]).
      assert (Hstr : (if (1 <? S c')%nat then py_str_int (Z.of_nat (S c')) else ret (pystr "")) =
                     Ok (if (1 <? S c')%nat then str_of_Z (Z.of_nat (S c')) else [])).
      { destruct (1 <? S c')%nat; [|reflexivity]. apply py_str_int_eq. unfold zlen in Hlim. lia. }
      rewrite Hstr. cbn [bind ret]. lit_norm.
      replace (Z.of_nat k + Z.of_nat (S c')) with (Z.of_nat (k + S c')) by lia.
      rewrite (IH (k + S c')%nat _ hf) by lia. rewrite skipn_add, <- app_assoc. reflexivity.
  - assert (Heq : k = length row) by lia. subst k. cbn [res_map fst]. rewrite skipn_all.
    destruct hf; cbn [format_cells]; rewrite app_nil_r; reflexivity.
Qed.

Theorem gen_format_row_eq row : zlen row < str_limit -> TpsGen._format_row row = Ok (format_row row).
Proof.
  intros Hlim. unfold TpsGen._format_row, format_row. cbv zeta.
  pose proof (gen_format_row_while1 row Hlim (Z.to_nat (len row + 1)) 0 [] (length row)) as H.
  change (Z.of_nat 0) with 0 in H. rewrite Nat.sub_0_r in H. specialize (H ltac:(lia) ltac:(lia)).
  specialize (H ltac:(unfold len, zlen; lia)).
  destruct (TpsGen._format_row_while1 _ row [] 0) as [[out i]| |e]; cbn in H; try discriminate H.
  injection H as ->. cbn [bind]. lit_norm. rewrite py_join_eq. reflexivity.
Qed.

(* ---------- format_tps ---------- *)
Lemma py_slice_window {A} (l : list A) a k : 0 <= a -> 0 <= k ->
  py_slice l (Some a) (Some (a + k)) = firstn (Z.to_nat k) (skipn (Z.to_nat a) l).
Proof.
  intros Ha Hk. unfold py_slice, py_bound.
  destruct (a <? 0) eqn:E1; [lia|]. destruct (a + k <? 0) eqn:E2; [lia|].
  destruct (Z_le_gt_dec a (zlen l)) as [H|H].
  - rewrite (Z.min_l a) by lia. destruct (Z_le_gt_dec (a + k) (zlen l)) as [H'|H'].
    + rewrite Z.min_l by lia. f_equal. lia.
    + rewrite Z.min_r by lia. rewrite !firstn_all2; [reflexivity| |]; rewrite skipn_length; unfold zlen in *; lia.
  - rewrite !Z.min_r by lia. rewrite Z.sub_diag. unfold zlen in *. rewrite skipn_all2 by lia.
    rewrite (skipn_all2 (n := Z.to_nat a)) by lia. rewrite !firstn_nil. reflexivity.
Qed.

Lemma gen_format_tps_for1 p : 0 <= size p < str_limit -> forall (it : list nat) rows,
  TpsGen.format_tps_for1 p rows (map Z.of_nat it) =
  Ok (rows ++ map (fun r => format_row (firstn (Z.to_nat (size p)) (skipn (r * Z.to_nat (size p)) (board p)))) it).
Proof.
  intros Hlim. induction it as [|r it IH]; intros rows; cbn [map TpsGen.format_tps_for1]; [rewrite app_nil_r; reflexivity|].
  cbv zeta. rewrite py_slice_window by nia.
  replace (Z.to_nat (Z.of_nat r * size p)) with (r * Z.to_nat (size p))%nat by nia.
  rewrite gen_format_row_eq.
  - cbn [bind]. rewrite IH, <- app_assoc. reflexivity.
  - unfold zlen. rewrite firstn_length. lia.
Qed.

(* the printed numbers must stay below the str() digit limit of the interpreter: sizes and move numbers below
   10^4300 *)
Theorem gen_format_tps_eq p : size p < str_limit -> Z.abs (ply p / 2 + 1) < str_limit ->
  TpsGen.format_tps p = Ok (format_tps p).
Proof.
  intros Hs Hp. unfold TpsGen.format_tps, format_tps. cbv zeta.
  unfold py_range.
  assert (Hrows : TpsGen.format_tps_for1 p [] (map Z.of_nat (seq 0 (Z.to_nat (size p)))) =
                  Ok (map (fun r => format_row (firstn (Z.to_nat (size p)) (skipn (r * Z.to_nat (size p)) (board p))))
                          (seq 0 (Z.to_nat (size p))))).
  { destruct (Z_lt_ge_dec (size p) 0) as [Hneg|Hpos].
    - replace (Z.to_nat (size p)) with 0%nat by lia. reflexivity.
    - rewrite gen_format_tps_for1 by lia. reflexivity. }
  rewrite Hrows. cbn [bind app].
  rewrite !py_str_int_eq; [|exact Hp|].
  - cbn [bind ret]. lit_norm. rewrite !py_join_eq. reflexivity.
  - pose proof str_limit_big. pose proof (Z.mod_pos_bound (ply p) 2). lia.
Qed.

(* ====================== C13 transported to the translated source ====================== *)
Lemma wf_limits p : wf p -> size p < str_limit /\ Z.abs (ply p / 2 + 1) < str_limit.
Proof.
  intros (Hs & _ & _ & Hp & Hl). pose proof str_limit_big.
  assert (Hq : 0 <= ply p / 2) by (apply Z.div_pos; lia).
  split; [lia|]. rewrite Z.abs_eq by lia. exact Hl.
Qed.

Theorem gen_parse_accept_iff s p : TpsGen.parse_tps s = Ok p <-> parse_tps s = Accept p.
Proof. rewrite gen_parse_tps_eq. destruct (parse_tps s); cbn; split; intros H; congruence. Qed.

Theorem gen_parse_reject_iff s : TpsGen.parse_tps s = Illegal <-> parse_tps s = Reject.
Proof. rewrite gen_parse_tps_eq. destruct (parse_tps s); cbn; split; intros H; congruence. Qed.

(* "no other error escapes": the translated parser returns a position or raises IllegalTPS, for every string *)
Theorem gen_parse_total s : (exists p, TpsGen.parse_tps s = Ok p) \/ TpsGen.parse_tps s = Illegal.
Proof.
  rewrite gen_parse_tps_eq. pose proof (never_unspecified s) as H.
  destruct (parse_tps s) as [p| |]; [left; exists p; reflexivity|right; reflexivity|congruence].
Qed.

(* format then parse, through the translated writer AND the translated reader *)
Theorem gen_parse_format p : wf p -> standard_reserves p ->
  exists t, TpsGen.format_tps p = Ok t /\ TpsGen.parse_tps t = Ok p.
Proof.
  intros Hwf Hstd. destruct (wf_limits p Hwf) as [H1 H2]. exists (format_tps p).
  split; [apply gen_format_tps_eq; assumption|]. apply gen_parse_accept_iff. apply parse_format; assumption.
Qed.

Lemma int_of_digits_bound s : (forall c, In c s -> is_digit_char c) -> 0 <= int_of_digits s < 10 ^ zlen s.
Proof.
  induction s as [|c l IH] using rev_ind; intros H; [unfold int_of_digits; cbn; lia|].
  rewrite int_of_digits_snoc, zlen_app. change (zlen [c]) with 1.
  rewrite Z.pow_add_r by (pose proof (zlen_nonneg l); lia). change (10 ^ 1) with 10.
  assert (Hl : 0 <= int_of_digits l < 10 ^ zlen l) by (apply IH; intros x Hx; apply H; apply in_or_app; left; assumption).
  assert (Hc : is_digit_char c) by (apply H; apply in_or_app; right; left; reflexivity).
  unfold is_digit_char, ch_0, ch_9 in *. lia.
Qed.

(* what the reader accepts can be written back: its size is 3..8 and its move number has at most 4300 digits *)
Lemma parse_accept_limits s p : parse_tps s = Accept p -> size p < str_limit /\ Z.abs (ply p / 2 + 1) < str_limit.
Proof.
  intros H. destruct (parse_meaning s p H) as (Hsz & _ & _ & Hply).
  apply parse_accept_iff in H. destruct H as [Hf Hw Hd Hl Hv Hsize _].
  pose proof str_limit_big. split; [lia|].
  rewrite <- !int_of_digits_dec in Hply.
  apply is_ascii_digits_iff in Hd. destruct Hd as [_ Hd]. pose proof (int_of_digits_bound _ Hd) as Hb.
  assert (Hlim : 10 ^ zlen (move_field s) <= str_limit).
  { Transparent str_limit. unfold str_limit. Opaque str_limit. apply Z.pow_le_mono_r; [lia|exact Hl]. }
  assert (Hwv : int_of_digits (who_field s) = 1 \/ int_of_digits (who_field s) = 2)
    by (destruct Hw as [-> | ->]; [left|right]; reflexivity).
  replace (ply p / 2 + 1) with (int_of_digits (move_field s)); [lia|].
  rewrite Hply. destruct Hwv as [-> | ->].
  - replace (2 * (int_of_digits (move_field s) - 1) + 1 - 1) with ((int_of_digits (move_field s) - 1) * 2) by lia.
    rewrite Z.div_mul by lia. lia.
  - replace (2 * (int_of_digits (move_field s) - 1) + 2 - 1) with (1 + (int_of_digits (move_field s) - 1) * 2) by lia.
    rewrite Z.div_add by lia. change (1 / 2) with 0. lia.
Qed.

Theorem gen_format_parse_canonical s p : TpsGen.parse_tps s = Ok p -> canonical s -> TpsGen.format_tps p = Ok s.
Proof.
  intros Hp Hc. apply gen_parse_accept_iff in Hp. destruct (parse_accept_limits s p Hp) as [H1 H2].
  rewrite gen_format_tps_eq by assumption. rewrite (format_parse_canonical s p Hp Hc). reflexivity.
Qed.

(* the text means what the TPS standard says (ranks top down, files left to right, stacks bottom to top) *)
Theorem gen_parse_meaning s p : TpsGen.parse_tps s = Ok p ->
  size p = text_size s /\ zlen (board p) = size p * size p /\
  (forall x y, 0 <= x < size p -> 0 <= y < size p -> sq p x y = stack_of_text (cell_text s x y)) /\
  ply p = 2 * (dec_value (move_field s) - 1) + dec_value (who_field s) - 1.
Proof. intros H. apply parse_meaning. apply gen_parse_accept_iff. exact H. Qed.

Theorem gen_parse_reserves s p : TpsGen.parse_tps s = Ok p -> standard_reserves p.
Proof. intros H. eapply parse_reserves. apply gen_parse_accept_iff. exact H. Qed.

(* malformed text is refused with IllegalTPS by the translated parser *)
Theorem gen_parse_refuses s : must_refuse s -> TpsGen.parse_tps s = Illegal.
Proof. intros H. apply gen_parse_reject_iff. apply parse_refuses. exact H. Qed.

(* ---------- the hypotheses are satisfiable ---------- *)
Example gen_tps_nonvacuous :
  wf ex_pos /\ standard_reserves ex_pos /\ TpsGen.format_tps ex_pos = Ok ex_text /\ TpsGen.parse_tps ex_text = Ok ex_pos /\
  canonical ex_text /\ must_refuse ex_bad_x /\ TpsGen.parse_tps ex_bad_x = Illegal.
Proof.
  split; [exact ex_wf|]. split; [exact ex_standard|].
  split; [destruct (wf_limits ex_pos ex_wf); rewrite gen_format_tps_eq by assumption; rewrite ex_format; reflexivity|].
  split; [apply gen_parse_accept_iff; exact ex_parse|]. split; [exact ex_canonical|].
  split; [apply ex_bad_x_refused|apply gen_parse_refuses; apply ex_bad_x_refused].
Qed.
