(* T08, second part: the search loop regenerated from python/tak/mcts.py
   (gen/MctsGen.v: descend, analyze_tree, analyze, get_move, select_root_move,
   tree_probs over the tree-as-heap and the stateful oracles of model/MctsSem.v)
   is EQUAL, end to end, to model/Mcts.v's `analyze`, for time_limit = 0 and
   simulation_limit = n > 0. *)
From Coq Require Import ZArith QArith Qabs List Bool Lia Lqa.
From TV Require Import model.Tak model.Road model.PySem model.Mcts model.MctsSem.
From TV Require Import proofs.ListUtil proofs.Table proofs.PySemLemmas proofs.MctsProofs proofs.MctsGenEq.
From TV Require gen.MctsGen.
Import ListNotations.
Open Scope Z_scope.

(* ------------------------------------------------------------------ *)
(* places in the view of a model tree                                  *)
(* ------------------------------------------------------------------ *)
Definition zs (cs : list nat) : place := map Z.of_nat cs.

(* the references descend() collects: the searched node, then every node of the path *)
Fixpoint prefixes (pl : place) (cs : list nat) : list place :=
  pl :: match cs with [] => [] | c :: r => prefixes (pl ++ [Z.of_nat c]) r end.

Lemma prefixes_cons a pl cs : prefixes (a :: pl) cs = map (cons a) (prefixes pl cs).
Proof. revert pl; induction cs as [|c r IH]; intros pl; simpl; [reflexivity|]. f_equal. apply (IH (pl ++ [Z.of_nat c])). Qed.

Lemma prefixes_ne_aux pl cs : prefixes pl cs = [] -> False.
Proof. destruct cs; discriminate. Qed.

Lemma prefixes_last pl cs d : last (prefixes pl cs) d = pl ++ zs cs.
Proof.
  revert pl; induction cs as [|c r IH]; intros pl.
  - simpl. rewrite app_nil_r. reflexivity.
  - change (prefixes pl (c :: r)) with (pl :: prefixes (pl ++ [Z.of_nat c]) r).
    destruct (prefixes (pl ++ [Z.of_nat c]) r) eqn:E.
    + exfalso. eapply prefixes_ne_aux; eassumption.
    + change (last (pl :: p :: l) d) with (last (p :: l) d). rewrite <- E, IH, <- app_assoc. reflexivity.
Qed.

Lemma prefixes_ne pl cs : prefixes pl cs <> [].
Proof. destruct cs; discriminate. Qed.

Lemma py_getitem_nth {A} (l : list A) c x : nth_error l c = Some x -> py_getitem l (Z.of_nat c) = Ok x.
Proof.
  intros H. unfold py_getitem. rewrite py_index_in.
  - rewrite Nat2Z.id, H. reflexivity.
  - unfold zlen. assert (c < length l)%nat by (apply nth_error_Some; congruence). lia.
Qed.

Lemma upd_upd_nth {A} (l : list A) c x : upd l c x = upd_nth l c x.
Proof. revert c; induction l as [|h t IH]; intros [|c]; simpl; auto; f_equal; auto. Qed.

Lemma py_setitem_nth {A} (l : list A) c x y : nth_error l c = Some x -> py_setitem l (Z.of_nat c) y = Ok (upd_nth l c y).
Proof.
  intros H. unfold py_setitem. rewrite py_index_in.
  - rewrite Nat2Z.id, upd_upd_nth. reflexivity.
  - unfold zlen. assert (c < length l)%nat by (apply nth_error_Some; congruence). lia.
Qed.

(* the hand-side counterparts: the node a path leads to, and the tree with that node replaced *)
Fixpoint leaf_of (cs : list nat) (t : node) : node :=
  match cs, n_kids t with
  | c :: r, Some ks => match nth_error ks c with Some k => leaf_of r k | None => t end
  | _, _ => t
  end.
Fixpoint graft_h (t : node) (cs : list nat) (x : node) : node :=
  match cs with
  | [] => x
  | c :: r =>
    match t with
    | Node p m v0 value sims raw probs (Some ks) =>
      match nth_error ks c with
      | Some k => Node p m v0 value sims raw probs (Some (upd_nth ks c (graft_h k r x)))
      | None => t
      end
    | _ => t
    end
  end.

Lemma pt_get_valid : forall cs t, valid cs t -> pt_get (py_of t) (zs cs) = Ok (py_of (leaf_of cs t)).
Proof.
  induction cs as [|c r IH]; intros t Hv; inversion Hv; subst; [reflexivity|].
  cbn [zs map pt_get py_of pn_children_list pn_children bind leaf_of n_kids].
  match goal with H : nth_error ks c = Some k |- _ => rewrite H; rename H into Hn end.
  rewrite (py_getitem_nth _ c (py_of k)) by (rewrite nth_error_map, Hn; reflexivity). cbn [bind].
  apply IH. assumption.
Qed.

Lemma pt_set_valid : forall cs t x, valid cs t -> pt_set (py_of t) (zs cs) (py_of x) = Ok (py_of (graft_h t cs x)).
Proof.
  induction cs as [|c r IH]; intros t x Hv; inversion Hv; subst; [reflexivity|].
  cbn [zs map pt_set py_of pn_children_list pn_children bind graft_h].
  match goal with H : nth_error ks c = Some k |- _ => rewrite H; rename H into Hn end.
  assert (Hm : nth_error (map py_of ks) c = Some (py_of k)) by (rewrite nth_error_map, Hn; reflexivity).
  rewrite (py_getitem_nth _ c _ Hm). cbn [bind]. fold (zs r). rewrite IH by assumption. cbn [bind].
  rewrite (py_setitem_nth _ c _ _ Hm). cbn [bind ret set_pn_children py_of].
  rewrite <- upd_nth_map. reflexivity.
Qed.

(* ------------------------------------------------------------------ *)
(* statistics through places                                           *)
(* ------------------------------------------------------------------ *)
Lemma bind_ok_inv {A B} (c : res A) (k : A -> res B) y : bind c k = Ok y -> exists v, c = Ok v /\ k v = Ok y.
Proof. destruct c; simpl; intros H; try discriminate. eauto. Qed.

Lemma upd_nth_twice {A} (l : list A) c x y : upd_nth (upd_nth l c x) c y = upd_nth l c y.
Proof. revert c; induction l as [|h t IH]; intros [|c]; simpl; auto. f_equal; auto. Qed.

Lemma pt_get_under R L c kk pl :
  pn_children R = Some L -> nth_error L c = Some kk -> pt_get R (Z.of_nat c :: pl) = pt_get kk pl.
Proof.
  intros Hc Hn. cbn [pt_get]. unfold pn_children_list. rewrite Hc. cbn [bind].
  rewrite (py_getitem_nth _ _ _ Hn). reflexivity.
Qed.

Lemma pt_set_under R L c kk pl x kk1 :
  pn_children R = Some L -> nth_error L c = Some kk -> pt_set kk pl x = Ok kk1 ->
  pt_set R (Z.of_nat c :: pl) x = Ok (set_pn_children R (Some (upd_nth L c kk1))).
Proof.
  intros Hc Hn Hs. cbn [pt_set]. unfold pn_children_list. rewrite Hc. cbn [bind].
  rewrite (py_getitem_nth _ _ _ Hn). cbn [bind]. rewrite Hs. cbn [bind].
  rewrite (py_setitem_nth _ _ _ _ Hn). reflexivity.
Qed.

Lemma stats_under R L c kk : pn_children R = Some L -> nth_error L c = Some kk ->
  forall pls, pt_stats R (map (cons (Z.of_nat c)) pls) = pt_stats kk pls.
Proof.
  intros Hc Hn pls. unfold pt_stats. induction pls as [|pl pls IH]; [reflexivity|].
  cbn [map py_mapM]. rewrite (pt_get_under R L c kk pl Hc Hn), IH. reflexivity.
Qed.

Lemma put_under c : forall pls sts R L kk kk',
  pn_children R = Some L -> nth_error L c = Some kk -> pt_put_stats kk pls sts = Ok kk' ->
  pt_put_stats R (map (cons (Z.of_nat c)) pls) sts = Ok (set_pn_children R (Some (upd_nth L c kk'))).
Proof.
  induction pls as [|pl pls IH]; intros sts R L kk kk' Hc Hn Hp.
  - destruct sts; simpl in Hp; [|discriminate]. inversion Hp; subst kk'.
    simpl. rewrite (upd_nth_same _ _ _ Hn), (set_children_same _ _ Hc). reflexivity.
  - destruct sts as [|s sts]; [simpl in Hp; discriminate|]. cbn [pt_put_stats] in Hp.
    apply bind_ok_inv in Hp. destruct Hp as (n & Hg & Hp).
    apply bind_ok_inv in Hp. destruct Hp as (kk1 & Hs & Hp).
    cbn [map pt_put_stats]. rewrite (pt_get_under R L c kk pl Hc Hn), Hg. cbn [bind].
    rewrite (pt_set_under R L c kk pl _ kk1 Hc Hn Hs). cbn [bind].
    rewrite (IH sts (set_pn_children R (Some (upd_nth L c kk1))) (upd_nth L c kk1) kk1 kk').
    + rewrite set_children_twice, upd_nth_twice. reflexivity.
    + destruct R; reflexivity.
    + eapply nth_error_upd_nth_same; eassumption.
    + exact Hp.
Qed.

Lemma list_eqb_len {A} (e : A -> A -> bool) : forall a b, list_eqb e a b = true -> length a = length b.
Proof.
  induction a as [|x a IH]; intros [|y b] H; simpl in *; try discriminate; auto.
  apply andb_true_iff in H. destruct H as (_ & H). f_equal; auto.
Qed.

Lemma in_prefixes_len cs : forall pl x, In x (prefixes pl cs) -> (length pl <= length x)%nat.
Proof.
  induction cs as [|c r IH]; intros pl x H; simpl in H.
  - destruct H as [H|[]]; subst; lia.
  - destruct H as [H|H]; [subst; lia|]. apply IH in H. rewrite app_length in H. simpl in H. lia.
Qed.

Lemma prefixes_distinct cs : forall pl, places_distinct (prefixes pl cs) = true.
Proof.
  induction cs as [|c r IH]; intros pl; [reflexivity|].
  change (prefixes pl (c :: r)) with (pl :: prefixes (pl ++ [Z.of_nat c]) r).
  cbn [places_distinct]. rewrite IH, andb_true_r. apply negb_true_iff.
  destruct (existsb (place_eqb pl) (prefixes (pl ++ [Z.of_nat c]) r)) eqn:E; [|reflexivity].
  apply existsb_exists in E. destruct E as (x & Hin & He).
  apply in_prefixes_len in Hin. apply list_eqb_len in He. rewrite app_length in Hin. simpl in Hin. lia.
Qed.

(* ------------------------------------------------------------------ *)
(* one simulation = populate the leaf in place, then update the path   *)
(* ------------------------------------------------------------------ *)
Section OneSimulation.
  Variable cutoff mix : Q.

  (* what populate() leaves at a leaf: v_zero (and the expansion); value and visit count still the old ones *)
  Definition populated (noise : option (list Q)) (evs : list eval) (leaf : node) : node * list eval :=
    match leaf with
    | Node p m v0 value sims raw probs kids =>
      match terminal p with
      | Some o => (Node p m o value sims raw probs None, evs)
      | None =>
        let '(e, evs') := next_eval evs in
        let pri := priors mix p noise (fst e) in
        let acc := accepted cutoff p pri in
        (Node p m (snd e) value sims pri (renorm (map c_prior acc)) (Some (map child_of acc)), evs')
      end
    end.

  Definition top_noise (cs : list nat) (noise : option (list Q)) : option (list Q) :=
    match cs with [] => noise | _ :: _ => None end.

  Lemma sim_decompose : forall cs t noise evs t' v evs',
      valid cs t -> simulate cutoff mix cs t noise evs = (t', v, evs') ->
      let lm := fst (populated (top_noise cs noise) evs (leaf_of cs t)) in
      let mid := graft_h t cs lm in
      pt_stats (py_of mid) (prefixes [] cs) = Ok (pre_update cs t t') /\
      pt_put_stats (py_of mid) (prefixes [] cs) (map stat_of (path_nodes cs t')) = Ok (py_of t') /\
      snd (populated (top_noise cs noise) evs (leaf_of cs t)) = evs'.
  Proof.
    induction cs as [|c r IH]; intros t noise evs t' v evs' Hv Hs; inversion Hv; subst; simpl in Hs.
    - (* the leaf itself *)
      cbn [leaf_of top_noise graft_h prefixes populated].
      destruct (terminal p) as [o|] eqn:Ht.
      + inversion Hs; subst. cbn [fst snd]. repeat split.
      + destruct (next_eval evs) as (e, evs1). inversion Hs; subst. cbn [fst snd]. repeat split.
    - (* an inner node *)
      match goal with H : nth_error ks c = Some k |- _ => rewrite H in Hs; rename H into Hn end.
      destruct (simulate cutoff mix r k None evs) as ((k', vk), evs1) eqn:Ek.
      inversion Hs; subst. clear Hs.
      match goal with H : valid r k |- _ => destruct (IH k None evs k' vk evs' H Ek) as (IH1 & IH2 & IH3); rename H into Hvk end.
      assert (Etn : top_noise r None = None) by (destruct r; reflexivity). rewrite Etn in IH1, IH2, IH3.
      cbn [top_noise leaf_of n_kids]. rewrite Hn.
      set (lm := fst (populated None evs (leaf_of r k))) in *.
      cbn [graft_h]. rewrite Hn.
      set (midk := graft_h k r lm) in *.
      set (t0 := Node p m v0 value sims raw probs (Some ks)).
      set (t1 := Node p m v0 (value + - vk)%Q (S sims) raw probs (Some (upd_nth ks c k'))).
      assert (E1 : path_nodes (c :: r) t0 = t0 :: path_nodes r k) by (simpl; rewrite Hn; reflexivity).
      assert (E2 : path_nodes (c :: r) t1 = t1 :: path_nodes r k').
      { simpl. rewrite (nth_error_upd_nth_same _ _ _ _ Hn). reflexivity. }
      assert (E3 : pre_update (c :: r) t0 t1 = pre_stat t0 t1 :: pre_update r k k').
      { unfold pre_update. rewrite E1, E2. reflexivity. }
      assert (Ep : prefixes [] (c :: r) = [] :: map (cons (Z.of_nat c)) (prefixes [] r)).
      { change (prefixes [] (c :: r)) with ([] :: prefixes ([] ++ [Z.of_nat c]) r). cbn [app].
        rewrite prefixes_cons. reflexivity. }
      set (R := py_of (Node p m v0 value sims raw probs (Some (upd_nth ks c midk)))).
      assert (HcR : pn_children R = Some (map py_of (upd_nth ks c midk))) by reflexivity.
      assert (HnR : nth_error (map py_of (upd_nth ks c midk)) c = Some (py_of midk)).
      { rewrite nth_error_map, (nth_error_upd_nth_same _ _ _ _ Hn). reflexivity. }
      rewrite Ep, E3, E2. repeat split; [| |exact IH3].
      + unfold pt_stats. cbn [py_mapM pt_get bind ret]. fold (pt_stats R (map (cons (Z.of_nat c)) (prefixes [] r))).
        rewrite (stats_under R _ c (py_of midk) HcR HnR), IH1. reflexivity.
      + cbn [map pt_put_stats pt_get pt_set bind].
        set (R1 := pn_set_stat R (stat_of t1)).
        assert (HcR1 : pn_children R1 = Some (map py_of (upd_nth ks c midk))) by reflexivity.
        rewrite (put_under c _ _ R1 _ (py_of midk) (py_of k') HcR1 HnR IH2).
        unfold R1, R, t1, stat_of. cbn [py_of pn_set_stat set_pn_children n_v0 n_value n_sims ps_v_zero ps_value ps_simulations].
        rewrite <- upd_nth_map, upd_nth_twice, upd_nth_map. reflexivity.
  Qed.
End OneSimulation.

(* ------------------------------------------------------------------ *)
(* the oracles of the end-to-end theorem                               *)
(* ------------------------------------------------------------------ *)
(* the sampler answers from a stream of child indices (it refuses a missing distribution, as torch does), the
   network from the evaluator stream of model/Mcts.v (([],0) when exhausted, as next_eval), the Dirichlet sample is
   the one noise vector of this call of analyze_tree, the clock stands still (time_limit = 0: it is never compared) *)
Record ostate := mkOst { os_choices : list Z; os_evs : list eval; os_noise : option (list Q) }.
Definition o_multinomial (pol : option (list Q)) : M ostate Z :=
  fun s => match pol, os_choices s with
           | None, _ => Crash TypeError
           | Some _, c :: r => Ok (c, mkOst r (os_evs s) (os_noise s))
           | Some _, [] => Crash OracleExhausted
           end.
Definition o_monotonic : M ostate Q := fun s => Ok (0%Q, s).
Definition o_evaluate (_ : position) : M ostate (list Q * Q) :=
  fun s => Ok (fst (next_eval (os_evs s)), mkOst (os_choices s) (snd (next_eval (os_evs s))) (os_noise s)).
Definition o_dirichlet (_ : Z) (_ : option Q) : M ostate (list Q) :=
  fun s => match os_noise s with Some nz => Ok (nz, s) | None => Crash OracleExhausted end.

Lemma mbind_lift_ok {S A B} (c : res A) (v : A) (k : A -> M S B) (s : S) :
  c = Ok v -> mbind (lift c) k s = k v s.
Proof. intros H. unfold mbind, lift. rewrite H. reflexivity. Qed.
Lemma mbind_ok {S A B} (c : M S A) (v : A) (s s' : S) (k : A -> M S B) :
  c s = Ok (v, s') -> mbind c k s = k v s'.
Proof. intros H. unfold mbind. rewrite H. reflexivity. Qed.

Section Search.
  Variable F : Type.
  Variable f_sqrt : Z -> F.
  Variable f_mul : F -> F -> F.
  Variable f_div_int : F -> Z -> F.
  Variable solve : list Q -> list Q -> F -> res (list Q).
  Variable C : F.
  Variable cutoff mix : Q.
  Variable alpha : option Q.
  Variable limit : nat.
  Hypothesis solve_total : forall pi q lam, exists r, solve pi q lam = Ok r.
  Hypothesis cutoff_pos : (0 < cutoff)%Q.

  Definition search_cfg : pyconfig := mkPyConfig cutoff alpha mix 0 (Z.of_nat limit).
  Notation g_descend_loop := (MctsGen.descend_while1 ostate o_multinomial F f_sqrt f_mul f_div_int solve C).
  Notation g_descend := (MctsGen.descend ostate o_multinomial F f_sqrt f_mul f_div_int solve C).
  Notation g_populate_st := (MctsGen.populate_st ostate o_evaluate o_dirichlet).
  Notation g_populate_at := (MctsGen.populate_at ostate o_evaluate o_dirichlet).
  Notation g_loop := (MctsGen.analyze_tree_while1 ostate o_multinomial o_monotonic o_evaluate o_dirichlet F f_sqrt f_mul f_div_int solve C).
  Notation g_analyze_tree := (MctsGen.analyze_tree ostate o_multinomial o_monotonic o_evaluate o_dirichlet F f_sqrt f_mul f_div_int solve C).

  (* ---- descend: follows the choice stream down to a leaf and returns the references of the path ---- *)
  Lemma descend_loop_ok : forall cs t hp pl path0 rest evs nz fuel0 fuel,
      valid cs t -> Good cutoff t -> pt_get hp pl = Ok (py_of t) -> (length cs < fuel)%nat ->
      g_descend_loop fuel0 fuel search_cfg hp pl path0 (mkOst (zs cs ++ rest) evs nz) =
      Ok (path0 ++ prefixes pl cs, mkOst rest evs nz).
  Proof.
    induction cs as [|c r IH]; intros t hp pl path0 rest evs nz fuel0 fuel Hv Hg Hget Hf; inversion Hv; subst;
      (destruct fuel as [|fuel]; [simpl in Hf; lia|]); cbn [MctsGen.descend_while1].
    - rewrite (mbind_lift_ok _ _ _ _ Hget). cbn [py_of pn_children is_some negb]. reflexivity.
    - rewrite (mbind_lift_ok _ _ _ _ Hget). cbn [py_of pn_children is_some negb].
      rewrite (mbind_lift_ok _ _ _ _ Hget).
      (* the policy: one solver call (the node has been visited) *)
      set (t0 := Node p m v0 value sims raw probs (Some ks)) in *.
      assert (Hs : exists j, n_sims t0 = S j) by (eapply good_expanded_visited; [exact Hg|reflexivity]).
      destruct Hs as (j & Hs).
      assert (Hi : policy_inputs t0 1%Q = Some (mkPin probs (map (q_of v0) ks) (lambda_sq 1 sims (length ks)) sims (length ks)))
        by reflexivity.
      change (PyNode p m v0 value (Z.of_nat sims) (Some probs) (Some (map py_of ks))) with (py_of t0).
      destruct (solve_total probs (map (q_of v0) ks)
                            (multiplier F f_sqrt f_mul f_div_int C (Z.of_nat sims) (Z.of_nat (length ks)))) as (pol & Hpol).
      assert (Hpp : MctsGen.policy_probs F f_sqrt f_mul f_div_int solve (py_of t0) C = Ok (Some pol)).
      { rewrite (gen_policy_probs_eq F f_sqrt f_mul f_div_int solve t0 ks j C 1%Q _ Hs eq_refl Hi).
        cbn [pi_prior pi_q pi_N pi_K]. rewrite Hpol. reflexivity. }
      rewrite (mbind_lift_ok _ _ _ _ Hpp).
      (* the sampler *)
      match goal with H : nth_error ks c = Some k |- _ => rename H into Hn end.
      rewrite (mbind_ok (o_multinomial (Some pol)) (Z.of_nat c) _ (mkOst (zs r ++ rest) evs nz)) by reflexivity.
      (* the child's place *)
      assert (Hlt : (c < length ks)%nat) by (apply nth_error_Some; congruence).
      assert (Hch : pt_child hp pl (Z.of_nat c) = Ok (pl ++ [Z.of_nat c])).
      { unfold pt_child. rewrite Hget. unfold t0. cbn [bind py_of]. unfold pn_children_list. cbn [pn_children bind].
        rewrite py_index_in by (unfold zlen; rewrite map_length; lia). reflexivity. }
      rewrite (mbind_lift_ok _ _ _ _ Hch).
      assert (Hk : Good cutoff k).
      { eapply Forall_forall; [eapply good_children; [exact Hg|reflexivity]|]. eapply nth_error_In; eassumption. }
      assert (Hgetk : pt_get hp (pl ++ [Z.of_nat c]) = Ok (py_of k)).
      { clear -Hget Hn. revert hp Hget. induction pl as [|a pl IHp]; intros hp Hget.
        - simpl in Hget. inversion Hget; subst hp. cbn [app].
          rewrite (pt_get_under _ (map py_of ks) c (py_of k) []); [reflexivity|reflexivity|].
          rewrite nth_error_map, Hn. reflexivity.
        - cbn [app pt_get] in *. destruct (pn_children_list hp) as [l| |]; try discriminate. cbn [bind] in *.
          destruct (py_getitem l a) as [x| |]; try discriminate. cbn [bind] in *. apply IHp. exact Hget. }
      match goal with H : valid r k |- _ =>
        rewrite (IH k hp (pl ++ [Z.of_nat c]) (path0 ++ [pl]) rest evs nz fuel0 fuel H Hk Hgetk ltac:(simpl in Hf; lia)) end.
      rewrite <- app_assoc. reflexivity.
  Qed.

  (* ---- populate against the stateful oracles is populate against the functions read off the state ---- *)
  Definition ev_of (st : ostate) : position -> res (list Q * Q) := fun _ => Ok (fst (next_eval (os_evs st))).
  Definition dir_of (st : ostate) : Z -> option Q -> res (list Q) :=
    fun _ _ => match os_noise st with Some z => Ok z | None => Crash OracleExhausted end.
  Definition st_after (n : pynode) (st : ostate) : ostate :=
    if is_some (snd (Road.winner (pn_position n))) then st
    else mkOst (os_choices st) (snd (next_eval (os_evs st))) (os_noise st).

  Lemma populate_st_as_pure cfg n is_root st :
    g_populate_st cfg n is_root st =
    match MctsGen.populate (ev_of st) (dir_of st) cfg n is_root with
    | Ok x => Ok (x, st_after n st)
    | Illegal => Illegal
    | Crash e => Crash e
    end.
  Proof.
    unfold MctsGen.populate_st, MctsGen.populate, st_after.
    destruct (Road.winner (pn_position n)) as [w [r|]]; cbn [snd is_some].
    - destruct (opt_color_is w (to_move (pn_position n))); [reflexivity|].
      destruct (opt_color_is w (flip (to_move (pn_position n)))); reflexivity.
    - unfold mbind at 1. unfold o_evaluate at 1. unfold ev_of at 1. cbn [bind].
      destruct (next_eval (os_evs st)) as ((raw, v), evs1) eqn:En. cbn [fst snd].
      set (r0 := ft_slice_to raw (n_moves_for_size (size (pn_position (set_pn_children (set_pn_v_zero n v) (Some [])))))).
      destruct (is_root && is_some (cfg_root_noise_alpha cfg)).
      + unfold mbind at 1. unfold mbind at 1. unfold o_dirichlet at 1. unfold dir_of at 1. cbn [os_noise].
        destruct (os_noise st) as [z|]; [|reflexivity]. cbn [bind].
        unfold mbind at 1. unfold lift at 1.
        destruct (ft_add _ _) as [x| |]; try reflexivity. cbn [bind mret].
        unfold mbind at 1. unfold lift at 1.
        destruct (MctsGen.populate_for1 _ _ _) as [[nd vl]| |]; try reflexivity. cbn [bind].
        unfold mbind at 1. unfold lift at 1. destruct (ft_index x vl) as [cp| |]; try reflexivity. cbn [bind].
        unfold mbind at 1. unfold lift at 1. destruct (ft_idiv_scalar cp (ft_sum cp)) as [cp2| |]; reflexivity.
      + unfold mbind at 1. cbn [mret bind].
        unfold mbind at 1. unfold lift at 1.
        destruct (MctsGen.populate_for1 _ _ _) as [[nd vl]| |]; try reflexivity. cbn [bind].
        unfold mbind at 1. unfold lift at 1. destruct (ft_index r0 vl) as [cp| |]; try reflexivity. cbn [bind].
        unfold mbind at 1. unfold lift at 1. destruct (ft_idiv_scalar cp (ft_sum cp)) as [cp2| |]; reflexivity.
  Qed.

  Lemma search_cfg_gen : search_cfg = cfg_gen cutoff mix alpha 0 (Z.of_nat limit).
  Proof. reflexivity. Qed.

  Lemma winner_terminal p : is_some (snd (Road.winner p)) = is_some (terminal p).
  Proof. unfold terminal. destruct (winner p) as [[c|] [r|]]; reflexivity. Qed.

  (* populate on a leaf of the model tree, through the oracles of the theorem *)
  Lemma populate_st_leaf p m v0 value sims raw probs ch evs nz is_root :
    (is_root && is_some alpha = true -> terminal p = None ->
     exists z, nz = Some z /\
               length z = length (firstn (length (table (size p))) (fst (fst (next_eval evs))))) ->
    let lf := Node p m v0 value sims raw probs None in
    let used := if is_root && is_some alpha then nz else None in
    g_populate_st search_cfg (py_of lf) is_root (mkOst ch evs nz) =
    Ok (py_of (fst (populated cutoff mix used evs lf)), mkOst ch (snd (populated cutoff mix used evs lf)) nz).
  Proof.
    intros Hn lf used. rewrite populate_st_as_pure, search_cfg_gen. unfold st_after, lf.
    change (pn_position (py_of (Node p m v0 value sims raw probs None))) with p.
    rewrite winner_terminal. cbn [populated].
    destruct (terminal p) as [o|] eqn:Ht; cbn [is_some].
    - rewrite (gen_populate_terminal_g _ _ cutoff mix alpha 0 (Z.of_nat limit) p m v0 value sims raw probs o is_root Ht).
      reflexivity.
    - destruct (next_eval evs) as ((rw, v), evs1) eqn:En. cbn [os_evs os_choices os_noise fst snd] in *.
      assert (Hd : is_root && is_some alpha = true ->
                   dir_of (mkOst ch evs nz) (zlen (firstn (length (table (size p))) rw)) alpha =
                   Ok (match nz with Some z => z | None => [] end) /\
                   length (match nz with Some z => z | None => [] end) = length (firstn (length (table (size p))) rw)).
      { intros H. destruct (Hn H eq_refl) as (z & Ez & Hl). subst nz. split; [reflexivity|exact Hl]. }
      assert (He : ev_of (mkOst ch evs nz) p = Ok (rw, v)) by (unfold ev_of; cbn [os_evs]; rewrite En; reflexivity).
      rewrite (gen_populate_expand_g _ _ cutoff mix alpha 0 (Z.of_nat limit) p m v0 value sims raw probs rw v is_root _
                                     Ht He cutoff_pos Hd).
      unfold used. destruct (is_root && is_some alpha) eqn:Er.
      + destruct (Hn eq_refl eq_refl) as (z & Ez & _). subst nz. rewrite En. reflexivity.
      + rewrite En. reflexivity.
  Qed.

  Lemma leaf_kids_none : forall cs t, valid cs t -> n_kids (leaf_of cs t) = None.
  Proof.
    induction cs as [|c r IH]; intros t Hv; inversion Hv; subst; [reflexivity|].
    cbn [leaf_of n_kids]. match goal with H : nth_error ks c = Some k |- _ => rewrite H end. auto.
  Qed.
  Lemma leaf_pos_root t : leaf_of [] t = t.
  Proof. destruct t; reflexivity. Qed.

  Variable noise : option (list Q).
  Hypothesis alpha_noise : is_some alpha = is_some noise.

  (* the Dirichlet sample has the length of the truncated prior vector, where it is used: at an unexpanded,
     non-terminal root *)
  Definition noise_ok (t : node) (evs : list eval) : Prop :=
    forall z, noise = Some z -> n_kids t = None -> terminal (n_pos t) = None ->
              length z = length (firstn (length (table (size (n_pos t)))) (fst (fst (next_eval evs)))).

  (* ---- one pass of the loop body: descend, populate the leaf in place, update the path ---- *)
  Lemma body_ok cs t evs t' v evs' rest fuel0 :
    Good cutoff t -> valid cs t -> simulate cutoff mix cs t noise evs = (t', v, evs') -> noise_ok t evs ->
    (length cs < fuel0)%nat ->
    (t6 <~ g_descend fuel0 search_cfg (py_of t) [] ;;
     t7 <~ lift (py_getitem t6 (Z.opp 1)) ;;
     t8 <~ lift (py_getitem t6 (Z.opp 1)) ;;
     hp <~ g_populate_at search_cfg (py_of t) t7 (place_eqb t8 []) ;;
     hp2 <~ lift (pt_with_stats hp t6 MctsGen.update) ;;
     mret hp2) (mkOst (zs cs ++ rest) evs noise) = Ok (py_of t', mkOst rest evs' noise).
  Proof.
    intros Hg Hv Hs Hno Hf.
    assert (Hd : g_descend fuel0 search_cfg (py_of t) [] (mkOst (zs cs ++ rest) evs noise) =
                 Ok (prefixes [] cs, mkOst rest evs noise)).
    { unfold MctsGen.descend. apply (descend_loop_ok cs t (py_of t) [] [] rest evs noise fuel0 fuel0 Hv Hg eq_refl Hf). }
    rewrite (mbind_ok _ _ _ _ _ Hd).
    assert (Hl : py_getitem (prefixes [] cs) (Z.opp 1) = Ok (zs cs)).
    { change (Z.opp 1) with (-1). rewrite (@py_getitem_last place [] (prefixes [] cs) (prefixes_ne [] cs)).
      rewrite prefixes_last. reflexivity. }
    rewrite (mbind_lift_ok _ _ _ _ Hl), (mbind_lift_ok _ _ _ _ Hl).
    (* populate at the leaf's place *)
    pose proof (sim_decompose cutoff mix cs t noise evs t' v evs' Hv Hs) as (D1 & D2 & D3).
    remember (leaf_of cs t) as lf eqn:Elf.
    assert (Hroot : place_eqb (zs cs) [] = match cs with [] => true | _ :: _ => false end) by (destruct cs; reflexivity).
    assert (Hpa : g_populate_at search_cfg (py_of t) (zs cs) (place_eqb (zs cs) []) (mkOst rest evs noise) =
                  Ok (py_of (graft_h t cs (fst (populated cutoff mix (top_noise cs noise) evs lf))), mkOst rest evs' noise)).
    { unfold MctsGen.populate_at. rewrite (mbind_lift_ok _ _ _ _ (pt_get_valid cs t Hv)). rewrite <- Elf.
      pose proof (leaf_kids_none cs t Hv) as Hk. rewrite <- Elf in Hk.
      destruct lf as [p m v0 value sims raw probs kids]. simpl in Hk. subst kids.
      assert (Hn : place_eqb (zs cs) [] && is_some alpha = true -> terminal p = None ->
                   exists z, noise = Some z /\
                             length z = length (firstn (length (table (size p))) (fst (fst (next_eval evs))))).
      { intros H Ht. rewrite Hroot in H. destruct cs as [|c r]; [|discriminate]. cbn [andb] in H.
        rewrite alpha_noise in H. destruct noise as [z|] eqn:En; [|discriminate]. exists z. split; [reflexivity|].
        rewrite leaf_pos_root in Elf. subst t. apply (Hno z En); [reflexivity|exact Ht]. }
      rewrite (mbind_ok _ _ _ _ _ (populate_st_leaf p m v0 value sims raw probs rest evs noise (place_eqb (zs cs) []) Hn)).
      assert (Eu : (if place_eqb (zs cs) [] && is_some alpha then noise else None) = top_noise cs noise).
      { rewrite Hroot. destruct cs; [|reflexivity]. cbn [andb top_noise]. rewrite alpha_noise. destruct noise; reflexivity. }
      rewrite Eu, D3. unfold lift. rewrite (pt_set_valid cs t _ Hv). reflexivity. }
    rewrite (mbind_ok _ _ _ _ _ Hpa).
    (* update on the path *)
    assert (Hw : pt_with_stats (py_of (graft_h t cs (fst (populated cutoff mix (top_noise cs noise) evs lf))))
                               (prefixes [] cs) MctsGen.update = Ok (py_of t')).
    { unfold pt_with_stats. rewrite prefixes_distinct, D1. cbn [bind].
      rewrite (gen_update_eq cutoff mix cs t noise evs t' v evs' Hv Hs). cbn [bind]. exact D2. }
    rewrite (mbind_lift_ok _ _ _ _ Hw). reflexivity.
  Qed.

  Definition flat (css : list (list nat)) : list Z := concat (map zs css).

  Lemma noise_ok_after cs t evs t' v evs' :
    Good cutoff t -> valid cs t -> simulate cutoff mix cs t noise evs = (t', v, evs') -> noise_ok t' evs'.
  Proof.
    intros Hg Hv Hs z _ Hk Ht.
    destruct (simulate_good cutoff mix cs t noise evs t' v evs' Hg Hv Hs) as (Hg' & Hsim & _).
    destruct (good_leaf_reading cutoff t' Hg' Hk) as [(H0 & _)|(o & Ho & _)]; [lia|congruence].
  Qed.

  (* the choice lists analyze does not use (the limit was reached before them) *)
  Fixpoint unused (css : list (list nat)) (t : node) (evs : list eval) : list (list nat) :=
    match css with
    | [] => []
    | cs :: r =>
      if (limit <=? n_sims t)%nat then css
      else unused r (fst (fst (simulate cutoff mix cs t noise evs))) (snd (simulate cutoff mix cs t noise evs))
    end.

  (* ---- the while loop of analyze_tree ---- *)
  Theorem gen_loop_eq : forall css t evs rest fuel0 fuel,
      Good cutoff t -> valid_analyze cutoff mix limit css t noise evs -> (0 < limit)%nat -> noise_ok t evs ->
      (length css < fuel)%nat -> Forall (fun cs => (length cs < fuel0)%nat) css ->
      g_loop fuel0 fuel search_cfg [] TInf (Z.of_nat limit) (py_of t) (mkOst (flat css ++ rest) evs noise) =
      Ok (py_of (fst (analyze cutoff mix limit css t noise evs)),
          mkOst (flat (unused css t evs) ++ rest) (snd (analyze cutoff mix limit css t noise evs)) noise).
  Proof.
    induction css as [|cs r IH]; intros t evs rest fuel0 fuel Hg Hva Hlim Hno Hf Hfs;
      (destruct fuel as [|fuel]; [simpl in Hf; lia|]); cbn [MctsGen.analyze_tree_while1].
    - (* no choice list left: the limit has been reached *)
      simpl in Hva. rewrite (mbind_ok o_monotonic 0%Q _ _ _ eq_refl). cbn [xt_gt].
      assert (Hl : (0 <? Z.of_nat limit) = true) by (apply Z.ltb_lt; lia). rewrite Hl.
      unfold mbind at 2. unfold mbind at 2. unfold lift at 1. cbn [pt_get].
      destruct (pn_of_fields t) as (_ & _ & _ & _ & Es & _). rewrite Es.
      assert (Hle : (Z.of_nat limit <=? Z.of_nat (n_sims t)) = true) by (apply Z.leb_le; lia). rewrite Hle.
      cbn [mret]. unfold mbind. cbn [analyze fst snd unused]. reflexivity.
    - cbn [valid_analyze] in Hva. cbn [analyze unused].
      rewrite (mbind_ok o_monotonic 0%Q _ _ _ eq_refl). cbn [xt_gt].
      assert (Hl : (0 <? Z.of_nat limit) = true) by (apply Z.ltb_lt; lia). rewrite Hl.
      unfold mbind at 2. unfold mbind at 2. unfold lift at 1. cbn [pt_get].
      destruct (pn_of_fields t) as (_ & _ & _ & _ & Es & _). rewrite Es.
      destruct (limit <=? n_sims t)%nat eqn:El.
      + apply Nat.leb_le in El.
        assert (Hle : (Z.of_nat limit <=? Z.of_nat (n_sims t)) = true) by (apply Z.leb_le; lia). rewrite Hle.
        cbn [mret]. unfold mbind. cbn [fst snd]. reflexivity.
      + apply Nat.leb_gt in El.
        assert (Hle : (Z.of_nat limit <=? Z.of_nat (n_sims t)) = false) by (apply Z.leb_gt; lia). rewrite Hle.
        cbn [mret]. unfold mbind at 1. cbn [fst snd].
        destruct Hva as (Hv & Hva').
        destruct (simulate cutoff mix cs t noise evs) as ((t', v), evs') eqn:Es'. cbn [fst snd] in Hva'.
        inversion Hfs as [|? ? Hf1 Hf2]; subst.
        pose proof (body_ok cs t evs t' v evs' (flat r ++ rest) fuel0 Hg Hv Es' Hno Hf1) as Hb.
        destruct (simulate_good cutoff mix cs t noise evs t' v evs' Hg Hv Es') as (Hg' & _).
        pose proof (IH t' evs' rest fuel0 fuel Hg' Hva' Hlim (noise_ok_after cs t evs t' v evs' Hg Hv Es')
                       ltac:(simpl in Hf; lia) Hf2) as IHe.
        cbn [fst snd]. rewrite <- IHe.
        assert (Ef : flat (cs :: r) ++ rest = zs cs ++ flat r ++ rest).
        { unfold flat. cbn [map concat]. rewrite <- app_assoc. reflexivity. }
        rewrite Ef.
        (* run the body, then the rest of the loop *)
        revert Hb. unfold mbind, lift, mret.
        destruct (g_descend fuel0 search_cfg (py_of t) [] (mkOst (zs cs ++ flat r ++ rest) evs noise)) as [[pth st1]| |];
          try discriminate.
        destruct (py_getitem pth (Z.opp 1)) as [lp| |]; try discriminate.
        destruct (g_populate_at search_cfg (py_of t) lp (place_eqb lp []) st1) as [[hp1 st2]| |]; try discriminate.
        destruct (pt_with_stats hp1 pth MctsGen.update) as [hp2| |]; try discriminate.
        intros Hb. inversion Hb; subst. reflexivity.
  Qed.

  (* ---- analyze_tree, end to end ---- *)
  Theorem gen_analyze_tree_eq css t evs rest fuel :
    Good cutoff t -> valid_analyze cutoff mix limit css t noise evs -> (0 < limit)%nat -> noise_ok t evs ->
    (length css < fuel)%nat -> Forall (fun cs => (length cs < fuel)%nat) css ->
    g_analyze_tree fuel search_cfg (py_of t) [] (mkOst (flat css ++ rest) evs noise) =
    Ok (py_of (fst (analyze cutoff mix limit css t noise evs)),
        mkOst (flat (unused css t evs) ++ rest) (snd (analyze cutoff mix limit css t noise evs)) noise).
  Proof.
    intros Hg Hva Hlim Hno Hf Hfs. unfold MctsGen.analyze_tree.
    rewrite (mbind_ok o_monotonic 0%Q _ _ _ eq_refl).
    cbn [search_cfg cfg_time_limit cfg_simulation_limit]. change (q_ltb (q_of_int 0) 0) with false. cbn iota.
    unfold mbind at 1. cbn [mret].
    pose proof (gen_loop_eq css t evs rest fuel fuel Hg Hva Hlim Hno Hf Hfs) as He.
    unfold mbind. cbn [search_cfg] in He. rewrite He. reflexivity.
  Qed.

  Notation g_analyze := (MctsGen.analyze ostate o_multinomial o_monotonic o_evaluate o_dirichlet F f_sqrt f_mul f_div_int solve C).
  Notation g_select := (MctsGen.select_root_move ostate o_multinomial F f_sqrt f_mul f_div_int solve C).
  Notation g_get_move := (MctsGen.get_move ostate o_multinomial o_monotonic o_evaluate o_dirichlet F f_sqrt f_mul f_div_int solve C).
  Notation g_tree_probs := (MctsGen.tree_probs F f_sqrt f_mul f_div_int solve C).

  (* C08 transported to the regenerated loop: the result is the view of a tree that satisfies the invariant, with
     max(limit, visits before) visits at the searched node (exactly `limit` for a fresh tree) and the position untouched *)
  Theorem gen_analyze_tree_good css t evs rest fuel :
    Good cutoff t -> valid_analyze cutoff mix limit css t noise evs -> (0 < limit)%nat -> noise_ok t evs ->
    (length css < fuel)%nat -> Forall (fun cs => (length cs < fuel)%nat) css ->
    exists t' st', g_analyze_tree fuel search_cfg (py_of t) [] (mkOst (flat css ++ rest) evs noise) = Ok (py_of t', st') /\
                   Good cutoff t' /\ n_sims t' = Nat.max limit (n_sims t) /\ n_pos t' = n_pos t /\
                   pn_simulations (py_of t') = Z.of_nat (Nat.max limit (n_sims t)) /\ pn_position (py_of t') = n_pos t.
  Proof.
    intros Hg Hva Hlim Hno Hf Hfs. eexists. eexists. split; [apply gen_analyze_tree_eq; assumption|].
    destruct (analyze_good cutoff mix limit css t noise evs Hg Hva) as (A & B & Cc).
    destruct (pn_of_fields (fst (analyze cutoff mix limit css t noise evs))) as (Ep & _ & _ & _ & Es & _).
    repeat split; auto. - rewrite Es, B. reflexivity. - rewrite Ep. exact Cc.
  Qed.

  (* MCTS.analyze(p): a new tree on p, searched *)
  Theorem gen_analyze_eq css p evs rest fuel :
    valid_analyze cutoff mix limit css (root p) noise evs -> (0 < limit)%nat -> noise_ok (root p) evs ->
    (length css < fuel)%nat -> Forall (fun cs => (length cs < fuel)%nat) css ->
    g_analyze fuel search_cfg p (mkOst (flat css ++ rest) evs noise) =
    Ok (py_of (fst (analyze cutoff mix limit css (root p) noise evs)),
        mkOst (flat (unused css (root p) evs) ++ rest) (snd (analyze cutoff mix limit css (root p) noise evs)) noise).
  Proof.
    intros Hva Hlim Hno Hf Hfs. unfold MctsGen.analyze.
    change (py_new_root p) with (py_of (root p)).
    rewrite (mbind_ok _ _ _ _ _ (gen_analyze_tree_eq css (root p) evs rest fuel (good_init cutoff p) Hva Hlim Hno Hf Hfs)).
    reflexivity.
  Qed.

  (* select_root_move on an expanded root: one policy, one sample, the sampled child's move - which is legal (C09) *)
  Theorem gen_select_root_move_legal t ks c k rest evs nz :
    Good cutoff t -> n_kids t = Some ks -> nth_error ks c = Some k ->
    g_select (py_of t) [] (mkOst (Z.of_nat c :: rest) evs nz) = Ok (n_move k, mkOst rest evs nz) /\
    exists m, n_move k = Some m /\ In m (table (size (n_pos t))) /\ Tak.move (n_pos t) m = Some (n_pos k).
  Proof.
    intros Hg Hk Hn. split; [|exact (select_root_move_legal cutoff t ks c k Hg Hk Hn)].
    unfold MctsGen.select_root_move. rewrite (mbind_lift_ok (pt_get (py_of t) []) (py_of t)) by reflexivity.
    destruct (good_expanded_visited cutoff t ks Hg Hk) as (j & Hs).
    destruct t as [p m v0 value sims raw probs kids]. simpl in Hk, Hs. subst kids sims.
    set (t0 := Node p m v0 value (S j) raw probs (Some ks)).
    assert (Hi : policy_inputs t0 1%Q = Some (mkPin probs (map (q_of v0) ks) (lambda_sq 1 (S j) (length ks)) (S j) (length ks)))
      by reflexivity.
    destruct (solve_total probs (map (q_of v0) ks)
                          (multiplier F f_sqrt f_mul f_div_int C (Z.of_nat (S j)) (Z.of_nat (length ks)))) as (pol & Hpol).
    assert (Hpp : MctsGen.policy_probs F f_sqrt f_mul f_div_int solve (py_of t0) C = Ok (Some pol)).
    { rewrite (gen_policy_probs_eq F f_sqrt f_mul f_div_int solve t0 ks j C 1%Q _ eq_refl eq_refl Hi).
      cbn [pi_prior pi_q pi_N pi_K]. rewrite Hpol. reflexivity. }
    rewrite (mbind_lift_ok _ _ _ _ Hpp).
    rewrite (mbind_ok (o_multinomial (Some pol)) (Z.of_nat c) _ (mkOst rest evs nz)) by reflexivity.
    assert (Hlt : (c < length ks)%nat) by (apply nth_error_Some; congruence).
    assert (Hch : pt_child (py_of t0) [] (Z.of_nat c) = Ok [Z.of_nat c]).
    { unfold pt_child. cbn [pt_get bind]. unfold t0. cbn [py_of]. unfold pn_children_list. cbn [pn_children bind].
      rewrite py_index_in by (unfold zlen; rewrite map_length; lia). reflexivity. }
    rewrite (mbind_lift_ok _ _ _ _ Hch).
    assert (Hgk : pt_get (py_of t0) [Z.of_nat c] = Ok (py_of k)).
    { rewrite (pt_get_under _ (map py_of ks) c (py_of k) []); [reflexivity|reflexivity|].
      rewrite nth_error_map, Hn. reflexivity. }
    rewrite (mbind_lift_ok _ _ _ _ Hgk). unfold mret.
    destruct (pn_of_fields k) as (_ & Em & _). rewrite Em. reflexivity.
  Qed.

  (* tree_probs: the policy of the node behind the reference *)
  Theorem gen_tree_probs_eq t pl n :
    pt_get (py_of t) pl = Ok n -> g_tree_probs (py_of t) pl = MctsGen.policy_probs F f_sqrt f_mul f_div_int solve n C.
  Proof. intros H. unfold MctsGen.tree_probs. rewrite H. cbn [bind]. destruct (MctsGen.policy_probs _ _ _ _ _ _ _); reflexivity. Qed.

  (* get_move(p) = analyze(p), then select_root_move: with a budget of `limit` > 0 simulations the move returned is
     a legal move of p, whenever the searched root has children (p is not terminal) *)
  Theorem gen_get_move_legal css p evs c rest fuel :
    valid_analyze cutoff mix limit css (root p) noise evs -> (0 < limit)%nat -> noise_ok (root p) evs ->
    (length css < fuel)%nat -> Forall (fun cs => (length cs < fuel)%nat) css -> unused css (root p) evs = [] ->
    forall ks k, n_kids (fst (analyze cutoff mix limit css (root p) noise evs)) = Some ks -> nth_error ks c = Some k ->
    exists m st', g_get_move fuel search_cfg p (mkOst (flat css ++ Z.of_nat c :: rest) evs noise) = Ok (Some m, st') /\
                  In m (table (size p)) /\ Tak.move p m <> None.
  Proof.
    intros Hva Hlim Hno Hf Hfs Hun ks k Hk Hn. unfold MctsGen.get_move.
    rewrite (mbind_ok _ _ _ _ _ (gen_analyze_eq css p evs (Z.of_nat c :: rest) fuel Hva Hlim Hno Hf Hfs)).
    rewrite Hun. cbn [flat map concat app].
    destruct (analyze_good cutoff mix limit css (root p) noise evs (good_init cutoff p) Hva) as (Hg' & _ & Hp').
    set (t' := fst (analyze cutoff mix limit css (root p) noise evs)) in *.
    destruct (gen_select_root_move_legal t' ks c k rest (snd (analyze cutoff mix limit css (root p) noise evs)) noise Hg' Hk Hn)
      as (Hsel & m & Em & Hin & Hm).
    rewrite (mbind_ok _ _ _ _ _ Hsel). exists m. eexists. rewrite Em. split; [reflexivity|].
    simpl in Hp'. rewrite Hp' in Hin, Hm. split; [exact Hin|]. rewrite Hm. discriminate.
  Qed.
End Search.

(* Example: the hypotheses of the end-to-end theorem are inhabited (3x3 start, uniform evaluator, 4 simulations,
   no noise), and the regenerated loop, run by vm_compute, gives 4 visits *)
Example ex_search_hyps :
  Good ex_cutoff (root start3) /\ valid_analyze ex_cutoff ex_mix 4 ex_css (root start3) None (repeat uniform3 4) /\
  noise_ok None (root start3) (repeat uniform3 4) /\ (length ex_css < 9)%nat /\ Forall (fun cs => (length cs < 9)%nat) ex_css.
Proof.
  split; [apply good_init|]. split; [apply ex_valid_analyze|]. split; [intros z H; discriminate|].
  split; [simpl; lia|]. repeat constructor; simpl; lia.
Qed.
Example ex_search_run :
  match MctsGen.analyze_tree ostate o_multinomial o_monotonic o_evaluate o_dirichlet Q (fun z => inject_Z z) Qmult
                             (fun x d => (x / inject_Z d)%Q) (fun pi _ _ => Ok pi) 4%Q 9
                             (search_cfg ex_cutoff ex_mix None 4) (py_of (root start3)) []
                             (mkOst (flat ex_css) (repeat uniform3 4) None) with
  | Ok (r, st) => (pn_simulations r =? 4) && Qeq_bool (pn_value r) 0
  | _ => false
  end = true.
Proof. vm_compute. reflexivity. Qed.
