(* Compositions across properties (work package X), search-tree side:

   C08 + C03 + C01  children_are_rulebook_moves
       the children of an expanded node of the search tree (C08's invariant
       `Good`) are exactly the canonical moves the RULEBOOK relation of C01
       allows whose prior at the move's id (C03/C07's id table) reaches the
       cutoff, each once, and every child holds THE successor the rulebook
       prescribes.
   C09 + C10        policy_meets_solver_contract
       the inputs `policy_inputs` hands to the solver at such a node satisfy
       the hypothesis `Hyp` of C10's theorems, hence C10's conclusions hold
       for them (exact arithmetic, Python exit rule). *)
From Coq Require Import ZArith QArith Qabs List Bool Lia Lqa.
From TV Require Import model.Tak model.Road model.Mcts model.Solver.
From TV Require Import proofs.ListUtil proofs.Table proofs.MoveId spec.MoveSpec spec.Rules.
From TV Require proofs.MoveRules proofs.Generator proofs.Compose proofs.MctsProofs proofs.SolverProofs.
Import ListNotations.

(* ================================================================== *)
(* 1. C08 + C03 + C01                                                  *)
(* ================================================================== *)
Open Scope Z_scope.

(* the prior the node was expanded with, AT THE ID OF THE MOVE m (ids are
   positions in the table of the board size: encode_move, C03/C07) *)
Definition prior_at (raw : list Q) (n : Z) (m : mv) : option Q :=
  match encode_move n m with
  | Some i => nth_error raw (Z.to_nat i)
  | None => None
  end.

Lemma nth_error_table_encode n m i :
  nth_error (table n) i = Some m <-> encode_move n m = Some (Z.of_nat i).
Proof.
  split; intros H.
  - apply decode_encode_move. unfold decode_move.
    destruct (Z.of_nat i <? 0) eqn:E; [apply Z.ltb_lt in E; lia|]. rewrite Nat2Z.id. exact H.
  - apply encode_decode_move in H. unfold decode_move in H.
    destruct (Z.of_nat i <? 0) eqn:E; [discriminate|]. rewrite Nat2Z.id in H. exact H.
Qed.

Lemma prior_at_spec raw n m q :
  prior_at raw n m = Some q <->
  exists i, nth_error (table n) i = Some m /\ nth_error raw i = Some q.
Proof.
  unfold prior_at. split.
  - destruct (encode_move n m) as [i|] eqn:E; [|discriminate]. intros H.
    pose proof (encode_decode_move _ _ _ E) as D. pose proof (decode_move_range _ _ _ D) as R.
    exists (Z.to_nat i). split; [|exact H].
    apply nth_error_table_encode. rewrite Z2Nat.id by lia. exact E.
  - intros (i & Ht & Hr). apply nth_error_table_encode in Ht. rewrite Ht, Nat2Z.id. exact Hr.
Qed.

Section Children.
  Variable cutoff : Q.
  Notation Good := (MctsProofs.Good cutoff).

  Theorem children_are_rulebook_moves n ks :
    Good n -> n_kids n = Some ks -> Rules.wf_pos (n_pos n) ->
    (* every child carries a move; no move twice *)
    Forall (fun k => n_move k <> None) ks /\ NoDup (map n_move ks) /\
    (* the moves of the children are exactly the canonical rulebook-legal
       moves whose prior (at the move's id) reaches the cutoff *)
    (forall m, In (Some m) (map n_move ks) <->
               Generator.canonical m /\ (exists p', legal_step (n_pos n) m p') /\
               exists q, prior_at (n_raw n) (size (n_pos n)) m = Some q /\ (cutoff <= q)%Q) /\
    (* each child's position is the successor the rulebook prescribes *)
    (forall k, In k ks -> exists m, n_move k = Some m /\ legal_step (n_pos n) m (n_pos k)).
  Proof.
    intros Hg Hk Hwf.
    destruct (MctsProofs.children_one_to_one cutoff n ks Hg Hk) as (Hmoves & Hnd & Hiff).
    assert (Hsz : 0 <= size (n_pos n)) by (destruct Hwf as (? & _); lia).
    assert (Hchild : forall k, In k ks -> exists m, n_move k = Some m /\ In m (table (size (n_pos n))) /\
                                                    move (n_pos n) m = Some (n_pos k)).
    { intros k Hin. apply In_nth_error in Hin. destruct Hin as (i & Hi).
      exact (MctsProofs.select_root_move_legal cutoff n ks i k Hg Hk Hi). }
    split; [|split; [exact Hnd|split]].
    - apply Forall_forall. intros k Hin. destruct (Hchild k Hin) as (m & E & _). congruence.
    - intros m. split.
      + intros Hin. apply in_map_iff in Hin. destruct Hin as (k & Ek & Hin).
        assert (Hkey : In (Some m, n_pos k) (map MctsProofs.n_key ks)).
        { apply in_map_iff. exists k. split; [|exact Hin]. unfold MctsProofs.n_key. rewrite Ek. reflexivity. }
        apply Hiff in Hkey. destruct Hkey as (q & (i & Hti & Hri) & Hq & Hmv).
        split; [|split].
        * apply (Generator.table_canonical (size (n_pos n))); [exact Hsz|]. eapply nth_error_In; exact Hti.
        * exists (n_pos k). apply MoveRules.move_sound; assumption.
        * exists q. split; [|exact Hq]. apply prior_at_spec. exists i. split; assumption.
      + intros (_ & (p' & Hstep) & q & Hpr & Hq).
        apply prior_at_spec in Hpr. apply (MoveRules.move_complete _ _ _ Hwf) in Hstep.
        assert (Hkey : In (Some m, p') (map MctsProofs.n_key ks)).
        { apply Hiff. exists q. split; [exact Hpr|]. split; assumption. }
        apply in_map_iff in Hkey. destruct Hkey as (k & Ek & Hin).
        apply in_map_iff. exists k. split; [|exact Hin].
        unfold MctsProofs.n_key in Ek. congruence.
    - intros k Hin. destruct (Hchild k Hin) as (m & E & _ & Hmv). exists m. split; [exact E|].
      apply MoveRules.move_sound; assumption.
  Qed.

  (* the same through C03's reading of "the table entries the code accepts":
     children = filter by (accepted /\ prior >= cutoff) of the table, and the
     accepted table entries are the rulebook's moves (Compose.table_filter_is_rulebook) *)
  Corollary children_within_rulebook_filter n ks :
    Good n -> n_kids n = Some ks -> Rules.wf_pos (n_pos n) ->
    forall m, In (Some m) (map n_move ks) ->
              In m (filter (Generator.accepted (n_pos n)) (table (size (n_pos n)))).
  Proof.
    intros Hg Hk Hwf m Hin.
    destruct (children_are_rulebook_moves n ks Hg Hk Hwf) as (_ & _ & Hiff & _).
    apply Hiff in Hin. destruct Hin as (Hc & Hl & _).
    apply (Compose.table_filter_is_rulebook _ Hwf). split; assumption.
  Qed.
End Children.

(* the hypotheses are satisfiable: the searched 3x3 tree of MctsProofs *)
Example ex_start3_wf : Rules.wf_pos MctsProofs.start3.
Proof.
  split; [|split].
  - vm_compute. split; discriminate.
  - vm_compute. reflexivity.
  - repeat constructor.
Qed.

Example ex_children_rulebook :
  exists ks, n_kids MctsProofs.ex_tree = Some ks /\ length ks = 9%nat /\
             MctsProofs.Good MctsProofs.ex_cutoff MctsProofs.ex_tree /\
             Rules.wf_pos (n_pos MctsProofs.ex_tree).
Proof.
  destruct MctsProofs.ex_tree_kids as (ks & Hk & Hl & _).
  destruct MctsProofs.ex_tree_good as (Hg & _ & Hp).
  exists ks. repeat split; try assumption; rewrite Hp; apply ex_start3_wf.
Qed.

(* ================================================================== *)
(* 4. C09 + C10                                                        *)
(* ================================================================== *)
Open Scope Q_scope.

Lemma Qsum_sumq l : SolverProofs.Qsum l = sumq l.
Proof. reflexivity. Qed.

(* lambda^2 = C^2 N / (N+K)^2 <= C^2: the multiplier never exceeds C *)
Lemma lambda_sq_le C N K : lambda_sq C (S N) K <= C * C.
Proof.
  unfold lambda_sq.
  pose proof (MctsProofs.qnat_pos N) as HN.
  assert (HNK : 0 < qnat (S N + K)) by (simpl; apply MctsProofs.qnat_pos).
  pose proof (MctsProofs.qnat_plus (S N) K) as Hp. pose proof (MctsProofs.qnat_nonneg K) as HK.
  pose proof (MctsProofs.qnat_S N) as HS. pose proof (MctsProofs.qnat_nonneg N) as HN0.
  assert (Hden : 0 < qnat (S N + K) * qnat (S N + K)) by (apply Qmult_lt_0_compat; assumption).
  apply Qle_shift_div_r; [exact Hden|].
  assert (H1 : qnat (S N) <= qnat (S N + K) * qnat (S N + K)).
  { assert (1 <= qnat (S N + K)) by lra.
    assert (qnat (S N + K) * 1 <= qnat (S N + K) * qnat (S N + K)).
    { apply Qmult_le_l; assumption. }
    lra. }
  assert (H0 : 0 <= C * C).
  { destruct (Qlt_le_dec C 0) as [Hn|Hp'].
    - setoid_replace (C * C) with ((- C) * (- C)) by ring. apply Qmult_le_0_compat; lra.
    - apply Qmult_le_0_compat; assumption. }
  setoid_replace (C * C * qnat (S N)) with (qnat (S N) * (C * C)) by ring.
  setoid_replace (C * C * (qnat (S N + K) * qnat (S N + K))) with (qnat (S N + K) * qnat (S N + K) * (C * C)) by ring.
  apply Qmult_le_compat_r; assumption.
Qed.

(* a positive multiplier whose square is within the correspondence's relative
   tolerance (call_agrees: 1e-12) of the model's lambda^2 is in C10's range
   (0, 1024] whenever C <= 1000 (Config.C = 4 by default) *)
Lemma multiplier_in_range C N K lam :
  0 < C -> C <= 1000 -> 0 < lam ->
  lam * lam <= (1 + (1 # 1000000000000)) * lambda_sq C (S N) K ->
  0 < lam /\ lam <= 1024.
Proof.
  intros HC0 HC Hl Hsq. split; [exact Hl|].
  pose proof (lambda_sq_le C N K) as Hle.
  assert (HCC : C * C <= 1000 * 1000).
  { assert (C * C <= C * 1000) by (apply Qmult_le_l; assumption).
    assert (C * 1000 <= 1000 * 1000) by (apply Qmult_le_compat_r; [assumption|lra]). lra. }
  destruct (Qlt_le_dec 1024 lam) as [Hgt|Hok]; [|exact Hok]. exfalso.
  assert (1024 * 1024 < lam * lam).
  { assert (1024 * 1024 < lam * 1024) by (apply Qmult_lt_compat_r; lra).
    assert (lam * 1024 < lam * lam) by (apply Qmult_lt_l; assumption). lra. }
  lra.
Qed.

Section Policy.
  Variable cutoff : Q.
  Notation Good := (MctsProofs.Good cutoff).
  Notation Bounded := MctsProofs.Bounded.

  (* C09's three facts are exactly C10's hypothesis *)
  Theorem policy_inputs_hyp n ks C lam :
    0 < cutoff -> Good n -> Bounded n -> n_kids n = Some ks ->
    live cutoff (n_pos n) (n_raw n) = true ->
    0 < lam /\ lam <= 1024 ->
    exists i, policy_inputs n C = Some i /\
              pi_prior i = n_probs n /\ pi_q i = map (q_of (n_v0 n)) ks /\
              pi_N i = n_sims n /\ pi_K i = length ks /\ (1 <= pi_N i)%nat /\
              length (pi_prior i) = length ks /\
              SolverProofs.Hyp lam (pi_prior i) (pi_q i).
  Proof.
    intros Hc Hg Hb Hk Hl Hlam.
    destruct (MctsProofs.prior_is_distribution cutoff n ks Hc Hg Hk Hl) as (Hpos & Hsum & Hlen).
    pose proof (MctsProofs.q_in_range cutoff n ks Hg Hb Hk) as Hq.
    destruct (MctsProofs.good_expanded_visited cutoff n ks Hg Hk) as (j & Hj).
    destruct n as [p m v0 value sims raw probs kids]. simpl in Hk. subst kids. simpl in *.
    eexists. split; [reflexivity|]. simpl.
    split; [reflexivity|]. split; [reflexivity|]. split; [reflexivity|]. split; [reflexivity|].
    split; [lia|]. split; [exact Hlen|].
    constructor.
    - rewrite map_length. exact Hlen.
    - exact Hpos.
    - exact Hsum.
    - apply Forall_forall. intros x Hx. apply in_map_iff in Hx. destruct Hx as (k & <- & Hin).
      eapply Forall_forall in Hq; [|exact Hin]. exact Hq.
    - exact Hlam.
  Qed.

  (* ... hence C10's conclusions (Python exit rule, exact arithmetic) *)
  Theorem policy_meets_solver_contract n ks C lam :
    0 < cutoff -> Good n -> Bounded n -> n_kids n = Some ks ->
    live cutoff (n_pos n) (n_raw n) = true ->
    0 < lam /\ lam <= 1024 ->
    exists i, policy_inputs n C = Some i /\
      pi_prior i = n_probs n /\ pi_q i = map (q_of (n_v0 n)) ks /\ (1 <= pi_N i)%nat /\
      SolverProofs.Hyp lam (pi_prior i) (pi_q i) /\
      solve_python_Q lam (pi_prior i) (pi_q i) <> OutOfIters /\
      exists k a w,
        solve_python_Q lam (pi_prior i) (pi_q i) = Returned k a w /\ (1 <= k <= 32)%nat /\
        SolverProofs.above (pi_q i) a /\
        w = map (fun pq => lam * fst pq / (a - snd pq)) (combine (pi_prior i) (pi_q i)) /\
        Forall (fun x => 0 < x) w /\ length w = length ks /\
        (Qabs (1 - SolverProofs.Qsum w) <= EPS_Q \/
         ((forall x, SolverProofs.above (pi_q i) x -> x < a - TOL_Q ->
                     1 < SolverProofs.f lam (pi_prior i) (pi_q i) x) /\
          (forall x, a + TOL_Q < x -> SolverProofs.f lam (pi_prior i) (pi_q i) x < 1))).
  Proof.
    intros Hc Hg Hb Hk Hl Hlam.
    destruct (policy_inputs_hyp n ks C lam Hc Hg Hb Hk Hl Hlam)
      as (i & Ei & Epr & Eq & _ & _ & HN & Hlen & Hyp).
    exists i. split; [exact Ei|]. split; [exact Epr|]. split; [exact Eq|]. split; [exact HN|].
    split; [exact Hyp|]. split; [apply SolverProofs.python_terminates; exact Hyp|].
    destruct (SolverProofs.python_output_form _ _ _ Hyp) as (k & a & w & R & Hk' & Ha & Ew & Pw).
    exists k, a, w. split; [exact R|]. split; [exact Hk'|]. split; [exact Ha|]. split; [exact Ew|].
    split; [exact Pw|]. split.
    - rewrite Ew, map_length, combine_length, Hlen, Eq, map_length. apply Nat.min_id.
    - exact (SolverProofs.python_output_sum _ _ _ _ _ _ Hyp R).
  Qed.
End Policy.

(* the hypotheses are satisfiable: the searched 3x3 tree (4 visits, 9 children), C = 4, and a
   multiplier within the correspondence's tolerance of lambda^2 = 16*4/13^2 (lambda = 8/13) *)
Example ex_policy_contract :
  let lam := 8 # 13 in
  0 < MctsProofs.ex_cutoff /\
  MctsProofs.Good MctsProofs.ex_cutoff MctsProofs.ex_tree /\ MctsProofs.Bounded MctsProofs.ex_tree /\
  (exists ks, n_kids MctsProofs.ex_tree = Some ks /\
              live MctsProofs.ex_cutoff (n_pos MctsProofs.ex_tree) (n_raw MctsProofs.ex_tree) = true) /\
  (0 < lam /\ lam <= 1024) /\
  lam * lam == lambda_sq 4 (n_sims MctsProofs.ex_tree) 9.
Proof.
  cbv zeta. split; [reflexivity|]. split; [apply MctsProofs.ex_tree_good|].
  split; [apply MctsProofs.ex_tree_bounded|].
  destruct MctsProofs.ex_tree_kids as (ks & Hk & _ & Hl).
  split; [exists ks; split; assumption|]. split; [split; [reflexivity|discriminate]|].
  vm_compute. reflexivity.
Qed.
