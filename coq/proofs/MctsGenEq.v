(* T08: the functions regenerated from python/tak/mcts.py (gen/MctsGen.v:
   MCTS.update, Node.policy_probs, the pure part of MCTS.populate) are EQUAL to
   what model/Mcts.v's `simulate` / `policy_inputs` do.  The proofs are about
   the generated text: a change of the source that changes the meaning makes
   them fail. *)
From Coq Require Import ZArith QArith Qabs List Bool Lia Lqa.
From Coq Require Import Floats.SpecFloat.
From TV Require Import model.Tak model.Road model.PySem model.Mcts model.MctsSem model.Solver model.LambdaF64.
From TV Require Import proofs.ListUtil proofs.Table proofs.PySemLemmas proofs.MctsProofs.
From TV Require gen.MctsGen.
Import ListNotations.
Open Scope Z_scope.

(* ================================================================== *)
(* (a) MCTS.update = the backup half of `simulate`                     *)
(* ================================================================== *)
(* the nodes of a descent path, the searched node first *)
Fixpoint path_nodes (cs : list nat) (n : node) : list node :=
  n :: match cs, n_kids n with
       | c :: rest, Some ks => match nth_error ks c with Some k => path_nodes rest k | None => [] end
       | _, _ => []
       end.

(* what update() finds: populate has run (the leaf's v_zero is the new one),
   values and visit counts are still the old ones *)
Definition pre_stat (old new : node) : pystat :=
  mkPyStat (n_v0 new) (n_value old) (Z.of_nat (n_sims old)).
Definition pre_update (cs : list nat) (n n' : node) : list pystat :=
  map (fun ab => pre_stat (fst ab) (snd ab)) (combine (path_nodes cs n) (path_nodes cs n')).

Definition bump (x : pystat) (v : Q) : pystat :=
  set_ps_simulations (set_ps_value x (Qplus (ps_value x) v)) (Z.add (ps_simulations x) 1).

Lemma update_for1_app v l x :
  MctsGen.update_for1 v (l ++ [x]) =
  (Qopp (fst (MctsGen.update_for1 v l)), snd (MctsGen.update_for1 v l) ++ [bump x (fst (MctsGen.update_for1 v l))]).
Proof.
  revert v. induction l as [|a l IH]; intros v; simpl.
  - reflexivity.
  - rewrite IH. destruct (MctsGen.update_for1 (Qopp v) l) as (v1, o1). reflexivity.
Qed.

Lemma path_nodes_cons cs n : exists t, path_nodes cs n = n :: t.
Proof. destruct cs; simpl; eauto. Qed.

Lemma pre_update_cons cs n n' : exists t, pre_update cs n n' = pre_stat n n' :: t.
Proof.
  unfold pre_update. destruct (path_nodes_cons cs n) as (t1 & E1), (path_nodes_cons cs n') as (t2 & E2).
  rewrite E1, E2. simpl. eauto.
Qed.

Lemma nth_error_upd_nth_same {A} (l : list A) i x a : nth_error l i = Some x -> nth_error (upd_nth l i a) i = Some a.
Proof.
  revert i; induction l as [|h t IH]; intros [|i] H; simpl in *; try discriminate; auto.
Qed.

Lemma last_indep_ne {A} (l : list A) d1 d2 : l <> [] -> last l d1 = last l d2.
Proof.
  induction l as [|a l IH]; intros H; [congruence|]. destruct l as [|b l]; [reflexivity|].
  change (last (b :: l) d1 = last (b :: l) d2). apply IH. discriminate.
Qed.

Lemma of_nat_S k : Z.of_nat (S k) = Z.of_nat k + 1.
Proof. lia. Qed.

Ltac stat_norm :=
  unfold bump, pre_stat, stat_of;
  cbn [n_v0 n_value n_sims ps_v_zero ps_value ps_simulations set_ps_value set_ps_simulations fst snd];
  rewrite ?of_nat_S.
Ltac leaf_case :=
  unfold pre_update; cbn [path_nodes combine map fst snd last rev app MctsGen.update_for1];
  stat_norm; reflexivity.

Section Update.
  Variable cutoff mix : Q.

  (* the loop, run over the reversed path, yields the statistics of the new tree's path (reversed) and hands
     minus the credited value upwards *)
  Lemma update_loop : forall cs n noise evs n' v evs',
      valid cs n -> simulate cutoff mix cs n noise evs = (n', v, evs') ->
      MctsGen.update_for1 (ps_v_zero (last (pre_update cs n n') (pre_stat n n'))) (rev (pre_update cs n n')) =
      (Qopp v, rev (map stat_of (path_nodes cs n'))).
  Proof.
    induction cs as [|c rest IH]; intros n noise evs n' v evs' Hv Hs; inversion Hv; subst; simpl in Hs.
    - (* the leaf *)
      destruct (terminal p) as [o|] eqn:Ht.
      + inversion Hs; subst. leaf_case.
      + destruct (next_eval evs) as (e, evs1). inversion Hs; subst. leaf_case.
    - (* an inner node *)
      match goal with H : nth_error ks c = Some k |- _ => rewrite H in Hs; rename H into Hn end.
      destruct (simulate cutoff mix rest k None evs) as ((k', vk), evs1) eqn:Ek.
      inversion Hs; subst. clear Hs.
      match goal with H : valid rest k |- _ => pose proof (IH k None evs k' vk evs' H Ek) as IHk end.
      set (n0 := Node p m v0 value sims raw probs (Some ks)) in *.
      set (n1 := Node p m v0 (value + - vk)%Q (S sims) raw probs (Some (upd_nth ks c k'))) in *.
      assert (E1 : path_nodes (c :: rest) n0 = n0 :: path_nodes rest k) by (simpl; rewrite Hn; reflexivity).
      assert (E2 : path_nodes (c :: rest) n1 = n1 :: path_nodes rest k').
      { simpl. rewrite (nth_error_upd_nth_same _ _ _ _ Hn). reflexivity. }
      assert (E3 : pre_update (c :: rest) n0 n1 = pre_stat n0 n1 :: pre_update rest k k').
      { unfold pre_update. rewrite E1, E2. reflexivity. }
      rewrite E3, E2. destruct (pre_update_cons rest k k') as (t & Et).
      assert (El : last (pre_stat n0 n1 :: pre_update rest k k') (pre_stat n0 n1) =
                   last (pre_update rest k k') (pre_stat k k')).
      { rewrite Et. change (last (pre_stat k k' :: t) (pre_stat n0 n1) = last (pre_stat k k' :: t) (pre_stat k k')).
        apply last_indep_ne. discriminate. }
      rewrite El. cbn [rev map]. rewrite update_for1_app, IHk. cbn [fst snd].
      unfold n0, n1. stat_norm. reflexivity.
  Qed.

  (* MCTS.update on the path as populate left it gives exactly the statistics `simulate` computes *)
  Theorem gen_update_eq : forall cs n noise evs n' v evs',
      valid cs n -> simulate cutoff mix cs n noise evs = (n', v, evs') ->
      MctsGen.update (pre_update cs n n') = Ok (map stat_of (path_nodes cs n')).
  Proof.
    intros cs n noise evs n' v evs' Hv Hs. unfold MctsGen.update.
    destruct (pre_update_cons cs n n') as (t & Et).
    change (Z.opp 1) with (-1). rewrite (py_getitem_last (pre_stat n n')) by (rewrite Et; discriminate).
    simpl bind. rewrite (update_loop cs n noise evs n' v evs' Hv Hs). simpl. rewrite rev_involutive. reflexivity.
  Qed.
End Update.

(* ================================================================== *)
(* (b) Node.policy_probs = policy_inputs handed to the solver          *)
(* ================================================================== *)
Lemma pn_of_fields n :
  pn_position (py_of n) = n_pos n /\ pn_move (py_of n) = n_move n /\ pn_v_zero (py_of n) = n_v0 n /\
  pn_value (py_of n) = n_value n /\ pn_simulations (py_of n) = Z.of_nat (n_sims n) /\
  pn_child_probs (py_of n) = match n_kids n with None => None | Some _ => Some (n_probs n) end /\
  pn_children (py_of n) = match n_kids n with None => None | Some ks => Some (map py_of ks) end.
Proof. destruct n as [p m v0 value sims raw probs [ks|]]; simpl; repeat split; reflexivity. Qed.

Section PolicyProbs.
  Variable F : Type.
  Variable f_sqrt : Z -> F.
  Variable f_mul : F -> F -> F.
  Variable f_div_int : F -> Z -> F.
  Variable solve : list Q -> list Q -> F -> res (list Q).
  Notation gen_pp := (MctsGen.policy_probs F f_sqrt f_mul f_div_int solve).

  (* the multiplier expression of the source, on the abstract float operations *)
  Definition multiplier (c : F) (N K : Z) : F := f_div_int (f_mul c (f_sqrt N)) (N + K).

  Lemma q_list_eq v0 ks :
    py_mapM (fun x_c : pynode =>
               t3 <- (if 0 <? pn_simulations x_c
                      then t2 <- py_truediv (Qopp (pn_value x_c)) (q_of_int (pn_simulations x_c)) ;; Ok t2
                      else Ok v0) ;; Ok t3) (map py_of ks) = Ok (map (q_of v0) ks).
  Proof.
    induction ks as [|k ks IH]; [reflexivity|]. cbn [map py_mapM].
    destruct (pn_of_fields k) as (_ & _ & _ & Ev & Es & _). rewrite Es, Ev.
    assert (E : (t3 <- (if 0 <? Z.of_nat (n_sims k)
                        then t2 <- py_truediv (Qopp (n_value k)) (q_of_int (Z.of_nat (n_sims k))) ;; Ok t2
                        else Ok v0) ;; Ok t3) = Ok (q_of v0 k)).
    { unfold q_of. destruct (n_sims k) as [|j] eqn:Ej.
      - reflexivity.
      - assert (Hlt : (0 <? Z.of_nat (S j)) = true) by (apply Z.ltb_lt; lia). rewrite Hlt.
        unfold py_truediv, q_of_int.
        assert (Hz : Qeq_bool (inject_Z (Z.of_nat (S j))) 0 = false).
        { apply not_true_is_false. intros H. apply Qeq_bool_eq in H. unfold Qeq in H. simpl in H. lia. }
        rewrite Hz. reflexivity. }
    rewrite E. cbn [bind]. rewrite IH. reflexivity.
  Qed.

  (* before any visit: the prior, no solver call *)
  Theorem gen_policy_probs_unvisited n c :
    n_sims n = 0%nat -> gen_pp (py_of n) c = Ok (pn_child_probs (py_of n)).
  Proof.
    intros H. unfold MctsGen.policy_probs. destruct (pn_of_fields n) as (_ & _ & _ & _ & Es & _).
    rewrite Es, H. reflexivity.
  Qed.

  (* at a visited node with children: ONE solver call, with the child priors, the q of policy_inputs and the
     multiplier expression on N = simulations, K = number of children *)
  Theorem gen_policy_probs_eq n ks j c C i :
    n_sims n = S j -> n_kids n = Some ks -> policy_inputs n C = Some i ->
    gen_pp (py_of n) c =
    (r <- solve (pi_prior i) (pi_q i) (multiplier c (Z.of_nat (pi_N i)) (Z.of_nat (pi_K i))) ;; Ok (Some r)).
  Proof.
    intros Hs Hk Hi. destruct n as [p m v0 value sims raw probs kids]. simpl in Hs, Hk. subst kids sims.
    simpl in Hi. inversion Hi; subst i. clear Hi. cbn [pi_prior pi_q pi_N pi_K].
    unfold MctsGen.policy_probs. cbn [py_of pn_simulations pn_child_probs pn_children pn_v_zero].
    assert (Hz : (Z.of_nat (S j) =? 0) = false) by (apply Z.eqb_neq; lia). rewrite Hz.
    cbn [py_iter_opt bind]. rewrite q_list_eq. cbn [bind py_len_opt].
    unfold py_fdiv_int.
    assert (Hd : (Z.of_nat (S j) + zlen (map py_of ks) =? 0) = false).
    { apply Z.eqb_neq. unfold zlen. lia. }
    rewrite Hd. cbn [bind py_tensor_arg]. unfold multiplier, zlen. rewrite map_length. reflexivity.
  Qed.

  (* a visited node without children (a terminal node): `for c in self.children` raises TypeError *)
  Theorem gen_policy_probs_terminal n j c :
    n_sims n = S j -> n_kids n = None -> gen_pp (py_of n) c = Crash TypeError.
  Proof.
    intros Hs Hk. destruct n as [p m v0 value sims raw probs kids]. simpl in Hs, Hk. subst.
    unfold MctsGen.policy_probs. cbn [py_of pn_simulations pn_child_probs pn_children].
    assert (Hz : (Z.of_nat (S j) =? 0) = false) by (apply Z.eqb_neq; lia). rewrite Hz. reflexivity.
  Qed.
End PolicyProbs.

(* with binary64 operations the multiplier expression is model/LambdaF64.v's lambda64 *)
Theorem multiplier_is_lambda64 c N K :
  multiplier spec_float (fun z => SFsqrt prec64 emax64 (b64_of_Z z)) (SFmul prec64 emax64)
             (fun x d => SFdiv prec64 emax64 x (b64_of_Z d)) c N K = lambda64 c N K.
Proof. reflexivity. Qed.

(* ================================================================== *)
(* (c) MCTS.populate = the expansion half of `simulate`                *)
(* ================================================================== *)
Lemma moves_of_size_eq s : moves_of_size s = table s.
Proof.
  unfold moves_of_size. destruct ((0 <=? s) && (s <=? 6)) eqn:E; [|reflexivity].
  apply andb_true_iff in E. destruct E as (E1 & E2). apply Z.leb_le in E1. apply Z.leb_le in E2.
  assert (H : s = 0 \/ s = 1 \/ s = 2 \/ s = 3 \/ s = 4 \/ s = 5 \/ s = 6) by lia.
  unfold MOVES_BY_SIZE. destruct H as [H|[H|[H|[H|[H|[H|H]]]]]]; subst s; reflexivity.
Qed.
Lemma py_decode_move_eq s i : py_decode_move s i = match decode_move s i with Some m => Ok m | None => Crash IndexError end.
Proof. unfold py_decode_move, decode_move. rewrite moves_of_size_eq. reflexivity. Qed.

Lemma ft_slice_table raw s : ft_slice_to raw (n_moves_for_size s) = firstn (length (table s)) raw.
Proof.
  unfold ft_slice_to, n_moves_for_size. rewrite py_slice_prefix by (unfold zlen; lia).
  unfold zlen. rewrite Nat2Z.id. reflexivity.
Qed.

Lemma ft_add_scale s t : forall a b, length a = length b ->
  ft_add (ft_scale s a) (ft_scale t b) = Ok (map (fun zr => (s * fst zr + t * snd zr)%Q) (combine a b)).
Proof.
  induction a as [|x a IH]; intros [|y b] H; simpl in *; try discriminate; [reflexivity|].
  rewrite IH by lia. reflexivity.
Qed.

Lemma py_getitem_mid {A} (a : list A) x b : py_getitem (a ++ x :: b) (Z.of_nat (length a)) = Ok x.
Proof.
  unfold py_getitem. rewrite py_index_in.
  - rewrite Nat2Z.id, nth_error_app2 by lia. rewrite Nat.sub_diag. reflexivity.
  - unfold zlen. rewrite app_length. simpl. lia.
Qed.

Lemma set_children_twice n a b : set_pn_children (set_pn_children n a) b = set_pn_children n b.
Proof. destruct n; reflexivity. Qed.
Lemma set_children_same n k : pn_children n = Some k -> set_pn_children n (Some k) = n.
Proof. destruct n; simpl; intros H; subst; reflexivity. Qed.

Section Populate.
  Variable evaluate : position -> res (list Q * Q).
  Variable dirichlet : Z -> option Q -> res (list Q).
  Variable cutoff mix : Q.
  Variable alpha : option Q.
  (* the fields populate reads; the two budget fields (read by analyze_tree only) are arbitrary *)
  Variable budget_t : Q.
  Variable budget_n : Z.
  Definition cfg_gen : pyconfig := mkPyConfig cutoff alpha mix budget_t budget_n.
  Notation gen_populate := (MctsGen.populate evaluate dirichlet cfg_gen).

  (* terminal test: v_zero = +1 / -1 / 0 for the side to move, nothing else changes, no evaluation *)
  Theorem gen_populate_terminal_g p m v0 value sims raw probs o is_root :
    terminal p = Some o ->
    gen_populate (py_of (Node p m v0 value sims raw probs None)) is_root =
    Ok (py_of (Node p m o value sims raw probs None)).
  Proof.
    intros Ht. unfold MctsGen.populate. cbn [py_of pn_position]. unfold terminal in Ht.
    destruct (winner p) as [w [r|]]; [|destruct w; discriminate]. cbn [is_some].
    destruct w as [c|]; inversion Ht; subst o; clear Ht; cbn [opt_color_is].
    - destruct (color_eqb c (to_move p)) eqn:Ec; [reflexivity|].
      assert (Ef : color_eqb c (flip (to_move p)) = true) by (destruct c, (to_move p); simpl in *; congruence).
      rewrite Ef. reflexivity.
    - reflexivity.
  Qed.

  (* the ids the loop keeps: prior >= cutoff and the rules accept the move *)
  Fixpoint acc_ids (p : position) (k : Z) (l : list (mv * Q)) : list Z :=
    match l with
    | [] => []
    | mq :: t =>
      (if Qle_bool cutoff (snd mq) then match move p (fst mq) with Some _ => [k] | None => [] end else [])
        ++ acc_ids p (k + 1) t
    end.

  Definition new_of (c : cand) : pynode := py_new_node (c_pos c) (c_mv c).

  Lemma loop_eq p : forall ptl tl pre k node valid kids0,
      table (size p) = pre ++ tl -> k = Z.of_nat (length pre) -> (length ptl <= length tl)%nat ->
      pn_position node = p -> pn_children node = Some kids0 ->
      MctsGen.populate_for1 node valid (nz_from k (ft_ge ptl cutoff)) =
      Ok (set_pn_children node (Some (kids0 ++ map new_of (acc_of cutoff p (combine tl ptl)))),
          valid ++ acc_ids p k (combine tl ptl)).
  Proof.
    induction ptl as [|x pt IH]; intros tl pre k node valid kids0 Ht Hk Hl Hp Hc.
    - destruct tl; simpl; rewrite !app_nil_r, (set_children_same _ _ Hc); reflexivity.
    - destruct tl as [|m tl']; [simpl in Hl; lia|]. simpl in Hl.
      assert (Ht' : table (size p) = (pre ++ [m]) ++ tl') by (rewrite <- app_assoc; exact Ht).
      assert (Hk' : k + 1 = Z.of_nat (length (pre ++ [m]))) by (rewrite app_length; simpl; lia).
      assert (Hdec : py_decode_move (size (pn_position node)) k = Ok m).
      { rewrite Hp, py_decode_move_eq. unfold decode_move. destruct (k <? 0) eqn:E; [lia|].
        rewrite Ht, Hk, Nat2Z.id, nth_error_app2 by lia. rewrite Nat.sub_diag. reflexivity. }
      cbn [ft_ge map nz_from combine]. fold (ft_ge pt cutoff).
      unfold acc_of. cbn [flat_map acc_ids fst snd]. fold (acc_of cutoff p (combine tl' pt)).
      destruct (Qle_bool cutoff x) eqn:Eq.
      + cbn [MctsGen.populate_for1]. rewrite Hdec. cbn [bind]. rewrite Hp. unfold py_move.
        destruct (move p m) as [c|] eqn:Em; cbn [embed].
        * unfold pn_children_append. rewrite Hc. cbn [py_opt_append bind ret].
          rewrite (IH tl' (pre ++ [m]) (k + 1) _ (valid ++ [k]) (kids0 ++ [py_new_node c m]) Ht' Hk' ltac:(lia)).
          -- rewrite set_children_twice. cbn [map app]. rewrite <- !app_assoc. reflexivity.
          -- destruct node; exact Hp.
          -- destruct node; reflexivity.
        * rewrite (IH tl' (pre ++ [m]) (k + 1) node valid kids0 Ht' Hk' ltac:(lia) Hp Hc). reflexivity.
      + rewrite (IH tl' (pre ++ [m]) (k + 1) node valid kids0 Ht' Hk' ltac:(lia) Hp Hc). reflexivity.
  Qed.

  Lemma index_eq p : forall ptl tl ppre k,
      k = Z.of_nat (length ppre) -> (length ptl <= length tl)%nat ->
      ft_index (ppre ++ ptl) (acc_ids p k (combine tl ptl)) = Ok (map c_prior (acc_of cutoff p (combine tl ptl))).
  Proof.
    unfold ft_index. induction ptl as [|x pt IH]; intros tl ppre k Hk Hl.
    - destruct tl; reflexivity.
    - destruct tl as [|m tl']; [simpl in Hl; lia|]. simpl in Hl.
      assert (Hk' : k + 1 = Z.of_nat (length (ppre ++ [x]))) by (rewrite app_length; simpl; lia).
      assert (Hrec := IH tl' (ppre ++ [x]) (k + 1) Hk' ltac:(lia)). rewrite <- app_assoc in Hrec. cbn [app] in Hrec.
      cbn [combine acc_ids fst snd]. unfold acc_of. cbn [flat_map fst snd]. fold (acc_of cutoff p (combine tl' pt)).
      destruct (Qle_bool cutoff x); [|exact Hrec].
      destruct (move p m) as [c|]; [|exact Hrec].
      cbn [app py_mapM map]. rewrite Hk, py_getitem_mid. cbn [bind]. rewrite <- Hk, Hrec. reflexivity.
  Qed.

  Lemma renorm_eq p pri : (0 < cutoff)%Q ->
    let l := map c_prior (accepted cutoff p pri) in ft_idiv_scalar l (ft_sum l) = Ok (renorm l).
  Proof.
    intros Hc l. destruct l as [|a t] eqn:El; [reflexivity|].
    assert (Hpos : (0 < sumq (a :: t))%Q).
    { apply (sumq_pos _ cutoff Hc); [discriminate|]. rewrite <- El. apply accepted_prior_ge. }
    unfold ft_idiv_scalar, ft_sum.
    assert (Hz : Qeq_bool (Qred (sumq (a :: t))) 0 = false).
    { apply not_true_is_false. intros H. apply Qeq_bool_eq in H. rewrite Qred_correct in H. lra. }
    rewrite Hz. reflexivity.
  Qed.

  Lemma priors_length p noise raw : (length (priors mix p noise raw) <= length (table (size p)))%nat.
  Proof.
    unfold priors. destruct noise as [nz|].
    - rewrite map_length, combine_length, firstn_length. lia.
    - rewrite firstn_length. lia.
  Qed.

  (* expansion: one evaluator answer, the size's table prefix, the noise mix at the searched root, the children in
     id order with prior >= cutoff that the rules accept, their priors renormalised *)
  Theorem gen_populate_expand_g p m v0 value sims raw0 probs0 raw v is_root nz :
    terminal p = None -> evaluate p = Ok (raw, v) -> (0 < cutoff)%Q ->
    (is_root && is_some alpha = true ->
     dirichlet (zlen (firstn (length (table (size p))) raw)) alpha = Ok nz /\
     length nz = length (firstn (length (table (size p))) raw)) ->
    let noise := if is_root && is_some alpha then Some nz else None in
    let pri := priors mix p noise raw in
    let acc := accepted cutoff p pri in
    gen_populate (py_of (Node p m v0 value sims raw0 probs0 None)) is_root =
    Ok (py_of (Node p m v value sims pri (renorm (map c_prior acc)) (Some (map child_of acc)))).
  Proof.
    intros Ht He Hc Hn noise pri acc. unfold MctsGen.populate. cbn [py_of pn_position]. unfold terminal in Ht.
    destruct (winner p) as [w [r|]]; [destruct w; discriminate|]. cbn [is_some]. rewrite He. cbn [bind].
    cbn [set_pn_v_zero set_pn_children pn_position]. rewrite ft_slice_table.
    cbn [cfg_gen cfg_root_noise_alpha cfg_root_noise_mix cfg_cutoff_prob].
    assert (Epri : (v_raw_probs <-
                      (if is_root && is_some alpha
                       then t3 <- dirichlet (zlen (firstn (length (table (size p))) raw)) alpha ;;
                            t4 <- ft_add (ft_scale mix t3)
                                         (ft_scale (Qminus (q_of_int 1) mix) (firstn (length (table (size p))) raw)) ;;
                            Ok t4
                       else Ok (firstn (length (table (size p))) raw)) ;; Ok v_raw_probs) = Ok pri).
    { unfold pri, noise, priors. destruct (is_root && is_some alpha) eqn:En.
      - destruct (Hn eq_refl) as (Hd & Hlen). rewrite Hd. cbn [bind]. rewrite ft_add_scale by exact Hlen. reflexivity.
      - reflexivity. }
    match goal with |- bind ?c ?k = _ =>
      assert (Ec : c = Ok pri) by (rewrite <- Epri; destruct (is_root && is_some alpha); [|reflexivity];
                                   destruct (dirichlet _ alpha); try reflexivity; cbn [bind];
                                   destruct (ft_add _ _); reflexivity)
    end.
    rewrite Ec. cbn [bind]. unfold bt_nonzero.
    pose proof (priors_length p noise raw) as Hlen. fold pri in Hlen.
    erewrite (loop_eq p pri (table (size p)) [] 0) with (kids0 := []);
      [|reflexivity|reflexivity|exact Hlen|reflexivity|reflexivity].
    cbn [bind app].
    pose proof (index_eq p pri (table (size p)) [] 0 eq_refl Hlen) as Hidx. cbn [app] in Hidx. rewrite Hidx. cbn [bind].
    rewrite <- accepted_acc_of. fold acc.
    pose proof (renorm_eq p pri Hc) as Hr. cbn zeta in Hr. fold acc in Hr. rewrite Hr. cbn [bind].
    cbn [set_pn_child_probs set_pn_children]. unfold new_of, child_of, fresh, py_new_node.
    rewrite !map_map. reflexivity.
  Qed.
End Populate.

(* the statements with the budget fields at 0 (as folded into props/C08.v) *)
Definition the_cfg (cutoff mix : Q) (alpha : option Q) : pyconfig := cfg_gen cutoff mix alpha 0 0.
Definition gen_populate_terminal evaluate dirichlet cutoff mix alpha :=
  gen_populate_terminal_g evaluate dirichlet cutoff mix alpha 0 0.
Definition gen_populate_expand evaluate dirichlet cutoff mix alpha :=
  gen_populate_expand_g evaluate dirichlet cutoff mix alpha 0 0.

(* ================================================================== *)
(* clauses of C08 / C09 transported to the generated functions         *)
(* ================================================================== *)
(* C08 "visits are one plus ... / exact backup": the record update() leaves for the searched node *)
Theorem gen_update_root cutoff mix cs n noise evs n' v evs' :
  Good cutoff n -> valid cs n -> simulate cutoff mix cs n noise evs = (n', v, evs') ->
  exists t, MctsGen.update (pre_update cs n n') = Ok (stat_of n' :: t) /\
            ps_simulations (stat_of n') = Z.of_nat (n_sims n) + 1 /\
            (ps_value (stat_of n') == n_value n + v)%Q /\ Good cutoff n'.
Proof.
  intros Hg Hv Hs. destruct (simulate_good cutoff mix cs n noise evs n' v evs' Hg Hv Hs) as (Hg' & Hsim & _ & _ & Hval).
  rewrite (gen_update_eq cutoff mix cs n noise evs n' v evs' Hv Hs).
  destruct (path_nodes_cons cs n') as (t & Et). rewrite Et. exists (map stat_of t). cbn [map].
  repeat split; auto. unfold stat_of; cbn [ps_simulations]. rewrite Hsim. lia.
Qed.

(* C08 "every expansion is legal": what the generated populate stores *)
Theorem gen_populate_children_legal evaluate dirichlet cutoff mix alpha p m v0 value sims raw0 probs0 raw v is_root nz :
  terminal p = None -> evaluate p = Ok (raw, v) -> (0 < cutoff)%Q ->
  (is_root && is_some alpha = true ->
   dirichlet (zlen (firstn (length (table (size p))) raw)) alpha = Ok nz /\
   length nz = length (firstn (length (table (size p))) raw)) ->
  exists r ks, MctsGen.populate evaluate dirichlet (the_cfg cutoff mix alpha)
                                (py_of (Node p m v0 value sims raw0 probs0 None)) is_root = Ok r /\
               pn_children r = Some ks /\ pn_position r = p /\ pn_v_zero r = v /\
               NoDup (map pn_move ks) /\
               forall c, In c ks -> exists mv, pn_move c = Some mv /\ In mv (table (size p)) /\
                                               Tak.move p mv = Some (pn_position c).
Proof.
  intros Ht He Hc Hn.
  unfold the_cfg.
  rewrite (gen_populate_expand evaluate dirichlet cutoff mix alpha p m v0 value sims raw0 probs0 raw v is_root nz Ht He Hc Hn).
  set (pri := priors mix p _ raw). set (acc := accepted cutoff p pri).
  eexists. exists (map py_of (map child_of acc)). split; [reflexivity|]. cbn [py_of pn_children pn_position pn_v_zero].
  repeat split.
  - rewrite !map_map. cbn [child_of fresh py_of pn_move].
    change (fun x : cand => Some (c_mv x)) with (fun x : cand => (fun y => Some y) (c_mv x)).
    rewrite <- (map_map c_mv (fun y => Some y)).
    apply NoDup_map_inj; [intros a b _ _ H; inversion H; reflexivity|apply accepted_nodup].
  - intros c Hin. rewrite map_map in Hin. apply in_map_iff in Hin. destruct Hin as ([[mv q] c'] & E & Hin). subst c.
    apply accepted_spec in Hin. destruct Hin as ((i & Hi & _) & _ & Hm).
    exists mv. cbn [child_of fresh py_of pn_move pn_position c_mv c_pos fst snd]. repeat split; auto.
    eapply nth_error_In; eassumption.
Qed.

(* C09: the ONE solver call of the generated policy_probs satisfies the solver's preconditions *)
Theorem gen_policy_call_preconditions F f_sqrt f_mul f_div_int solve cutoff n ks j c :
  (0 < cutoff)%Q -> Good cutoff n -> Bounded n -> n_kids n = Some ks -> n_sims n = S j ->
  live cutoff (n_pos n) (n_raw n) = true ->
  exists pi q, MctsGen.policy_probs F f_sqrt f_mul f_div_int solve (py_of n) c =
               (r <- solve pi q (multiplier F f_sqrt f_mul f_div_int c (Z.of_nat (S j)) (zlen ks)) ;; Ok (Some r)) /\
               Forall (fun x => 0 < x)%Q pi /\ (sumq pi == 1)%Q /\ length pi = length q /\
               Forall (fun x => -1 <= x <= 1)%Q q.
Proof.
  intros Hc Hg Hb Hk Hs Hl.
  assert (Hi : policy_inputs n 1 = Some (mkPin (n_probs n) (map (q_of (n_v0 n)) ks) (lambda_sq 1 (n_sims n) (length ks))
                                               (n_sims n) (length ks))).
  { destruct n as [p m v0 value sims raw probs kids]. simpl in Hk. subst kids. reflexivity. }
  exists (n_probs n), (map (q_of (n_v0 n)) ks).
  rewrite (gen_policy_probs_eq F f_sqrt f_mul f_div_int solve n ks j c 1 _ Hs Hk Hi). cbn [pi_prior pi_q pi_N pi_K].
  destruct (prior_is_distribution cutoff n ks Hc Hg Hk Hl) as (A & B & C).
  pose proof (q_in_range cutoff n ks Hg Hb Hk) as D.
  rewrite Hs. repeat split; auto.
  - rewrite map_length. exact C.
  - apply Forall_forall. intros x Hx. apply in_map_iff in Hx. destruct Hx as (k & E & Hin). subst x.
    eapply Forall_forall in D; eassumption.
Qed.

(* Examples: the hypotheses are inhabited (3x3 start, uniform evaluator) *)
Example ex_populate_hyps :
  terminal start3 = None /\ (fun _ : position => Ok uniform3) start3 = Ok (fst uniform3, snd uniform3) /\ (0 < ex_cutoff)%Q.
Proof. repeat split. Qed.
Example ex_update_hyps : valid [1%nat; 0%nat] ex_tree /\ Good ex_cutoff ex_tree.
Proof. split; [apply validb_valid; vm_compute; reflexivity|apply ex_tree_good]. Qed.
