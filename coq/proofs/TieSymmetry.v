(* Tie (G) for C15: facts about the eight matrices REGENERATED from
   tak.symmetry.SYMMETRIES (gen/Consts.v), closed by computation on the
   current values.  Everything here is finite: the statements quantify over
   the members of the list `syms` only.  The lemmas that are general in the
   board size are in proofs/SymmetryProofs.v. *)
From Coq Require Import ZArith List Bool Lia.
From TV Require gen.Consts.
From TV Require Import model.Tak model.Symmetry proofs.MoveId.
Import ListNotations.
Open Scope Z_scope.

Lemma mat_eqb_spec (g h : mat) : mat_eqb g h = true <-> g = h.
Proof. apply list_eqb_spec. apply list_eqb_spec. apply Z.eqb_eq. Qed.

(* case analysis over the regenerated list: H : In g syms becomes eight goals
   with g replaced by the literal matrix *)
Ltac case_syms H :=
  unfold syms, Consts.symmetries in H; simpl in H;
  repeat (destruct H as [H|H]; [subst|]); [..|contradiction].

(* ---------- shape ---------- *)
Definition affine_shape (g : mat) : bool :=
  match g with
  | [[_; _; _]; [_; _; _]; [0; 0; 1]] => true
  | _ => false
  end.
Lemma syms_length : length syms = 8%nat.
Proof. reflexivity. Qed.
Lemma syms_shape : forallb affine_shape syms = true.
Proof. reflexivity. Qed.
(* the first matrix is the identity (so symmetries(p) starts with p itself) *)
Lemma syms_head_id : hd [] syms = mat_id.
Proof. reflexivity. Qed.
Lemma mat_id_in_syms : In mat_id syms.
Proof. unfold syms, Consts.symmetries. simpl. tauto. Qed.

(* ---------- pairwise distinct ---------- *)
Fixpoint nodupb {A} (eqb : A -> A -> bool) (l : list A) : bool :=
  match l with
  | [] => true
  | a :: t => negb (existsb (eqb a) t) && nodupb eqb t
  end.
Lemma nodupb_NoDup {A} (eqb : A -> A -> bool) (Heq : forall a b, eqb a b = true <-> a = b) l :
  nodupb eqb l = true -> NoDup l.
Proof.
  induction l as [|a t IH]; simpl; intros H; [constructor|].
  apply andb_prop in H. destruct H as (Hn & Ht). constructor; [|auto].
  intro Hin. apply negb_true_iff in Hn.
  assert (Hex : existsb (eqb a) t = true) by (apply existsb_exists; exists a; split; [assumption|apply Heq; reflexivity]).
  congruence.
Qed.
Lemma syms_distinct : NoDup syms.
Proof. apply (nodupb_NoDup mat_eqb mat_eqb_spec). reflexivity. Qed.

(* ---------- closed under composition and inverse ---------- *)
Lemma syms_closed_mul g h : In g syms -> In h syms -> In (mat_mul g h) syms.
Proof.
  intros Hg Hh.
  assert (Hc : forallb (fun g => forallb (fun h => existsb (mat_eqb (mat_mul g h)) syms) syms) syms = true)
    by (vm_compute; reflexivity).
  rewrite forallb_forall in Hc. specialize (Hc g Hg). rewrite forallb_forall in Hc. specialize (Hc h Hh).
  apply existsb_exists in Hc. destruct Hc as (k & Hk & He). apply mat_eqb_spec in He. rewrite He. exact Hk.
Qed.

(* the inverse of an affine matrix whose linear part is orthogonal: transpose
   the linear part, translate back *)
Definition sym_inv (g : mat) : mat :=
  match g with
  | [[a; b; tx]; [c; d; ty]; _] => [[a; c; - (a * tx + c * ty)]; [b; d; - (b * tx + d * ty)]; [0; 0; 1]]
  | _ => g
  end.
Lemma syms_closed_inv g : In g syms ->
  In (sym_inv g) syms /\ mat_mul g (sym_inv g) = mat_id /\ mat_mul (sym_inv g) g = mat_id.
Proof.
  intros Hg.
  assert (Hc : forallb (fun g => existsb (mat_eqb (sym_inv g)) syms &&
                                 mat_eqb (mat_mul g (sym_inv g)) mat_id &&
                                 mat_eqb (mat_mul (sym_inv g) g) mat_id) syms = true)
    by (vm_compute; reflexivity).
  rewrite forallb_forall in Hc. specialize (Hc g Hg).
  apply andb_prop in Hc. destruct Hc as (Hc & H2). apply andb_prop in Hc. destruct Hc as (H0 & H1).
  apply mat_eqb_spec in H1. apply mat_eqb_spec in H2.
  apply existsb_exists in H0. destruct H0 as (k & Hk & He). apply mat_eqb_spec in He.
  rewrite <- He in Hk. auto.
Qed.
Lemma syms_id_neutral g : In g syms -> mat_mul mat_id g = g /\ mat_mul g mat_id = g.
Proof. intros Hg. case_syms Hg; split; reflexivity. Qed.

(* ---------- the linear parts are the eight signed permutation matrices ---------- *)
Definition lin2 (g : mat) : list (list Z) := map (firstn 2) (firstn 2 g).
(* exactly one non-zero entry, +1 or -1, in each row and each column *)
Definition signed_perm (a b c d : Z) : Prop :=
  ((a = 1 \/ a = -1) /\ b = 0 /\ c = 0 /\ (d = 1 \/ d = -1)) \/
  (a = 0 /\ (b = 1 \/ b = -1) /\ (c = 1 \/ c = -1) /\ d = 0).
Lemma syms_lin_signed_perms a b c d :
  In [[a; b]; [c; d]] (map lin2 syms) <-> signed_perm a b c d.
Proof.
  split.
  - intros H. unfold syms, Consts.symmetries in H. simpl in H.
    repeat (destruct H as [H|H]; [injection H; intros; subst; unfold signed_perm; lia|]).
    contradiction.
  - unfold signed_perm. intros H. unfold syms, Consts.symmetries. simpl.
    destruct H as [([-> | ->] & -> & -> & [-> | ->]) | (-> & [-> | ->] & [-> | ->] & ->)]; tauto.
Qed.
(* the translation column is the one that sends the square [0, size-1]^2 to
   itself: a row containing -1 gets +1*(size-1), the other rows 0 *)
Definition translation_ok (g : mat) : bool :=
  match g with
  | [[a; b; tx]; [c; d; ty]; _] =>
    (tx =? (if (a + b =? -1) then 1 else 0)) && (ty =? (if (c + d =? -1) then 1 else 0))
  | _ => false
  end.
Lemma syms_translation : forallb translation_ok syms = true.
Proof. reflexivity. Qed.

(* ---------- tak.moves.RDIRECTIONS is the inverse of DIRECTIONS ---------- *)
Definition mtype_of_code (c : Z) : option mtype :=
  find (fun t => mtype_code t =? c)
       [PlaceFlat; PlaceStanding; PlaceCapstone; SlideLeft; SlideRight; SlideUp; SlideDown].
Lemma tie_from_direction :
  forallb (fun e : Z * (Z * Z) =>
             match from_direction (fst (snd e)) (snd (snd e)), mtype_of_code (fst e) with
             | Some t, Some t' => mtype_eqb t t'
             | _, _ => false
             end) Consts.directions = true /\ length Consts.directions = 4%nat.
Proof. split; reflexivity. Qed.
