(* encode_move / decode_move are mutual inverses between [0, |table n|) and wf_move n. *)
From Coq Require Import ZArith List Bool Lia.
From TV Require Import model.Tak proofs.ListUtil proofs.Slides spec.MoveSpec proofs.Table.
Import ListNotations.
Open Scope Z_scope.

Lemma list_eqb_spec {A} (eqb : A -> A -> bool) :
  (forall a b, eqb a b = true <-> a = b) -> forall l1 l2, list_eqb eqb l1 l2 = true <-> l1 = l2.
Proof.
  intros He. induction l1 as [|a l1 IH]; destruct l2 as [|b l2]; simpl; try (split; congruence).
  rewrite andb_true_iff, He, IH. split; [intros (-> & ->); reflexivity|]. intros H; injection H; auto.
Qed.

Lemma mtype_eqb_spec a b : mtype_eqb a b = true <-> a = b.
Proof. destruct a, b; unfold mtype_eqb; simpl; split; congruence. Qed.

Lemma mv_eqb_spec a b : mv_eqb a b = true <-> a = b.
Proof.
  destruct a as [x1 y1 t1 s1], b as [x2 y2 t2 s2]. unfold mv_eqb. simpl.
  rewrite !andb_true_iff, !Z.eqb_eq, mtype_eqb_spec.
  assert (Hs : opt_eqb (list_eqb Z.eqb) s1 s2 = true <-> s1 = s2).
  { destruct s1 as [l1|], s2 as [l2|]; simpl; try (split; congruence).
    rewrite (list_eqb_spec Z.eqb Z.eqb_eq). split; congruence. }
  rewrite Hs. split; [intros (((-> & ->) & ->) & ->); reflexivity|]. intros H; injection H; auto.
Qed.

Lemma index_of_sound m : forall l k i, index_of m l k = Some i ->
  k <= i /\ nth_error l (Z.to_nat (i - k)) = Some m.
Proof.
  induction l as [|h t IH]; intros k i H; simpl in H; [discriminate|].
  destruct (mv_eqb h m) eqn:E.
  - injection H as <-. apply mv_eqb_spec in E. subst. rewrite Z.sub_diag. simpl. split; [lia|reflexivity].
  - apply IH in H. destruct H as (Hk & Hn). split; [lia|].
    replace (Z.to_nat (i - k)) with (S (Z.to_nat (i - (k + 1)))) by lia. exact Hn.
Qed.

Lemma index_of_complete m : forall l k j, NoDup l -> nth_error l j = Some m ->
  index_of m l k = Some (k + Z.of_nat j).
Proof.
  induction l as [|h t IH]; intros k j Hnd Hj; [destruct j; discriminate|].
  inversion Hnd as [|? ? Hna Hnd']; subst. simpl.
  destruct j as [|j]; simpl in Hj.
  - injection Hj as ->. assert (E : mv_eqb m m = true) by (apply mv_eqb_spec; reflexivity).
    rewrite E. f_equal. lia.
  - destruct (mv_eqb h m) eqn:E.
    + apply mv_eqb_spec in E. subst. exfalso. apply Hna. eapply nth_error_In; eassumption.
    + rewrite (IH (k + 1) j Hnd' Hj). f_equal. lia.
Qed.

Theorem encode_decode_move n m i : encode_move n m = Some i -> decode_move n i = Some m.
Proof.
  unfold encode_move, decode_move. intros H. apply index_of_sound in H. destruct H as (H0 & Hn).
  destruct (i <? 0) eqn:E; [lia|]. rewrite Z.sub_0_r in Hn. exact Hn.
Qed.

Theorem decode_encode_move n i m : decode_move n i = Some m -> encode_move n m = Some i.
Proof.
  unfold encode_move, decode_move. destruct (i <? 0) eqn:E; [discriminate|]. intros H.
  rewrite (index_of_complete m (table n) 0 (Z.to_nat i) (table_nodup n) H). f_equal. lia.
Qed.

Theorem encode_move_total n m : 0 <= n -> wf_move n m ->
  exists i, 0 <= i < zlen (table n) /\ encode_move n m = Some i.
Proof.
  intros Hn Hwf. apply table_spec in Hwf; [|assumption]. apply In_nth_error in Hwf.
  destruct Hwf as (j & Hj). exists (Z.of_nat j). split.
  - assert (j < length (table n))%nat by (apply nth_error_Some; congruence). unfold zlen. lia.
  - unfold encode_move. rewrite (index_of_complete m (table n) 0 j (table_nodup n) Hj). reflexivity.
Qed.

Theorem decode_move_total n i : 0 <= n -> 0 <= i < zlen (table n) ->
  exists m, decode_move n i = Some m /\ wf_move n m.
Proof.
  intros Hn Hi. unfold decode_move. destruct (i <? 0) eqn:E; [lia|].
  destruct (nth_error (table n) (Z.to_nat i)) as [m|] eqn:Hm.
  - exists m. split; [reflexivity|]. apply table_spec; [assumption|]. eapply nth_error_In; eassumption.
  - apply nth_error_None in Hm. unfold zlen in Hi. lia.
Qed.

Theorem decode_move_range n i m : decode_move n i = Some m -> 0 <= i < zlen (table n).
Proof.
  unfold decode_move. destruct (i <? 0) eqn:E; [discriminate|]. intros H.
  assert (Z.to_nat i < length (table n))%nat by (apply nth_error_Some; congruence). unfold zlen. lia.
Qed.

Theorem encode_move_wf n m i : 0 <= n -> encode_move n m = Some i -> wf_move n m.
Proof.
  intros Hn H. apply encode_decode_move in H. unfold decode_move in H.
  destruct (i <? 0); [discriminate|]. apply table_spec; [assumption|]. eapply nth_error_In; eassumption.
Qed.
