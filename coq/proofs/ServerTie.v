(* C17 - tie of the server model to the protocol IR regenerated from the source
   (gen/ServerIR.v, written by harness/server_ir.py on every run).  The lemmas are closed by
   computation against the CURRENT IR: a source whose loop structure, padding, pairing or
   reply is not the one model/Server.v gives semantics to makes `server_ir_denotes_model`
   fail (by name), and with it everything in props/C17.v. *)
From Coq Require Import ZArith List Bool Lia.
From TV Require gen.Consts gen.ServerIR.
From TV Require Import model.ServerDen model.Server.
Import ListNotations.
Open Scope Z_scope.

(* the regenerated protocol has a denotation, and the parameters of model/Server.v - queue capacity, batch
   threshold, gather timeout, pairing of result rows with requests - are the ones it states *)
Lemma server_ir_denotes_model :
  den ServerIR.server = Some (mkParams cap threshold gather_timeout_us ServerIR.IdxI) /\
  pairing = ServerIR.IdxI /\ 1 <= threshold /\ threshold <= cap /\ 0 < gather_timeout_us.
Proof. vm_compute. repeat split; try reflexivity; intro H; discriminate H. Qed.

(* the worker's loop is, statement for statement, the loop that Server.step interprets *)
Lemma server_ir_worker_shape :
  exists c r e cl, ServerIR.server =
    ServerIR.IR c [ServerIR.WBatchNew; ServerIR.WFirstGet;
                   ServerIR.WGather threshold (ServerIR_tnum ServerIR.server) (ServerIR_tden ServerIR.server);
                   ServerIR.WRunModel; ServerIR.WHandOut ServerIR.IdxI ServerIR.IdxI true] r e cl.
Proof. do 4 eexists. vm_compute. reflexivity. Qed.

(* the property text names the gather timeout: 1 ms *)
Lemma server_ir_gather_timeout_1ms : gather_timeout_us = 1000.
Proof. vm_compute. reflexivity. Qed.

(* cross-check with the queue depth scraped by gen_consts.py (its threshold regex `len(batch) >= 8` is tied to the
   variable name and is not used any more) *)
Lemma server_ir_agrees_with_consts : cap = Consts.MAX_QUEUE_DEPTH.
Proof. vm_compute. reflexivity. Qed.
