(* C15: the game outcome is unchanged by a board symmetry.  The road part uses
   the path characterisation of the flood fill proved for C02
   (proofs/RoadProofs.v: walk p c horiz = true <-> spans p c horiz): the image
   of a spanning path is a spanning path, possibly on the other axis and
   possibly traversed in the opposite direction. *)
From Coq Require Import ZArith List Bool Lia.
From TV Require Import model.Tak model.Road model.Symmetry spec.RoadSpec.
From TV Require Import proofs.TieSymmetry proofs.SymmetryProofs proofs.RoadProofs.
Import ListNotations.
Open Scope Z_scope.

(* ---------- lists ---------- *)
Lemma last_map {A B} (f : A -> B) l d : last (map f l) (f d) = f (last l d).
Proof.
  induction l as [|a l IH]; [reflexivity|]. destruct l as [|b l]; [reflexivity|].
  change (last (map f (a :: b :: l)) (f d)) with (last (map f (b :: l)) (f d)).
  change (last (a :: b :: l) d) with (last (b :: l) d). exact IH.
Qed.
Lemma last_rev {A} (l : list A) d : last (rev l) d = hd d l.
Proof. destruct l as [|a l]; [reflexivity|]. simpl. apply last_last. Qed.
Lemma hd_rev {A} (l : list A) d : hd d (rev l) = last l d.
Proof. rewrite <- (rev_involutive l) at 2. rewrite last_rev. reflexivity. Qed.

Lemma linked_map (f : sqr -> sqr) l :
  (forall a b, orth_adjacent a b -> orth_adjacent (f a) (f b)) -> linked l -> linked (map f l).
Proof.
  intros Hf. induction l as [|a l IH]; [trivial|]. destruct l as [|b t]; [trivial|].
  intros (Hab & Ht). change (orth_adjacent (f a) (f b) /\ linked (map f (b :: t))). auto.
Qed.
Lemma linked_rev l : linked l -> linked (rev l).
Proof.
  induction l as [|a l IH]; [trivial|]. destruct l as [|b t]; [trivial|].
  intros (Hab & Ht). change (rev (a :: b :: t)) with ((rev t ++ [b]) ++ [a]).
  apply linked_snoc; [exact (IH Ht)|apply orth_adjacent_sym; assumption].
Qed.

(* a linked list of road squares whose ends lie on the two opposite edges *)
Lemma spans_of_path p c h (L : list sqr) :
  L <> [] -> Forall (road_top p c) L -> linked L ->
  coord h (hd (0, 0) L) = 0 -> coord h (last L (0, 0)) = size p - 1 -> spans p c h.
Proof.
  destruct L as [|first rest]; [congruence|]. intros _ HF HL H0 Hl.
  exists first, rest. repeat split; try assumption.
  rewrite last_cons in Hl. rewrite last_cons. exact Hl.
Qed.

(* ---------- one symmetry ---------- *)
Lemma sym_orth_adjacent g n a b : In g syms ->
  orth_adjacent a b -> orth_adjacent (apply_sym g n a) (apply_sym g n b).
Proof.
  intros Hg H. apply adjacent_spec. rewrite sym_adjacent by assumption. apply adjacent_spec. assumption.
Qed.

Lemma tp_road_top g p c v : In g syms -> wf p ->
  road_top p c v -> road_top (transform_position g p) c (apply_sym g (size p) v).
Proof.
  intros Hg Hwf. destruct v as [x y]. unfold road_top, on_board. cbn [fst snd].
  change (size (transform_position g p)) with (size p).
  intros ((Hx & Hy) & top & below & Hsq & Hc & Hk). split.
  - apply (sym_on_board g (size p) x y Hg). auto.
  - exists top, below. rewrite (tp_sq g p x y Hg Hwf Hx Hy). auto.
Qed.

(* the coordinate that must run from 0 to size-1 is carried to one of the two
   coordinates, either as it is or mirrored *)
Lemma sym_edges g n h : In g syms -> exists h',
  (forall v, coord h' (apply_sym g n v) = coord h v) \/
  (forall v, coord h' (apply_sym g n v) = n - 1 - coord h v).
Proof.
  intros Hg. case_syms Hg; destruct h;
    first [ exists true; left; intros [x y]; cbn [coord]; red_sym; lia
          | exists true; right; intros [x y]; cbn [coord]; red_sym; lia
          | exists false; left; intros [x y]; cbn [coord]; red_sym; lia
          | exists false; right; intros [x y]; cbn [coord]; red_sym; lia ].
Qed.

Lemma spans_transform g p c h : In g syms -> wf p ->
  spans p c h -> exists h', spans (transform_position g p) c h'.
Proof.
  intros Hg Hwf (first & rest & HF & HL & H0 & Hlast).
  set (n := size p) in *. pose (f := (fun v => apply_sym g n v) : sqr -> sqr).
  assert (HF' : Forall (road_top (transform_position g p) c) (map f (first :: rest))).
  { apply Forall_forall. intros w Hw. apply in_map_iff in Hw. destruct Hw as (v & <- & Hv).
    apply tp_road_top; [assumption|assumption|]. rewrite Forall_forall in HF. auto. }
  assert (HL' : linked (map f (first :: rest))).
  { apply linked_map; [|assumption]. intros a b. apply sym_orth_adjacent. assumption. }
  assert (Hlast' : last (map f (first :: rest)) (0, 0) = f (last (first :: rest) first)).
  { change (map f (first :: rest)) with (f first :: map f rest).
    rewrite last_cons, last_map, <- last_cons with (d := first). reflexivity. }
  destruct (sym_edges g n h Hg) as (h' & [He|He]); exists h'.
  - apply (spans_of_path _ c h' (map f (first :: rest))); try assumption.
    + discriminate.
    + cbn [map hd]. unfold f. rewrite He. assumption.
    + unfold sqr in *. rewrite Hlast'. unfold f. rewrite He. exact Hlast.
  - apply (spans_of_path _ c h' (rev (map f (first :: rest)))).
    + intro Hnil. apply (f_equal (@length sqr)) in Hnil. rewrite rev_length in Hnil. discriminate Hnil.
    + apply Forall_forall. intros w Hw. apply in_rev in Hw. rewrite Forall_forall in HF'. auto.
    + apply linked_rev. assumption.
    + rewrite hd_rev. unfold sqr in *. rewrite Hlast'. unfold f. rewrite He.
      change (size (transform_position g p)) with n in *. fold n in Hlast. lia.
    + rewrite last_rev. cbn [map hd]. unfold f. rewrite He.
      change (size (transform_position g p)) with n. lia.
Qed.

Lemma road_transform g p c : In g syms -> wf p -> road p c -> road (transform_position g p) c.
Proof.
  intros Hg Hwf [H|H]; destruct (spans_transform g p c _ Hg Hwf H) as ([|] & H'); [left|right|left|right];
    assumption.
Qed.

(* a road maps to a road (possibly on the other axis), and back *)
Theorem road_invariant g p c : In g syms -> wf p -> (road (transform_position g p) c <-> road p c).
Proof.
  intros Hg Hwf. split; [|apply road_transform; assumption].
  intros H. destruct (syms_closed_inv g Hg) as (Hi & _ & Hmul).
  apply (road_transform (sym_inv g)) in H; [|assumption|apply tp_wf; assumption].
  rewrite <- tp_compose in H by assumption. rewrite Hmul, tp_id in H by assumption. assumption.
Qed.

Lemma tp_size0 g p : size p = 0 -> wf p -> transform_position g p = p.
Proof.
  intros H0 _. destruct p as [n ws wc bs bc pl b]. simpl in H0. subst n. reflexivity.
Qed.

Theorem color_has_road_invariant g p c : In g syms -> wf p ->
  color_has_road (transform_position g p) c = color_has_road p c.
Proof.
  intros Hg Hwf. destruct (Z.eq_dec (size p) 0) as [H0|H0]; [rewrite tp_size0; auto|].
  assert (Hp : wf_pos p) by (destruct Hwf; split; lia).
  assert (Hp' : wf_pos (transform_position g p)) by (destruct (tp_wf g p Hwf); split; simpl in *; lia).
  apply bool_eq_iff. rewrite !color_has_road_spec by assumption. apply road_invariant; assumption.
Qed.

Theorem has_road_invariant g p : In g syms -> wf p ->
  has_road (transform_position g p) = has_road p.
Proof.
  intros Hg Hwf. unfold has_road. rewrite !color_has_road_invariant by assumption. reflexivity.
Qed.

(* the game outcome (winner and reason) is unchanged *)
Theorem winner_invariant g p : wf p -> In g syms ->
  winner (transform_position g p) = winner p.
Proof.
  intros Hwf Hg. unfold winner.
  rewrite has_road_invariant, board_full_invariant, flats_winner_invariant by assumption.
  reflexivity.
Qed.
