(* T20 - the functions regenerated from python/xformer/data/__init__.py and
   python/tak/alphazero/data.py (gen/DatasetGen.v, written against
   model/TorchData.v) are EQUAL to the hand model model/Dataset.v on the stated
   domain, and do not crash there. *)
From Coq Require Import ZArith List Bool Lia Permutation Arith.
From TV Require Import model.Dataset model.TorchData gen.DatasetGen proofs.DatasetProofs.
Import ListNotations.
Open Scope Z_scope.

(* ------------------------------------------------ TorchData inside bounds *)

Lemma fname_eqb_neq (a b : fname) : a <> b -> fname_eqb a b = false.
Proof. intros H. destruct (fname_eqb a b) eqn:E; [apply fname_eqb_eq in E; contradiction|reflexivity]. Qed.

Lemma fname_eqb_sym (a b : fname) : fname_eqb a b = fname_eqb b a.
Proof.
  destruct (fname_eqb a b) eqn:E.
  - apply fname_eqb_eq in E. subst. symmetry. apply fname_eqb_refl.
  - destruct (fname_eqb b a) eqn:E2; [|reflexivity]. apply fname_eqb_eq in E2. subst.
    rewrite fname_eqb_refl in E. discriminate.
Qed.

Definition dict_ok (d : tdict) : Prop := NoDup (map fst d).

Lemma d_set_fresh (d : tdict) k v : ~ In k (map fst d) -> d_set d k v = d ++ [(k, v)].
Proof.
  induction d as [|[k' v'] d IH]; intros H; simpl; [reflexivity|].
  simpl in H. rewrite fname_eqb_neq by (intro E; apply H; left; symmetry; exact E).
  rewrite IH by (intro E; apply H; right; exact E). reflexivity.
Qed.

Lemma d_set_mid (pre rest : tdict) k v v' :
  ~ In k (map fst pre) -> d_set (pre ++ (k, v) :: rest) k v' = pre ++ (k, v') :: rest.
Proof.
  induction pre as [|[k' w] pre IH]; intros H; simpl.
  - rewrite fname_eqb_refl. reflexivity.
  - simpl in H. rewrite fname_eqb_neq by (intro E; apply H; left; symmetry; exact E).
    rewrite IH by (intro E; apply H; right; exact E). reflexivity.
Qed.

Lemma dict_of_pairs_acc (l acc : tdict) :
  NoDup (map fst (acc ++ l)) -> fold_left (fun d kv => d_set d (fst kv) (snd kv)) l acc = acc ++ l.
Proof.
  revert acc. induction l as [|[k v] l IH]; intros acc H; simpl; [rewrite app_nil_r; reflexivity|].
  assert (Hk : ~ In k (map fst acc)).
  { rewrite map_app in H. simpl in H. apply NoDup_remove_2 in H. intro E. apply H. apply in_or_app. left; exact E. }
  rewrite d_set_fresh by exact Hk.
  rewrite IH; rewrite <- app_assoc; simpl; [reflexivity|exact H].
Qed.

Lemma dict_of_pairs_id (l : tdict) : dict_ok l -> dict_of_pairs l = l.
Proof. intros H. unfold dict_of_pairs. rewrite dict_of_pairs_acc; [reflexivity|exact H]. Qed.

Lemma d_get_field (d : tdict) k t : d_get d k = Ok t -> get_field k (erase d) = t_rows t.
Proof.
  unfold get_field. induction d as [|[k' v] d IH]; simpl; intros H; [discriminate|].
  destruct (fname_eqb k k'); [inversion H; reflexivity|apply IH; exact H].
Qed.

Lemma d_get_In (d : tdict) k t : d_get d k = Ok t -> In (k, t) d.
Proof.
  induction d as [|[k' v] d IH]; simpl; intros H; [discriminate|].
  destruct (fname_eqb k k') eqn:E; [apply fname_eqb_eq in E; inversion H; subst; left; reflexivity|right; apply IH; exact H].
Qed.

Lemma zlen_nat {A} (l : list A) : Z.to_nat (zlen l) = length l.
Proof. unfold zlen. apply Nat2Z.id. Qed.

Lemma py_getitem_nat {A} (l : list A) (i : nat) (d : A) :
  (i < length l)%nat -> py_getitem l (Z.of_nat i) = Ok (nth i l d).
Proof.
  intros H. unfold py_getitem, py_index, zlen.
  destruct ((0 <=? Z.of_nat i) && (Z.of_nat i <? Z.of_nat (length l))) eqn:E.
  - rewrite Nat2Z.id. destruct (nth_error l i) eqn:En.
    + rewrite (nth_error_nth _ _ d En). reflexivity.
    + apply nth_error_None in En. lia.
  - apply andb_false_iff in E. destruct E as [E|E]; [apply Z.leb_gt in E|apply Z.ltb_ge in E]; lia.
Qed.

Lemma mapM_getitem (rows : list row) (p : list nat) :
  Forall (fun i => (i < length rows)%nat) p ->
  mapM (py_getitem rows) (map Z.of_nat p) = Ok (permute rows p).
Proof.
  induction p as [|i p IH]; intros H; simpl; [reflexivity|].
  inversion H as [|? ? Hi Hp]; subst.
  rewrite (py_getitem_nat rows i []) by exact Hi. simpl. rewrite IH by exact Hp. reflexivity.
Qed.

(* v[:k] *)
Lemma py_slice_prefix {A} (l : list A) (k : Z) : py_slice l None (Some k) = py_prefix k l.
Proof.
  unfold py_slice, py_prefix, py_bound, zlen. simpl. rewrite Z.sub_0_r.
  destruct (0 <=? k) eqn:E.
  - apply Z.leb_le in E. destruct (k <? 0) eqn:E2; [apply Z.ltb_lt in E2; lia|].
    destruct (Z_le_gt_dec k (Z.of_nat (length l))) as [Hle|Hgt].
    + rewrite Z.min_l by exact Hle. reflexivity.
    + rewrite Z.min_r by lia. rewrite Nat2Z.id. rewrite !firstn_all2; [reflexivity|lia|lia].
  - apply Z.leb_gt in E. destruct (k <? 0) eqn:E2; [|apply Z.ltb_ge in E2; lia].
    f_equal. lia.
Qed.

(* v[i:i+bs] for 0 <= i, 0 <= bs *)
Lemma py_slice_window {A} (l : list A) (i bs : nat) :
  py_slice l (Some (Z.of_nat i)) (Some (Z.of_nat i + Z.of_nat bs)) = slice i bs l.
Proof.
  unfold py_slice, py_bound, zlen, slice.
  destruct (Z.of_nat i <? 0) eqn:E1; [apply Z.ltb_lt in E1; lia|].
  destruct (Z.of_nat i + Z.of_nat bs <? 0) eqn:E2; [apply Z.ltb_lt in E2; lia|].
  destruct (le_lt_dec i (length l)) as [Hi|Hi].
  - rewrite (Z.min_l (Z.of_nat i)) by lia. rewrite Nat2Z.id.
    destruct (le_lt_dec (i + bs) (length l)) as [Hb|Hb].
    + rewrite Z.min_l by lia. f_equal. lia.
    + rewrite Z.min_r by lia.
      rewrite (firstn_all2 (n := bs)) by (rewrite skipn_length; lia).
      apply firstn_all2. rewrite skipn_length. lia.
  - rewrite (Z.min_r (Z.of_nat i)) by lia. rewrite Nat2Z.id.
    rewrite !skipn_all2 by lia. rewrite !firstn_nil. reflexivity.
Qed.

Lemma range_up_from (n bs : nat) : forall fuel i,
  range_up fuel (Z.of_nat i) (Z.of_nat n) (Z.of_nat bs) = map Z.of_nat (range_from fuel i n bs).
Proof.
  induction fuel as [|f IH]; intros i; simpl; [reflexivity|].
  destruct (i <? n)%nat eqn:E.
  - apply Nat.ltb_lt in E. destruct (Z.of_nat i <? Z.of_nat n) eqn:E2; [|apply Z.ltb_ge in E2; lia].
    simpl. f_equal. rewrite <- Nat2Z.inj_add. apply IH.
  - apply Nat.ltb_ge in E. destruct (Z.of_nat i <? Z.of_nat n) eqn:E2; [apply Z.ltb_lt in E2; lia|reflexivity].
Qed.

Lemma py_range3_starts (n bs : nat) : (0 < bs)%nat ->
  py_range3 0 (Z.of_nat n) (Z.of_nat bs) = Ok (map Z.of_nat (starts n bs)).
Proof.
  intros H. unfold py_range3, starts.
  destruct (Z.of_nat bs =? 0) eqn:E; [apply Z.eqb_eq in E; lia|].
  destruct (0 <? Z.of_nat bs) eqn:E2; [|apply Z.ltb_ge in E2; lia].
  rewrite Z.sub_0_r, Nat2Z.id. f_equal. apply (range_up_from n bs n 0%nat).
Qed.

(* ------------------------------------------ shuffling and batching a dict *)

(* every tensor of the dict has n rows *)
Definition rows_n (d : tdict) (n : nat) : Prop := forall kv, In kv d -> length (t_rows (snd kv)) = n.

Definition shuffled_dict (d : tdict) (p : list nat) : tdict :=
  map (fun kv => (fst kv, mkT (t_dtype (snd kv)) (t_tail (snd kv)) (permute (t_rows (snd kv)) p))) d.

Lemma erase_shuffled (d : tdict) p : erase (shuffled_dict d p) = shuffle (erase d) p.
Proof. unfold erase, shuffled_dict, shuffle. rewrite !map_map. reflexivity. Qed.

Lemma keys_shuffled (d : tdict) p : map fst (shuffled_dict d p) = map fst d.
Proof. unfold shuffled_dict. rewrite map_map. reflexivity. Qed.

Lemma t_index_nat (v : tensor) (p : list nat) :
  Forall (fun i => (i < length (t_rows v))%nat) p ->
  t_index v (map Z.of_nat p) = Ok (mkT (t_dtype v) (t_tail v) (permute (t_rows v) p)).
Proof. intros H. unfold t_index. rewrite mapM_getitem by exact H. reflexivity. Qed.

Lemma shuffle_mapM (d : tdict) (p : list nat) (n : nat) :
  rows_n d n -> Forall (fun i => (i < n)%nat) p ->
  mapM (fun kv : fname * tensor => let '(k, v) := kv in t6 <- t_index v (map Z.of_nat p) ;; Ok (k, t_pin t6)) d
  = Ok (shuffled_dict d p).
Proof.
  induction d as [|[k v] d IH]; intros Hn Hp; [reflexivity|].
  assert (Hv : length (t_rows v) = n) by (apply (Hn (k, v)); left; reflexivity).
  cbn [mapM]. rewrite t_index_nat by (rewrite Hv; exact Hp).
  cbn [bind]. rewrite IH; [reflexivity| |exact Hp]. intros kv Hkv. apply Hn. right; exact Hkv.
Qed.

Definition window_dict (bs : Z) (sh : tdict) (i : Z) : tdict :=
  map (fun kv => (fst kv, t_to (t_slice (snd kv) (Some i) (Some (i + bs))))) sh.

Lemma window_mapM (bs : Z) (sh : tdict) (i : Z) :
  mapM (fun kv : fname * tensor => let '(k, v) := kv in Ok (k, t_to (t_slice v (Some i) (Some (i + bs))))) sh
  = Ok (window_dict bs sh i).
Proof. induction sh as [|[k v] sh IH]; simpl; [reflexivity|]. rewrite IH. reflexivity. Qed.

Lemma keys_window bs sh i : map fst (window_dict bs sh i) = map fst sh.
Proof. unfold window_dict. rewrite map_map. reflexivity. Qed.

Lemma erase_window (bs i : nat) (sh : tdict) :
  erase (window_dict (Z.of_nat bs) sh (Z.of_nat i)) = map (fun f => (fst f, slice i bs (snd f))) (erase sh).
Proof.
  unfold erase, window_dict. rewrite !map_map. apply map_ext. intros [k v]. simpl.
  rewrite py_slice_window. reflexivity.
Qed.

(* the common shape of the two generated batching loops *)
Fixpoint batches_for (bs : Z) (sh : tdict) (it : list Z) : res (list tdict) :=
  match it with
  | [] => Ok []
  | i :: it' =>
      t <- mapM (fun kv : fname * tensor => let '(k, v) := kv in Ok (k, t_to (t_slice v (Some i) (Some (i + bs))))) sh ;;
      ys <- batches_for bs sh it' ;;
      Ok (dict_of_pairs t :: ys)
  end.

Lemma batches_for_eq (bs : nat) (sh : tdict) (l : list nat) : dict_ok sh ->
  batches_for (Z.of_nat bs) sh (map Z.of_nat l)
  = Ok (map (fun i => window_dict (Z.of_nat bs) sh (Z.of_nat i)) l).
Proof.
  intros Hok. induction l as [|i l IH]; simpl; [reflexivity|].
  rewrite window_mapM. simpl. rewrite IH. simpl.
  rewrite dict_of_pairs_id; [reflexivity|]. unfold dict_ok. rewrite keys_window. exact Hok.
Qed.

Lemma erase_batches (bs n : nat) (sh : tdict) :
  map erase (map (fun i => window_dict (Z.of_nat bs) sh (Z.of_nat i)) (starts n bs)) = batches_of (erase sh) n bs.
Proof. unfold batches_of. rewrite map_map. apply map_ext. intros i. apply erase_window. Qed.

(* ------------------------------------------------------ the file dataset *)

Section FileEq.
  Variable gen : Type.
  Variable seed_gen : Z -> gen.
  Variable randperm : gen -> nat -> list nat * gen.
  Variable load : list Z -> tdict.
  Hypothesis randperm_perm : forall g n, Permutation (fst (randperm g n)) (seq 0 n).

  (* the hand model's torch.load: the same file, dtype and trailing shape forgotten *)
  Definition hload (p : list Z) : dataset := erase (load p).

  Definition cfg_of (o : dsobj gen) : config := mkConfig (o_path o) (o_batch_size o) (o_batches o) (o_seed o).
  (* a constructed object and the hand model's state *)
  Definition live (o : dsobj gen) (d : tdict) (g : gen) : Prop := o_data o = Some d /\ o_generator o = Some g.
  Definition abs (o : dsobj gen) (d : tdict) (g : gen) : dstate gen := mkState (cfg_of o) (erase d) g.

  Notation ds_len := (ds_len gen).
  Notation ds_attrs_post_init := (ds_attrs_post_init gen seed_gen load).
  Notation ds_next_epoch := (ds_next_epoch gen randperm).
  Notation ds_fastforward_epochs := (ds_fastforward_epochs gen randperm).
  Notation ds_iter := (ds_iter gen randperm).
  Notation ds_new := (ds_new gen seed_gen load).
  Notation ds_getstate := (ds_getstate gen).
  Notation ds_setstate := (ds_setstate gen seed_gen load).

  (* --- __attrs_post_init__ *)
  Definition prep (bs : Z) (batches : option Z) (t : tensor) : tensor :=
    let t1 := if t_dtype t =? UINT8 then mkT INT64 (t_tail t) (t_rows t) else t in
    match batches with Some b => t_slice t1 None (Some (b * bs)) | None => t1 end.

  Lemma post_init_loop : forall (it pre : tdict) (o : dsobj gen),
    o_data o = Some (pre ++ it) -> dict_ok (pre ++ it) ->
    ds_attrs_post_init_for1 gen o it
    = Ok (set_data o (pre ++ map (fun kv => (fst kv, prep (o_batch_size o) (o_batches o) (snd kv))) it)).
  Proof.
    induction it as [|[k0 v0] it0 IH0]; intros pre0 oo Hd Hok.
    - simpl. rewrite app_nil_r in *. destruct oo; simpl in *. subst. reflexivity.
    - cbn [DatasetGen.ds_attrs_post_init_for1].
      assert (Hlong : (if t_dtype v0 =? UINT8 then t2 <- t_long v0 ;; Ok t2 else Ok v0)
                      = Ok (if t_dtype v0 =? UINT8 then mkT INT64 (t_tail v0) (t_rows v0) else v0)).
      { destruct (t_dtype v0 =? UINT8) eqn:E; [|reflexivity]. apply Z.eqb_eq in E.
        unfold t_long, is_float. rewrite E. reflexivity. }
      rewrite Hlong. cbn [bind].
      set (v1 := if t_dtype v0 =? UINT8 then mkT INT64 (t_tail v0) (t_rows v0) else v0).
      assert (Hcut : (if is_some (o_batches oo)
                      then t3 <- py_int_of_opt (o_batches oo) ;; Ok (t_slice v1 None (Some (t3 * o_batch_size oo)))
                      else Ok v1) = Ok (prep (o_batch_size oo) (o_batches oo) v0)).
      { unfold prep. fold v1. destruct (o_batches oo) as [b|]; reflexivity. }
      rewrite Hcut. cbn [bind]. unfold get_data. rewrite Hd. cbn [bind].
      assert (Hk : ~ In k0 (map fst pre0)).
      { unfold dict_ok in Hok. rewrite map_app in Hok. simpl in Hok. apply NoDup_remove_2 in Hok.
        intro E. apply Hok. apply in_or_app. left; exact E. }
      rewrite d_set_mid by exact Hk.
      rewrite (IH0 (pre0 ++ [(k0, prep (o_batch_size oo) (o_batches oo) v0)])).
      + destruct oo; simpl. rewrite <- app_assoc. reflexivity.
      + destruct oo; simpl in *. rewrite <- app_assoc. reflexivity.
      + unfold dict_ok in *. rewrite <- app_assoc. simpl. rewrite map_app in *. simpl in *. exact Hok.
  Qed.

  Definition prepared (path : list Z) (bs : Z) (batches : option Z) : tdict :=
    map (fun kv => (fst kv, prep bs batches (snd kv))) (load path).

  Lemma erase_prepared path bs batches seed :
    erase (prepared path bs batches) = truncate (mkConfig path bs batches seed) (hload path).
  Proof.
    unfold prepared, truncate, hload, erase. cbn [nbatches batch_size].
    destruct batches as [b|]; rewrite !map_map; apply map_ext; intros [k v]; cbn [fst snd]; unfold prep.
    - destruct (t_dtype v =? UINT8); cbn [t_slice t_rows]; rewrite py_slice_prefix; reflexivity.
    - destruct (t_dtype v =? UINT8); reflexivity.
  Qed.

  (* Dataset(path, batch_size, batches, seed): no crash, and the hand model's post_init *)
  Theorem gen_new_eq (path : list Z) (bs : Z) (batches : option Z) (seed : Z) :
    dict_ok (load path) ->
    exists o, ds_new path bs batches seed = Ok o /\
      live o (prepared path bs batches) (seed_gen seed) /\ cfg_of o = mkConfig path bs batches seed /\
      abs o (prepared path bs batches) (seed_gen seed) = post_init gen seed_gen hload (mkConfig path bs batches seed).
  Proof.
    intros Hok. unfold DatasetGen.ds_new, DatasetGen.ds_attrs_post_init. simpl.
    rewrite (post_init_loop (load path) []); [|reflexivity|exact Hok]. simpl.
    eexists. split; [reflexivity|]. split; [split; reflexivity|]. split; [reflexivity|].
    unfold abs, post_init, cfg_of. simpl. f_equal. apply erase_prepared.
  Qed.

  (* --- __len__ *)
  Lemma gen_len_eq (o : dsobj gen) d g : live o d g -> d <> [] -> ds_len o = Ok (Z.of_nat (nrows (erase d))).
  Proof.
    intros [Hd _] Hne. unfold DatasetGen.ds_len, get_data. rewrite Hd. simpl.
    destruct d as [|[k v] d]; [congruence|]. reflexivity.
  Qed.

  Definition wf_dict (d : tdict) : Prop := d <> [] /\ dict_ok d /\ rows_n d (nrows (erase d)).

  Lemma wf_dict_data d : wf_dict d -> wf_data (erase d).
  Proof.
    intros (_ & _ & Hn) f Hf. unfold erase in Hf. apply in_map_iff in Hf. destruct Hf as (kv & <- & Hkv).
    simpl. apply Hn. exact Hkv.
  Qed.

  (* --- _next_epoch *)
  Theorem gen_next_epoch_eq (o : dsobj gen) d g : live o d g -> wf_dict d ->
    let p := fst (randperm g (nrows (erase d))) in
    let g' := snd (randperm g (nrows (erase d))) in
    ds_next_epoch o = Ok (shuffled_dict d p, set_generator o g') /\
    (erase (shuffled_dict d p), abs (set_generator o g') d g') = next_epoch gen randperm (abs o d g).
  Proof.
    intros Hl (Hne & Hok & Hn) p g'. split.
    - unfold DatasetGen.ds_next_epoch. rewrite (gen_len_eq o d g Hl Hne). simpl.
      destruct Hl as [Hd Hg]. unfold get_generator. rewrite Hg. simpl.
      unfold torch_randperm. destruct (Z.of_nat (nrows (erase d)) <? 0) eqn:E; [apply Z.ltb_lt in E; lia|].
      rewrite Nat2Z.id. subst p g'. destruct (randperm g (nrows (erase d))) as [p g'] eqn:Er. simpl.
      unfold get_data. simpl. rewrite Hd. simpl. unfold d_items.
      rewrite (shuffle_mapM d p (nrows (erase d)) Hn).
      + simpl. rewrite dict_of_pairs_id; [reflexivity|]. unfold dict_ok. rewrite keys_shuffled. exact Hok.
      + pose proof (randperm_perm g (nrows (erase d))) as Hp. rewrite Er in Hp. simpl in Hp.
        apply perm_bound. exact Hp.
    - rewrite next_epoch_eq. unfold abs. simpl. rewrite erase_shuffled. subst p g'. reflexivity.
  Qed.

  Lemma live_set_generator o d g g' : live o d g -> live (set_generator o g') d g'.
  Proof. intros [Hd _]. split; [exact Hd|reflexivity]. Qed.

  (* --- fastforward_epochs *)
  Lemma gen_fastforward_loop (it : list Z) : forall (o : dsobj gen) d g, live o d g -> wf_dict d ->
    exists g', ds_fastforward_epochs_for1 gen randperm o it = Ok (set_generator o g') /\
               abs (set_generator o g') d g' = fastforward gen randperm (length it) (abs o d g).
  Proof.
    induction it as [|i it IH]; intros o d g Hl Hwf.
    - exists g. simpl. split; [|reflexivity]. destruct Hl as [Hd Hg]. destruct o; simpl in *. subst. reflexivity.
    - simpl. destruct (gen_next_epoch_eq o d g Hl Hwf) as [E1 E2]. rewrite E1. simpl.
      set (g1 := snd (randperm g (nrows (erase d)))) in *.
      destruct (IH (set_generator o g1) d g1 (live_set_generator o d g g1 Hl) Hwf) as (g' & E3 & E4).
      exists g'. split; [rewrite E3; destruct o; reflexivity|].
      rewrite <- E2 in *. simpl. rewrite <- E4. destruct o; reflexivity.
  Qed.

  Theorem gen_fastforward_eq (o : dsobj gen) d g (n : Z) : live o d g -> wf_dict d ->
    exists g', ds_fastforward_epochs o n = Ok (set_generator o g') /\
               abs (set_generator o g') d g' = fastforward gen randperm (Z.to_nat n) (abs o d g).
  Proof.
    intros Hl Hwf. unfold DatasetGen.ds_fastforward_epochs.
    destruct (gen_fastforward_loop (py_range n) o d g Hl Hwf) as (g' & E1 & E2).
    exists g'. rewrite E1. simpl. split; [reflexivity|].
    rewrite E2. unfold py_range. rewrite map_length, seq_length. reflexivity.
  Qed.

  (* --- __iter__ *)
  Lemma ds_iter_for1_eq (o : dsobj gen) sh it : ds_iter_for1 gen o sh it = batches_for (o_batch_size o) sh it.
  Proof. induction it as [|i it IH]; simpl; [reflexivity|]. rewrite IH. reflexivity. Qed.

  Theorem gen_iter_eq (o : dsobj gen) d g : live o d g -> wf_dict d -> 1 <= o_batch_size o ->
    exists ys g', ds_iter o = Ok (ys, set_generator o g') /\
      (map erase ys, abs (set_generator o g') d g') = iter gen randperm (abs o d g).
  Proof.
    intros Hl Hwf Hbs. destruct (gen_next_epoch_eq o d g Hl Hwf) as [E1 E2].
    set (p := fst (randperm g (nrows (erase d)))) in *.
    set (g' := snd (randperm g (nrows (erase d)))) in *.
    unfold DatasetGen.ds_iter. rewrite E1. simpl.
    pose proof (live_set_generator o d g g' Hl) as Hl'.
    destruct Hwf as (Hne & Hok & Hn).
    rewrite (gen_len_eq _ d g' Hl' Hne). simpl.
    remember (o_batch_size o) as bz eqn:Ez in |- *.
    replace bz with (Z.of_nat (Z.to_nat bz)) by lia.
    rewrite py_range3_starts by lia. cbn [bind].
    rewrite ds_iter_for1_eq. cbn [set_generator o_batch_size]. rewrite <- Ez.
    replace (batches_for bz) with (batches_for (Z.of_nat (Z.to_nat bz))) by (f_equal; lia).
    rewrite batches_for_eq by (unfold dict_ok; rewrite keys_shuffled; exact Hok). cbn [bind].
    subst bz.
    eexists. exists g'. split; [reflexivity|].
    rewrite iter_eq. unfold abs. cbn [data cfg rng cfg_of batch_size]. f_equal.
    rewrite erase_batches, erase_shuffled. rewrite epoch_unfold by exact Hbs. reflexivity.
  Qed.

  (* --- __getstate__ / __setstate__ *)
  Theorem gen_pickle_eq (o : dsobj gen) d g : live o d g -> dict_ok (load (o_path o)) ->
    exists st o', ds_getstate o = Ok st /\ ds_setstate st = Ok o' /\
      live o' (prepared (o_path o) (o_batch_size o) (o_batches o)) (seed_gen (o_seed o)) /\ cfg_of o' = cfg_of o /\
      abs o' (prepared (o_path o) (o_batch_size o) (o_batches o)) (seed_gen (o_seed o))
      = setstate gen seed_gen hload (getstate gen (abs o d g)).
  Proof.
    intros Hl Hok.
    destruct (gen_new_eq (o_path o) (o_batch_size o) (o_batches o) (o_seed o) Hok) as (o' & E & Hl' & Hc & Ha).
    exists (state_of o), o'. split; [reflexivity|]. split; [exact E|]. split; [exact Hl'|]. split; [exact Hc|].
    rewrite Ha. reflexivity.
  Qed.
End FileEq.

(* ------------------------------------------------ the replay-buffer dataset *)

Lemma list_Z_eqb_refl (l : list Z) : list_Z_eqb l l = true.
Proof. unfold list_Z_eqb. induction l as [|x l IH]; simpl; [reflexivity|]. rewrite Z.eqb_refl. exact IH. Qed.

Lemma py_sum_nat (l : list nat) : py_sum (map Z.of_nat l) = Z.of_nat (fold_right Nat.add 0%nat l).
Proof.
  unfold py_sum. assert (G : forall acc, fold_left Z.add (map Z.of_nat l) acc = acc + Z.of_nat (fold_right Nat.add 0%nat l)).
  { induction l as [|x l IH]; intros acc; simpl; [lia|]. rewrite IH. lia. }
  rewrite G. lia.
Qed.

Lemma py_max_nat (x : nat) (l : list nat) : py_max (map Z.of_nat (x :: l)) = Ok (Z.of_nat (list_max (x :: l))).
Proof.
  assert (G : forall a, fold_left Z.max (map Z.of_nat l) (Z.of_nat a) = Z.of_nat (Nat.max a (list_max l))).
  { induction l as [|y l IH]; intros a; [simpl; f_equal; lia|].
    cbn [map fold_left]. rewrite <- Nat2Z.inj_max, IH. f_equal. simpl. lia. }
  unfold py_max. cbn [map]. rewrite G. reflexivity.
Qed.

Lemma total_rows_sum (blocks : list (list row)) :
  total_rows blocks = fold_right Nat.add 0%nat (map (@length row) blocks).
Proof. unfold total_rows. induction blocks as [|b bs IH]; simpl; [reflexivity|]. rewrite app_length, IH. reflexivity. Qed.

Lemma row_width_uniform (w : nat) (rows : list row) :
  rows <> [] -> Forall (fun r => length r = w) rows -> row_width rows = w.
Proof.
  unfold row_width. intros Hne H. destruct rows as [|r rows]; [congruence|]. clear Hne.
  inversion H as [|? ? Hr Hrs]; subst. simpl.
  assert (G : (list_max (map (@length Z) rows) <= length r)%nat).
  { apply list_max_le. apply Forall_forall. intros x Hx. apply in_map_iff in Hx. destruct Hx as (r' & <- & Hr').
    rewrite Forall_forall in Hrs. rewrite (Hrs r' Hr'). lia. }
  lia.
Qed.

Lemma cast_id_int (v : Z) : cast INT64 v = v.
Proof. reflexivity. Qed.
Lemma cast_id_bool (v : Z) : v = 0 \/ v = 1 -> cast BOOL v = v.
Proof. intros [-> | ->]; reflexivity. Qed.

Lemma write_rows_cast_zeros (to : Z) (w W m : nat) (src : list row) :
  (w <= W)%nat -> Forall (fun r => length r = w) src -> Forall (Forall (fun v => cast to v = v)) src ->
  write_rows_cast to w src (zeros (length src + m) W) = map (pad W) src ++ zeros m W.
Proof.
  intros HwW. unfold zeros. induction src as [|s src IH]; intros Hlen Hc; simpl; [destruct (repeat _ m); reflexivity|].
  inversion Hlen as [|? ? Hs Hsrc]; subst. inversion Hc as [|? ? Hcs Hcsrc]; subst.
  rewrite IH by assumption. f_equal. unfold pad. f_equal.
  - clear -Hcs. induction s as [|v s IHs]; simpl; [reflexivity|]. inversion Hcs; subst. rewrite IHs by assumption. f_equal. assumption.
  - apply skipn_repeat.
Qed.

Lemma t_size0 (t : tensor) : t_size t 0 = Ok (t_len t).
Proof.
  unfold t_size, t_shape, py_getitem, py_index, zlen. simpl length.
  destruct ((0 <=? 0) && (0 <? Z.of_nat (S (length (t_tail t))))) eqn:E; [reflexivity|].
  apply andb_false_iff in E. destruct E as [E|E]; [discriminate|apply Z.ltb_ge in E; lia].
Qed.

Lemma shape_get0 (n w : Z) : py_getitem [n; w] 0 = Ok n.
Proof. reflexivity. Qed.
Lemma shape_get1 (n w : Z) : py_getitem [n; w] 1 = Ok w.
Proof. reflexivity. Qed.

Lemma t_size1 (t : tensor) (w : Z) : t_tail t = [w] -> t_size t 1 = Ok w.
Proof. intros H. unfold t_size, t_shape. rewrite H. apply shape_get1. Qed.

Lemma POS_neq_MASK : S_positions <> S_mask.
Proof. intro H. inversion H. Qed.

Section RbEq.
  Variable gen : Type.
  Variable randperm : gen -> nat -> list nat * gen.
  Hypothesis randperm_perm : forall g n, Permutation (fst (randperm g n)) (seq 0 n).

  Notation rb_cat_replay_buffer := (rb_cat_replay_buffer).
  Notation rb_iter := (rb_iter gen randperm).

  (* one buffer of the window: positions and mask are 2-D tensors of one shape with at least one
     row, integer / 0-1 payloads; it has every other key of the first buffer, with the first
     buffer's trailing shape and dtype *)
  Definition buf_ok (first b : tdict) : Prop :=
    exists P M w,
      d_get b S_positions = Ok P /\ d_get b S_mask = Ok M /\
      t_tail P = [Z.of_nat w] /\ t_tail M = [Z.of_nat w] /\
      Forall (fun r => length r = w) (t_rows P) /\ Forall (fun r => length r = w) (t_rows M) /\
      length (t_rows M) = length (t_rows P) /\ t_rows P <> [] /\
      is_float (t_dtype P) = false /\ is_float (t_dtype M) = false /\
      Forall (Forall (fun v => v = 0 \/ v = 1)) (t_rows M) /\
      (forall k t0, In (k, t0) first -> special k = false ->
         exists t, d_get b k = Ok t /\ t_tail t = t_tail t0 /\ t_dtype t = t_dtype t0).
  Definition rb_dom (bufs : list tdict) : Prop :=
    exists b0 rest, bufs = b0 :: rest /\ dict_ok b0 /\ Forall (buf_ok b0) bufs.

  Definition hpos (bufs : list tdict) : list (list row) := map (get_field POSITIONS) (map erase bufs).
  Definition hmsk (bufs : list tdict) : list (list row) := map (get_field MASK) (map erase bufs).

  Lemma buf_ok_pos first b : buf_ok first b ->
    exists P M w, d_get b S_positions = Ok P /\ d_get b S_mask = Ok M /\
      get_field POSITIONS (erase b) = t_rows P /\ get_field MASK (erase b) = t_rows M /\
      t_tail P = [Z.of_nat w] /\ t_tail M = [Z.of_nat w] /\
      Forall (fun r => length r = w) (t_rows P) /\ Forall (fun r => length r = w) (t_rows M) /\
      length (t_rows M) = length (t_rows P) /\ t_rows P <> [] /\
      is_float (t_dtype P) = false /\ is_float (t_dtype M) = false /\
      Forall (Forall (fun v => v = 0 \/ v = 1)) (t_rows M).
  Proof.
    intros (P & M & w & H1 & H2 & H3 & H4 & H5 & H6 & H7 & H8 & H9 & H10 & H11 & _).
    exists P, M, w. repeat split; try assumption.
    - apply (d_get_field b S_positions P H1).
    - apply (d_get_field b S_mask M H2).
  Qed.

  (* --- the concatenated fields *)
  Lemma cat_key (first : tdict) (k : fname) (t0 : tensor) (bufs : list tdict) :
    bufs <> [] ->
    Forall (fun b => exists t, d_get b k = Ok t /\ t_tail t = t_tail t0 /\ t_dtype t = t_dtype t0) bufs ->
    (t3 <- mapM (fun d => t2 <- d_get d k ;; Ok t2) bufs ;; torch_cat t3)
    = Ok (mkT (t_dtype t0) (t_tail t0) (concat (map (get_field k) (map erase bufs)))).
  Proof.
    intros Hne H.
    assert (G : exists ts, mapM (fun d => t2 <- d_get d k ;; Ok t2) bufs = Ok ts /\
                           map t_rows ts = map (get_field k) (map erase bufs) /\
                           Forall (fun t => t_tail t = t_tail t0 /\ t_dtype t = t_dtype t0) ts /\ length ts = length bufs).
    { clear Hne. induction bufs as [|b bufs IH]; [exists []; repeat split; constructor|].
      inversion H as [|? ? (t & Ht & Htl & Hdt) Hrest]; subst.
      destruct (IH Hrest) as (ts & E1 & E2 & E3 & E4).
      exists (t :: ts). cbn [mapM]. rewrite Ht. cbn [bind]. rewrite E1. cbn [bind].
      split; [reflexivity|]. split; [simpl; rewrite E2, (d_get_field b k t Ht); reflexivity|].
      split; [constructor; [split; assumption|exact E3]|simpl; rewrite E4; reflexivity]. }
    destruct G as (ts & E1 & E2 & E3 & E4). rewrite E1. cbn [bind].
    destruct ts as [|t ts]; [destruct bufs; [congruence|discriminate]|].
    unfold torch_cat.
    assert (F1 : forallb (fun x => list_Z_eqb (t_tail x) (t_tail t)) (t :: ts) = true).
    { apply forallb_forall. intros x Hx. rewrite Forall_forall in E3.
      destruct (E3 x Hx) as [Hx1 _]. destruct (E3 t (or_introl eq_refl)) as [Ht1 _].
      rewrite Hx1, Ht1. apply list_Z_eqb_refl. }
    assert (F2 : forallb (fun x => t_dtype x =? t_dtype t) (t :: ts) = true).
    { apply forallb_forall. intros x Hx. rewrite Forall_forall in E3.
      destruct (E3 x Hx) as [_ Hx1]. destruct (E3 t (or_introl eq_refl)) as [_ Ht1].
      rewrite Hx1, Ht1. apply Z.eqb_refl. }
    rewrite F1, F2. rewrite Forall_forall in E3. destruct (E3 t (or_introl eq_refl)) as [Ht1 Ht2].
    rewrite Ht1, Ht2, E2. reflexivity.
  Qed.

  Definition cat_pairs (b0 : tdict) (bufs : list tdict) (keys : list fname) : tdict :=
    map (fun k => (k, match d_get b0 k with
                      | Ok t0 => mkT (t_dtype t0) (t_tail t0) (concat (map (get_field k) (map erase bufs)))
                      | Crash _ => mkT 0 [] []
                      end)) keys.

  Lemma d_get_of_In (d : tdict) k t : dict_ok d -> In (k, t) d -> d_get d k = Ok t.
  Proof.
    unfold dict_ok. induction d as [|[k' v] d IH]; intros Hok Hin; [destruct Hin|].
    simpl in Hok. inversion Hok as [|? ? Hn Hd]; subst. simpl.
    destruct Hin as [E|Hin].
    - inversion E; subst. rewrite fname_eqb_refl. reflexivity.
    - rewrite fname_eqb_neq; [apply IH; assumption|].
      intro E. subst k'. apply Hn. apply in_map_iff. exists (k, t). split; [reflexivity|exact Hin].
  Qed.

  Lemma cat_all (b0 : tdict) (bufs : list tdict) (keys : list fname) :
    bufs <> [] -> dict_ok b0 -> Forall (buf_ok b0) bufs ->
    (forall k, In k keys -> In k (map fst b0) /\ special k = false) ->
    mapM (fun k => t3 <- mapM (fun d => t2 <- d_get d k ;; Ok t2) bufs ;; t4 <- torch_cat t3 ;; Ok (k, t4)) keys
    = Ok (cat_pairs b0 bufs keys).
  Proof.
    intros Hne Hok Hb. induction keys as [|k keys IH]; intros Hk; [reflexivity|].
    destruct (Hk k (or_introl eq_refl)) as [Hin Hsp].
    apply in_map_iff in Hin. destruct Hin as ([k' t0] & Ek & Hin). simpl in Ek. subst k'.
    assert (Hall : Forall (fun b => exists t, d_get b k = Ok t /\ t_tail t = t_tail t0 /\ t_dtype t = t_dtype t0) bufs).
    { apply Forall_forall. intros b Hbin. rewrite Forall_forall in Hb.
      destruct (Hb b Hbin) as (P & M & w & _ & _ & _ & _ & _ & _ & _ & _ & _ & _ & _ & Hkeys).
      apply (Hkeys k t0 Hin Hsp). }
    pose proof (cat_key b0 k t0 bufs Hne Hall) as E.
    cbn [mapM].
    assert (E' : (t3 <- mapM (fun d => t2 <- d_get d k ;; Ok t2) bufs ;; t4 <- torch_cat t3 ;; Ok (k, t4))
                 = Ok (k, mkT (t_dtype t0) (t_tail t0) (concat (map (get_field k) (map erase bufs))))).
    { destruct (mapM (fun d => t2 <- d_get d k ;; Ok t2) bufs) as [ts|e]; [|discriminate E].
      cbn [bind] in *. rewrite E. reflexivity. }
    rewrite E'. cbn [bind]. rewrite IH by (intros k' Hk'; apply Hk; right; exact Hk'). cbn [bind].
    unfold cat_pairs. simpl map. rewrite (d_get_of_In b0 k t0 Hok Hin). reflexivity.
  Qed.

  (* --- npos, maxwidth *)
  Lemma sizes0 (b0 : tdict) (bufs : list tdict) : Forall (buf_ok b0) bufs ->
    mapM (fun b => t6 <- d_get b S_positions ;; t7 <- t_size t6 0 ;; Ok t7) bufs
    = Ok (map Z.of_nat (map (@length row) (hpos bufs))).
  Proof.
    unfold hpos. induction bufs as [|b bufs IH]; intros H; [reflexivity|].
    inversion H as [|? ? Hb Hrest]; subst.
    destruct (buf_ok_pos b0 b Hb) as (P & M & w & H1 & _ & H3 & _).
    cbn [mapM]. rewrite H1. cbn [bind]. rewrite t_size0. cbn [bind]. rewrite IH by exact Hrest. cbn [bind].
    simpl map. rewrite H3. reflexivity.
  Qed.

  Lemma sizes1 (b0 : tdict) (bufs : list tdict) : Forall (buf_ok b0) bufs ->
    mapM (fun b => t9 <- d_get b S_positions ;; t10 <- t_size t9 1 ;; Ok t10) bufs
    = Ok (map Z.of_nat (map row_width (hpos bufs))).
  Proof.
    unfold hpos. induction bufs as [|b bufs IH]; intros H; [reflexivity|].
    inversion H as [|? ? Hb Hrest]; subst.
    destruct (buf_ok_pos b0 b Hb) as (P & M & w & H1 & _ & H3 & _ & H5 & _ & H7 & _ & _ & H10 & _).
    cbn [mapM]. rewrite H1. cbn [bind]. rewrite (t_size1 P _ H5). cbn [bind]. rewrite IH by exact Hrest. cbn [bind].
    simpl map. rewrite H3. rewrite (row_width_uniform w (t_rows P) H10 H7). reflexivity.
  Qed.

  (* --- the writing loop *)
  Lemma setblock_step (code : Z) (W w m : nat) (done : list row) (src : tensor) :
    (w <= W)%nat -> t_tail src = [Z.of_nat w] -> Forall (fun r => length r = w) (t_rows src) ->
    is_float (t_dtype src) = false -> (code = INT64 \/ code = BOOL) ->
    Forall (Forall (fun v => cast code v = v)) (t_rows src) ->
    t_setblock (mkT code [Z.of_nat W] (done ++ zeros (length (t_rows src) + m) W))
               (Z.of_nat (length done)) (Z.of_nat (length done) + t_len src) (Z.of_nat w) src
    = Ok (mkT code [Z.of_nat W] ((done ++ map (pad W) (t_rows src)) ++ zeros m W)).
  Proof.
    intros HwW Htl Hrows Hfl Hcode Hcast.
    unfold t_setblock. cbn [t_tail t_rows t_dtype]. rewrite Htl.
    set (r := length (t_rows src)).
    assert (Elen : t_len (mkT code [Z.of_nat W] (done ++ zeros (r + m) W)) = Z.of_nat (length done + (r + m))).
    { unfold t_len, zlen. cbn [t_rows]. rewrite app_length. unfold zeros. rewrite repeat_length. reflexivity. }
    rewrite Elen. assert (Esrc : t_len src = Z.of_nat r) by reflexivity. rewrite Esrc.
    unfold py_bound.
    destruct (Z.of_nat (length done) <? 0) eqn:E1; [apply Z.ltb_lt in E1; lia|].
    destruct (Z.of_nat (length done) + Z.of_nat r <? 0) eqn:E2; [apply Z.ltb_lt in E2; lia|].
    destruct (Z.of_nat w <? 0) eqn:E3; [apply Z.ltb_lt in E3; lia|].
    rewrite (Z.min_l (Z.of_nat (length done))) by lia.
    rewrite (Z.min_l (Z.of_nat (length done) + Z.of_nat r)) by lia.
    rewrite (Z.min_l (Z.of_nat w)) by lia.
    replace (Z.max 0 (Z.of_nat (length done) + Z.of_nat r - Z.of_nat (length done))) with (Z.of_nat r) by lia.
    rewrite !Z.eqb_refl. cbn [andb].
    assert (Ec : cast_ok (t_dtype src) code = true).
    { unfold cast_ok. rewrite Hfl. destruct Hcode as [-> | ->]; reflexivity. }
    rewrite Ec. rewrite !Nat2Z.id. f_equal. f_equal.
    rewrite firstn_app, Nat.sub_diag, firstn_all, firstn_O, app_nil_r.
    rewrite skipn_app, Nat.sub_diag, skipn_all, skipn_O. cbn [app].
    subst r. rewrite (write_rows_cast_zeros code w W m (t_rows src) HwW Hrows Hcast).
    rewrite <- app_assoc. reflexivity.
  Qed.

  Lemma cat_loop (b0 : tdict) (W : nat) : forall (bufs : list tdict) (doneP doneM : list row) (k : nat),
    Forall (buf_ok b0) bufs -> (forall r, In r (concat (hpos bufs)) -> (length r <= W)%nat) ->
    length doneM = length doneP ->
    rb_cat_replay_buffer_for1
      (mkT INT64 [Z.of_nat W] (doneP ++ zeros (total_rows (hpos bufs) + k) W))
      (mkT BOOL [Z.of_nat W] (doneM ++ zeros (total_rows (hpos bufs) + k) W))
      (Z.of_nat (length doneP)) bufs
    = Ok (mkT INT64 [Z.of_nat W] (doneP ++ concat (map (map (pad W)) (hpos bufs)) ++ zeros k W),
          mkT BOOL [Z.of_nat W] (doneM ++ concat (map (map (pad W)) (hmsk bufs)) ++ zeros k W),
          Z.of_nat (length doneP + total_rows (hpos bufs))).
  Proof.
    induction bufs as [|b bufs IH]; intros doneP doneM k Hb HW Hlen.
    - simpl. rewrite Nat.add_0_r. reflexivity.
    - inversion Hb as [|? ? Hb1 Hrest]; subst.
      destruct (buf_ok_pos b0 b Hb1) as (P & M & w & H1 & H2 & H3 & H4 & H5 & H6 & H7 & H8 & H9 & H10 & H11 & H12 & H13).
      assert (EhP : hpos (b :: bufs) = t_rows P :: hpos bufs) by (unfold hpos; simpl; rewrite H3; reflexivity).
      assert (EhM : hmsk (b :: bufs) = t_rows M :: hmsk bufs) by (unfold hmsk; simpl; rewrite H4; reflexivity).
      rewrite EhP, EhM in *. rewrite total_rows_cons.
      assert (HwW : (w <= W)%nat).
      { destruct (t_rows P) as [|r0 rs] eqn:EP; [congruence|].
        inversion H7; subst. apply HW. simpl. left; reflexivity. }
      cbn [rb_cat_replay_buffer_for1]. rewrite H1. cbn [bind].
      unfold t_shape. rewrite H5. rewrite shape_get0, shape_get1. cbn [bind].
      rewrite <- Nat.add_assoc.
      rewrite (setblock_step INT64 W w (total_rows (hpos bufs) + k) doneP P HwW H5 H7 H11 (or_introl eq_refl))
        by (apply Forall_forall; intros r _; apply Forall_forall; intros v _; apply cast_id_int).
      cbn [bind]. rewrite H2. cbn [bind].
      assert (ElenM : t_len P = t_len M) by (unfold t_len, zlen; rewrite H9; reflexivity).
      assert (Hc : Forall (Forall (fun v => cast BOOL v = v)) (t_rows M)).
      { apply Forall_forall. intros r Hr. rewrite Forall_forall in H13. specialize (H13 r Hr).
        apply Forall_forall. intros v Hv. rewrite Forall_forall in H13. apply cast_id_bool. apply H13. exact Hv. }
      assert (EM : t_setblock (mkT BOOL [Z.of_nat W] (doneM ++ zeros (length (t_rows P) + (total_rows (hpos bufs) + k)) W))
                     (Z.of_nat (length doneP)) (Z.of_nat (length doneP) + t_len P) (Z.of_nat w) M
                   = Ok (mkT BOOL [Z.of_nat W] ((doneM ++ map (pad W) (t_rows M)) ++ zeros (total_rows (hpos bufs) + k) W))).
      { rewrite <- Hlen, ElenM, <- H9.
        apply (setblock_step BOOL W w (total_rows (hpos bufs) + k) doneM M HwW H6 H8 H12 (or_intror eq_refl) Hc). }
      rewrite EM. cbn [bind].
      replace (Z.of_nat (length doneP) + t_len P) with (Z.of_nat (length (doneP ++ map (pad W) (t_rows P))))
        by (rewrite app_length, map_length; unfold t_len, zlen; lia).
      rewrite (IH (doneP ++ map (pad W) (t_rows P)) (doneM ++ map (pad W) (t_rows M)) k Hrest).
      + simpl concat. rewrite <- !app_assoc. f_equal. f_equal. rewrite app_length, map_length. f_equal. lia.
      + intros r Hr. apply HW. simpl. apply in_or_app. right; exact Hr.
      + rewrite !app_length, !map_length. lia.
  Qed.

  Lemma zeros2_nat (n W : nat) (code : Z) :
    torch_zeros2 (Z.of_nat n) (Z.of_nat W) code = Ok (mkT code [Z.of_nat W] (zeros n W)).
  Proof.
    unfold torch_zeros2. destruct ((Z.of_nat n <? 0) || (Z.of_nat W <? 0)) eqn:E.
    - apply orb_true_iff in E. destruct E as [E|E]; apply Z.ltb_lt in E; lia.
    - rewrite !Nat2Z.id. reflexivity.
  Qed.

  Lemma d_get_exists (d : tdict) k : In k (map fst d) -> exists t, d_get d k = Ok t /\ In (k, t) d.
  Proof.
    induction d as [|[k' v] d IH]; intros H; [destruct H|]. simpl.
    destruct (fname_eqb k k') eqn:E.
    - apply fname_eqb_eq in E. subst. exists v. split; [reflexivity|left; reflexivity].
    - destruct H as [H|H]; [simpl in H; subst; rewrite fname_eqb_refl in E; discriminate|].
      destruct (IH H) as (t & Ht & Hin). exists t. split; [exact Ht|right; exact Hin].
  Qed.

  Lemma NoDup_snoc2 {A} (l : list A) (a b : A) :
    NoDup l -> ~ In a l -> ~ In b l -> a <> b -> NoDup (l ++ [a; b]).
  Proof.
    induction l as [|x l IH]; intros Hn Ha Hb Hab; simpl.
    - constructor; [intros [E|[]]; congruence|constructor; [intros []|constructor]].
    - inversion Hn as [|? ? Hx Hl]; subst. constructor.
      + intro Hin. apply in_app_or in Hin. destruct Hin as [Hin|[E|[E|[]]]]; [contradiction| |].
        * apply Ha. left; symmetry; exact E.
        * apply Hb. left; symmetry; exact E.
      + apply IH; [exact Hl| | |exact Hab]; intro H; [apply Ha|apply Hb]; right; exact H.
  Qed.

  Lemma keys_spec (b0 : tdict) (k : fname) :
    In k (filter (fun k => negb (str_in k [S_positions; S_mask])) (d_keys b0)) ->
    In k (map fst b0) /\ special k = false /\ k <> S_positions /\ k <> S_mask.
  Proof.
    intros H. apply filter_In in H. destruct H as [Hin Hf]. split; [exact Hin|].
    unfold str_in in Hf. cbn [existsb] in Hf. rewrite orb_false_r in Hf.
    apply negb_true_iff in Hf. apply orb_false_iff in Hf. destruct Hf as [F1 F2].
    split; [|split].
    - unfold special. rewrite (fname_eqb_sym POSITIONS k), (fname_eqb_sym MASK k).
      unfold S_positions, S_mask in *. rewrite F1, F2. reflexivity.
    - intro E. subst k. rewrite fname_eqb_refl in F1. discriminate.
    - intro E. subst k. rewrite fname_eqb_refl in F2. discriminate.
  Qed.

  Lemma filter_keys_eq (b0 : tdict) :
    filter (fun k => negb (special k)) (map fst (erase b0))
    = filter (fun k => negb (str_in k [S_positions; S_mask])) (d_keys b0).
  Proof.
    unfold erase, d_keys. rewrite map_map. cbn [fst]. apply filter_ext. intros k.
    unfold special, str_in. cbn [existsb]. rewrite orb_false_r.
    rewrite (fname_eqb_sym POSITIONS k), (fname_eqb_sym MASK k). reflexivity.
  Qed.

  Lemma total_rows_msk (b0 : tdict) (bufs : list tdict) : Forall (buf_ok b0) bufs ->
    total_rows (hmsk bufs) = total_rows (hpos bufs).
  Proof.
    unfold hmsk, hpos. induction bufs as [|b bufs IH]; intros H; [reflexivity|].
    inversion H as [|? ? Hb Hrest]; subst.
    destruct (buf_ok_pos b0 b Hb) as (P & M & w & _ & _ & H3 & H4 & _ & _ & _ & _ & H9 & _).
    simpl map. rewrite !total_rows_cons, IH by exact Hrest. rewrite H3, H4, H9. reflexivity.
  Qed.

  Definition merged (b0 : tdict) (bufs : list tdict) : tdict :=
    let W := maxwidth (hpos bufs) in
    cat_pairs b0 bufs (filter (fun k => negb (str_in k [S_positions; S_mask])) (d_keys b0))
    ++ [(S_positions, mkT INT64 [Z.of_nat W] (concat (map (map (pad W)) (hpos bufs))));
        (S_mask, mkT BOOL [Z.of_nat W] (concat (map (map (pad W)) (hmsk bufs))))].

  (* cat_replay_buffer: no crash on the domain, and the hand model's merge *)
  Theorem gen_cat_eq (bufs : list tdict) (bs : Z) (f : option tdict) : rb_dom bufs ->
    exists b0, hd_error bufs = Some b0 /\
      rb_cat_replay_buffer (mkRb bufs bs f) = Ok (merged b0 bufs) /\
      erase (merged b0 bufs) = Dataset.cat_replay_buffer (map erase bufs) /\ dict_ok (merged b0 bufs).
  Proof.
    intros (b0 & rest & E & Hok & Hb). exists b0. split; [subst; reflexivity|].
    set (keys := filter (fun k => negb (str_in k [S_positions; S_mask])) (d_keys b0)).
    assert (Hne : bufs <> []) by (subst; congruence).
    assert (Hkeys : forall k, In k keys -> In k (map fst b0) /\ special k = false).
    { intros k Hk. destruct (keys_spec b0 k Hk) as (H1 & H2 & _). split; assumption. }
    assert (HW : forall r, In r (concat (hpos bufs)) -> (length r <= maxwidth (hpos bufs))%nat)
      by (intros r Hr; apply width_le_maxwidth; exact Hr).
    assert (Hhd : hpos bufs <> []) by (subst; discriminate).
    split; [|split].
    - unfold DatasetGen.rb_cat_replay_buffer. cbn [rb_replay_buffer].
      assert (E0 : py_getitem bufs 0 = Ok b0) by (subst; reflexivity).
      rewrite E0. cbn [bind]. fold keys.
      rewrite (cat_all b0 bufs keys Hne Hok Hb Hkeys). cbn [bind].
      rewrite (sizes0 b0 bufs Hb). cbn [bind]. rewrite (sizes1 b0 bufs Hb). cbn [bind].
      rewrite py_sum_nat, <- total_rows_sum.
      destruct (map row_width (hpos bufs)) as [|x l] eqn:Ew; [destruct (hpos bufs); [congruence|discriminate]|].
      rewrite py_max_nat. cbn [bind]. rewrite <- Ew. fold (maxwidth (hpos bufs)).
      rewrite !zeros2_nat. cbn [bind].
      pose proof (cat_loop b0 (maxwidth (hpos bufs)) bufs [] [] 0 Hb HW eq_refl) as EL.
      cbn [app length] in EL. rewrite Nat.add_0_r in EL. change (Z.of_nat 0) with 0 in EL. rewrite EL. cbn [bind].
      unfold zeros. cbn [repeat]. rewrite !app_nil_r.
      assert (Hdk : dict_of_pairs (cat_pairs b0 bufs keys) = cat_pairs b0 bufs keys).
      { apply dict_of_pairs_id. unfold dict_ok, cat_pairs. rewrite map_map. cbn [fst]. rewrite map_id.
        apply NoDup_filter. exact Hok. }
      rewrite Hdk.
      assert (Hk1 : ~ In S_positions (map fst (cat_pairs b0 bufs keys))).
      { unfold cat_pairs. rewrite map_map. cbn [fst]. rewrite map_id. intro Hin.
        destruct (keys_spec b0 _ Hin) as (_ & _ & Hn & _). congruence. }
      rewrite (d_set_fresh (cat_pairs b0 bufs keys) S_positions _ Hk1).
      assert (Hk2 : ~ In S_mask (map fst (cat_pairs b0 bufs keys ++ [(S_positions,
                      mkT INT64 [Z.of_nat (maxwidth (hpos bufs))] (concat (map (map (pad (maxwidth (hpos bufs)))) (hpos bufs))))]))).
      { rewrite map_app. intro Hin. apply in_app_or in Hin. destruct Hin as [Hin|[Hin|[]]].
        - unfold cat_pairs in Hin. rewrite map_map in Hin. cbn [fst] in Hin. rewrite map_id in Hin.
          destruct (keys_spec b0 _ Hin) as (_ & _ & _ & Hn). congruence.
        - simpl in Hin. apply POS_neq_MASK. exact Hin. }
      rewrite d_set_fresh by exact Hk2. unfold merged. fold keys. rewrite <- app_assoc. reflexivity.
    - unfold merged, Dataset.cat_replay_buffer. fold keys. unfold erase at 1. rewrite map_app. cbn [map fst snd t_rows].
      assert (Ehd : hd [] (map erase bufs) = erase b0) by (subst; reflexivity).
      rewrite Ehd, filter_keys_eq. fold keys. fold (hpos bufs). fold (hmsk bufs).
      f_equal.
      + unfold cat_pairs. rewrite !map_map. apply map_ext_in. intros k Hk. cbn [fst snd].
        destruct (Hkeys k Hk) as [Hin _]. destruct (d_get_exists b0 k Hin) as (t & Ht & _). rewrite Ht. reflexivity.
      + rewrite fill_zeros. rewrite <- (total_rows_msk b0 bufs Hb), fill_zeros. reflexivity.
    - unfold dict_ok, merged. fold keys. rewrite map_app. cbn [map fst].
      unfold cat_pairs. rewrite map_map. cbn [fst]. rewrite map_id.
      apply NoDup_snoc2.
      + apply NoDup_filter. exact Hok.
      + intro Hin. destruct (keys_spec b0 _ Hin) as (_ & _ & Hn & _). congruence.
      + intro Hin. destruct (keys_spec b0 _ Hin) as (_ & _ & _ & Hn). congruence.
      + exact POS_neq_MASK.
  Qed.

  Lemma rb_iter_for1_eq (o : rbobj) sh it : rb_iter_for1 o sh it = batches_for (rb_batch_size o) sh it.
  Proof. induction it as [|i it IH]; simpl; [reflexivity|]. rewrite IH. reflexivity. Qed.

  (* ReplayBufferDataset(bufs, bs, "cpu") and one completely consumed __iter__ *)
  Theorem gen_rb_iter_eq (bufs : list tdict) (bs : Z) (g : gen) :
    rb_dom bufs -> rb_wf (map erase bufs) -> 1 <= bs ->
    let n := total_rows (hpos bufs) in
    exists o ys, rb_new bufs bs = Ok o /\ rb_iter o g = Ok (ys, snd (randperm g n)) /\
      map erase ys = rb_epoch (map erase bufs) (fst (randperm g n)) bs.
  Proof.
    intros Hdom Hwf Hbs n.
    destruct (gen_cat_eq bufs bs None Hdom) as (b0 & _ & Ecat & Eer & Hok).
    set (flat := merged b0 bufs) in *.
    exists (mkRb bufs bs (Some flat)). unfold DatasetGen.rb_new, DatasetGen.rb_attrs_post_init. rewrite Ecat. cbn [bind].
    assert (Hrows : rows_n flat n).
    { intros kv Hkv. pose proof (flat_rows (map erase bufs) Hwf (fst kv, t_rows (snd kv))) as Hf.
      cbn [snd] in Hf. apply Hf. rewrite <- Eer. unfold erase. apply in_map_iff. exists kv. split; [reflexivity|exact Hkv]. }
    assert (HinP : exists P, In (S_positions, P) flat).
    { eexists. unfold flat, merged. apply in_or_app. right. left. reflexivity. }
    destruct HinP as (P & HinP).
    assert (EP : d_get flat S_positions = Ok P) by (apply d_get_of_In; assumption).
    assert (ElenP : t_len P = Z.of_nat n).
    { pose proof (Hrows (S_positions, P) HinP) as Hr. cbn [snd] in Hr. unfold t_len, zlen. rewrite Hr. reflexivity. }
    pose proof (randperm_perm g n) as Hp.
    destruct (randperm g n) as [p g'] eqn:Er. cbn [fst snd] in *.
    eexists. split; [reflexivity|].
    unfold DatasetGen.rb_iter, get_flat. cbn [rb_flat set_flat bind rb_batch_size].
    rewrite EP. cbn [bind]. rewrite ElenP.
    unfold torch_randperm. destruct (Z.of_nat n <? 0) eqn:E; [apply Z.ltb_lt in E; lia|].
    rewrite Nat2Z.id, Er. cbn [bind]. unfold d_items.
    rewrite (shuffle_mapM flat p n Hrows (perm_bound p n Hp)). cbn [bind].
    rewrite dict_of_pairs_id by (unfold dict_ok; rewrite keys_shuffled; exact Hok).
    replace bs with (Z.of_nat (Z.to_nat bs)) at 1 by lia.
    rewrite py_range3_starts by lia. cbn [bind].
    rewrite rb_iter_for1_eq. cbn [rb_batch_size].
    replace (batches_for bs) with (batches_for (Z.of_nat (Z.to_nat bs))) by (f_equal; lia).
    rewrite batches_for_eq by (unfold dict_ok; rewrite keys_shuffled; exact Hok). cbn [bind].
    split; [reflexivity|].
    rewrite erase_batches, erase_shuffled, Eer. unfold rb_epoch.
    destruct (bs <=? 0) eqn:E0; [apply Z.leb_le in E0; lia|].
    rewrite flat_npos. reflexivity.
  Qed.
End RbEq.

(* ------------------------------- C20's theorems about the generated functions *)

Section Transport.
  Variable gen : Type.
  Variable seed_gen : Z -> gen.
  Variable randperm : gen -> nat -> list nat * gen.
  Variable load : list Z -> tdict.
  Hypothesis randperm_perm : forall g n, Permutation (fst (randperm g n)) (seq 0 n).

  Notation ds_iter := (ds_iter gen randperm).
  Notation ds_fastforward_epochs := (ds_fastforward_epochs gen randperm).
  Notation abs := (abs gen).
  Notation live := (live gen).

  Lemma nth_error_erase (d : tdict) j k t : nth_error d j = Some (k, t) -> nth_error (erase d) j = Some (k, t_rows t).
  Proof. intros H. unfold erase. apply (map_nth_error (fun kv => (fst kv, t_rows (snd kv)))) in H. exact H. Qed.

  (* one completely consumed epoch of the TRANSLATED __iter__: no crash, every stored row exactly once,
     one index list for all fields *)
  Theorem gen_epoch_is_permutation (o : dsobj gen) d g : live o d g -> wf_dict d -> 1 <= o_batch_size o ->
    exists ys g' idx, ds_iter o = Ok (ys, set_generator o g') /\ Permutation idx (seq 0 (nrows (erase d))) /\
      forall j k t, nth_error d j = Some (k, t) ->
        length (t_rows t) = nrows (erase d) /\
        Permutation (concat (map (batch_field j) (map erase ys))) (t_rows t) /\
        concat (map (batch_field j) (map erase ys)) = map (fun i => nth i (t_rows t) []) idx /\
        Forall (fun b => map fst b = map fst d) ys.
  Proof.
    intros Hl Hwf Hbs. destruct (gen_iter_eq gen randperm randperm_perm o d g Hl Hwf Hbs) as (ys & g' & E1 & E2).
    pose proof (wf_dict_data d Hwf) as Hwd.
    destruct (iter_fields_aligned gen randperm randperm_perm (abs o d g) Hwd Hbs) as (idx & Hp & Hall).
    exists ys, g', idx. split; [exact E1|]. split; [exact Hp|].
    intros j k t Hj. pose proof (nth_error_erase d j k t Hj) as Hj'.
    assert (Efst : map erase ys = fst (iter gen randperm (abs o d g))) by (rewrite <- E2; reflexivity).
    destruct (Hall j k (t_rows t) Hj') as (H1 & H2 & H3).
    split; [exact H1|]. rewrite Efst. split; [|split; [exact H2|]].
    - apply (iter_epoch_is_permutation gen randperm randperm_perm (abs o d g) j k); assumption.
    - rewrite <- Efst in H3. rewrite Forall_forall in *. intros b Hb.
      specialize (H3 (erase b) (in_map erase ys b Hb)). cbn [data DatasetGenEq.abs] in H3.
      unfold erase in H3. rewrite !map_map in H3. exact H3.
  Qed.

  (* n completely consumed epochs of the translated code *)
  Fixpoint gconsume (n : nat) (o : dsobj gen) : res (dsobj gen) :=
    match n with O => Ok o | S n' => '(_, o1) <- ds_iter o ;; gconsume n' o1 end.

  Lemma gconsume_eq (n : nat) : forall (o : dsobj gen) d g, live o d g -> wf_dict d -> 1 <= o_batch_size o ->
    exists g', gconsume n o = Ok (set_generator o g') /\
               abs (set_generator o g') d g' = snd (consume gen randperm n (abs o d g)).
  Proof.
    induction n as [|n IH]; intros o d g Hl Hwf Hbs.
    - exists g. simpl. destruct Hl as [Hd Hg]. destruct o; simpl in *. subst. split; reflexivity.
    - destruct (gen_iter_eq gen randperm randperm_perm o d g Hl Hwf Hbs) as (ys & g1 & E1 & E2).
      cbn [gconsume]. rewrite E1. cbn [bind].
      destruct (IH (set_generator o g1) d g1 (live_set_generator gen o d g g1 Hl) Hwf Hbs) as (g' & E3 & E4).
      exists g'. split; [rewrite E3; destruct o; reflexivity|].
      rewrite consume_S. cbn [snd]. rewrite <- E2. cbn [snd]. rewrite <- E4. destruct o; reflexivity.
  Qed.

  (* fast-forwarding n epochs leaves the object exactly where consuming n epochs leaves it *)
  Theorem gen_fastforward_eq_consume (o : dsobj gen) d g (n : nat) : live o d g -> wf_dict d -> 1 <= o_batch_size o ->
    exists o', ds_fastforward_epochs o (Z.of_nat n) = Ok o' /\ gconsume n o = Ok o'.
  Proof.
    intros Hl Hwf Hbs.
    destruct (gen_fastforward_eq gen randperm randperm_perm o d g (Z.of_nat n) Hl Hwf) as (g1 & E1 & E2).
    destruct (gconsume_eq n o d g Hl Hwf Hbs) as (g2 & E3 & E4).
    rewrite Nat2Z.id, fastforward_eq_consume in E2. rewrite <- E4 in E2.
    assert (g1 = g2) by (unfold DatasetGenEq.abs in E2; inversion E2; reflexivity). subst g2.
    exists (set_generator o g1). split; assumption.
  Qed.

  (* unpickling is construction from the same arguments (no guard: both sides are the same computation) *)
  Theorem gen_pickle_restarts (o : dsobj gen) :
    ds_setstate gen seed_gen load (state_of o)
    = ds_new gen seed_gen load (o_path o) (o_batch_size o) (o_batches o) (o_seed o).
  Proof. reflexivity. Qed.

  (* the merge of the translated cat_replay_buffer *)
  Theorem gen_merge_padding (bufs : list tdict) (bs : Z) (f : option tdict) : rb_dom bufs ->
    let W := maxwidth (hpos bufs) in
    exists flat P M, rb_cat_replay_buffer (mkRb bufs bs f) = Ok flat /\
      d_get flat S_positions = Ok P /\ d_get flat S_mask = Ok M /\
      P = mkT INT64 [Z.of_nat W] (concat (map (map (pad W)) (hpos bufs))) /\
      M = mkT BOOL [Z.of_nat W] (concat (map (map (pad W)) (hmsk bufs))) /\
      (forall r, In r (concat (hpos bufs)) -> (length r <= W)%nat) /\
      erase flat = Dataset.cat_replay_buffer (map erase bufs).
  Proof.
    intros Hdom W. destruct (gen_cat_eq bufs bs f Hdom) as (b0 & _ & E1 & E2 & Hok).
    exists (merged b0 bufs). eexists. eexists. split; [exact E1|].
    split; [apply d_get_of_In; [exact Hok|]; unfold merged; apply in_or_app; right; left; reflexivity|].
    split; [apply d_get_of_In; [exact Hok|]; unfold merged; apply in_or_app; right; right; left; reflexivity|].
    split; [reflexivity|]. split; [reflexivity|]. split; [|exact E2].
    intros r Hr. apply width_le_maxwidth. exact Hr.
  Qed.

  (* one epoch of the translated ReplayBufferDataset.__iter__ *)
  Theorem gen_rb_epoch_is_permutation (bufs : list tdict) (bs : Z) (g : gen) :
    rb_dom bufs -> rb_wf (map erase bufs) -> 1 <= bs ->
    exists o ys g', rb_new bufs bs = Ok o /\ rb_iter gen randperm o g = Ok (ys, g') /\
      forall j k rows, nth_error (Dataset.cat_replay_buffer (map erase bufs)) j = Some (k, rows) ->
        Permutation (concat (map (batch_field j) (map erase ys))) rows.
  Proof.
    intros Hdom Hwf Hbs.
    destruct (gen_rb_iter_eq gen randperm randperm_perm bufs bs g Hdom Hwf Hbs) as (o & ys & E1 & E2 & E3).
    exists o, ys. eexists. split; [exact E1|]. split; [exact E2|].
    intros j k rows Hj. rewrite E3.
    apply (rb_epoch_is_permutation (map erase bufs) _ bs Hwf Hbs) with (k := k); [|exact Hj].
    unfold hpos. apply randperm_perm.
  Qed.
End Transport.

(* ---------------------------------------------------------------- examples *)

Definition ex_load (_ : list Z) : tdict :=
  [([105], mkT UINT8 [] [[0]; [1]; [2]; [3]; [4]]); ([120], mkT INT64 [2] [[0; 0]; [1; 1]; [2; 4]; [3; 9]; [4; 16]])].

Example ex_gen_new_hyp : dict_ok (ex_load []).
Proof. unfold dict_ok. simpl. constructor; [intros [E|[]]; discriminate|constructor; [intros []|constructor]]. Qed.

(* uint8 widened, 5 rows cut to 2*2, two batches; the generator advanced once *)
Example ex_gen_iter :
  (o <- ds_new nat Z.to_nat ex_load [] 2 (Some 2) 5 ;; '(ys, o1) <- ds_iter nat ex_randperm o ;; Ok (map erase ys, o_generator o1))
  = Ok ([ [([105], [[0]; [1]]); ([120], [[0; 0]; [1; 1]])]; [([105], [[2]; [3]]); ([120], [[2; 4]; [3; 9]])] ], Some 6%nat).
Proof. reflexivity. Qed.

(* outside the domain the translated code crashes the way Python does *)
Example ex_gen_crashes :
  (o <- ds_new nat Z.to_nat ex_load [] 0 None 5 ;; ds_iter nat ex_randperm o) = Crash ValueError /\
  rb_new [] 2 = Crash IndexError /\
  ds_len nat (mkDs [] 1 None 0 (Some []) (Some 0%nat)) = Crash StopIteration /\
  ds_len nat (mkDs [] 1 None 0 None (Some 0%nat)) = Crash AttributeError.
Proof. repeat split; reflexivity. Qed.

Definition ex_tbufs : list tdict :=
  [ [(S_positions, mkT INT64 [2] [[7; 8]; [9; 10]]); (S_mask, mkT BOOL [2] [[1; 1]; [1; 0]]); ([118], mkT FLOAT32 [] [[50]; [51]])];
    [([118], mkT FLOAT32 [] [[52]]); (S_positions, mkT INT64 [3] [[1; 2; 3]]); (S_mask, mkT BOOL [3] [[1; 1; 1]])] ].

Example ex_rb_dom : rb_dom ex_tbufs.
Proof.
  eexists. eexists. split; [reflexivity|]. split.
  - unfold dict_ok. simpl. repeat constructor; simpl; intuition discriminate.
  - constructor; [|constructor; [|constructor]].
    + exists (mkT INT64 [2] [[7; 8]; [9; 10]]), (mkT BOOL [2] [[1; 1]; [1; 0]]), 2%nat.
      do 11 (split; [first [reflexivity | discriminate | solve [repeat (first [solve [left; reflexivity] | solve [right; reflexivity] | reflexivity | apply Forall_nil | apply Forall_cons])]]|]).
      intros k t0 [E|[E|[E|[]]]] Hs; inversion E; subst; try discriminate Hs.
      eexists. repeat split; reflexivity.
    + exists (mkT INT64 [3] [[1; 2; 3]]), (mkT BOOL [3] [[1; 1; 1]]), 3%nat.
      do 11 (split; [first [reflexivity | discriminate | solve [repeat (first [solve [left; reflexivity] | solve [right; reflexivity] | reflexivity | apply Forall_nil | apply Forall_cons])]]|]).
      intros k t0 [E|[E|[E|[]]]] Hs; inversion E; subst; try discriminate Hs.
      eexists. repeat split; reflexivity.
Qed.

Example ex_gen_merge : res_map erase (rb_cat_replay_buffer (mkRb ex_tbufs 2 None))
  = Ok [([118], [[50]; [51]; [52]]); (POSITIONS, [[7; 8; 0]; [9; 10; 0]; [1; 2; 3]]); (MASK, [[1; 1; 0]; [1; 0; 0]; [1; 1; 1]])].
Proof. reflexivity. Qed.
