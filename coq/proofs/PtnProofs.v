(* C14, move notation: the recursive-descent parser of model/Ptn.v against the
   grammar of spec/PtnSpec.v, and the format / parse round trips. *)
From Coq Require Import ZArith List Bool Lia.
From TV Require Import model.Tak model.Ptn spec.MoveSpec spec.PtnSpec.
Import ListNotations.
Open Scope Z_scope.

(* ------------------------------------------------------------------ *)
(* character classes                                                    *)
(* ------------------------------------------------------------------ *)
Lemma cls_eqb_eq a b : cls_eqb a b = true <-> a = b.
Proof. destruct a, b; cbn; split; intros H; try reflexivity; try discriminate. Qed.
Lemma cls_eqb_refl a : cls_eqb a a = true.
Proof. destruct a; reflexivity. Qed.
Lemma cls_eqb_neq a b : a <> b -> cls_eqb a b = false.
Proof. destruct a, b; cbn; intros H; try reflexivity; exfalso; apply H; reflexivity. Qed.

Definition dir_char (c : Z) : Prop := c = 60 \/ c = 62 \/ c = 43 \/ c = 45.

Lemma b_stone c : (c =? 67) || (c =? 70) || (c =? 83) = true <-> stone_letter c.
Proof. unfold stone_letter. rewrite !orb_true_iff, !Z.eqb_eq. tauto. Qed.
Lemma b_range lo hi c : (lo <=? c) && (c <=? hi) = true <-> lo <= c <= hi.
Proof. rewrite andb_true_iff, !Z.leb_le. tauto. Qed.
Lemma b_dir c : (c =? 60) || (c =? 62) || (c =? 43) || (c =? 45) = true <-> dir_char c.
Proof. unfold dir_char. rewrite !orb_true_iff, !Z.eqb_eq. tauto. Qed.

(* the classes, decided sequentially as in the definition *)
Lemma classify_cases c :
  (stone_letter c /\ classify c = KStone) \/
  (49 <= c <= 56 /\ classify c = KDigit) \/
  (97 <= c <= 104 /\ classify c = KFile) \/
  (dir_char c /\ classify c = KDir) \/
  (~ stone_letter c /\ ~ 49 <= c <= 56 /\ ~ 97 <= c <= 104 /\ ~ dir_char c /\ classify c = KOther).
Proof.
  unfold classify.
  destruct ((c =? 67) || (c =? 70) || (c =? 83)) eqn:E1.
  { left. split; [apply b_stone; exact E1|reflexivity]. }
  destruct ((49 <=? c) && (c <=? 56)) eqn:E2.
  { right; left. split; [apply b_range; exact E2|reflexivity]. }
  destruct ((97 <=? c) && (c <=? 104)) eqn:E3.
  { right; right; left. split; [apply b_range; exact E3|reflexivity]. }
  destruct ((c =? 60) || (c =? 62) || (c =? 43) || (c =? 45)) eqn:E4.
  { right; right; right; left. split; [apply b_dir; exact E4|reflexivity]. }
  right; right; right; right.
  split; [intros H; apply b_stone in H; congruence|].
  split; [intros H; apply b_range in H; congruence|].
  split; [intros H; apply b_range in H; congruence|].
  split; [intros H; apply b_dir in H; congruence|reflexivity].
Qed.

Ltac cls_cases c :=
  let H := fresh "Hcase" in
  destruct (classify_cases c) as [[? H]|[[? H]|[[? H]|[[? H]|(? & ? & ? & ? & H)]]]];
  rewrite H; unfold stone_letter, dir_char in *.

Lemma classify_file c : classify c = KFile <-> 97 <= c <= 104.
Proof. cls_cases c; split; intros; try discriminate; try lia; try reflexivity; try tauto. Qed.
Lemma classify_digit c : classify c = KDigit <-> 49 <= c <= 56.
Proof. cls_cases c; split; intros; try discriminate; try lia; try reflexivity; try tauto. Qed.
Lemma classify_stone c : classify c = KStone <-> stone_letter c.
Proof. unfold stone_letter. cls_cases c; split; intros; try discriminate; try lia; try reflexivity; try tauto. Qed.
Lemma classify_dir c : classify c = KDir <-> (c = 60 \/ c = 62 \/ c = 43 \/ c = 45).
Proof. cls_cases c; split; intros; try discriminate; try lia; try reflexivity; try tauto. Qed.
Lemma classify_other c : classify c <> KOther <-> ptn_char c.
Proof.
  unfold ptn_char. cls_cases c; split; intros; try discriminate; try lia; try tauto; try congruence.
Qed.

(* ------------------------------------------------------------------ *)
(* the matcher and its groups                                           *)
(* ------------------------------------------------------------------ *)
Definition olist (o : option Z) : str := match o with Some c => [c] | None => [] end.
Definition ocls (k : cls) (o : option Z) : Prop :=
  match o with Some c => classify c = k | None => True end.
Definition render_groups (g : groups) : str :=
  olist (g_stone g) ++ olist (g_pickup g) ++ g_file g :: g_rank g :: olist (g_dir g) ++ g_drops g ++ olist (g_trail g).
Definition wf_groups (g : groups) : Prop :=
  ocls KStone (g_stone g) /\ ocls KDigit (g_pickup g) /\ classify (g_file g) = KFile /\
  classify (g_rank g) = KDigit /\ ocls KDir (g_dir g) /\
  Forall (fun c => classify c = KDigit) (g_drops g) /\ ocls KStone (g_trail g).

Lemma take_opt_spec k s o r : take_opt k s = (o, r) -> s = olist o ++ r /\ ocls k o.
Proof.
  destruct s as [|c s']; cbn [take_opt].
  - intros H. injection H as <- <-. split; [reflexivity|exact I].
  - destruct (cls_eqb (classify c) k) eqn:E; intros H; injection H as <- <-.
    + split; [reflexivity|]. apply cls_eqb_eq. exact E.
    + split; [reflexivity|exact I].
Qed.
Lemma take_one_spec k s c r : take_one k s = Some (c, r) -> s = c :: r /\ classify c = k.
Proof.
  destruct s as [|c' s']; cbn [take_one]; [discriminate|].
  destruct (cls_eqb (classify c') k) eqn:E; [|discriminate].
  intros H. injection H as <- <-. split; [reflexivity|]. apply cls_eqb_eq. exact E.
Qed.
Lemma take_star_spec k s : forall l r, take_star k s = (l, r) -> s = l ++ r /\ Forall (fun c => classify c = k) l.
Proof.
  induction s as [|c s IH]; cbn [take_star]; intros l r H.
  - injection H as <- <-. split; [reflexivity|constructor].
  - destruct (cls_eqb (classify c) k) eqn:E.
    + destruct (take_star k s) as [a b] eqn:Es. injection H as <- <-.
      destruct (IH a b eq_refl) as [-> Hf]. split; [reflexivity|].
      constructor; [apply cls_eqb_eq; exact E|exact Hf].
    + injection H as <- <-. split; [reflexivity|constructor].
Qed.

(* head class of a string (KOther for the empty string, which no X? X* X consumes) *)
Definition hdc (s : str) : cls := match s with c :: _ => classify c | [] => KOther end.
Lemma take_opt_none k s : hdc s <> k -> take_opt k s = (None, s).
Proof.
  destruct s as [|c s']; cbn [take_opt hdc]; intros H; [reflexivity|].
  rewrite cls_eqb_neq by exact H. reflexivity.
Qed.
Lemma take_opt_some k c r : classify c = k -> take_opt k (c :: r) = (Some c, r).
Proof. intros H. cbn [take_opt]. rewrite H, cls_eqb_refl. reflexivity. Qed.
Lemma take_one_some k c r : classify c = k -> take_one k (c :: r) = Some (c, r).
Proof. intros H. cbn [take_one]. rewrite H, cls_eqb_refl. reflexivity. Qed.
Lemma take_star_app k l r :
  Forall (fun c => classify c = k) l -> hdc r <> k -> take_star k (l ++ r) = (l, r).
Proof.
  intros Hl Hr. induction Hl as [|c l Hc Hl IH]; cbn [app].
  - destruct r as [|c r']; cbn [take_star hdc] in *; [reflexivity|].
    rewrite cls_eqb_neq by exact Hr. reflexivity.
  - cbn [take_star]. rewrite Hc, cls_eqb_refl, IH. reflexivity.
Qed.

Lemma match_move_sound s g : match_move s = Some g -> s = render_groups g /\ wf_groups g.
Proof.
  unfold match_move.
  destruct (take_opt KStone s) as [st s1] eqn:E1.
  destruct (take_opt KDigit s1) as [pk s2] eqn:E2.
  destruct (take_one KFile s2) as [[f s3]|] eqn:E3; [|discriminate].
  destruct (take_one KDigit s3) as [[r s4]|] eqn:E4; [|discriminate].
  destruct (take_opt KDir s4) as [d s5] eqn:E5.
  destruct (take_star KDigit s5) as [ds s6] eqn:E6.
  destruct (take_opt KStone s6) as [tr s7] eqn:E7.
  destruct s7 as [|? ?]; [|discriminate].
  intros H. injection H as <-.
  apply take_opt_spec in E1. destruct E1 as [-> H1].
  apply take_opt_spec in E2. destruct E2 as [-> H2].
  apply take_one_spec in E3. destruct E3 as [-> H3].
  apply take_one_spec in E4. destruct E4 as [-> H4].
  apply take_opt_spec in E5. destruct E5 as [-> H5].
  apply take_star_spec in E6. destruct E6 as [-> H6].
  apply take_opt_spec in E7. destruct E7 as [-> H7].
  unfold render_groups, wf_groups. cbn [g_stone g_pickup g_file g_rank g_dir g_drops g_trail].
  rewrite app_nil_r. split; [reflexivity|]. repeat split; assumption.
Qed.

Lemma hdc_app_olist k o r : ocls k o -> hdc (olist o ++ r) = match o with Some _ => k | None => hdc r end.
Proof. destruct o as [c|]; cbn [olist app hdc ocls]; intros H; [exact H|reflexivity]. Qed.

Lemma take_opt_olist k o r : ocls k o -> hdc r <> k -> take_opt k (olist o ++ r) = (o, r).
Proof.
  destruct o as [c|]; cbn [olist app ocls]; intros H Hr.
  - apply take_opt_some. exact H.
  - apply take_opt_none. exact Hr.
Qed.

Lemma match_move_complete g : wf_groups g -> match_move (render_groups g) = Some g.
Proof.
  destruct g as [st pk f r d ds tr]. unfold wf_groups, render_groups.
  cbn [g_stone g_pickup g_file g_rank g_dir g_drops g_trail].
  intros (H1 & H2 & H3 & H4 & H5 & H6 & H7). unfold match_move.
  rewrite (take_opt_olist KStone st) by
      (try exact H1; rewrite (hdc_app_olist KDigit) by exact H2; destruct pk; cbn [hdc]; rewrite ?H3; discriminate).
  rewrite (take_opt_olist KDigit pk) by (try exact H2; cbn [hdc]; rewrite H3; discriminate).
  rewrite (take_one_some KFile) by exact H3.
  rewrite (take_one_some KDigit) by exact H4.
  rewrite <- (app_nil_r (olist tr)).
  assert (Htail : hdc (olist tr ++ []) <> KDigit).
  { rewrite (hdc_app_olist KStone) by exact H7. destruct tr; cbn [hdc]; discriminate. }
  rewrite (take_opt_olist KDir d).
  - rewrite (take_star_app KDigit ds _ H6 Htail).
    rewrite (take_opt_olist KStone tr) by (try exact H7; cbn [hdc]; discriminate).
    reflexivity.
  - exact H5.
  - destruct H6 as [|c l Hc Hl]; cbn [app hdc].
    + rewrite (hdc_app_olist KStone) by exact H7. destruct tr; cbn [hdc]; discriminate.
    + rewrite Hc. discriminate.
Qed.

Lemma parse_render g :
  wf_groups g ->
  parse_move (render_groups g) =
  match post_checks g with
  | None => Reject
  | Some m => if lenient g then Unspecified else Accept m
  end.
Proof. intros H. unfold parse_move. rewrite (match_move_complete g H). reflexivity. Qed.

Lemma parse_raw_render g : wf_groups g -> parse_move_raw (render_groups g) = post_checks g.
Proof. intros H. unfold parse_move_raw. rewrite (match_move_complete g H). reflexivity. Qed.

(* ------------------------------------------------------------------ *)
(* format then parse                                                    *)
(* ------------------------------------------------------------------ *)
(* what the formatter needs: a board square of the largest board, and for a
   slide a non-empty tuple of drops in 1..8 that add up to at most 8 *)
Definition ptn_ok (m : mv) : Prop :=
  0 <= mx m <= 7 /\ 0 <= my m <= 7 /\
  if is_slide (mt m) then
    exists s, mslides m = Some s /\ s <> [] /\ Forall (fun d => 1 <= d <= 8) s /\ zsum s <= 8
  else mslides m = None.

Definition wf_move8 (m : mv) : Prop := exists n, 3 <= n <= 8 /\ wf_move n m.

Lemma zsum_bounds s : Forall (fun d => 1 <= d) s -> zlen s <= zsum s /\ forall d, In d s -> d <= zsum s.
Proof.
  induction 1 as [|a l Ha Hl [IH1 IH2]]; unfold zlen, zsum in *; cbn [length fold_right In].
  - split; [lia|intros d []].
  - split; [lia|]. intros d [<-|Hd]; [lia|]. specialize (IH2 d Hd). lia.
Qed.

Lemma wf_move8_ok m : wf_move8 m -> ptn_ok m.
Proof.
  intros (n & Hn & Hx & Hy & H). unfold ptn_ok. split; [lia|split; [lia|]].
  destruct (is_slide (mt m)); [|exact H].
  destruct H as (s & Hs & (Hne & Hpos & Hsum) & _ & _).
  exists s. split; [exact Hs|split; [exact Hne|split; [|lia]]].
  destruct (zsum_bounds s Hpos) as [_ Hb].
  apply Forall_forall. intros d Hd. rewrite Forall_forall in Hpos.
  specialize (Hpos d Hd). specialize (Hb d Hd). lia.
Qed.

Lemma map_sub_add s : map (fun c => c - 48) (map (fun d => d + 48) s) = s.
Proof. induction s as [|a s IH]; cbn [map]; [reflexivity|]. rewrite IH. f_equal. lia. Qed.

Lemma str_z_digit p : 0 <= p <= 9 -> str_z p = [48 + p].
Proof.
  intros H.
  assert (E : p = 0 \/ p = 1 \/ p = 2 \/ p = 3 \/ p = 4 \/ p = 5 \/ p = 6 \/ p = 7 \/ p = 8 \/ p = 9) by lia.
  repeat (destruct E as [->|E]; [reflexivity|]). subst p. reflexivity.
Qed.

Lemma dir_type_glyph t : is_slide t = true -> dir_type (slide_glyph t) = t /\ classify (slide_glyph t) = KDir.
Proof. destruct t; cbn; intros H; try discriminate; split; reflexivity. Qed.

Lemma parse_format_ok m : ptn_ok m -> parse_move (format_move m) = Accept m.
Proof.
  destruct m as [x y t sl]. unfold ptn_ok, format_move. cbn [mx my mt mslides slides_or_empty].
  intros (Hx & Hy & H).
  assert (Hf : classify (x + 97) = KFile) by (apply classify_file; lia).
  assert (Hr : classify (y + 49) = KDigit) by (apply classify_digit; lia).
  destruct (is_slide t) eqn:Et.
  - destruct H as (s & -> & Hne & Hd & Hsum).
    assert (Hpos : Forall (fun d => 1 <= d) s).
    { apply Forall_forall. intros d Hin. rewrite Forall_forall in Hd. specialize (Hd d Hin). lia. }
    destruct (zsum_bounds s Hpos) as [Hlen _].
    destruct (dir_type_glyph t Et) as [Hdt Hdc].
    set (p := zsum s) in *.
    assert (Hp : 1 <= p <= 8).
    { split; [|exact Hsum]. destruct s as [|a s']; [congruence|]. unfold zlen in Hlen. cbn [length] in Hlen. lia. }
    set (pk := if p =? 1 then None else Some (48 + p)).
    set (ds := if 1 <? zlen s then map (fun d => d + 48) s else []).
    assert (Hren : (if p =? 1 then [] else str_z p) ++ [x + 97; y + 49; slide_glyph t] ++ ds
                   = render_groups (mkG None pk (x + 97) (y + 49) (Some (slide_glyph t)) ds None)).
    { unfold render_groups, pk. cbn [g_stone g_pickup g_file g_rank g_dir g_drops g_trail olist app].
      rewrite app_nil_r. destruct (p =? 1); cbn [olist app]; [reflexivity|].
      rewrite str_z_digit by lia. reflexivity. }
    unfold slides_or_empty. cbn [mslides]. fold p. fold ds. rewrite Hren. rewrite parse_render.
    + unfold post_checks, lenient.
      cbn [g_stone g_pickup g_file g_rank g_dir g_drops g_trail is_some negb andb orb].
      replace (x + 97 - 97) with x by lia. replace (y + 49 - 49) with y by lia. rewrite Hdt.
      unfold pk, ds. destruct (Z.ltb_spec 1 (zlen s)) as [Hl|Hl].
      * destruct s as [|a [|b s']]; [congruence|unfold zlen in Hl; cbn [length] in Hl; lia|].
        assert (Hp1 : p =? 1 = false).
        { apply Z.eqb_neq. unfold zlen in Hlen. cbn [length] in Hlen. lia. }
        rewrite Hp1. cbn [map nonempty is_some negb andb orb]. fold (map (fun d => d + 48) (a :: b :: s')).
        rewrite ?map_sub_add. replace (a + 48 - 48) with a by lia. replace (b + 48 - 48) with b by lia. fold p.
        replace (48 + p - 48) with p by lia. rewrite Z.eqb_refl.
        reflexivity.
      * destruct s as [|a [|b s']]; [congruence| |unfold zlen in Hl; cbn [length] in Hl; lia].
        assert (Ea : p = a) by (unfold p, zsum; cbn [fold_right]; lia).
        cbn [nonempty is_some negb andb orb].
        destruct (Z.eqb_spec p 1) as [E1|E1]; cbn [is_some negb andb orb].
        -- assert (Ea1 : a = 1) by lia. rewrite Ea1. reflexivity.
        -- replace (48 + p - 48) with a by lia. unfold zsum; cbn [fold_right]. rewrite Z.add_0_r, Z.eqb_refl.
           reflexivity.
    + unfold wf_groups. cbn [g_stone g_pickup g_file g_rank g_dir g_drops g_trail ocls].
      repeat split; try assumption.
      * unfold pk. destruct (p =? 1); cbn [ocls]; [exact I|]. apply classify_digit. lia.
      * unfold ds. destruct (1 <? zlen s); [|constructor].
        apply Forall_forall. intros c Hc. apply in_map_iff in Hc. destruct Hc as (d & <- & Hin).
        rewrite Forall_forall in Hd. specialize (Hd d Hin). apply classify_digit. lia.
  - subst sl.
    set (st := match t with PlaceStanding => Some 83 | PlaceCapstone => Some 67 | _ => None end).
    assert (Hren : place_glyph t ++ [x + 97; y + 49]
                   = render_groups (mkG st None (x + 97) (y + 49) None [] None)).
    { unfold render_groups, st. destruct t; reflexivity. }
    rewrite Hren. rewrite parse_render.
    + unfold post_checks, lenient.
      cbn [g_stone g_pickup g_file g_rank g_dir g_drops g_trail is_some nonempty negb andb orb].
      replace (x + 97 - 97) with x by lia. replace (y + 49 - 49) with y by lia.
      unfold st. destruct t; try discriminate Et; reflexivity.
    + unfold wf_groups, st. cbn [g_stone g_pickup g_file g_rank g_dir g_drops g_trail ocls].
      repeat split; try assumption; try constructor. destruct t; cbn [ocls]; try exact I; reflexivity.
Qed.

Lemma parse_format_move m : wf_move8 m -> parse_move (format_move m) = Accept m.
Proof. intros H. apply parse_format_ok. apply wf_move8_ok. exact H. Qed.


(* ------------------------------------------------------------------ *)
(* parser <-> grammar                                                   *)
(* ------------------------------------------------------------------ *)
Lemma dir_glyph_of_class d : classify d = KDir -> dir_glyph d (dir_type d).
Proof.
  intros H. apply classify_dir in H. destruct H as [-> | [-> | [-> | ->]]]; constructor.
Qed.
Lemma dir_glyph_inv d t : dir_glyph d t -> classify d = KDir /\ dir_type d = t /\ is_slide t = true.
Proof. destruct 1; repeat split; reflexivity. Qed.

Lemma stone_text_of_class st : ocls KStone st -> stone_text (olist st) (stone_type st).
Proof.
  destruct st as [c|]; cbn [ocls olist stone_type]; intros H; [|constructor].
  apply classify_stone in H. destruct H as [-> | [-> | ->]]; constructor.
Qed.

Lemma digits_forall ds :
  Forall (fun c => classify c = KDigit) ds <-> Forall (fun c => 49 <= c <= 56) ds.
Proof. split; intros H; eapply Forall_impl; try exact H; intros c Hc; apply classify_digit; exact Hc. Qed.

Lemma post_denotes g m :
  wf_groups g -> post_checks g = Some m -> lenient g = false -> ptn_denotes (render_groups g) m.
Proof.
  destruct g as [st pk f r d ds tr]. unfold wf_groups, render_groups, post_checks, lenient.
  cbn [g_stone g_pickup g_file g_rank g_dir g_drops g_trail].
  intros (H1 & H2 & H3 & H4 & H5 & H6 & H7).
  apply classify_file in H3. apply classify_digit in H4.
  destruct tr as [tr|]; cbn [is_some orb]; [discriminate|]. cbn [olist]. rewrite app_nil_r.
  destruct d as [d|]; cbn [is_some negb andb orb olist ocls] in *.
  - destruct st as [st|]; cbn [is_some andb orb olist app]; [discriminate|].
    pose proof (dir_glyph_of_class d H5) as Hd.
    destruct pk as [p|]; cbn [is_some negb andb orb olist app ocls] in *.
    + apply classify_digit in H2.
      destruct ds as [|c ds']; cbn [nonempty is_some negb andb orb].
      * unfold zsum; cbn [fold_right]. rewrite Z.add_0_r, Z.eqb_refl. intros Hm _. injection Hm as <-.
        apply (den_slide [p] (p - 48) f r (f - 97) (r - 49) d (dir_type d) [] [p - 48]).
        -- constructor. exact H2.
        -- split; [exact H3|reflexivity].
        -- split; [exact H4|reflexivity].
        -- exact Hd.
        -- constructor.
      * destruct (Z.eqb_spec (p - 48) (zsum (map (fun c0 => c0 - 48) (c :: ds')))) as [E|E]; [|discriminate].
        intros Hm _. injection Hm as <-.
        apply (den_slide [p] (p - 48) f r (f - 97) (r - 49) d (dir_type d) (c :: ds')).
        -- constructor. exact H2.
        -- split; [exact H3|reflexivity].
        -- split; [exact H4|reflexivity].
        -- exact Hd.
        -- apply drops_given; [discriminate| |symmetry; exact E].
           split; [apply digits_forall; exact H6|reflexivity].
    + destruct ds as [|c ds']; cbn [nonempty is_some negb andb orb].
      * intros Hm _. injection Hm as <-.
        apply (den_slide [] 1 f r (f - 97) (r - 49) d (dir_type d) [] [1]).
        -- constructor.
        -- split; [exact H3|reflexivity].
        -- split; [exact H4|reflexivity].
        -- exact Hd.
        -- constructor.
      * intros Hm Hl. injection Hm as <-.
        apply negb_false_iff in Hl. apply Z.eqb_eq in Hl.
        apply (den_slide [] 1 f r (f - 97) (r - 49) d (dir_type d) (c :: ds')).
        -- constructor.
        -- split; [exact H3|reflexivity].
        -- split; [exact H4|reflexivity].
        -- exact Hd.
        -- apply drops_given; [discriminate| |exact Hl].
           split; [apply digits_forall; exact H6|reflexivity].
  - destruct pk as [p|]; cbn [is_some negb andb orb]; [discriminate|].
    destruct ds as [|c ds']; cbn [nonempty is_some negb andb orb]; [|discriminate].
    intros Hm _. injection Hm as <-. cbn [olist app].
    change (olist st ++ [f; r]) with (olist st ++ [f; r]).
    apply den_place.
    + apply stone_text_of_class. exact H1.
    + split; [exact H3|reflexivity].
    + split; [exact H4|reflexivity].
Qed.

Lemma parse_accept_denotes s m : parse_move s = Accept m -> ptn_denotes s m.
Proof.
  unfold parse_move. destruct (match_move s) as [g|] eqn:Eg; [|discriminate].
  destruct (post_checks g) as [m'|] eqn:Ep; [|discriminate].
  destruct (lenient g) eqn:El; [discriminate|].
  intros H. injection H as <-.
  destruct (match_move_sound s g Eg) as [-> Hwf].
  apply post_denotes; assumption.
Qed.

Lemma denotes_parse s m : ptn_denotes s m -> parse_move s = Accept m.
Proof.
  destruct 1 as [st t f r x y Hst [Hf ->] [Hr ->] | ct k f r x y d t dt ds Hct [Hf ->] [Hr ->] Hd Hdt].
  - set (so := match st with [c] => Some c | _ => None end).
    assert (Hren : st ++ [f; r] = render_groups (mkG so None f r None [] None)).
    { unfold render_groups, so. destruct Hst; reflexivity. }
    rewrite Hren, parse_render.
    + unfold post_checks, lenient, so. destruct Hst; reflexivity.
    + unfold wf_groups, so. cbn [g_stone g_pickup g_file g_rank g_dir g_drops g_trail ocls].
      repeat split; try constructor.
      * destruct Hst; cbn [ocls]; try exact I; reflexivity.
      * apply classify_file. exact Hf.
      * apply classify_digit. exact Hr.
  - destruct (dir_glyph_inv d t Hd) as (Hdc & Hdty & _).
    set (pk := match ct with [c] => Some c | _ => None end).
    assert (Hren : ct ++ [f; r; d] ++ dt = render_groups (mkG None pk f r (Some d) dt None)).
    { unfold render_groups, pk. cbn [g_stone g_pickup g_file g_rank g_dir g_drops g_trail olist app].
      rewrite app_nil_r. destruct Hct; reflexivity. }
    assert (Hwf : wf_groups (mkG None pk f r (Some d) dt None)).
    { unfold wf_groups, pk. cbn [g_stone g_pickup g_file g_rank g_dir g_drops g_trail ocls].
      repeat split; try constructor.
      - destruct Hct as [|c Hc]; cbn [ocls]; [exact I|]. apply classify_digit. exact Hc.
      - apply classify_file. exact Hf.
      - apply classify_digit. exact Hr.
      - exact Hdc.
      - destruct Hdt as [|dt ds Hne [Hdig _] _]; [constructor|]. apply digits_forall. exact Hdig. }
    rewrite Hren, parse_render by exact Hwf.
    unfold post_checks, lenient, pk.
    cbn [g_stone g_pickup g_file g_rank g_dir g_drops g_trail is_some negb andb orb].
    rewrite Hdty.
    destruct Hdt as [|dt ds Hne [Hdig ->] Hsum].
    + cbn [nonempty is_some negb andb orb]. destruct Hct as [|c Hc]; cbn [is_some negb andb orb].
      * reflexivity.
      * unfold zsum; cbn [fold_right]. rewrite Z.add_0_r, Z.eqb_refl. reflexivity.
    + destruct dt as [|c0 dt']; [congruence|]. cbn [nonempty is_some negb andb orb].
      destruct Hct as [|c Hc]; cbn [is_some negb andb orb].
      * rewrite Hsum. reflexivity.
      * rewrite Hsum, Z.eqb_refl. reflexivity.
Qed.

Lemma parse_denotes s m : parse_move s = Accept m <-> ptn_denotes s m.
Proof. split; [apply parse_accept_denotes|apply denotes_parse]. Qed.

Lemma denotes_functional s m1 m2 : ptn_denotes s m1 -> ptn_denotes s m2 -> m1 = m2.
Proof.
  intros H1 H2. apply denotes_parse in H1. apply denotes_parse in H2.
  rewrite H1 in H2. injection H2 as ->. reflexivity.
Qed.

(* what an accepted move looks like: enough for the formatter *)
Lemma denotes_ok s m : ptn_denotes s m -> ptn_ok m.
Proof.
  destruct 1 as [st t f r x y Hst [Hf ->] [Hr ->] | ct k f r x y d t dt ds Hct [Hf ->] [Hr ->] Hd Hdt];
    unfold ptn_ok; cbn [mx my mt mslides].
  - split; [lia|split; [lia|]]. destruct Hst; reflexivity.
  - split; [lia|split; [lia|]]. destruct (dir_glyph_inv d t Hd) as (_ & _ & ->).
    assert (Hk : 1 <= k <= 8) by (destruct Hct; lia).
    exists ds. split; [reflexivity|].
    destruct Hdt as [|dt ds Hne [Hdig ->] Hsum].
    + split; [discriminate|split; [|unfold zsum; cbn [fold_right]; lia]].
      constructor; [lia|constructor].
    + split; [destruct dt; [congruence|discriminate]|split; [|lia]].
      apply Forall_forall. intros d0 Hin. apply in_map_iff in Hin. destruct Hin as (c & <- & Hc).
      rewrite Forall_forall in Hdig. specialize (Hdig c Hc). lia.
Qed.

Lemma parse_stable s m : parse_move s = Accept m -> parse_move (format_move m) = Accept m.
Proof. intros H. apply parse_format_ok. apply (denotes_ok s). apply parse_accept_denotes. exact H. Qed.


(* ------------------------------------------------------------------ *)
(* the must-refuse classes                                              *)
(* ------------------------------------------------------------------ *)
Lemma rejects_empty : parse_move [] = Reject.
Proof. reflexivity. Qed.

Lemma ocls_forall k o (P : Z -> Prop) : (forall c, classify c = k -> P c) -> ocls k o -> Forall P (olist o).
Proof. destruct o as [c|]; cbn [ocls olist]; intros HP H; [constructor; [apply HP; exact H|constructor]|constructor]. Qed.

Lemma render_chars g : wf_groups g -> Forall (fun c => classify c <> KOther) (render_groups g).
Proof.
  destruct g as [st pk f r d ds tr]. unfold wf_groups, render_groups.
  cbn [g_stone g_pickup g_file g_rank g_dir g_drops g_trail].
  intros (H1 & H2 & H3 & H4 & H5 & H6 & H7).
  repeat (apply Forall_app; split); try (eapply ocls_forall; [|eassumption]; intros c Hc; rewrite Hc; discriminate).
  change (f :: r :: olist d ++ ds ++ olist tr) with ([f; r] ++ olist d ++ ds ++ olist tr).
  repeat (apply Forall_app; split); try (eapply ocls_forall; [|eassumption]; intros c Hc; rewrite Hc; discriminate).
  - constructor; [rewrite H3; discriminate|constructor; [rewrite H4; discriminate|constructor]].
  - eapply Forall_impl; [|exact H6]. intros c Hc. cbn beta in Hc. rewrite Hc. discriminate.
Qed.

(* a character outside the PTN alphabet anywhere (unknown file or rank such as
   i1, a9, a0, upper case, blanks, a final newline, non-ASCII digits ...) *)
Lemma rejects_foreign s c : In c s -> ~ ptn_char c -> parse_move s = Reject.
Proof.
  intros Hin Hc. unfold parse_move. destruct (match_move s) as [g|] eqn:Eg; [|reflexivity].
  exfalso. destruct (match_move_sound s g Eg) as [-> Hwf].
  pose proof (render_chars g Hwf) as Hall. rewrite Forall_forall in Hall.
  apply Hc. apply classify_other. apply Hall. exact Hin.
Qed.

Definition no_dir_ahead (rest : str) : Prop :=
  forall d r', rest = d :: r' -> ~ (d = 60 \/ d = 62 \/ d = 43 \/ d = 45).
Lemma no_dir_hdc rest : no_dir_ahead rest -> hdc rest <> KDir.
Proof.
  destruct rest as [|d r']; cbn [hdc]; intros H; [discriminate|].
  intros E. apply classify_dir in E. exact (H d r' eq_refl E).
Qed.

Lemma opt_stone_olist st : opt_stone st -> exists o, st = olist o /\ ocls KStone o.
Proof.
  intros [->|(c & Hc & ->)]; [exists None; split; [reflexivity|exact I]|].
  exists (Some c). split; [reflexivity|]. apply classify_stone. exact Hc.
Qed.

(* a count but no direction: 3a1, S2b2, 3a1C ... *)
Lemma rejects_count_without_direction st p f r rest :
  opt_stone st -> 49 <= p <= 56 -> no_dir_ahead rest ->
  parse_move (st ++ p :: f :: r :: rest) = Reject.
Proof.
  intros Hst Hp Hrest. destruct (opt_stone_olist st Hst) as (o & -> & Ho).
  apply classify_digit in Hp. apply no_dir_hdc in Hrest.
  unfold parse_move, match_move.
  rewrite (take_opt_olist KStone o) by (try exact Ho; cbn [hdc]; rewrite Hp; discriminate).
  rewrite (take_opt_some KDigit p) by exact Hp.
  destruct (take_one KFile (f :: r :: rest)) as [[f' s3]|] eqn:E3; [|reflexivity].
  apply take_one_spec in E3. destruct E3 as [E3 _]. injection E3 as <- <-.
  destruct (take_one KDigit (r :: rest)) as [[r' s4]|] eqn:E4; [|reflexivity].
  apply take_one_spec in E4. destruct E4 as [E4 _]. injection E4 as <- <-.
  rewrite (take_opt_none KDir rest) by exact Hrest.
  destruct (take_star KDigit rest) as [ds s6]. destruct (take_opt KStone s6) as [tr s7].
  destruct s7; reflexivity.
Qed.

(* drops but no direction: a11, a12, Ca12, 2a11 ... *)
Lemma rejects_drops_without_direction st ct f r c rest :
  opt_stone st -> (ct = [] \/ exists p, 49 <= p <= 56 /\ ct = [p]) ->
  97 <= f <= 104 -> 49 <= r <= 56 -> 49 <= c <= 56 ->
  parse_move (st ++ ct ++ f :: r :: c :: rest) = Reject.
Proof.
  intros Hst Hct Hf Hr Hc. destruct Hct as [->|(p & Hp & ->)].
  - cbn [app]. destruct (opt_stone_olist st Hst) as (o & -> & Ho).
    apply classify_digit in Hc. apply classify_digit in Hr. apply classify_file in Hf.
    unfold parse_move, match_move.
    rewrite (take_opt_olist KStone o) by (try exact Ho; cbn [hdc]; rewrite Hf; discriminate).
    rewrite (take_opt_none KDigit) by (cbn [hdc]; rewrite Hf; discriminate).
    rewrite (take_one_some KFile f) by exact Hf.
    rewrite (take_one_some KDigit r) by exact Hr.
    rewrite (take_opt_none KDir) by (cbn [hdc]; rewrite Hc; discriminate).
    cbn [take_star]. rewrite Hc. cbn [cls_eqb].
    destruct (take_star KDigit rest) as [ds s6]. destruct (take_opt KStone s6) as [tr s7].
    destruct s7; reflexivity.
  - cbn [app]. apply rejects_count_without_direction; [exact Hst|exact Hp|].
    intros d r' E. injection E as <- <-. intros Hd. lia.
Qed.

(* an explicit count that the drops do not add up to: 3a1>11, 5d4-22, 6a1>2222 *)
Lemma rejects_count_mismatch st p f r d ds tr :
  opt_stone st -> 49 <= p <= 56 -> 97 <= f <= 104 -> 49 <= r <= 56 ->
  (d = 60 \/ d = 62 \/ d = 43 \/ d = 45) ->
  ds <> [] -> Forall (fun c => 49 <= c <= 56) ds -> zsum (map (fun c => c - 48) ds) <> p - 48 ->
  opt_stone tr ->
  parse_move (st ++ [p; f; r; d] ++ ds ++ tr) = Reject.
Proof.
  intros Hst Hp Hf Hr Hd Hne Hds Hsum Htr.
  destruct (opt_stone_olist st Hst) as (o & -> & Ho).
  destruct (opt_stone_olist tr Htr) as (ot & -> & Hot).
  change (olist o ++ [p; f; r; d] ++ ds ++ olist ot)
    with (render_groups (mkG o (Some p) f r (Some d) ds ot)).
  rewrite parse_render.
  - unfold post_checks. cbn [g_stone g_pickup g_file g_rank g_dir g_drops g_trail is_some negb andb orb].
    destruct ds as [|c ds']; [congruence|]. cbn [nonempty is_some negb andb orb].
    destruct (Z.eqb_spec (p - 48) (zsum (map (fun c0 => c0 - 48) (c :: ds')))) as [E|E]; [|reflexivity].
    exfalso. apply Hsum. symmetry. exact E.
  - unfold wf_groups. cbn [g_stone g_pickup g_file g_rank g_dir g_drops g_trail ocls].
    repeat split; try assumption.
    + apply classify_digit; exact Hp.
    + apply classify_file; exact Hf.
    + apply classify_digit; exact Hr.
    + apply classify_dir; exact Hd.
    + apply digits_forall; exact Hds.
Qed.

(* anything after a complete move: the regex admits exactly one file letter *)
Definition nfiles (s : str) : nat := length (filter (fun c => cls_eqb (classify c) KFile) s).

Lemma nfiles_app a b : nfiles (a ++ b) = (nfiles a + nfiles b)%nat.
Proof. unfold nfiles. rewrite filter_app, app_length. reflexivity. Qed.
Lemma nfiles_olist k o : k <> KFile -> ocls k o -> nfiles (olist o) = 0%nat.
Proof.
  destruct o as [c|]; cbn [ocls olist]; intros Hk H; [|reflexivity].
  unfold nfiles. cbn [filter]. rewrite H, cls_eqb_neq by exact Hk. reflexivity.
Qed.
Lemma nfiles_digits ds : Forall (fun c => classify c = KDigit) ds -> nfiles ds = 0%nat.
Proof.
  induction 1 as [|c l Hc Hl IH]; [reflexivity|]. unfold nfiles in *. cbn [filter]. rewrite Hc. cbn [cls_eqb]. exact IH.
Qed.

Lemma match_one_file s g : match_move s = Some g -> nfiles s = 1%nat.
Proof.
  intros H. destruct (match_move_sound s g H) as [-> Hwf].
  destruct g as [st pk f r d ds tr]. unfold wf_groups, render_groups in *.
  cbn [g_stone g_pickup g_file g_rank g_dir g_drops g_trail] in *.
  destruct Hwf as (H1 & H2 & H3 & H4 & H5 & H6 & H7).
  change (f :: r :: olist d ++ ds ++ olist tr) with ([f] ++ [r] ++ olist d ++ ds ++ olist tr).
  rewrite !nfiles_app.
  rewrite (nfiles_olist KStone st), (nfiles_olist KDigit pk), (nfiles_olist KDir d), (nfiles_olist KStone tr),
    (nfiles_digits ds) by (assumption || discriminate).
  unfold nfiles. cbn [filter]. rewrite H3, H4. reflexivity.
Qed.

Lemma rejects_two_files s : (2 <= nfiles s)%nat -> parse_move s = Reject.
Proof.
  intros H. unfold parse_move. destruct (match_move s) as [g|] eqn:Eg; [|reflexivity].
  apply match_one_file in Eg. lia.
Qed.

Lemma accepted_one_file s m : ptn_denotes s m -> nfiles s = 1%nat.
Proof.
  intros H. apply denotes_parse in H. unfold parse_move in H.
  destruct (match_move s) as [g|] eqn:Eg; [|discriminate]. exact (match_one_file s g Eg).
Qed.

(* two moves glued together (a1a1, 3a1>1a1>, a1Ca1) *)
Lemma rejects_glued s1 m1 s2 m2 : ptn_denotes s1 m1 -> ptn_denotes s2 m2 -> parse_move (s1 ++ s2) = Reject.
Proof.
  intros H1 H2. apply rejects_two_files. rewrite nfiles_app.
  rewrite (accepted_one_file s1 m1 H1), (accepted_one_file s2 m2 H2). lia.
Qed.

(* ------------------------------------------------------------------ *)
(* Unspecified = the lenient class of the spec; the three outcomes      *)
(* partition all strings                                                *)
(* ------------------------------------------------------------------ *)
Lemma unspecified_examples :
  parse_move [97; 49; 62; 49; 49] = Unspecified /\          (* a1>11 *)
  parse_move [83; 97; 49; 62] = Unspecified /\              (* Sa1>  *)
  parse_move [97; 49; 67] = Unspecified /\                  (* a1C   *)
  parse_move [97; 49; 62; 67] = Unspecified /\              (* a1>C  *)
  parse_move [97; 49; 62; 49] = Accept (mkMove 0 0 SlideRight (Some [1])) /\          (* a1>1  *)
  parse_move [70; 104; 55] = Accept (mkMove 7 6 PlaceFlat None) /\                   (* Fh7   *)
  parse_move [50; 99; 51; 45; 50] = Accept (mkMove 2 2 SlideDown (Some [2])) /\      (* 2c3-2 *)
  parse_move [51; 97; 49; 43; 49; 49; 49] = Accept (mkMove 0 0 SlideUp (Some [1; 1; 1])) /\  (* 3a1+111 *)
  parse_move [97; 49; 10] = Reject /\                       (* a1 followed by a newline *)
  parse_move [65313; 49] = Reject.                          (* fullwidth a *)
Proof. repeat split; reflexivity. Qed.

Lemma dir_type_slide d : is_slide (dir_type d) = true.
Proof. unfold dir_type. destruct (d =? 60), (d =? 62), (d =? 43); reflexivity. Qed.
Lemma stone_type_place o : is_slide (stone_type o) = false.
Proof. destruct o as [c|]; cbn [stone_type]; [|reflexivity]. destruct (c =? 83), (c =? 67); reflexivity. Qed.

Lemma post_checks_type g m :
  post_checks g = Some m ->
  mt m = match g_dir g with Some d => dir_type d | None => stone_type (g_stone g) end.
Proof.
  destruct g as [st pk f r d ds tr]. unfold post_checks.
  cbn [g_stone g_pickup g_file g_rank g_dir g_drops g_trail].
  destruct pk as [p|], d as [d|], ds as [|c ds']; cbn [is_some nonempty negb andb orb];
    try discriminate;
    try (intros H; injection H as <-; reflexivity);
    try (match goal with |- context [if ?b then _ else _] => destruct b end;
         [intros H; injection H as <-; reflexivity|discriminate]).
Qed.

(* post_checks ignores the trailing letter, and the stone letter of a slide *)
Lemma post_checks_wrap st' tr' g :
  (st' = g_stone g \/ is_some (g_dir g) = true) ->
  post_checks (mkG st' (g_pickup g) (g_file g) (g_rank g) (g_dir g) (g_drops g) tr') = post_checks g.
Proof.
  destruct g as [st pk f r d ds tr]. cbn [g_stone g_pickup g_file g_rank g_dir g_drops g_trail].
  intros [->|H]; [reflexivity|]. destruct d as [d|]; [reflexivity|discriminate].
Qed.

Lemma lenient_wrap g0 m pre post :
  wf_groups g0 -> post_checks g0 = Some m -> g_trail g0 = None ->
  opt_stone pre -> opt_stone post ->
  (pre <> [] -> g_stone g0 = None /\ is_some (g_dir g0) = true) ->
  (lenient g0 = true \/ pre <> [] \/ post <> []) ->
  parse_move (pre ++ render_groups g0 ++ post) = Unspecified.
Proof.
  intros Hwf Hp Htr Hpre Hpost Hs Hl.
  destruct (opt_stone_olist pre Hpre) as (o1 & -> & Ho1).
  destruct (opt_stone_olist post Hpost) as (o2 & -> & Ho2).
  destruct g0 as [st pk f r d ds tr]. cbn [g_trail g_stone g_dir] in *. subst tr.
  set (st' := match o1 with Some c => Some c | None => st end).
  assert (Hren : olist o1 ++ render_groups (mkG st pk f r d ds None) ++ olist o2
                 = render_groups (mkG st' pk f r d ds o2)).
  { unfold render_groups, st'. cbn [g_stone g_pickup g_file g_rank g_dir g_drops g_trail olist].
    rewrite app_nil_r.
    destruct o1 as [c1|]; cbn [olist app].
    - destruct Hs as [-> _]; [discriminate|]. cbn [olist app].
      repeat (rewrite <- app_assoc; cbn [app]). reflexivity.
    - repeat (rewrite <- app_assoc; cbn [app]). reflexivity. }
  rewrite Hren.
  destruct Hwf as (H1 & H2 & H3 & H4 & H5 & H6 & _).
  cbn [g_stone g_pickup g_file g_rank g_dir g_drops g_trail] in *.
  rewrite parse_render.
  - change (mkG st' pk f r d ds o2)
      with (mkG st' (g_pickup (mkG st pk f r d ds None)) (g_file (mkG st pk f r d ds None))
                (g_rank (mkG st pk f r d ds None)) (g_dir (mkG st pk f r d ds None))
                (g_drops (mkG st pk f r d ds None)) o2) at 1.
    rewrite post_checks_wrap, Hp.
    + unfold lenient in *. cbn [g_stone g_pickup g_file g_rank g_dir g_drops g_trail] in *.
      unfold st'. destruct o2 as [c2|]; cbn [is_some orb]; [reflexivity|].
      destruct o1 as [c1|]; cbn [is_some orb andb olist] in *.
      * destruct Hs as [_ ->]; [discriminate|]. reflexivity.
      * destruct Hl as [Hl|[Hl|Hl]]; [|congruence|congruence].
        cbn [orb] in Hl. rewrite Hl. reflexivity.
    + cbn [g_stone g_dir]. unfold st'. destruct o1 as [c1|]; [|left; reflexivity].
      right. cbn [olist] in Hs. destruct Hs as [_ Hd]; [discriminate|exact Hd].
  - unfold wf_groups, st'. cbn [g_stone g_pickup g_file g_rank g_dir g_drops g_trail].
    repeat split; try assumption. destruct o1; assumption.
Qed.

Lemma lenient_unspecified s : ptn_lenient s -> parse_move s = Unspecified.
Proof.
  intros (pre & core & post & m & -> & Hpre & Hpost & Hslide & [[Hden Hne] | Himp]).
  - pose proof (denotes_parse core m Hden) as Hpm. unfold parse_move in Hpm.
    destruct (match_move core) as [g0|] eqn:Eg; [|discriminate].
    destruct (post_checks g0) as [m'|] eqn:Ep; [|discriminate].
    destruct (lenient g0) eqn:El; [discriminate|]. injection Hpm as ->.
    destruct (match_move_sound core g0 Eg) as [-> Hwf].
    assert (Htr : g_trail g0 = None).
    { unfold lenient in El. destruct (g_trail g0); [discriminate|reflexivity]. }
    apply (lenient_wrap g0 m); try assumption.
    + intros Hp. specialize (Hslide Hp). rewrite (post_checks_type g0 m Ep) in Hslide.
      destruct (g_dir g0) as [d|] eqn:Ed.
      * split; [|reflexivity]. unfold lenient in El. rewrite Ed in El.
        destruct (g_stone g0); [|reflexivity]. destruct (g_trail g0); discriminate.
      * rewrite stone_type_place in Hslide. discriminate.
    + right. exact Hne.
  - destruct Himp as [f r x y d t dt ds [Hf ->] [Hr ->] Hd Hne [Hdig ->] Hsum].
    destruct (dir_glyph_inv d t Hd) as (Hdc & Hdty & _).
    change ([f; r; d] ++ dt) with (f :: r :: d :: dt).
    assert (Hren : f :: r :: d :: dt = render_groups (mkG None None f r (Some d) dt None)).
    { unfold render_groups. cbn [g_stone g_pickup g_file g_rank g_dir g_drops g_trail olist app].
      rewrite app_nil_r. reflexivity. }
    rewrite Hren.
    apply (lenient_wrap _ (mkMove (f - 97) (r - 49) t (Some (map (fun c => c - 48) dt)))); try assumption.
    + unfold wf_groups. cbn [g_stone g_pickup g_file g_rank g_dir g_drops g_trail ocls].
      repeat split; try exact I.
      * apply classify_file; exact Hf.
      * apply classify_digit; exact Hr.
      * exact Hdc.
      * apply digits_forall; exact Hdig.
    + unfold post_checks. cbn [g_stone g_pickup g_file g_rank g_dir g_drops g_trail is_some negb andb orb].
      rewrite Hdty. destruct dt as [|c dt']; [congruence|]. reflexivity.
    + reflexivity.
    + intros _. split; reflexivity.
    + left. unfold lenient. cbn [g_stone g_pickup g_file g_rank g_dir g_drops g_trail is_some negb andb orb].
      destruct dt as [|c dt']; [congruence|]. cbn [nonempty andb].
      apply negb_true_iff. apply Z.eqb_neq. exact Hsum.
Qed.

Lemma unspecified_lenient s : parse_move s = Unspecified -> ptn_lenient s.
Proof.
  unfold parse_move. destruct (match_move s) as [g|] eqn:Eg; [|discriminate].
  destruct (post_checks g) as [m|] eqn:Ep; [|discriminate].
  destruct (lenient g) eqn:El; [|discriminate]. intros _.
  destruct (match_move_sound s g Eg) as [-> Hwf].
  destruct g as [st pk f r d ds tr].
  set (st0 := match d with Some _ => None | None => st end).
  set (g0 := mkG st0 pk f r d ds None).
  assert (Hp0 : post_checks g0 = Some m).
  { rewrite <- Ep. unfold g0, st0. destruct d; reflexivity. }
  destruct Hwf as (H1 & H2 & H3 & H4 & H5 & H6 & H7).
  cbn [g_stone g_pickup g_file g_rank g_dir g_drops g_trail] in *.
  assert (Hwf0 : wf_groups g0).
  { unfold wf_groups, g0, st0. cbn [g_stone g_pickup g_file g_rank g_dir g_drops g_trail].
    repeat split; try assumption; try exact I. destruct d; [exact I|exact H1]. }
  assert (Hst : forall o, ocls KStone o -> opt_stone (olist o)).
  { intros [c|] Ho; cbn [olist]; [right|left; reflexivity]. exists c. split; [apply classify_stone; exact Ho|reflexivity]. }
  exists (match d with Some _ => olist st | None => [] end), (render_groups g0), (olist tr), m.
  split; [|split; [|split; [|split]]].
  - unfold render_groups, g0, st0. cbn [g_stone g_pickup g_file g_rank g_dir g_drops g_trail].
    rewrite app_nil_r. destruct d as [d|]; cbn [olist app].
    + repeat (rewrite <- app_assoc; cbn [app]). reflexivity.
    + repeat (rewrite <- app_assoc; cbn [app]). reflexivity.
  - destruct d; [apply Hst; exact H1|left; reflexivity].
  - apply Hst; exact H7.
  - intros Hpre. rewrite (post_checks_type g0 m Hp0). unfold g0. cbn [g_dir g_stone].
    destruct d as [d|]; [apply dir_type_slide|congruence].
  - destruct (lenient g0) eqn:El0.
    + right. unfold lenient, g0, st0 in El0.
      cbn [g_stone g_pickup g_file g_rank g_dir g_drops g_trail is_some orb] in El0.
      destruct d as [d|]; cbn [is_some andb negb orb] in El0; [|rewrite andb_false_r in El0; discriminate].
      destruct pk as [p|]; cbn [is_some andb negb orb] in El0; [discriminate|].
      destruct ds as [|c ds']; cbn [nonempty andb] in El0; [discriminate|].
      apply negb_true_iff in El0. apply Z.eqb_neq in El0.
      unfold post_checks, g0, st0 in Hp0.
      cbn [g_stone g_pickup g_file g_rank g_dir g_drops g_trail is_some nonempty negb andb orb] in Hp0.
      injection Hp0 as <-.
      unfold render_groups, g0, st0. cbn [g_stone g_pickup g_file g_rank g_dir g_drops g_trail olist app].
      rewrite app_nil_r.
      apply (implied f r (f - 97) (r - 49) d (dir_type d) (c :: ds')).
      * split; [apply classify_file; exact H3|reflexivity].
      * split; [apply classify_digit; exact H4|reflexivity].
      * apply dir_glyph_of_class. exact H5.
      * discriminate.
      * split; [apply digits_forall; exact H6|reflexivity].
      * exact El0.
    + left. split; [apply post_denotes; assumption|].
      unfold lenient, g0, st0 in El, El0.
      cbn [g_stone g_pickup g_file g_rank g_dir g_drops g_trail is_some orb] in El, El0.
      destruct tr as [c|]; [right; discriminate|]. left.
      destruct d as [d|]; cbn [is_some andb orb] in El, El0.
      * destruct st as [c|]; [discriminate|]. cbn [is_some andb orb] in El. congruence.
      * rewrite andb_false_r in El. cbn [orb andb] in El. discriminate.
Qed.

Lemma parse_unspecified s : parse_move s = Unspecified <-> ptn_lenient s.
Proof. split; [apply unspecified_lenient|apply lenient_unspecified]. Qed.

(* every string is in exactly one of: denotes a move / lenient / refused *)
Lemma parse_partition s :
  (parse_move s = Unspecified <-> ptn_lenient s) /\
  (parse_move s = Reject <-> (forall m, ~ ptn_denotes s m) /\ ~ ptn_lenient s) /\
  (forall m, ptn_denotes s m -> ~ ptn_lenient s).
Proof.
  split; [apply parse_unspecified|split].
  - split.
    + intros H. split.
      * intros m Hm. apply denotes_parse in Hm. congruence.
      * intros Hl. apply lenient_unspecified in Hl. congruence.
    + intros [Hd Hl]. destruct (parse_move s) as [m| |] eqn:E; [|reflexivity|].
      * exfalso. apply (Hd m). apply parse_accept_denotes. exact E.
      * exfalso. apply Hl. apply unspecified_lenient. exact E.
  - intros m Hm Hl. apply denotes_parse in Hm. apply lenient_unspecified in Hl. congruence.
Qed.

(* ------------------------------------------------------------------ *)
(* the decimal printer: the fuel is sufficient                          *)
(* ------------------------------------------------------------------ *)
Definition dec_step (a c : Z) : Z := a * 10 + (c - 48).
Definition dec_value (s : str) : Z := fold_left dec_step s 0.

Lemma dec_digits_value fuel : forall n acc,
  0 <= n < 10 ^ Z.of_nat (S fuel) ->
  exists ds, dec_digits (S fuel) n acc = ds ++ acc /\
             forall a, fold_left dec_step ds a = a * 10 ^ Z.of_nat (length ds) + n.
Proof.
  induction fuel as [|f IH]; intros n acc Hn.
  - change (10 ^ Z.of_nat 1) with 10 in Hn. exists [48 + n mod 10]. cbn [dec_digits].
    split; [destruct (n <? 10); reflexivity|]. intros a. cbn [fold_left length]. unfold dec_step.
    change (10 ^ Z.of_nat 1) with 10. rewrite Z.mod_small by lia. lia.
  - remember (S f) as f1. cbn [dec_digits]. destruct (Z.ltb_spec n 10) as [Hlt|Hge].
    + exists [48 + n mod 10]. split; [reflexivity|]. intros a. cbn [fold_left length]. unfold dec_step.
      change (10 ^ Z.of_nat 1) with 10. rewrite Z.mod_small by lia. lia.
    + subst f1. destruct (IH (n / 10) ((48 + n mod 10) :: acc)) as (ds & E & Hv).
      { split; [apply Z.div_pos; lia|]. apply Z.div_lt_upper_bound; [lia|].
        rewrite Nat2Z.inj_succ, Z.pow_succ_r in Hn by lia. lia. }
      exists (ds ++ [48 + n mod 10]). rewrite E, <- app_assoc. split; [reflexivity|].
      intros a. rewrite fold_left_app, Hv. cbn [fold_left]. unfold dec_step.
      rewrite app_length. cbn [length]. rewrite Nat2Z.inj_add. change (Z.of_nat 1) with 1.
      rewrite Z.pow_add_r, Z.pow_1_r by lia. pose proof (Z.div_mod n 10). lia.
Qed.

Lemma str_nat_value n : 0 <= n -> dec_value (str_nat n) = n.
Proof.
  intros Hn. unfold str_nat, dec_value.
  destruct (dec_digits_value (Z.to_nat (Z.log2 n)) n []) as (ds & E & Hv).
  - split; [exact Hn|]. rewrite Nat2Z.inj_succ, Z2Nat.id by apply Z.log2_nonneg.
    destruct (Z.eq_dec n 0) as [->|Hz]; [reflexivity|].
    pose proof (Z.log2_spec n ltac:(lia)) as [_ Hup].
    apply (Z.lt_le_trans _ _ _ Hup). apply Z.pow_le_mono_l. lia.
  - rewrite E, app_nil_r, Hv. lia.
Qed.

(* ------------------------------------------------------------------ *)
(* the hypotheses of the implication theorems are satisfiable            *)
(* ------------------------------------------------------------------ *)
Example wf_move8_nonvacuous :
  wf_move8 (mkMove 2 2 SlideUp (Some [1; 2])) /\ wf_move8 (mkMove 7 0 PlaceCapstone None) /\
  format_move (mkMove 2 2 SlideUp (Some [1; 2])) = [51; 99; 51; 43; 49; 50] /\        (* 3c3+12 *)
  ~ wf_move8 (mkMove 8 0 PlaceFlat None) /\ ~ ptn_ok (mkMove 0 0 SlideUp (Some [4; 5])) /\
  format_move (mkMove 0 0 SlideUp (Some [4; 5; 3])) = [49; 50; 97; 49; 43; 52; 53; 51].  (* 12a1+453 *)
Proof.
  split; [|split; [|split; [|split; [|split]]]].
  - exists 5. split; [lia|]. unfold wf_move; simpl. split; [lia|split; [lia|]]. exists [1; 2].
    split; [reflexivity|]. split; [|simpl; lia]. split; [discriminate|split; [repeat constructor; lia|simpl; lia]].
  - exists 8. split; [lia|]. unfold wf_move; simpl. repeat split; lia.
  - reflexivity.
  - intros (n & Hn & Hx & _). cbn in Hx. lia.
  - intros (_ & _ & s & E & _ & _ & Hs). cbn in E. injection E as <-. cbn in Hs. lia.
  - reflexivity.
Qed.

Example denotes_nonvacuous :
  ptn_denotes [51; 99; 51; 43; 49; 50] (mkMove 2 2 SlideUp (Some [1; 2])) /\        (* 3c3+12 *)
  ptn_denotes [83; 97; 52] (mkMove 0 3 PlaceStanding None) /\                       (* Sa4 *)
  ptn_lenient [83; 97; 49; 62] /\ ptn_lenient [97; 49; 62; 49; 49] /\ ptn_lenient [97; 49; 67] /\
  (forall m, ~ ptn_denotes [97; 49; 67] m).
Proof.
  split; [|split; [|split; [|split; [|split]]]].
  - apply parse_denotes. reflexivity.
  - apply parse_denotes. reflexivity.
  - apply parse_unspecified. reflexivity.
  - apply parse_unspecified. reflexivity.
  - apply parse_unspecified. reflexivity.
  - intros m H. apply parse_denotes in H. discriminate.
Qed.

Example rejects_nonvacuous :
  parse_move [51; 97; 49] = Reject /\                          (* 3a1   : count, no direction *)
  parse_move [97; 49; 49] = Reject /\                          (* a11   : drops, no direction *)
  parse_move [54; 97; 49; 62; 50; 50; 50; 50] = Reject /\      (* 6a1>2222 : 6 <> 8 *)
  parse_move [122; 51] = Reject /\                             (* z3    : unknown file *)
  parse_move [97; 57] = Reject /\                              (* a9    : unknown rank *)
  parse_move [97; 49; 97; 49] = Reject.                        (* a1a1  : two moves glued *)
Proof.
  split; [|split; [|split; [|split; [|split]]]].
  - apply (rejects_count_without_direction [] 51 97 49 []); [left; reflexivity|lia|]. intros d r' E. discriminate.
  - apply (rejects_drops_without_direction [] [] 97 49 49 []); [left; reflexivity|left; reflexivity|lia|lia|lia].
  - apply (rejects_count_mismatch [] 54 97 49 62 [50; 50; 50; 50] []); try lia; try discriminate.
    + left; reflexivity.
    + repeat constructor; lia.
    + left; reflexivity.
  - apply (rejects_foreign _ 122); [left; reflexivity|]. unfold ptn_char, stone_letter. lia.
  - apply (rejects_foreign _ 57); [right; left; reflexivity|]. unfold ptn_char, stone_letter. lia.
  - apply (rejects_glued [97; 49] (mkMove 0 0 PlaceFlat None) [97; 49] (mkMove 0 0 PlaceFlat None));
      apply parse_denotes; reflexivity.
Qed.

(* the formatter's text denotes the move under the standard's reading *)
Lemma format_denotes m : wf_move8 m -> ptn_denotes (format_move m) m.
Proof. intros H. apply parse_denotes. apply parse_format_move. exact H. Qed.
