(* C14, move notation: the recursive-descent parser of model/Ptn.v against the
   grammar of spec/PtnSpec.v, and the format / parse round trips. *)
From Coq Require Import ZArith List Bool Lia.
From TV Require Import model.Tak model.Ptn spec.MoveSpec spec.PtnSpec.
Import ListNotations.
Open Scope Z_scope.

(* ------------------------------------------------------------------ *)
(* character classes                                                    *)
(* ------------------------------------------------------------------ *)
Ltac cls_cases :=
  unfold classify;
  repeat match goal with
         | |- context [?a =? ?b] => destruct (Z.eqb_spec a b)
         | |- context [?a <=? ?b] => destruct (Z.leb_spec a b)
         end; cbn [orb andb]; try reflexivity; try discriminate; try lia.

Lemma cls_eqb_eq a b : cls_eqb a b = true <-> a = b.
Proof. destruct a, b; cbn; split; intros H; try reflexivity; try discriminate. Qed.
Lemma cls_eqb_refl a : cls_eqb a a = true.
Proof. destruct a; reflexivity. Qed.
Lemma cls_eqb_neq a b : a <> b -> cls_eqb a b = false.
Proof. destruct a, b; cbn; intros H; try reflexivity; exfalso; apply H; reflexivity. Qed.

Lemma classify_file c : classify c = KFile <-> 97 <= c <= 104.
Proof. split; [|intros H]; cls_cases. Qed.
Lemma classify_digit c : classify c = KDigit <-> 49 <= c <= 56.
Proof. split; [|intros H]; cls_cases. Qed.
Lemma classify_stone c : classify c = KStone <-> stone_letter c.
Proof. unfold stone_letter. split; [|intros H]; cls_cases. Qed.
Lemma classify_dir c : classify c = KDir <-> (c = 60 \/ c = 62 \/ c = 43 \/ c = 45).
Proof. split; [|intros H]; cls_cases. Qed.
Lemma classify_other c : classify c <> KOther <-> ptn_char c.
Proof.
  unfold ptn_char, stone_letter. split.
  - intros H. destruct (classify c) eqn:E.
    + apply classify_stone in E. left. exact E.
    + apply classify_digit in E. right; left; exact E.
    + apply classify_file in E. right; right; left; exact E.
    + apply classify_dir in E. right; right; right. exact E.
    + exfalso. apply H. reflexivity.
  - intros H E. revert E. cls_cases.
Qed.

(* ------------------------------------------------------------------ *)
(* the matcher and its groups                                           *)
(* ------------------------------------------------------------------ *)
Definition olist (o : option Z) : str := match o with Some c => [c] | None => [] end.
Definition ocls (k : cls) (o : option Z) : Prop :=
  match o with Some c => classify c = k | None => True end.
Definition render_groups (g : groups) : str :=
  olist (g_stone g) ++ olist (g_pickup g) ++ g_file g :: g_rank g :: olist (g_dir g) ++ g_drops g ++ olist (g_trail g).
Definition wf_groups (g : groups) : Prop :=
  ocls KStone (g_stone g) /\ ocls KDigit (g_pickup g) /\ classify (g_file g) = KFile /\
  classify (g_rank g) = KDigit /\ ocls KDir (g_dir g) /\
  Forall (fun c => classify c = KDigit) (g_drops g) /\ ocls KStone (g_trail g).

Lemma take_opt_spec k s o r : take_opt k s = (o, r) -> s = olist o ++ r /\ ocls k o.
Proof.
  destruct s as [|c s']; cbn [take_opt].
  - intros H. injection H as <- <-. split; [reflexivity|exact I].
  - destruct (cls_eqb (classify c) k) eqn:E; intros H; injection H as <- <-.
    + split; [reflexivity|]. apply cls_eqb_eq. exact E.
    + split; [reflexivity|exact I].
Qed.
Lemma take_one_spec k s c r : take_one k s = Some (c, r) -> s = c :: r /\ classify c = k.
Proof.
  destruct s as [|c' s']; cbn [take_one]; [discriminate|].
  destruct (cls_eqb (classify c') k) eqn:E; [|discriminate].
  intros H. injection H as <- <-. split; [reflexivity|]. apply cls_eqb_eq. exact E.
Qed.
Lemma take_star_spec k s : forall l r, take_star k s = (l, r) -> s = l ++ r /\ Forall (fun c => classify c = k) l.
Proof.
  induction s as [|c s IH]; cbn [take_star]; intros l r H.
  - injection H as <- <-. split; [reflexivity|constructor].
  - destruct (cls_eqb (classify c) k) eqn:E.
    + destruct (take_star k s) as [a b] eqn:Es. injection H as <- <-.
      destruct (IH a b eq_refl) as [-> Hf]. split; [reflexivity|].
      constructor; [apply cls_eqb_eq; exact E|exact Hf].
    + injection H as <- <-. split; [reflexivity|constructor].
Qed.

(* head class of a string (KOther for the empty string, which no X? X* X consumes) *)
Definition hdc (s : str) : cls := match s with c :: _ => classify c | [] => KOther end.
Lemma take_opt_none k s : hdc s <> k -> take_opt k s = (None, s).
Proof.
  destruct s as [|c s']; cbn [take_opt hdc]; intros H; [reflexivity|].
  rewrite cls_eqb_neq by exact H. reflexivity.
Qed.
Lemma take_opt_some k c r : classify c = k -> take_opt k (c :: r) = (Some c, r).
Proof. intros H. cbn [take_opt]. rewrite H, cls_eqb_refl. reflexivity. Qed.
Lemma take_one_some k c r : classify c = k -> take_one k (c :: r) = Some (c, r).
Proof. intros H. cbn [take_one]. rewrite H, cls_eqb_refl. reflexivity. Qed.
Lemma take_star_app k l r :
  Forall (fun c => classify c = k) l -> hdc r <> k -> take_star k (l ++ r) = (l, r).
Proof.
  intros Hl Hr. induction Hl as [|c l Hc Hl IH]; cbn [app].
  - destruct r as [|c r']; cbn [take_star hdc] in *; [reflexivity|].
    rewrite cls_eqb_neq by exact Hr. reflexivity.
  - cbn [take_star]. rewrite Hc, cls_eqb_refl, IH. reflexivity.
Qed.

Lemma match_move_sound s g : match_move s = Some g -> s = render_groups g /\ wf_groups g.
Proof.
  unfold match_move.
  destruct (take_opt KStone s) as [st s1] eqn:E1.
  destruct (take_opt KDigit s1) as [pk s2] eqn:E2.
  destruct (take_one KFile s2) as [[f s3]|] eqn:E3; [|discriminate].
  destruct (take_one KDigit s3) as [[r s4]|] eqn:E4; [|discriminate].
  destruct (take_opt KDir s4) as [d s5] eqn:E5.
  destruct (take_star KDigit s5) as [ds s6] eqn:E6.
  destruct (take_opt KStone s6) as [tr s7] eqn:E7.
  destruct s7 as [|? ?]; [|discriminate].
  intros H. injection H as <-.
  apply take_opt_spec in E1. destruct E1 as [-> H1].
  apply take_opt_spec in E2. destruct E2 as [-> H2].
  apply take_one_spec in E3. destruct E3 as [-> H3].
  apply take_one_spec in E4. destruct E4 as [-> H4].
  apply take_opt_spec in E5. destruct E5 as [-> H5].
  apply take_star_spec in E6. destruct E6 as [-> H6].
  apply take_opt_spec in E7. destruct E7 as [-> H7].
  unfold render_groups, wf_groups. cbn [g_stone g_pickup g_file g_rank g_dir g_drops g_trail].
  rewrite app_nil_r. split; [reflexivity|]. repeat split; assumption.
Qed.

Lemma hdc_app_olist k o r : ocls k o -> hdc (olist o ++ r) = match o with Some _ => k | None => hdc r end.
Proof. destruct o as [c|]; cbn [olist app hdc ocls]; intros H; [exact H|reflexivity]. Qed.

Lemma take_opt_olist k o r : ocls k o -> hdc r <> k -> take_opt k (olist o ++ r) = (o, r).
Proof.
  destruct o as [c|]; cbn [olist app ocls]; intros H Hr.
  - apply take_opt_some. exact H.
  - apply take_opt_none. exact Hr.
Qed.

Lemma match_move_complete g : wf_groups g -> match_move (render_groups g) = Some g.
Proof.
  destruct g as [st pk f r d ds tr]. unfold wf_groups, render_groups.
  cbn [g_stone g_pickup g_file g_rank g_dir g_drops g_trail].
  intros (H1 & H2 & H3 & H4 & H5 & H6 & H7). unfold match_move.
  rewrite (take_opt_olist KStone st) by
      (try exact H1; rewrite (hdc_app_olist KDigit) by exact H2; destruct pk; cbn [hdc]; rewrite ?H3; discriminate).
  rewrite (take_opt_olist KDigit pk) by (try exact H2; cbn [hdc]; rewrite H3; discriminate).
  rewrite (take_one_some KFile) by exact H3.
  rewrite (take_one_some KDigit) by exact H4.
  rewrite <- (app_nil_r (olist tr)).
  assert (Htail : hdc (olist tr ++ []) <> KDigit).
  { rewrite (hdc_app_olist KStone) by exact H7. destruct tr; cbn [hdc]; discriminate. }
  rewrite (take_opt_olist KDir d).
  - rewrite (take_star_app KDigit ds _ H6 Htail).
    rewrite (take_opt_olist KStone tr) by (try exact H7; cbn [hdc]; discriminate).
    reflexivity.
  - exact H5.
  - destruct H6 as [|c l Hc Hl]; cbn [app hdc].
    + rewrite (hdc_app_olist KStone) by exact H7. destruct tr; cbn [hdc]; discriminate.
    + rewrite Hc. discriminate.
Qed.
