(* Proofs for C06: decode is a left inverse of encode on `encodable`, encode is
   injective there, the colour-swap law, byte range, batch layout. *)
From Coq Require Import ZArith List Bool Lia.
From TV Require gen.Consts.
From TV Require Import model.Tak model.Encoding spec.EncodingSpec proofs.TieEncoding.
Import ListNotations.
Open Scope Z_scope.

(* ------------------------------------------------------------------ *)
(* small utilities                                                      *)
(* ------------------------------------------------------------------ *)
Lemma forallb_zrange (f : Z -> bool) (k : Z) :
  forallb f (zrange k) = true -> forall n, 0 <= n < k -> f n = true.
Proof.
  intros Hf n Hn. rewrite forallb_forall in Hf. apply Hf.
  unfold zrange. apply in_map_iff. exists (Z.to_nat n). split; [lia|].
  apply in_seq. lia.
Qed.

Lemma py_index_In {A} (l : list A) n t : py_index l n = Some t -> In t l.
Proof.
  unfold py_index. intros H.
  destruct ((0 <=? n) && (n <? zlen l)) eqn:E1.
  - eapply nth_error_In; eauto.
  - destruct ((- zlen l <=? n) && (n <? 0)) eqn:E2; [|discriminate].
    eapply nth_error_In; eauto.
Qed.

Lemma color_eqb_flip a b : color_eqb (flip a) (flip b) = color_eqb a b.
Proof. destruct a, b; reflexivity. Qed.

Lemma to_move_swap p : to_move (swap_colours p) = flip (to_move p).
Proof.
  unfold to_move, swap_colours; cbn [ply].
  rewrite Z.add_1_r, Z.even_succ, <- Z.negb_even.
  destruct (Z.even (ply p)); reflexivity.
Qed.

(* ------------------------------------------------------------------ *)
(* vocabulary facts, from the computed ties                             *)
(* ------------------------------------------------------------------ *)
Definition byte (t : Z) : Prop := 0 <= t < 256.

Lemma byteb_byte t : byteb t = true -> byte t.
Proof. unfold byteb, byte. intros H. apply andb_prop in H. destruct H as [H1 H2]. lia. Qed.

Lemma vocabulary_byte t : In t vocabulary -> byte t.
Proof.
  intros Hin. apply byteb_byte.
  pose proof tie_vocabulary_bytes as Hb. rewrite forallb_forall in Hb. now apply Hb.
Qed.

Lemma reserves_byte t : In t Consts.tok_RESERVES -> byte t.
Proof. intros H. apply vocabulary_byte. unfold vocabulary. apply in_or_app. right. apply in_or_app. now left. Qed.
Lemma capstones_byte t : In t Consts.tok_CAPSTONES -> byte t.
Proof. intros H. apply vocabulary_byte. unfold vocabulary. apply in_or_app. right. apply in_or_app. now right. Qed.
Lemma scalar_byte t : In t scalar_tokens -> byte t.
Proof. intros H. apply vocabulary_byte. unfold vocabulary. apply in_or_app. now left. Qed.

Lemma idx_ok_elim l first n :
  idx_ok l first n = true ->
  exists t, py_index l n = Some t /\ zmem t l = true /\ t - first = n.
Proof.
  unfold idx_ok. destruct (py_index l n) as [t|]; [|discriminate].
  intros H. apply andb_prop in H. destruct H as [H1 H2].
  exists t. repeat split; auto. now apply Z.eqb_eq.
Qed.

Lemma reserves_index n : 0 <= n <= 49 ->
  exists t, py_index Consts.tok_RESERVES n = Some t /\ zmem t Consts.tok_RESERVES = true /\
            t - Consts.tok_FIRST_RESERVES_VALUE = n.
Proof. intros H. apply idx_ok_elim. apply (forallb_zrange _ 50 tie_reserves_index). lia. Qed.
Lemma capstones_index n : 0 <= n <= 1 ->
  exists t, py_index Consts.tok_CAPSTONES n = Some t /\ zmem t Consts.tok_CAPSTONES = true /\
            t - Consts.tok_FIRST_CAPSTONES_VALUE = n.
Proof. intros H. apply idx_ok_elim. apply (forallb_zrange _ 2 tie_capstones_index). lia. Qed.

(* ------------------------------------------------------------------ *)
(* decode_go undoes encode_board                                        *)
(* ------------------------------------------------------------------ *)
(* the heart: a top token is none of MY_FLAT / THEIR_FLAT / EMPTY, so it closes
   the current square and opens the next one with exactly the encoded piece *)
Lemma decode_go_top m top ts cur acc :
  decode_go m (top_token (color_eqb (pcolor top) m) (pkind top) :: ts) cur acc =
  decode_go m ts (Some [top]) (flush cur acc).
Proof. destruct top as [c k]. destruct m, c, k; reflexivity. Qed.

Lemma decode_go_empty m ts cur acc :
  decode_go m (Consts.tok_EMPTY :: ts) cur acc = decode_go m ts (Some []) (flush cur acc).
Proof. reflexivity. Qed.

(* a buried-flat token is one of MY_FLAT / THEIR_FLAT: it extends the current square *)
Lemma decode_go_flat m f ts s acc :
  pkind f = Flat ->
  decode_go m (flat_token (color_eqb (pcolor f) m) :: ts) (Some s) acc =
  decode_go m ts (Some (s ++ [f])) acc.
Proof. destruct f as [c k]. cbn [pkind]. intros ->. destruct m, c; reflexivity. Qed.

Lemma decode_go_flats m fs : forall ts s acc,
  Forall (fun pc => pkind pc = Flat) fs ->
  decode_go m (map (fun f => flat_token (color_eqb (pcolor f) m)) fs ++ ts) (Some s) acc =
  decode_go m ts (Some (s ++ fs)) acc.
Proof.
  induction fs as [|f fs IH]; intros ts s acc Hfl.
  - cbn [map app]. now rewrite app_nil_r.
  - inversion Hfl as [|? ? Hf Hfs]; subst.
    cbn [map app]. rewrite decode_go_flat by assumption.
    rewrite IH by assumption. now rewrite <- app_assoc.
Qed.

Lemma decode_go_square m s ts cur acc :
  stack_ok s ->
  decode_go m (encode_square m s ++ ts) cur acc = decode_go m ts (Some s) (flush cur acc).
Proof.
  intros Hs. destruct s as [|top rest].
  - cbn [encode_square app]. apply decode_go_empty.
  - unfold stack_ok in Hs. cbn [tl] in Hs.
    cbn [encode_square app]. rewrite decode_go_top.
    now rewrite decode_go_flats.
Qed.

Lemma decode_go_board m b : forall cur acc,
  Forall stack_ok b ->
  decode_go m (encode_board m b) cur acc = Some (flush cur acc ++ b).
Proof.
  induction b as [|s b IH]; intros cur acc Hb.
  - cbn. now rewrite app_nil_r.
  - inversion Hb as [|? ? Hs Hb']; subst.
    unfold encode_board. cbn [flat_map]. rewrite decode_go_square by assumption.
    fold (encode_board m b). rewrite IH by assumption.
    cbn [flush]. now rewrite <- app_assoc.
Qed.

(* ------------------------------------------------------------------ *)
(* decode o encode                                                      *)
(* ------------------------------------------------------------------ *)
Lemma encodable_encode s p : encodable p ->
  exists r1 c1 r2 c2,
    encode s p =
    Some ((if s then [Consts.tok_OUTPUT_SENTINEL] else []) ++
          (match to_move p with White => Consts.tok_WHITE_TO_PLAY | Black => Consts.tok_BLACK_TO_PLAY end)
          :: r1 :: c1 :: r2 :: c2 :: encode_board (to_move p) (board p)) /\
    zmem r1 Consts.tok_RESERVES = true /\ zmem c1 Consts.tok_CAPSTONES = true /\
    zmem r2 Consts.tok_RESERVES = true /\ zmem c2 Consts.tok_CAPSTONES = true /\
    (r1 - Consts.tok_FIRST_RESERVES_VALUE, c1 - Consts.tok_FIRST_CAPSTONES_VALUE) = stones_of p (to_move p) /\
    (r2 - Consts.tok_FIRST_RESERVES_VALUE, c2 - Consts.tok_FIRST_CAPSTONES_VALUE) = stones_of p (flip (to_move p)).
Proof.
  intros (Hsz & Hlen & Hws & Hwc & Hbs & Hbc & Hshape).
  assert (Hm : 0 <= fst (stones_of p (to_move p)) <= 49 /\ 0 <= snd (stones_of p (to_move p)) <= 1 /\
               0 <= fst (stones_of p (flip (to_move p))) <= 49 /\ 0 <= snd (stones_of p (flip (to_move p))) <= 1).
  { destruct (to_move p); cbn; lia. }
  destruct Hm as (H1 & H2 & H3 & H4).
  destruct (reserves_index _ H1) as (r1 & E1 & M1 & V1).
  destruct (capstones_index _ H2) as (c1 & E2 & M2 & V2).
  destruct (reserves_index _ H3) as (r2 & E3 & M3 & V3).
  destruct (capstones_index _ H4) as (c2 & E4 & M4 & V4).
  exists r1, c1, r2, c2. unfold encode. rewrite E1, E2, E3, E4.
  repeat split; auto.
  - rewrite V1, V2. now destruct (stones_of p (to_move p)).
  - rewrite V3, V4. now destruct (stones_of p (flip (to_move p))).
Qed.

Definition decoded_position (p : position) : position :=
  mkPos (size p) (wstones p) (wcaps p) (bstones p) (bcaps p)
        (match to_move p with White => 2 | Black => 3 end) (board p).

Lemma decode_pos_encode s p : encodable p ->
  exists l, encode s p = Some l /\ decode_pos l = Some (decoded_position p).
Proof.
  intros He. destruct (encodable_encode s p He) as (r1 & c1 & r2 & c2 & El & M1 & M2 & M3 & M4 & V1 & V2).
  destruct He as (Hsz & Hlen & _ & _ & _ & _ & Hshape).
  eexists. split; [exact El|].
  set (tp := match to_move p with White => Consts.tok_WHITE_TO_PLAY | Black => Consts.tok_BLACK_TO_PLAY end).
  assert (Htp : (tp =? Consts.tok_OUTPUT_SENTINEL) = false) by (unfold tp; destruct (to_move p); reflexivity).
  assert (Hbody : decode_pos (tp :: r1 :: c1 :: r2 :: c2 :: encode_board (to_move p) (board p))
                  = Some (decoded_position p)).
  { unfold decode_pos.
    rewrite Htp.
    assert (Hcol : (if tp =? Consts.tok_WHITE_TO_PLAY then White else Black) = to_move p)
      by (unfold tp; destruct (to_move p); reflexivity).
    rewrite Hcol. rewrite M1, M2, M3, M4. cbn [andb negb].
    rewrite V1, V2. rewrite decode_go_board by assumption. cbn [flush app].
    fold (zlen (board p)). rewrite Hlen.
    rewrite Z.sqrt_square by lia. rewrite Z.eqb_refl. cbn [negb].
    destruct (8 <? size p) eqn:E8; [lia|].
    unfold decoded_position. destruct (to_move p); reflexivity. }
  destruct s; cbn [app].
  - (* the sentinel is skipped *)
    unfold decode_pos in Hbody |- *. rewrite Htp in Hbody. rewrite Z.eqb_refl. exact Hbody.
  - exact Hbody.
Qed.

Lemma triple_decoded p : triple (decoded_position p) = triple p.
Proof.
  unfold triple, decoded_position, to_move, reserves; cbn.
  destruct (Z.even (ply p)); reflexivity.
Qed.

(* decode returns the same board, side to move and reserves *)
Theorem decode_encode s p : encodable p ->
  exists l, encode s p = Some l /\ decode l = Some (board p, to_move p, reserves p).
Proof.
  intros He. destruct (decode_pos_encode s p He) as (l & El & Dl).
  exists l. split; [exact El|]. unfold decode. rewrite Dl. cbn [option_map].
  now rewrite triple_decoded.
Qed.

Theorem encode_defined s p : encodable p -> exists l, encode s p = Some l.
Proof. intros He. destruct (decode_encode s p He) as (l & El & _). eauto. Qed.

(* equal token sequences come from equal (board, side, reserves) triples *)
Theorem encode_injective s p q : encodable p -> encodable q ->
  encode s p = encode s q ->
  board p = board q /\ to_move p = to_move q /\ reserves p = reserves q.
Proof.
  intros Hp Hq Heq.
  destruct (decode_encode s p Hp) as (l & El & Dl).
  destruct (decode_encode s q Hq) as (l' & El' & Dl').
  rewrite El, El' in Heq. injection Heq as ->.
  assert (H : (board p, to_move p, reserves p) = (board q, to_move q, reserves q)) by congruence.
  pose proof (f_equal (fun x => fst (fst x)) H) as H1.
  pose proof (f_equal (fun x => snd (fst x)) H) as H2.
  pose proof (f_equal snd H) as H3. cbn [fst snd] in H1, H2, H3. auto.
Qed.

(* the property's wording: distinct triples encode to distinct sequences *)
Corollary encode_distinct s p q : encodable p -> encodable q ->
  (board p, to_move p, reserves p) <> (board q, to_move q, reserves q) ->
  encode s p <> encode s q.
Proof.
  intros Hp Hq Hne Heq. apply Hne.
  destruct (encode_injective s p q Hp Hq Heq) as (-> & -> & ->). reflexivity.
Qed.

(* ------------------------------------------------------------------ *)
(* colour swap                                                          *)
(* ------------------------------------------------------------------ *)
Lemma encode_square_swap m s :
  encode_square (flip m) (map swap_piece s) = encode_square m s.
Proof.
  destruct s as [|top rest]; [reflexivity|].
  cbn [map encode_square swap_piece pcolor pkind]. rewrite color_eqb_flip. f_equal.
  rewrite map_map. apply map_ext. intros f. cbn [swap_piece pcolor]. now rewrite color_eqb_flip.
Qed.

Lemma encode_board_swap m b :
  encode_board (flip m) (map (map swap_piece) b) = encode_board m b.
Proof.
  induction b as [|s b IH]; [reflexivity|].
  unfold encode_board in *. cbn [map flat_map]. now rewrite encode_square_swap, IH.
Qed.

Lemma stones_of_swap p c : stones_of (swap_colours p) (flip c) = stones_of p c.
Proof. destruct c; reflexivity. Qed.

Lemma flip_flip c : flip (flip c) = c.
Proof. destruct c; reflexivity. Qed.

(* for EVERY position (no domain guard): the encoding of the colour-swapped
   twin is the encoding of p with the side-to-move token flipped, and both
   calls raise together *)
Theorem encode_swap s p :
  encode s (swap_colours p) = option_map (flip_to_play s) (encode s p).
Proof.
  unfold encode. rewrite to_move_swap.
  rewrite stones_of_swap.
  replace (stones_of (swap_colours p) (flip (flip (to_move p)))) with (stones_of p (flip (to_move p)))
    by (now rewrite <- (stones_of_swap p (flip (to_move p)))).
  destruct (py_index Consts.tok_RESERVES (fst (stones_of p (to_move p)))) as [r1|]; [|reflexivity].
  destruct (py_index Consts.tok_CAPSTONES (snd (stones_of p (to_move p)))) as [c1|]; [|reflexivity].
  destruct (py_index Consts.tok_RESERVES (fst (stones_of p (flip (to_move p))))) as [r2|]; [|reflexivity].
  destruct (py_index Consts.tok_CAPSTONES (snd (stones_of p (flip (to_move p))))) as [c2|]; [|reflexivity].
  cbn [board swap_colours]. rewrite encode_board_swap.
  cbn [option_map]. f_equal.
  destruct s, (to_move p); reflexivity.
Qed.

(* flip_to_play changes the token at to_play_index and nothing else *)
Lemma flip_to_play_other s l i :
  i <> to_play_index s -> nth_error (flip_to_play s l) i = nth_error l i.
Proof.
  intros Hi. destruct s; cbn in *.
  - destruct l as [|x [|y r]]; try reflexivity.
    destruct i as [|[|i]]; try reflexivity. congruence.
  - destruct l as [|x r]; try reflexivity. destruct i; [congruence|reflexivity].
Qed.

Lemma flip_to_play_length s l : length (flip_to_play s l) = length l.
Proof. destruct s; destruct l as [|x [|y r]]; reflexivity. Qed.

(* ... and on an encoding it does change it: WHITE_TO_PLAY <-> BLACK_TO_PLAY *)
Theorem encode_swap_token s p l :
  encode s p = Some l ->
  nth_error l (to_play_index s) =
    Some (match to_move p with White => Consts.tok_WHITE_TO_PLAY | Black => Consts.tok_BLACK_TO_PLAY end) /\
  nth_error (flip_to_play s l) (to_play_index s) =
    Some (match to_move p with White => Consts.tok_BLACK_TO_PLAY | Black => Consts.tok_WHITE_TO_PLAY end) /\
  forall i, i <> to_play_index s -> nth_error (flip_to_play s l) i = nth_error l i.
Proof.
  unfold encode.
  destruct (py_index Consts.tok_RESERVES (fst (stones_of p (to_move p)))) as [r1|]; [|discriminate].
  destruct (py_index Consts.tok_CAPSTONES (snd (stones_of p (to_move p)))) as [c1|]; [|discriminate].
  destruct (py_index Consts.tok_RESERVES (fst (stones_of p (flip (to_move p))))) as [r2|]; [|discriminate].
  destruct (py_index Consts.tok_CAPSTONES (snd (stones_of p (flip (to_move p))))) as [c2|]; [|discriminate].
  intros H. injection H as <-.
  split; [|split].
  - destruct s; reflexivity.
  - destruct s, (to_move p); reflexivity.
  - intros i Hi. now apply flip_to_play_other.
Qed.

(* ------------------------------------------------------------------ *)
(* byte range                                                           *)
(* ------------------------------------------------------------------ *)
Lemma top_token_byte b k : byte (top_token b k).
Proof. apply scalar_byte. destruct b, k; cbn; tauto. Qed.
Lemma flat_token_byte b : byte (flat_token b).
Proof. apply scalar_byte. destruct b; cbn; tauto. Qed.

Lemma encode_square_byte m s : Forall byte (encode_square m s).
Proof.
  destruct s as [|top rest]; cbn [encode_square].
  - constructor; [|constructor]. apply scalar_byte. cbn; tauto.
  - constructor; [apply top_token_byte|].
    apply Forall_forall. intros t Hin. apply in_map_iff in Hin. destruct Hin as (f & <- & _).
    apply flat_token_byte.
Qed.

Lemma encode_board_byte m b : Forall byte (encode_board m b).
Proof.
  induction b as [|s b IH]; [constructor|].
  unfold encode_board. cbn [flat_map]. apply Forall_app. split; [apply encode_square_byte|exact IH].
Qed.

(* every token of every encoding (no domain guard) fits in a byte *)
Theorem tokens_byte s p l : encode s p = Some l -> Forall (fun t => 0 <= t < 256) l.
Proof.
  unfold encode.
  destruct (py_index Consts.tok_RESERVES (fst (stones_of p (to_move p)))) as [r1|] eqn:E1; [|discriminate].
  destruct (py_index Consts.tok_CAPSTONES (snd (stones_of p (to_move p)))) as [c1|] eqn:E2; [|discriminate].
  destruct (py_index Consts.tok_RESERVES (fst (stones_of p (flip (to_move p))))) as [r2|] eqn:E3; [|discriminate].
  destruct (py_index Consts.tok_CAPSTONES (snd (stones_of p (flip (to_move p))))) as [c2|] eqn:E4; [|discriminate].
  intros H. injection H as <-.
  apply Forall_app. split.
  - destruct s; [|constructor]. constructor; [|constructor]. apply scalar_byte. cbn; tauto.
  - constructor. { apply scalar_byte. destruct (to_move p); cbn; tauto. }
    constructor. { apply reserves_byte. eapply py_index_In; eauto. }
    constructor. { apply capstones_byte. eapply py_index_In; eauto. }
    constructor. { apply reserves_byte. eapply py_index_In; eauto. }
    constructor. { apply capstones_byte. eapply py_index_In; eauto. }
    apply encode_board_byte.
Qed.

(* ------------------------------------------------------------------ *)
(* batches                                                              *)
(* ------------------------------------------------------------------ *)
Lemma skipn_repeat {A} (x : A) n m : skipn n (repeat x m) = repeat x (m - n).
Proof.
  revert m. induction n as [|n IH]; intros m.
  - now rewrite Nat.sub_0_r.
  - destruct m; [reflexivity|]. cbn. apply IH.
Qed.

Lemma map_repeat' {A B} (f : A -> B) x n : map f (repeat x n) = repeat (f x) n.
Proof. induction n as [|n IH]; [reflexivity|]. cbn. now rewrite IH. Qed.

Lemma widen_widen w w' d : (length d <= w)%nat -> (w <= w')%nat -> widen w' (widen w d) = widen w' d.
Proof.
  intros H1 H2. unfold widen. rewrite app_length, repeat_length, <- app_assoc. f_equal.
  rewrite <- repeat_app. f_equal. lia.
Qed.

Lemma widen_zeros w w' : (w <= w')%nat -> widen w' (repeat pad_value w) = repeat pad_value w'.
Proof.
  intros H. unfold widen. rewrite repeat_length, <- repeat_app. f_equal. lia.
Qed.

Lemma set_prefix_zeros e w : (length e <= w)%nat -> set_prefix e (repeat pad_value w) = widen w e.
Proof. intros H. unfold set_prefix, widen. now rewrite skipn_repeat. Qed.

Lemma upd_app_here {A} (a : list A) x b v n : n = length a -> upd (a ++ x :: b) n v = a ++ v :: b.
Proof. intros ->. induction a as [|y a IH]; [reflexivity|]. cbn. now rewrite IH. Qed.

Lemma nth_app_here {A} (a : list A) x b d n : n = length a -> nth n (a ++ x :: b) d = x.
Proof. intros ->. induction a as [|y a IH]; [reflexivity|]. cbn. exact IH. Qed.

(* the width _encode_batch ends with, started at width w *)
Fixpoint grow_width (w : nat) (es : list (list Z)) : nat :=
  match es with [] => w | e :: es' => grow_width (Nat.max w (length e)) es' end.

Lemma grow_width_max w es : grow_width w es = Nat.max w (max_len es).
Proof.
  revert w. induction es as [|e es IH]; intros w; cbn [grow_width].
  - unfold max_len. cbn [map list_max fold_right]. lia.
  - rewrite IH. unfold max_len, list_max. cbn [map fold_right]. lia.
Qed.

Lemma batch_go_spec es : forall done w,
  Forall (fun e => (length e <= w)%nat) done ->
  batch_go (length done) es w (map (widen w) done ++ repeat (repeat pad_value w) (length es)) =
  (grow_width w es, map (widen (grow_width w es)) (done ++ es)).
Proof.
  induction es as [|e es IH]; intros done w Hdone.
  - cbn. now rewrite !app_nil_r.
  - cbn [batch_go grow_width length repeat].
    set (w' := if Nat.ltb w (length e) then length e else w).
    assert (Hw' : w' = Nat.max w (length e)).
    { unfold w'. destruct (Nat.ltb w (length e)) eqn:E.
      - apply Nat.ltb_lt in E. lia.
      - apply Nat.ltb_ge in E. lia. }
    set (out := map (widen w) done ++ repeat pad_value w :: repeat (repeat pad_value w) (length es)).
    assert (Hout : (if Nat.ltb w (length e) then map (widen w') out else out) =
                   map (widen w') done ++ repeat pad_value w' :: repeat (repeat pad_value w') (length es)).
    { destruct (Nat.ltb w (length e)) eqn:E.
      - unfold out. rewrite map_app, map_map. cbn [map].
        rewrite widen_zeros by lia. rewrite map_repeat', widen_zeros by lia.
        f_equal. apply map_ext_in. intros d Hd.
        rewrite Forall_forall in Hdone. apply widen_widen; [now apply Hdone|lia].
      - apply Nat.ltb_ge in E. assert (w' = w) by lia. unfold out. now rewrite H. }
    rewrite Hout. rewrite nth_app_here, upd_app_here by (now rewrite map_length).
    rewrite set_prefix_zeros by lia.
    replace (map (widen w') done ++ widen w' e :: repeat (repeat pad_value w') (length es))
      with (map (widen w') (done ++ [e]) ++ repeat (repeat pad_value w') (length es))
      by (rewrite map_app, <- app_assoc; reflexivity).
    replace (S (length done)) with (length (done ++ [e])) by (rewrite app_length; cbn; lia).
    rewrite IH.
    + rewrite <- Hw', <- app_assoc. reflexivity.
    + apply Forall_app. split.
      * eapply Forall_impl; [|exact Hdone]. cbn. intros; lia.
      * constructor; [lia|constructor].
Qed.

Lemma map_seq_const {A} (f : nat -> A) (b : A) n : forall a,
  (forall j, (a <= j < a + n)%nat -> f j = b) -> map f (seq a n) = repeat b n.
Proof.
  induction n as [|n IH]; intros a H; [reflexivity|].
  cbn. rewrite H by lia. f_equal. apply IH. intros j Hj. apply H. lia.
Qed.

Lemma mask_row_spec w l : (l <= w)%nat -> mask_row w l = repeat true l ++ repeat false (w - l).
Proof.
  intros H. unfold mask_row.
  replace w with (l + (w - l))%nat at 1 by lia.
  rewrite seq_app, map_app. f_equal.
  - apply map_seq_const. intros j Hj. apply Nat.ltb_lt. lia.
  - apply map_seq_const. intros j Hj. apply Nat.ltb_ge. lia.
Qed.

Lemma max_len_ge encs : Forall (fun e => (length e <= max_len encs)%nat) encs.
Proof.
  induction encs as [|e encs IH]; [constructor|].
  unfold max_len, list_max in *. cbn [map fold_right]. constructor; [lia|].
  eapply Forall_impl; [|exact IH]. cbn beta. intros a Ha. lia.
Qed.

Lemma all_some_Forall2 {A B} (f : A -> option B) l : forall r,
  all_some (map f l) = Some r <-> Forall2 (fun a b => f a = Some b) l r.
Proof.
  induction l as [|a l IH]; intros r; cbn.
  - split.
    + intros H. injection H as <-. constructor.
    + intros H. inversion H. reflexivity.
  - destruct (f a) as [b|] eqn:E.
    + destruct (all_some (map f l)) as [r'|] eqn:E'.
      * split.
        -- intros H. injection H as <-. constructor; [exact E|]. now apply IH.
        -- intros H. inversion H as [|? ? ? ? Hab Hrest]; subst.
           rewrite E in Hab. injection Hab as ->.
           apply IH in Hrest. injection Hrest as ->. reflexivity.
      * split; [discriminate|].
        intros H. inversion H as [|? ? ? ? Hab Hrest]; subst.
        apply IH in Hrest. discriminate.
    + split; [discriminate|].
      intros H. inversion H as [|? ? ? ? Hab Hrest]; subst. rewrite E in Hab. discriminate.
Qed.

Lemma all_some_None {A B} (f : A -> option B) l :
  all_some (map f l) = None <-> exists a, In a l /\ f a = None.
Proof.
  induction l as [|a l IH]; cbn.
  - split; [discriminate|]. intros (a & [] & _).
  - destruct (f a) as [b|] eqn:E.
    + destruct (all_some (map f l)) as [r'|] eqn:E'.
      * split; [discriminate|]. intros (a' & [<-|Hin] & Ha').
        -- congruence.
        -- assert (None = None :> option (list B)) by reflexivity.
           destruct IH as [_ IH2]. discriminate IH2. eauto.
      * split; [|reflexivity]. intros _. destruct IH as [IH1 _].
        destruct (IH1 eq_refl) as (a' & Hin & Ha'). eauto.
    + split; [|reflexivity]. intros _. exists a. auto.
Qed.

(* batch encoding = per-position encoding, padded with 0 to the maximum
   length, under a mask that is true exactly on the real tokens *)
Theorem batch_rows s ps encs :
  Forall2 (fun p e => encode s p = Some e) ps encs ->
  encode_batch_with s ps =
  Some (map (padded (max_len encs)) encs, map (mask_of (max_len encs)) encs).
Proof.
  intros H. apply all_some_Forall2 in H. unfold encode_batch_with. rewrite H.
  pose proof (batch_go_spec encs [] 0%nat (Forall_nil _)) as Hgo.
  cbn [length map app] in Hgo. cbn [repeat] in Hgo. rewrite Hgo.
  rewrite grow_width_max. cbn [Nat.max]. f_equal. f_equal.
  apply map_ext_in. intros e He.
  pose proof (max_len_ge encs) as Hge. rewrite Forall_forall in Hge.
  unfold mask_of. apply mask_row_spec. now apply Hge.
Qed.

(* conversely every result of encode_batch has that shape; it raises exactly
   when one of the positions cannot be encoded *)
Theorem batch_rows_inv s ps rows masks :
  encode_batch_with s ps = Some (rows, masks) ->
  exists encs, Forall2 (fun p e => encode s p = Some e) ps encs /\
    Forall (fun e => (length e <= max_len encs)%nat) encs /\
    rows = map (padded (max_len encs)) encs /\ masks = map (mask_of (max_len encs)) encs.
Proof.
  intros H. destruct (all_some (map (encode s) ps)) as [encs|] eqn:E.
  - apply all_some_Forall2 in E. exists encs. rewrite (batch_rows s ps encs E) in H.
    injection H as <- <-. repeat split; auto. apply max_len_ge.
  - unfold encode_batch_with in H. rewrite E in H. discriminate.
Qed.

Theorem batch_raises s ps :
  encode_batch_with s ps = None <-> exists p, In p ps /\ encode s p = None.
Proof.
  rewrite <- all_some_None. unfold encode_batch_with.
  destruct (all_some (map (encode s) ps)) as [encs|].
  - destruct (batch_go 0 encs 0 (repeat [] (length encs))). split; discriminate.
  - tauto.
Qed.

Theorem batch_defined s ps : Forall encodable ps -> exists rows masks, encode_batch_with s ps = Some (rows, masks).
Proof.
  intros H. destruct (encode_batch_with s ps) as [[rows masks]|] eqn:E; [eauto|].
  apply batch_raises in E. destruct E as (p & Hin & Hp).
  rewrite Forall_forall in H. destruct (encode_defined s p (H p Hin)) as (l & Hl). congruence.
Qed.

(* the mask marks exactly the real tokens: selecting the marked entries of a
   row gives the per-position encoding back, and row and mask have the common width *)
Lemma select_app e k : select (repeat true (length e) ++ repeat false k) (e ++ repeat 0 k) = e.
Proof.
  induction e as [|x e IH]; cbn.
  - induction k as [|k IHk]; [reflexivity|exact IHk].
  - f_equal. exact IH.
Qed.
Lemma select_padded w e : select (mask_of w e) (padded w e) = e.
Proof. apply select_app. Qed.

Lemma padded_length w e : (length e <= w)%nat -> length (padded w e) = w /\ length (mask_of w e) = w.
Proof. intros H. unfold padded, mask_of. rewrite !app_length, !repeat_length. lia. Qed.

(* ------------------------------------------------------------------ *)
(* boolean domain test, examples for the implication theorems           *)
(* ------------------------------------------------------------------ *)
Lemma stack_okb_ok s : stack_okb s = true -> stack_ok s.
Proof.
  unfold stack_okb, stack_ok. rewrite forallb_forall, Forall_forall.
  intros H pc Hin. specialize (H pc Hin). destruct (pkind pc); try discriminate. reflexivity.
Qed.

Lemma encodableb_encodable p : encodableb p = true -> encodable p.
Proof.
  unfold encodableb, encodable. intros H.
  repeat (apply andb_prop in H; destruct H as [H ?]).
  repeat split; try lia.
  apply Forall_forall. intros st Hin.
  apply stack_okb_ok. match goal with Hf : forallb stack_okb _ = true |- _ => rewrite forallb_forall in Hf; now apply Hf end.
Qed.

(* a 5x5 position, Black to move, a tall stack under a capstone, a wall, custom
   reserves at the ends of the range *)
Definition ex_pos : position :=
  mkPos 5 0 1 49 0 7
    ([[mkPiece White Capstone; mkPiece Black Flat; mkPiece Black Flat; mkPiece White Flat; mkPiece Black Flat];
      [mkPiece Black Standing; mkPiece White Flat]; []; [mkPiece White Flat]] ++ repeat [] 21).
Example ex_pos_encodable : encodable ex_pos.
Proof. apply encodableb_encodable. vm_compute. reflexivity. Qed.
Example ex_pos_roundtrip :
  option_map decode (encode true ex_pos) = Some (Some (board ex_pos, Black, ((0, 1), (49, 0)))).
Proof. vm_compute. reflexivity. Qed.

(* outside the domain the guard is needed: Python's negative indexing makes
   reserves -1 encode exactly like reserves 49 (model and implementation agree
   on this - the correspondence compares such positions) *)
Definition ex_neg : position := mkPos 3 (-1) 0 10 0 0 (repeat [] 9).
Definition ex_49 : position := mkPos 3 49 0 10 0 0 (repeat [] 9).
Example encode_negative_wraps :
  encode true ex_neg = encode true ex_49 /\ encode true ex_49 <> None /\ reserves ex_neg <> reserves ex_49.
Proof. repeat split; vm_compute; discriminate. Qed.
(* ... and a buried wall is encoded as a flat (decode cannot give it back) *)
Definition ex_buried : position := mkPos 3 10 0 10 0 2 ([[mkPiece White Flat; mkPiece Black Standing]] ++ repeat [] 8).
Definition ex_buried' : position := mkPos 3 10 0 10 0 2 ([[mkPiece White Flat; mkPiece Black Flat]] ++ repeat [] 8).
Example encode_buried_wall_collides :
  encode true ex_buried = encode true ex_buried' /\ board ex_buried <> board ex_buried'.
Proof. split; vm_compute; [reflexivity|discriminate]. Qed.

(* the mask clause is essential: pad value = EMPTY.  An empty 3x3 and an empty
   4x4 position with the same reserves give the SAME padded row; only the masks
   tell them apart *)
Definition ex_e3 : position := mkPos 3 15 0 15 0 0 (repeat [] 9).
Definition ex_e4 : position := mkPos 4 15 0 15 0 0 (repeat [] 16).
Example mask_essential :
  encodable ex_e3 /\ encodable ex_e4 /\ board ex_e3 <> board ex_e4 /\
  exists r m3 m4, encode_batch [ex_e3; ex_e4] = Some ([r; r], [m3; m4]) /\ m3 <> m4.
Proof.
  split; [apply encodableb_encodable; vm_compute; reflexivity|].
  split; [apply encodableb_encodable; vm_compute; reflexivity|].
  split; [vm_compute; discriminate|].
  eexists _, _, _. split; [vm_compute; reflexivity|]. vm_compute. discriminate.
Qed.
