(* Generic reachability: closure of a seed set under "add every ok vertex
   adjacent to the set", iterated |all| times, contains exactly the vertices
   joined to a seed by a chain of ok vertices.  `closure_ee` is the variant
   that stops as soon as a round adds nothing (the shape of model/Road.v's
   `closure`); it computes the same list.  Adapted from notes/spikes/Reach.v. *)
From Coq Require Import List Bool Arith Lia.
Import ListNotations.

Section Reach.
  Variable V : Type.
  Variable eqb : V -> V -> bool.
  Hypothesis eqb_spec : forall a b, eqb a b = true <-> a = b.
  Variable all : list V.          (* every vertex that can be ok *)
  Variable ok : V -> bool.
  Variable adj : V -> V -> bool.  (* adj v u : v is a neighbour of u *)
  Hypothesis ok_all : forall v, ok v = true -> In v all.

  Definition mem v (W : list V) := existsb (eqb v) W.
  Lemma mem_spec v W : mem v W = true <-> In v W.
  Proof. unfold mem. rewrite existsb_exists. split.
    - intros (x & Hx & He). apply eqb_spec in He. subst; assumption.
    - intros H. exists v. split; [assumption|apply eqb_spec; reflexivity]. Qed.

  Definition expand (W : list V) : list V :=
    W ++ filter (fun v => ok v && negb (mem v W) && existsb (adj v) W) all.
  Fixpoint closure (k : nat) (W : list V) : list V :=
    match k with O => W | S k => closure k (expand W) end.

  (* spec: a chain of ok vertices, each adjacent to the previous one *)
  Inductive chain : V -> V -> nat -> Prop :=
  | chain_nil v : ok v = true -> chain v v 0
  | chain_step u w v n : chain u w n -> ok v = true -> adj v w = true -> chain u v (S n).

  Lemma expand_incl W : incl W (expand W).
  Proof. intros v H. unfold expand. apply in_or_app. left; assumption. Qed.
  Lemma closure_incl k : forall W, incl W (closure k W).
  Proof. induction k as [|k IH]; intros W v H; simpl; [assumption|].
    apply IH. apply expand_incl. assumption. Qed.
  Lemma closure_mono_step k : forall W, incl (closure k W) (closure (S k) W).
  Proof. induction k as [|k IH]; intros W v H; simpl in *.
    - apply expand_incl; assumption.
    - apply IH. assumption. Qed.

  Lemma expand_adj W w v : In w W -> ok v = true -> adj v w = true -> In v (expand W).
  Proof. intros Hw Hok Hadj. unfold expand. apply in_or_app.
    destruct (mem v W) eqn:Hm; [left; apply mem_spec; assumption|].
    right. apply filter_In. split; [apply ok_all; assumption|].
    rewrite Hok, Hm. simpl. apply existsb_exists. exists w. tauto. Qed.

  Lemma closure_succ k : forall W, closure (S k) W = expand (closure k W).
  Proof. induction k as [|k IH]; intros W; [reflexivity|].
    change (closure (S (S k)) W) with (closure (S k) (expand W)). rewrite IH. reflexivity. Qed.

  (* completeness for bounded chains *)
  Lemma closure_complete seeds : forall n u v, In u seeds -> chain u v n -> In v (closure n seeds).
  Proof. induction n as [|n IH]; intros u v Hu Hc; inversion Hc; subst.
    - simpl. assumption.
    - rewrite closure_succ. eapply expand_adj; eauto. Qed.

  (* soundness *)
  Lemma expand_sound W v : In v (expand W) -> In v W \/ (ok v = true /\ exists w, In w W /\ adj v w = true).
  Proof. unfold expand. intros H. apply in_app_or in H. destruct H as [H|H]; [left; assumption|].
    right. apply filter_In in H. destruct H as (_ & H).
    apply andb_prop in H. destruct H as (H & Hex). apply andb_prop in H. destruct H as (Hok & _).
    split; [assumption|]. apply existsb_exists in Hex. destruct Hex as (w & Hw & Ha). eauto. Qed.

  Lemma closure_sound seeds (Hseeds : forall s, In s seeds -> ok s = true) :
    forall k v, In v (closure k seeds) -> exists u n, In u seeds /\ chain u v n.
  Proof. induction k as [|k IH]; intros v H.
    - simpl in H. exists v, 0. split; [assumption|constructor; auto].
    - rewrite closure_succ in H. apply expand_sound in H. destruct H as [H|(Hok & w & Hw & Ha)].
      + apply IH; assumption.
      + apply IH in Hw. destruct Hw as (u & n & Hu & Hc). exists u, (S n). split; [assumption|].
        econstructor; eauto. Qed.

  (* shortening: any chain can be replaced by one of length < |all| *)
  (* vertices of a chain *)
  Inductive chainl : V -> V -> list V -> Prop :=
  | cl_nil v : ok v = true -> chainl v v [v]
  | cl_step u w v l : chainl u w l -> ok v = true -> adj v w = true -> chainl u v (v :: l).

  Lemma chain_chainl u v n : chain u v n -> exists l, chainl u v l /\ length l = S n.
  Proof. induction 1 as [v H|u w v n Hc (l & Hl & Hlen) Hok Ha].
    - exists [v]. split; [constructor; assumption|reflexivity].
    - exists (v :: l). split; [econstructor; eauto|simpl; lia]. Qed.
  Lemma chainl_chain u v l : chainl u v l -> chain u v (length l - 1).
  Proof. induction 1 as [v H|u w v l Hc IH Hok Ha]; simpl.
    - constructor; assumption.
    - assert (length l >= 1) by (inversion Hc; simpl; lia).
      replace (length l - 0) with (S (length l - 1)) by lia. econstructor; eauto. Qed.
  Lemma chainl_head u v l : chainl u v l -> exists t, l = v :: t.
  Proof. inversion 1; eauto. Qed.
  Lemma chainl_ok u v l : chainl u v l -> forall x, In x l -> ok x = true.
  Proof. induction 1 as [v H|u w v l Hc IH Hok Ha]; intros x Hx; simpl in Hx.
    - destruct Hx as [<-|[]]; assumption.
    - destruct Hx as [<-|Hx]; auto. Qed.
  (* if x occurs in the vertex list, the suffix from x is itself a chain u ~> x *)
  Lemma chainl_suffix u v l : chainl u v l -> forall x, In x l -> exists pre l', l = pre ++ l' /\ chainl u x l'.
  Proof. induction 1 as [v H|u w v l Hc IH Hok Ha]; intros x Hx; simpl in Hx.
    - destruct Hx as [<-|[]]. exists [], [v]. split; [reflexivity|constructor; assumption].
    - destruct Hx as [<-|Hx].
      + exists [], (v :: l). split; [reflexivity|econstructor; eauto].
      + destruct (IH x Hx) as (pre & l' & -> & Hl'). exists (v :: pre), l'. split; [reflexivity|assumption]. Qed.
  Lemma NoDup_app_r {A} (p l : list A) : NoDup (p ++ l) -> NoDup l.
  Proof. induction p as [|a p IH]; simpl; [auto|]. intros H. inversion H; auto. Qed.
  Lemma chainl_nodup u v l : chainl u v l -> exists l', chainl u v l' /\ NoDup l'.
  Proof. induction 1 as [v H|u w v l Hc (l' & Hl' & Hnd) Hok Ha].
    - exists [v]. split; [constructor; assumption|repeat constructor; simpl; tauto].
    - destruct (mem v l') eqn:Hm.
      + apply mem_spec in Hm. destruct (chainl_suffix _ _ _ Hl' v Hm) as (pre & l2 & -> & Hl2).
        exists l2. split; [assumption|]. eapply NoDup_app_r; eassumption.
      + exists (v :: l'). split; [econstructor; eauto|]. constructor; [|assumption].
        intro Hin. apply mem_spec in Hin. congruence. Qed.

  Theorem closure_complete_full seeds u v n :
    In u seeds -> chain u v n -> In v (closure (length all) seeds).
  Proof. intros Hu Hc. destruct (chain_chainl _ _ _ Hc) as (l & Hl & _).
    destruct (chainl_nodup _ _ _ Hl) as (l' & Hl' & Hnd).
    assert (Hlen : length l' <= length all).
    { apply NoDup_incl_length; [assumption|]. intros x Hx. apply ok_all. eapply chainl_ok; eauto. }
    pose proof (chainl_chain _ _ _ Hl') as Hc'.
    assert (Hin : In v (closure (length l' - 1) seeds)) by (eapply closure_complete; eauto).
    assert (Hmono : forall a b, a <= b -> incl (closure a seeds) (closure b seeds)).
    { intros a b Hab. induction Hab; [intros x Hx; exact Hx|]. intros x Hx. apply closure_mono_step. auto. }
    eapply Hmono; [|eassumption]. lia. Qed.

  Theorem closure_spec seeds (Hseeds : forall s, In s seeds -> ok s = true) v :
    In v (closure (length all) seeds) <-> exists u n, In u seeds /\ chain u v n.
  Proof. split; [apply closure_sound; assumption|]. intros (u & n & Hu & Hc). eapply closure_complete_full; eauto. Qed.

  (* ---- early exit: stop when the frontier is empty ---- *)
  Definition frontier (W : list V) : list V :=
    filter (fun v => ok v && negb (mem v W) && existsb (adj v) W) all.
  Fixpoint closure_ee (k : nat) (W : list V) : list V :=
    match k with
    | O => W
    | S k' => match frontier W with
              | [] => W
              | new => closure_ee k' (W ++ new)
              end
    end.

  Lemma expand_frontier W : expand W = W ++ frontier W.
  Proof. reflexivity. Qed.
  Lemma closure_fixed k : forall W, frontier W = [] -> closure k W = W.
  Proof. induction k as [|k IH]; intros W HF; simpl; [reflexivity|].
    rewrite expand_frontier, HF, app_nil_r. apply IH. assumption. Qed.
  (* stopping when a round adds nothing equals running all the rounds *)
  Theorem closure_ee_eq k : forall W, closure_ee k W = closure k W.
  Proof. induction k as [|k IH]; intros W; simpl; [reflexivity|].
    destruct (frontier W) as [|a new] eqn:HF.
    - rewrite expand_frontier, HF, app_nil_r. symmetry. apply closure_fixed. assumption.
    - rewrite IH, expand_frontier, HF. reflexivity. Qed.

  Theorem closure_ee_spec seeds (Hseeds : forall s, In s seeds -> ok s = true) v :
    In v (closure_ee (length all) seeds) <-> exists u n, In u seeds /\ chain u v n.
  Proof. rewrite closure_ee_eq. apply closure_spec. assumption. Qed.

  (* more rounds than |all| change nothing (used when the caller's fuel is only
     known to be >= |all|) *)
  Lemma closure_mono a b seeds : a <= b -> incl (closure a seeds) (closure b seeds).
  Proof. intros Hab. induction Hab; [intros x Hx; exact Hx|]. intros x Hx. apply closure_mono_step. auto. Qed.
  Theorem closure_ee_spec_ge k seeds (Hseeds : forall s, In s seeds -> ok s = true) v :
    length all <= k ->
    (In v (closure_ee k seeds) <-> exists u n, In u seeds /\ chain u v n).
  Proof. intros Hk. rewrite closure_ee_eq. split.
    - apply closure_sound. assumption.
    - intros H. apply (closure_mono (length all) k seeds Hk). apply closure_spec; assumption. Qed.
End Reach.
