(* C17 - a tight progress bound for the batching-server model: a request in the
   worker's batch is answered by the next completed model call, a queued one by
   the second, a blocked putter at position j by call 3 + j / capacity. *)
From Coq Require Import ZArith List Bool Lia Arith.
From TV Require gen.Consts.
From TV Require Import model.Server proofs.ListUtil proofs.ServerProofs.
Import ListNotations.
Open Scope Z_scope.

Definition capn : nat := Z.to_nat cap.
Lemma capn_pos : (1 <= capn)%nat.
Proof. unfold capn. pose proof cap_pos. lia. Qed.
Lemma qlen_cap {X} (l : list X) : qlen l = cap -> length l = capn.
Proof. unfold qlen, capn. lia. Qed.
Lemma qlen_le_cap {X} (l : list X) : qlen l <= cap -> (length l <= capn)%nat.
Proof. unfold qlen, capn. lia. Qed.

Section Progress.
  Variable A : Type.
  Variable frow : list Z -> list bool -> A.
  Notation state := (state A).
  Notation step := (step A frow).
  Notation resume := (resume A).
  Notation run_from := (run_from A frow).
  Notation run := (run A frow).
  Notation run_model := (run_model A frow).
  Notation Inv := (Inv A).

  (* completions after which the request at index k of `pending st` has certainly been answered *)
  Definition rank (st : state) (k : nat) : nat :=
    let nb := length (batch_of st) in
    let nq := length (queue st) in
    if (k <? nb)%nat then 1%nat
    else if (k <? nb + nq)%nat then 2%nat
    else (3 + (k - nb - nq) / capn)%nat.

  Lemma rank_pos st k : (1 <= rank st k)%nat.
  Proof. unfold rank. destruct (k <? _)%nat; [lia|]. destruct (k <? _)%nat; lia. Qed.

  Lemma resume_shape (st : state) t :
    queue st <> [] -> qlen (queue st) <= cap -> (forall b, wk st <> Running b) ->
    batch_of (resume st t) = batch_of st ++ queue st /\
    queue (resume st t) = firstn (length (queue st)) (blocked st) /\
    blocked (resume st t) = skipn (length (queue st)) (blocked st) /\
    answers (resume st t) = answers st /\ completed (resume st t) = completed st.
  Proof.
    intros Hq Hc Hw. rewrite (resume_spec A st t Hq Hc Hw).
    destruct (threshold <=? qlen (batch_of st ++ queue st)); unfold batch_of; cbn [wk queue blocked answers completed];
      repeat split; reflexivity.
  Qed.

  (* what one event does to a reachable state, as far as the service order is concerned *)
  Definition same_log (st st' : state) := answers st' = answers st /\ completed st' = completed st.

  Lemma step_shape arr (st : state) e : Inv arr st ->
    let st' := step st e in
    (* nothing moves (ignored event, or the gathered batch starts running) *)
    (same_log st st' /\ batch_of st' = batch_of st /\ queue st' = queue st /\ blocked st' = blocked st) \/
    (* a request is appended to the queue, or to the blocked putters when the queue is full *)
    (same_log st st' /\ exists r, pending st' = pending st ++ [r] /\
       length (batch_of st) <= length (batch_of st') /\
       length (batch_of st) + length (queue st) <= length (batch_of st') + length (queue st') /\
       (blocked st <> [] -> batch_of st' = batch_of st /\ queue st' = queue st))%nat \/
    (* the woken worker drains the queue into its batch; woken putters re-fill the queue *)
    (same_log st st' /\ batch_of st' = batch_of st ++ queue st /\
       queue st' = firstn (length (queue st)) (blocked st) /\
       blocked st' = skipn (length (queue st)) (blocked st)) \/
    (* a model call completes *)
    (exists b, wk st = Running b /\ b <> [] /\
       answers st' = answers st ++ combine b (run_model (map rpos b)) /\ completed st' = S (completed st) /\
       batch_of st' = queue st /\
       queue st' = firstn (length (queue st)) (blocked st) /\
       blocked st' = skipn (length (queue st)) (blocked st)).
  Proof.
    intros I st'. subst st'.
    pose proof (inv_cap _ _ _ I) as Hc. pose proof (inv_wk _ _ _ I) as Hw. pose proof (inv_blocked _ _ _ I) as Hb.
    pose proof cap_pos as Hcp.
    destruct e as [r t|t|t|t]; cbn [Server.step].
    - (* Arrive *)
      right; left.
      destruct (qlen (queue st) <? cap) eqn:E.
      + apply Z.ltb_lt in E.
        assert (Hbn : blocked st = []) by (eapply blocked_nil_of_short; eassumption).
        split; [split; reflexivity|]. exists r. unfold pending, batch_of. cbn [queue blocked wk]. rewrite Hbn, !app_nil_r.
        rewrite app_assoc. repeat split; try (rewrite ?app_length; cbn; lia); try (intros; exfalso; congruence).
      + split; [split; reflexivity|]. exists r. unfold pending, batch_of. cbn [queue blocked wk].
        rewrite !app_assoc. repeat split; lia.
    - (* Wake *)
      destruct (queue st) as [|r q] eqn:Eq.
      { left. rewrite (resume_nil A st t Eq). rewrite Eq. unfold same_log. repeat split; reflexivity. }
      destruct (wk st) as [|b d|b] eqn:Ew.
      + right; right; left.
        assert (Hq : queue st <> []) by (rewrite Eq; discriminate).
        assert (Hc0 : qlen (queue st) <= cap) by (rewrite Eq; exact Hc).
        assert (Hw0 : forall b, wk st <> Running b) by (intro b; rewrite Ew; discriminate).
        destruct (resume_shape st t Hq Hc0 Hw0) as (S1 & S2 & S3 & S4 & S5).
        rewrite Eq in *. split; [split; assumption|]. repeat split; assumption.
      + right; right; left.
        assert (Hq : queue st <> []) by (rewrite Eq; discriminate).
        assert (Hc0 : qlen (queue st) <= cap) by (rewrite Eq; exact Hc).
        assert (Hw0 : forall b', wk st <> Running b') by (intro b'; rewrite Ew; discriminate).
        destruct (resume_shape st t Hq Hc0 Hw0) as (S1 & S2 & S3 & S4 & S5).
        rewrite Eq in *. split; [split; assumption|]. repeat split; assumption.
      + left. rewrite (resume_running A st t b Ew). rewrite Eq. unfold same_log. repeat split; reflexivity.
    - (* Timer *)
      left. destruct (wk st) as [|b d|b] eqn:Ew; try (unfold same_log, batch_of; rewrite Ew; repeat split; reflexivity).
      destruct (d <=? t); unfold same_log, batch_of; cbn [wk queue blocked answers completed]; rewrite ?Ew; repeat split; reflexivity.
    - (* ModelDone *)
      destruct (wk st) as [|b d|b] eqn:Ew; try (left; unfold same_log, batch_of; rewrite Ew; repeat split; reflexivity).
      right; right; right. exists b. unfold wk_ok in Hw; rewrite Ew in Hw. split; [reflexivity|]. split; [exact Hw|].
      match goal with |- context [resume ?s t] => set (s0 := s) end.
      destruct (queue st) as [|r q] eqn:Eq.
      + assert (Hbn : blocked st = []) by (eapply blocked_nil_of_short; [exact I|rewrite Eq; cbn; lia]).
        rewrite (resume_nil A s0 t) by (subst s0; reflexivity).
        subst s0. unfold batch_of. cbn [queue blocked wk answers completed length firstn skipn]. rewrite Hbn. repeat split; reflexivity.
      + assert (Hq : queue s0 <> []) by (subst s0; cbn [queue]; discriminate).
        assert (Hc0 : qlen (queue s0) <= cap) by (subst s0; cbn [queue]; exact Hc).
        assert (Hw0 : forall b', wk s0 <> Running b') by (intro b'; subst s0; cbn [wk]; discriminate).
        destruct (resume_shape s0 t Hq Hc0 Hw0) as (S1 & S2 & S3 & S4 & S5).
        rewrite S1, S2, S3, S4, S5. subst s0. unfold batch_of. cbn [queue blocked wk answers completed app]. repeat split; reflexivity.
  Qed.

  Lemma answered_len (b : list req) : length (combine b (run_model (map rpos b))) = length b.
  Proof. rewrite combine_length, (run_model_length A frow), map_length. apply Nat.min_id. Qed.

  Lemma div_sub_cap j : (capn <= j -> (j - capn) / capn + 1 = j / capn)%nat.
  Proof.
    intro H. pose proof capn_pos.
    replace j with ((j - capn) + 1 * capn)%nat at 2 by lia. rewrite Nat.div_add by lia. reflexivity.
  Qed.

  Lemma rank_step arr (st : state) e k : Inv arr st -> (k < length (pending st))%nat ->
    let st' := step st e in
    let a := length (answers st) in
    let a' := length (answers st') in
    (a + k < a')%nat \/
    (a' <= a + k /\ rank st' (a + k - a') + (completed st' - completed st) <= rank st k)%nat.
  Proof.
    intros I Hk st' a a'. subst st' a a'.
    pose proof (inv_blocked _ _ _ I) as Hb. pose proof (inv_cap _ _ _ I) as Hc. pose proof capn_pos as Hcp.
    destruct (step_shape arr st e I) as [((Ha & Hcm) & H1 & H2 & H3)|[((Ha & Hcm) & r & Hp & L1 & L2 & L3)|[((Ha & Hcm) & H1 & H2 & H3)|(b & Ew & Hbne & Ha & Hcm & H1 & H2 & H3)]]].
    - right. rewrite Ha, Hcm. split; [lia|]. replace (_ + k - _)%nat with k by lia.
      unfold rank. rewrite H1, H2. lia.
    - right. rewrite Ha, Hcm. split; [lia|]. replace (_ + k - _)%nat with k by lia.
      unfold rank. unfold pending in Hk. rewrite !app_length in Hk.
      destruct (blocked st) as [|p bl] eqn:Eb.
      + (* nothing is blocked: k is in the batch or the queue, and stays there or moves forward *)
        cbn [length] in Hk.
        destruct (k <? length (batch_of st))%nat eqn:E1.
        * apply Nat.ltb_lt in E1. assert (E1' : (k <? length (batch_of (step st e)))%nat = true) by (apply Nat.ltb_lt; lia).
          rewrite E1'. lia.
        * apply Nat.ltb_ge in E1.
          assert (E2 : (k <? length (batch_of st) + length (queue st))%nat = true) by (apply Nat.ltb_lt; lia).
          rewrite E2.
          destruct (k <? length (batch_of (step st e)))%nat; [lia|].
          assert (E2' : (k <? length (batch_of (step st e)) + length (queue (step st e)))%nat = true) by (apply Nat.ltb_lt; lia).
          rewrite E2'. lia.
      + destruct L3 as [L3a L3b]; [discriminate|]. rewrite L3a, L3b. lia.
    - (* the worker drains the queue: everybody keeps his index and moves one stage forward *)
      right. rewrite Ha, Hcm. split; [lia|]. replace (_ + k - _)%nat with k by lia.
      unfold rank. rewrite H1, H2, app_length, firstn_length. replace (completed st - completed st)%nat with 0%nat by lia.
      unfold pending in Hk. rewrite !app_length in Hk.
      destruct (k <? length (batch_of st))%nat eqn:E1.
      + apply Nat.ltb_lt in E1.
        assert (E1' : (k <? length (batch_of st) + length (queue st))%nat = true) by (apply Nat.ltb_lt; lia).
        rewrite E1'. lia.
      + apply Nat.ltb_ge in E1.
        destruct (k <? length (batch_of st) + length (queue st))%nat eqn:E2; [lia|].
        apply Nat.ltb_ge in E2.
        assert (Hbl : blocked st <> []) by (destruct (blocked st); [cbn in Hk; lia|discriminate]).
        pose proof (qlen_cap _ (Hb Hbl)) as Hq. rewrite Hq in *.
        set (j := (k - length (batch_of st) - capn)%nat).
        assert (Hj : (j < length (blocked st))%nat) by (subst j; lia).
        destruct (Nat.lt_ge_cases j capn) as [Lj|Lj].
        * assert (E4 : (k <? length (batch_of st) + capn + Nat.min capn (length (blocked st)))%nat = true) by (apply Nat.ltb_lt; lia).
          rewrite E4. lia.
        * assert (E4 : (k <? length (batch_of st) + capn + Nat.min capn (length (blocked st)))%nat = false) by (apply Nat.ltb_ge; lia).
          rewrite E4. rewrite Nat.min_l by lia.
          replace (k - (length (batch_of st) + capn) - capn)%nat with (j - capn)%nat by (subst j; lia).
          pose proof (div_sub_cap j Lj). fold j. lia.
    - (* completion *)
      rewrite Ha, Hcm, app_length, answered_len.
      assert (Hbo : batch_of st = b) by (unfold batch_of; rewrite Ew; reflexivity).
      destruct (Nat.lt_ge_cases k (length b)) as [Lk|Lk]; [left; lia|right].
      split; [lia|]. replace (length (answers st) + k - (length (answers st) + length b))%nat with (k - length b)%nat by lia.
      replace (S (completed st) - completed st)%nat with 1%nat by lia.
      unfold rank. rewrite H1, H2, Hbo.
      assert (E1 : (k <? length b)%nat = false) by (apply Nat.ltb_ge; lia). rewrite E1.
      destruct (k <? length b + length (queue st))%nat eqn:E2.
      + apply Nat.ltb_lt in E2. assert (E3 : (k - length b <? length (queue st))%nat = true) by (apply Nat.ltb_lt; lia).
        rewrite E3. lia.
      + apply Nat.ltb_ge in E2.
        assert (E3 : (k - length b <? length (queue st))%nat = false) by (apply Nat.ltb_ge; lia). rewrite E3.
        (* k is among the blocked putters, so the queue is full *)
        unfold pending in Hk. rewrite !app_length, Hbo in Hk.
        assert (Hbl : blocked st <> []) by (destruct (blocked st); [cbn in Hk; lia|discriminate]).
        pose proof (qlen_cap _ (Hb Hbl)) as Hq. rewrite Hq in *.
        set (j := (k - length b - capn)%nat).
        assert (Hj : (j < length (blocked st))%nat) by (subst j; lia).
        rewrite firstn_length. 
        destruct (Nat.lt_ge_cases j capn) as [Lj|Lj].
        * assert (E4 : (k - length b <? capn + Nat.min capn (length (blocked st)))%nat = true) by (apply Nat.ltb_lt; lia).
          rewrite E4. lia.
        * assert (E4 : (k - length b <? capn + Nat.min capn (length (blocked st)))%nat = false) by (apply Nat.ltb_ge; lia).
          rewrite E4. rewrite Nat.min_l by lia.
          replace (k - length b - capn - capn)%nat with (j - capn)%nat by lia.
          pose proof (div_sub_cap j Lj). fold j. lia.
  Qed.

  Lemma rank_run : forall evs arr (st : state) k, Inv arr st -> (k < length (pending st))%nat ->
    (rank st k <= completed (run_from st evs) - completed st)%nat ->
    (length (answers st) + k < length (answers (run_from st evs)))%nat.
  Proof.
    induction evs as [|e evs IH]; intros arr st k I Hk Hr.
    - cbn in Hr. pose proof (rank_pos st k). lia.
    - change (run_from st (e :: evs)) with (run_from (step st e) evs) in *.
      pose proof (Inv_step A frow arr st e I) as I'.
      destruct (progress_count A frow evs _ _ I') as [P1 P2].
      destruct (step_log A frow st e) as [[La Lc]|(b & t & _ & _ & La & Lc)].
      + destruct (rank_step arr st e k I Hk) as [R|[R1 R2]]; [lia|].
        rewrite La, Lc in *. replace (_ + k - _)%nat with k in R2 by lia.
        assert (Hk' : (k < length (pending (step st e)))%nat).
        { pose proof (inv_order _ _ _ I) as O. pose proof (inv_order _ _ _ I') as O'.
          apply (f_equal (@length req)) in O. apply (f_equal (@length req)) in O'.
          rewrite !app_length, !map_length in *. rewrite La in O'. destruct e; cbn [arrivals length] in O'; lia. }
        specialize (IH _ _ k I' Hk'). rewrite La, Lc in IH. apply IH. lia.
      + destruct (rank_step arr st e k I Hk) as [R|[R1 R2]]; [lia|].
        set (k' := (length (answers st) + k - length (answers (step st e)))%nat) in *.
        assert (Hk' : (k' < length (pending (step st e)))%nat).
        { pose proof (inv_order _ _ _ I) as O. pose proof (inv_order _ _ _ I') as O'.
          apply (f_equal (@length req)) in O. apply (f_equal (@length req)) in O'.
          rewrite !app_length, !map_length in *. cbn [arrivals length] in O'. subst k'. lia. }
        specialize (IH _ _ k' I' Hk'). assert (length (answers (step st e)) + k' = length (answers st) + k)%nat by (subst k'; lia).
        rewrite Lc in *. lia.
  Qed.

  Lemma rank_le arr (st : state) k : Inv arr st -> (k < length (pending st))%nat -> (rank st k <= 2 + k / capn)%nat.
  Proof.
    intros I Hk. pose proof (inv_blocked _ _ _ I) as Hb. pose proof capn_pos as Hcp.
    unfold rank. destruct (k <? _)%nat eqn:E1; [lia|]. destruct (k <? _ + _)%nat eqn:E2; [lia|].
    apply Nat.ltb_ge in E1, E2. unfold pending in Hk. rewrite !app_length in Hk.
    assert (Hbl : blocked st <> []) by (destruct (blocked st); [cbn in Hk; lia|discriminate]).
    pose proof (qlen_cap _ (Hb Hbl)) as Hq. rewrite Hq in *.
    set (j := (k - length (batch_of st) - capn)%nat).
    assert (j / capn + 1 <= k / capn)%nat.
    { replace (j / capn + 1)%nat with ((j + 1 * capn) / capn)%nat by (rewrite Nat.div_add by lia; reflexivity).
      apply Nat.div_le_mono; [lia|subst j; lia]. }
    lia.
  Qed.

  (* the general form: `need` completions suffice when need >= rank *)
  Lemma progress_by_rank evs1 evs2 k r need :
    nth_error (pending (run evs1)) k = Some r ->
    (rank (run evs1) k <= need)%nat ->
    (completed (run evs1) + need <= completed (run (evs1 ++ evs2)))%nat ->
    nth_error (map fst (answers (run (evs1 ++ evs2)))) (length (answers (run evs1)) + k) = Some r.
  Proof.
    intros Hk Hr Hc.
    pose proof (Inv_run A frow evs1) as I1.
    pose proof (inv_order _ _ _ I1) as O1.
    pose proof (inv_order _ _ _ (Inv_run A frow (evs1 ++ evs2))) as O2.
    assert (Hlt : (k < length (pending (run evs1)))%nat) by (apply nth_error_Some; rewrite Hk; discriminate).
    pose proof (rank_run evs2 _ _ k I1 Hlt) as Hp. rewrite <- (run_app A frow) in Hp.
    specialize (Hp ltac:(lia)).
    set (n1 := length (answers (run evs1))) in *.
    assert (H1 : nth_error (arrivals evs1) (n1 + k) = Some r).
    { rewrite <- O1. rewrite nth_error_app2 by (rewrite map_length; fold n1; lia).
      rewrite map_length. fold n1. replace (n1 + k - n1)%nat with k by lia. exact Hk. }
    assert (H2 : nth_error (arrivals (evs1 ++ evs2)) (n1 + k) = Some r).
    { rewrite arrivals_app. rewrite nth_error_app1; [exact H1|]. apply nth_error_Some. rewrite H1. discriminate. }
    rewrite <- O2 in H2. rewrite nth_error_app1 in H2; [exact H2|]. rewrite map_length. lia.
  Qed.

  Theorem fifo_progress_tight evs1 evs2 k r :
    nth_error (pending (run evs1)) k = Some r ->
    (completed (run evs1) + (2 + k / Z.to_nat cap) <= completed (run (evs1 ++ evs2)))%nat ->
    nth_error (map fst (answers (run (evs1 ++ evs2)))) (length (answers (run evs1)) + k) = Some r.
  Proof.
    intros Hk Hc. apply (progress_by_rank evs1 evs2 k r (2 + k / capn) Hk); [|exact Hc].
    apply (rank_le _ _ _ (Inv_run A frow evs1)). apply nth_error_Some. rewrite Hk. discriminate.
  Qed.

  Theorem in_batch_next_completion evs1 evs2 k r :
    nth_error (batch_of (run evs1)) k = Some r ->
    (completed (run evs1) + 1 <= completed (run (evs1 ++ evs2)))%nat ->
    nth_error (map fst (answers (run (evs1 ++ evs2)))) (length (answers (run evs1)) + k) = Some r.
  Proof.
    intros Hk Hc.
    assert (Hlt : (k < length (batch_of (run evs1)))%nat) by (apply nth_error_Some; rewrite Hk; discriminate).
    apply (progress_by_rank evs1 evs2 k r 1); [|unfold rank; apply Nat.ltb_lt in Hlt; rewrite Hlt; lia|exact Hc].
    unfold pending. rewrite nth_error_app1 by exact Hlt. exact Hk.
  Qed.

  Theorem in_queue_second_completion evs1 evs2 k r :
    nth_error (queue (run evs1)) k = Some r ->
    (completed (run evs1) + 2 <= completed (run (evs1 ++ evs2)))%nat ->
    nth_error (map fst (answers (run (evs1 ++ evs2))))
              (length (answers (run evs1)) + (length (batch_of (run evs1)) + k)) = Some r.
  Proof.
    intros Hk Hc.
    assert (Hlt : (k < length (queue (run evs1)))%nat) by (apply nth_error_Some; rewrite Hk; discriminate).
    apply (progress_by_rank evs1 evs2 _ r 2); [| |exact Hc].
    - unfold pending. rewrite nth_error_app2 by lia. replace (_ + k - _)%nat with k by lia.
      rewrite nth_error_app1 by exact Hlt. exact Hk.
    - unfold rank. destruct (_ <? _)%nat; [lia|].
      assert (E : (length (batch_of (run evs1)) + k <? length (batch_of (run evs1)) + length (queue (run evs1)))%nat = true)
        by (apply Nat.ltb_lt; lia).
      rewrite E. lia.
  Qed.
End Progress.

(* the hypotheses are satisfiable: after ex_evs1 request 1 is in the running batch of 8, request 9 is queued
   behind it; ex_evs2 completes 4 model calls *)
Example ex_tight_hyp :
  nth_error (batch_of (run _ ref_frow ex_evs1)) 1 = Some (ex_req 1 [2;5]) /\
  nth_error (queue (run _ ref_frow ex_evs1)) 1 = Some (ex_req 9 [10]) /\
  (completed (run _ ref_frow ex_evs1) + 2 <= completed (run _ ref_frow (ex_evs1 ++ ex_evs2)))%nat /\
  (completed (run _ ref_frow ex_evs1) + (2 + 9 / Z.to_nat cap) <= completed (run _ ref_frow (ex_evs1 ++ ex_evs2)))%nat.
Proof. vm_compute. repeat split; lia. Qed.
