(* List lemmas missing from Coq 8.16's standard library. *)
From Coq Require Import ZArith List Bool Lia.
Import ListNotations.

Lemma NoDup_app {A} (l1 l2 : list A) :
  NoDup l1 -> NoDup l2 -> (forall x, In x l1 -> In x l2 -> False) -> NoDup (l1 ++ l2).
Proof.
  induction l1 as [|a l1 IH]; intros H1 H2 Hd; simpl; [assumption|].
  inversion H1 as [|? ? Hna Hnd]; subst. constructor.
  - intro Hin. apply in_app_or in Hin. destruct Hin as [Hin|Hin]; [contradiction|].
    apply (Hd a); [left; reflexivity|assumption].
  - apply IH; [assumption|assumption|]. intros x Hx1 Hx2. apply (Hd x); [right; assumption|assumption].
Qed.

Lemma NoDup_app_inv {A} (l1 l2 : list A) :
  NoDup (l1 ++ l2) -> NoDup l1 /\ NoDup l2 /\ (forall x, In x l1 -> In x l2 -> False).
Proof.
  induction l1 as [|a l1 IH]; simpl; intros H.
  - repeat split; [constructor|assumption|intros x []].
  - inversion H as [|? ? Hna Hnd]; subst. destruct (IH Hnd) as (H1 & H2 & Hd).
    repeat split.
    + constructor; [|assumption]. intro Hin. apply Hna. apply in_or_app. left; assumption.
    + assumption.
    + intros x [<-|Hx] Hx2.
      * apply Hna. apply in_or_app. right; assumption.
      * apply (Hd x); assumption.
Qed.

Lemma NoDup_flat_map {A B} (f : A -> list B) (l : list A) :
  NoDup l -> (forall a, In a l -> NoDup (f a)) ->
  (forall a b x, In a l -> In b l -> In x (f a) -> In x (f b) -> a = b) ->
  NoDup (flat_map f l).
Proof.
  induction l as [|a l IH]; intros Hnd Hf Hdisj; simpl; [constructor|].
  inversion Hnd as [|? ? Hna Hnd']; subst.
  apply NoDup_app.
  - apply Hf. left; reflexivity.
  - apply IH; [assumption| |].
    + intros b Hb. apply Hf. right; assumption.
    + intros b c x Hb Hc. apply Hdisj; right; assumption.
  - intros x Hx1 Hx2. apply in_flat_map in Hx2. destruct Hx2 as (b & Hb & Hxb).
    assert (a = b) by (apply (Hdisj a b x); [left; reflexivity|right; assumption|assumption|assumption]).
    subst. contradiction.
Qed.

Lemma NoDup_map_inj {A B} (f : A -> B) (l : list A) :
  (forall a b, In a l -> In b l -> f a = f b -> a = b) -> NoDup l -> NoDup (map f l).
Proof.
  induction l as [|a l IH]; intros Hinj Hnd; simpl; [constructor|].
  inversion Hnd as [|? ? Hna Hnd']; subst. constructor.
  - intro Hin. apply in_map_iff in Hin. destruct Hin as (b & Hfb & Hb).
    assert (a = b) by (apply Hinj; [left; reflexivity|right; assumption|symmetry; assumption]).
    subst. contradiction.
  - apply IH; [|assumption]. intros b c Hb Hc. apply Hinj; right; assumption.
Qed.

Lemma NoDup_filter {A} (f : A -> bool) (l : list A) : NoDup l -> NoDup (filter f l).
Proof.
  induction l as [|a l IH]; intros Hnd; simpl; [constructor|].
  inversion Hnd as [|? ? Hna Hnd']; subst.
  destruct (f a); [constructor|]; auto. intro Hin. apply filter_In in Hin. tauto.
Qed.

Lemma NoDup_seq_Z (s n : nat) : NoDup (map Z.of_nat (seq s n)).
Proof.
  apply NoDup_map_inj; [|apply seq_NoDup]. intros a b _ _ H. lia.
Qed.

Lemma flat_map_singleton_if {A B} (c : A -> bool) (g : A -> B) (l : list A) :
  flat_map (fun a => if c a then [g a] else []) l = map g (filter c l).
Proof.
  induction l as [|a l IH]; simpl; [reflexivity|]. destruct (c a); simpl; rewrite IH; reflexivity.
Qed.

Lemma nth_error_In_iff {A} (l : list A) (x : A) : In x l <-> exists n, nth_error l n = Some x.
Proof.
  split; [apply In_nth_error|]. intros (n & H). eapply nth_error_In; eassumption.
Qed.

Lemma NoDup_nth_error_inj {A} (l : list A) i j x :
  NoDup l -> nth_error l i = Some x -> nth_error l j = Some x -> i = j.
Proof.
  intros Hnd Hi Hj. apply (proj1 (NoDup_nth_error l) Hnd).
  - apply nth_error_Some. congruence.
  - congruence.
Qed.
