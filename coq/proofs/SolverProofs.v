(* C10 - the regularised-policy solver: theorems in EXACT (rational)
   arithmetic about the generic bisection of model/Solver.v instantiated at
   `QA`.  Inputs of the real solvers are floats, i.e. rationals, and no
   square root or limit is involved, so `Q` is enough and the development
   stays closed under the global context (no Reals axioms).

   What is NOT here (by design, see props/C10.v): anything about binary32
   rounding - the float32 exit `sum == last_sum`, overflow, cancellation in
   `alpha - q`.  Those are decided by the bit-exact mirror `native32` and by
   the search. *)
From Coq Require Import ZArith QArith Qabs Qpower Lqa List Bool Lia.
From TV Require Import model.Solver.
Import ListNotations.
Open Scope Q_scope.

(* ------------------------------------------------------------------ *)
(* vocabulary                                                          *)
(* ------------------------------------------------------------------ *)
Definition Qsum (l : list Q) : Q := fold_right Qplus 0 l.
(* a lies above every q_i  ("alpha > max q") *)
Definition above (q : list Q) (a : Q) : Prop := Forall (fun x => x < a) q.
Fixpoint pow2 (n : nat) : Q := match n with O => 1 | S n => 2 * pow2 n end.

(* the hypotheses of the property *)
Record Hyp (lam : Q) (pi q : list Q) : Prop := {
  H_len : length pi = length q;
  H_pos : Forall (fun p => 0 < p) pi;
  H_sum : Qsum pi == 1;
  H_q : Forall (fun x => -1 <= x /\ x <= 1) q;
  H_lam : 0 < lam /\ lam <= 1024
}.

(* f alpha = sum_i lambda * pi_i / (alpha - q_i), as the model computes it *)
Definition f (lam : Q) (pi q : list Q) (alpha : Q) : Q := sigma QA lam pi q alpha.

(* conversion hint for the kernel: unfold the two wrappers before `solve`/`loop`
   (otherwise checking a Qed may unroll the 32-step loop symbolically) *)
Strategy expand [solve_python_Q solve_native_Q].

(* ------------------------------------------------------------------ *)
(* QA basics                                                           *)
(* ------------------------------------------------------------------ *)
Lemma Qltb_true : forall a b, Qltb a b = true <-> a < b.
Proof.
  intros a b. unfold Qltb. rewrite negb_true_iff. split; intro H.
  - destruct (Qlt_le_dec a b) as [L | L]; [exact L |].
    apply Qle_bool_iff in L. congruence.
  - destruct (Qle_bool b a) eqn:E; [| reflexivity].
    apply Qle_bool_iff in E. lra.
Qed.
Lemma Qltb_false : forall a b, Qltb a b = false <-> b <= a.
Proof.
  intros a b. split; intro H.
  - destruct (Qlt_le_dec a b) as [L | L]; [| exact L].
    apply Qltb_true in L. congruence.
  - destruct (Qltb a b) eqn:E; [| reflexivity]. apply Qltb_true in E. lra.
Qed.

Lemma mid_eq : forall a b, mid QA a b == (a + b) * (1 # 2).
Proof. intros. unfold mid. cbn [a_half a_add QA]. rewrite Qred_correct. field. Qed.

Lemma pow2_pos : forall n, 0 < pow2 n.
Proof. induction n; cbn [pow2]; lra. Qed.

Lemma pow2_Qpower : forall n, pow2 n == 2 ^ Z.of_nat n.
Proof.
  induction n.
  - reflexivity.
  - rewrite Nat2Z.inj_succ. unfold Z.succ. rewrite Qpower_plus by lra.
    cbn [pow2]. rewrite IHn. change (2 ^ 1) with 2. ring.
Qed.

(* ------------------------------------------------------------------ *)
(* one term                                                            *)
(* ------------------------------------------------------------------ *)
Definition tm (lam alpha : Q) (pq : Q * Q) : Q := lam * fst pq / (alpha - snd pq).
Lemma term_tm : forall lam alpha pq, term QA lam alpha pq = tm lam alpha pq.
Proof. reflexivity. Qed.

Lemma tm_compat : forall lam a b pq, a == b -> tm lam a pq == tm lam b pq.
Proof. intros lam a b pq E. unfold tm. rewrite E. reflexivity. Qed.

Lemma tm_pos : forall lam a pq, 0 < lam -> 0 < fst pq -> snd pq < a -> 0 < tm lam a pq.
Proof.
  intros lam a [p x] Hl Hp Hx. cbn [fst snd] in *. unfold tm. cbn [fst snd].
  apply Qlt_shift_div_l; [lra |]. rewrite Qmult_0_l. apply Qmult_lt_0_compat; assumption.
Qed.

Lemma tm_decr : forall lam a b pq, 0 < lam -> 0 < fst pq -> snd pq < a -> a < b ->
  tm lam b pq < tm lam a pq.
Proof.
  intros lam a b [p x] Hl Hp Hx Hab. cbn [fst snd] in *. unfold tm, Qdiv. cbn [fst snd].
  apply Qmult_lt_l; [apply Qmult_lt_0_compat; assumption |].
  apply -> Qinv_lt_contravar; lra.
Qed.

Lemma tm_le_weight : forall lam a pq, 0 < lam -> 0 < fst pq -> snd pq + lam <= a ->
  tm lam a pq <= fst pq.
Proof.
  intros lam a [p x] Hl Hp Hx. cbn [fst snd] in *. unfold tm. cbn [fst snd].
  apply Qle_shift_div_r; [lra |].
  rewrite (Qmult_comm lam p). apply Qmult_le_l; [assumption | lra].
Qed.

Lemma tm_own : forall lam a pq, 0 < lam -> 0 < fst pq -> a == snd pq + lam * fst pq ->
  tm lam a pq == 1.
Proof.
  intros lam a [p x] Hl Hp E. cbn [fst snd] in *. unfold tm. cbn [fst snd].
  assert (P : 0 < lam * p) by (apply Qmult_lt_0_compat; assumption).
  rewrite E. field. intro Z. lra.
Qed.

(* ------------------------------------------------------------------ *)
(* the sum as a fold_right, and its link with the model's fold_left    *)
(* ------------------------------------------------------------------ *)
Fixpoint fQ (lam : Q) (l : list (Q * Q)) (alpha : Q) : Q :=
  match l with
  | [] => 0
  | pq :: t => tm lam alpha pq + fQ lam t alpha
  end.

Lemma fold_sigma_acc : forall lam alpha l acc,
  fold_left (fun s pq => a_add QA s (term QA lam alpha pq)) l acc == acc + fQ lam l alpha.
Proof.
  intros lam alpha l. induction l as [| pq t IH]; intro acc; cbn [fold_left fQ].
  - ring.
  - rewrite IH. rewrite term_tm. cbn [a_add QA]. ring.
Qed.

Lemma f_fQ : forall lam pi q alpha, f lam pi q alpha == fQ lam (combine pi q) alpha.
Proof. intros. unfold f, sigma. rewrite fold_sigma_acc. cbn [a_zero QA]. ring. Qed.

Definition posL (l : list (Q * Q)) : Prop := Forall (fun pq => 0 < fst pq) l.
Definition aboveL (l : list (Q * Q)) (a : Q) : Prop := Forall (fun pq => snd pq < a) l.

Lemma aboveL_mono : forall l a b, aboveL l a -> a <= b -> aboveL l b.
Proof.
  intros l a b H L. unfold aboveL in *. rewrite Forall_forall in *.
  intros x I. specialize (H x I). lra.
Qed.

Lemma fQ_compat : forall lam l a b, a == b -> fQ lam l a == fQ lam l b.
Proof.
  intros lam l a b E. induction l as [| pq t IH]; cbn [fQ]; [reflexivity |].
  rewrite IH, (tm_compat lam a b pq E). reflexivity.
Qed.

Lemma fQ_nonneg : forall lam l a, 0 < lam -> posL l -> aboveL l a -> 0 <= fQ lam l a.
Proof.
  intros lam l a Hl. induction l as [| pq t IH]; intros P A; cbn [fQ]; [lra |].
  inversion P; inversion A; subst.
  assert (0 < tm lam a pq) by (apply tm_pos; assumption).
  specialize (IH H2 H6). lra.
Qed.

Lemma fQ_decr_le : forall lam l a b, 0 < lam -> posL l -> aboveL l a -> a <= b ->
  fQ lam l b <= fQ lam l a.
Proof.
  intros lam l a b Hl. induction l as [| pq t IH]; intros P A L; cbn [fQ]; [lra |].
  inversion P; inversion A; subst. specialize (IH H2 H6 L).
  destruct (Qlt_le_dec a b) as [S | S].
  - assert (tm lam b pq < tm lam a pq) by (apply tm_decr; assumption). lra.
  - assert (E : a == b) by lra. rewrite (tm_compat lam a b pq E). lra.
Qed.

Lemma fQ_decr : forall lam l a b, 0 < lam -> l <> [] -> posL l -> aboveL l a -> a < b ->
  fQ lam l b < fQ lam l a.
Proof.
  intros lam l a b Hl NE P A L. destruct l as [| pq t]; [congruence |]. cbn [fQ].
  inversion P; inversion A; subst.
  assert (tm lam b pq < tm lam a pq) by (apply tm_decr; assumption).
  assert (fQ lam t b <= fQ lam t a) by (apply fQ_decr_le; try assumption; lra). lra.
Qed.

Lemma fQ_ge_member : forall lam l a pq, 0 < lam -> posL l -> aboveL l a -> In pq l ->
  tm lam a pq <= fQ lam l a.
Proof.
  intros lam l a pq Hl. induction l as [| x t IH]; intros P A I; [inversion I |].
  inversion P; inversion A; subst. cbn [fQ]. destruct I as [-> | I].
  - assert (0 <= fQ lam t a) by (apply fQ_nonneg; assumption). lra.
  - specialize (IH H2 H6 I). assert (0 < tm lam a x) by (apply tm_pos; assumption). lra.
Qed.

Lemma fQ_le_weights : forall lam l a, 0 < lam -> posL l ->
  Forall (fun pq => snd pq + lam <= a) l -> fQ lam l a <= Qsum (map fst l).
Proof.
  intros lam l a Hl. induction l as [| x t IH]; intros P A; cbn [fQ map Qsum fold_right]; [lra |].
  inversion P; inversion A; subst. specialize (IH H2 H6). fold (Qsum (map fst t)).
  assert (tm lam a x <= fst x) by (apply tm_le_weight; assumption). lra.
Qed.

(* lists of pairs vs the two lists *)
Lemma combine_posL : forall pi q, Forall (fun p => 0 < p) pi -> posL (combine pi q).
Proof.
  induction pi as [| p t IH]; intros q H; [constructor |]. destruct q as [| x u]; [constructor |].
  inversion H; subst. constructor; [assumption | apply IH; assumption].
Qed.
Lemma combine_aboveL : forall pi q a, above q a -> aboveL (combine pi q) a.
Proof.
  induction pi as [| p t IH]; intros q a H; [constructor |]. destruct q as [| x u]; [constructor |].
  inversion H; subst. constructor; [assumption | apply IH; assumption].
Qed.
Lemma aboveL_combine : forall pi q a, length pi = length q -> aboveL (combine pi q) a -> above q a.
Proof.
  induction pi as [| p t IH]; intros q a L H; destruct q as [| x u]; try discriminate; [constructor |].
  inversion H; subst. constructor; [assumption | apply IH; [cbn in L; lia | assumption]].
Qed.
Lemma map_fst_combine : forall (pi q : list Q), length pi = length q -> map fst (combine pi q) = pi.
Proof.
  induction pi as [| p t IH]; intros q L; destruct q as [| x u]; try discriminate; [reflexivity |].
  cbn. f_equal. apply IH. cbn in L; lia.
Qed.

(* ------------------------------------------------------------------ *)
(* THEOREM 1: f is strictly decreasing above max q                     *)
(* ------------------------------------------------------------------ *)
Theorem f_strictly_decreasing : forall lam pi q a b,
  Hyp lam pi q -> above q a -> a < b -> f lam pi q b < f lam pi q a.
Proof.
  intros lam pi q a b H A L. rewrite !f_fQ. destruct H as [Hlen Hpos Hsum Hq [Hl _]].
  apply fQ_decr; try assumption.
  - destruct pi as [| p t]; [cbn in Hsum; lra |]. destruct q; [discriminate |]. discriminate.
  - apply combine_posL; assumption.
  - apply combine_aboveL; assumption.
Qed.

Lemma f_decreasing_le : forall lam pi q a b,
  Hyp lam pi q -> above q a -> a <= b -> f lam pi q b <= f lam pi q a.
Proof.
  intros lam pi q a b H A L. rewrite !f_fQ. destruct H as [Hlen Hpos Hsum Hq [Hl _]].
  apply fQ_decr_le; try assumption; [apply combine_posL | apply combine_aboveL]; assumption.
Qed.

Lemma f_compat : forall lam pi q a b, a == b -> f lam pi q a == f lam pi q b.
Proof. intros. rewrite !f_fQ. apply fQ_compat; assumption. Qed.

(* ------------------------------------------------------------------ *)
(* the running maximum                                                 *)
(* ------------------------------------------------------------------ *)
Lemma fold_amax_spec : forall t x,
  let m := fold_left (amax QA) t x in
  In m (x :: t) /\ x <= m /\ Forall (fun y => y <= m) t.
Proof.
  induction t as [| y t IH]; intro x; cbn [fold_left].
  - cbn. split; [left; reflexivity | split; [lra | constructor]].
  - specialize (IH (amax QA x y)). cbn zeta in IH. destruct IH as [I [G F]].
    unfold amax in *. cbn [a_ltb QA] in *. destruct (Qltb x y) eqn:E.
    + apply Qltb_true in E. split; [| split].
      * destruct I as [<- | I]; [right; left; reflexivity | right; right; assumption].
      * lra.
      * constructor; assumption.
    + apply Qltb_false in E. split; [| split].
      * destruct I as [<- | I]; [left; reflexivity | right; right; assumption].
      * assumption.
      * constructor; [lra | assumption].
Qed.

Lemma run_max_spec : forall x t,
  let m := run_max QA (x :: t) in In m (x :: t) /\ Forall (fun y => y <= m) (x :: t).
Proof.
  intros x t. unfold run_max. cbn [a_max_init QA].
  destruct (fold_amax_spec t x) as [I [G F]]. split; [assumption | constructor; assumption].
Qed.

(* ------------------------------------------------------------------ *)
(* THEOREM 2: the initial bracket                                      *)
(* ------------------------------------------------------------------ *)
Lemma pi_le_1 : forall pi, Forall (fun p => 0 < p) pi -> Forall (fun p => p <= Qsum pi) pi.
Proof.
  induction pi as [| p t IH]; intro H; [constructor |]. inversion H; subst.
  specialize (IH H3). cbn [Qsum fold_right]. fold (Qsum t).
  assert (0 <= Qsum t).
  { clear - H3. induction t as [| y u IHu]; cbn; [lra |]. inversion H3; subst.
    specialize (IHu H2). fold (Qsum u). lra. }
  constructor; [lra |]. rewrite Forall_forall in *. intros y I. specialize (IH y I). lra.
Qed.

Theorem bracket_spec : forall lam pi q lo hi,
  Hyp lam pi q -> bracket QA lam pi q = (lo, hi) ->
  above q lo /\ lo <= hi /\ hi - lo <= lam /\
  1 <= f lam pi q lo /\ f lam pi q hi <= 1.
Proof.
  intros lam pi q lo hi H B. destruct H as [Hlen Hpos Hsum Hq [Hl Hl2]].
  unfold bracket in B. injection B as Elo Ehi.
  set (l := combine pi q) in *.
  assert (NE : l <> []).
  { subst l. destruct pi as [| p t]; [cbn in Hsum; lra |]. destruct q; discriminate. }
  assert (P : posL l) by (apply combine_posL; assumption).
  (* lower end *)
  unfold lo_terms in Elo. fold l in Elo. unfold hi_terms in Ehi. fold l in Ehi.
  destruct l as [| x0 t0] eqn:El; [congruence |].
  cbn [map] in Elo, Ehi.
  destruct (run_max_spec (a_add QA (snd x0) (a_mul QA lam (fst x0)))
              (map (fun pq => a_add QA (snd pq) (a_mul QA lam (fst pq))) t0)) as [Ilo Flo].
  destruct (run_max_spec (a_add QA (snd x0) lam) (map (fun pq => a_add QA (snd pq) lam) t0)) as [Ihi Fhi].
  cbn zeta in *. rewrite Elo in Ilo, Flo. rewrite Ehi in Ihi, Fhi. clear Elo Ehi.
  change (a_add QA (snd x0) (a_mul QA lam (fst x0)) :: map (fun pq => a_add QA (snd pq) (a_mul QA lam (fst pq))) t0)
    with (map (fun pq => snd pq + lam * fst pq) (x0 :: t0)) in Ilo, Flo.
  change (a_add QA (snd x0) lam :: map (fun pq => a_add QA (snd pq) lam) t0)
    with (map (fun pq => snd pq + lam) (x0 :: t0)) in Ihi, Fhi.
  rewrite <- El in *. clear El x0 t0.
  rewrite Forall_map in Flo, Fhi. apply in_map_iff in Ilo, Ihi.
  destruct Ilo as [pl [Epl Ipl]]. destruct Ihi as [ph [Eph Iph]].
  assert (Epl' : snd pl + lam * fst pl == lo) by (rewrite Epl; reflexivity).
  assert (Eph' : snd ph + lam == hi) by (rewrite Eph; reflexivity).
  assert (P' : forall pq, In pq l -> 0 < fst pq) by (apply Forall_forall; exact P).
  assert (Flo' : forall pq, In pq l -> snd pq + lam * fst pq <= lo) by (apply Forall_forall; exact Flo).
  assert (Fhi' : forall pq, In pq l -> snd pq + lam <= hi) by (apply Forall_forall; exact Fhi).
  assert (AL : aboveL l lo).
  { apply Forall_forall. intros pq I. specialize (Flo' pq I). specialize (P' pq I).
    assert (0 < lam * fst pq) by (apply Qmult_lt_0_compat; assumption). lra. }
  assert (AL' : forall pq, In pq l -> snd pq < lo) by (apply Forall_forall; exact AL).
  assert (Pl : forall pq, In pq l -> fst pq <= 1).
  { intros pq I. pose proof (pi_le_1 pi Hpos) as Q1. rewrite Forall_forall in Q1.
    assert (I2 : In (fst pq) pi).
    { subst l. destruct pq as [a b]. apply in_combine_l in I. exact I. }
    specialize (Q1 _ I2). lra. }
  assert (LH : lo <= hi).
  { specialize (Fhi' pl Ipl). specialize (Pl pl Ipl). specialize (P' pl Ipl).
    assert (lam * fst pl <= lam * 1) by (apply Qmult_le_l; assumption). lra. }
  assert (W : hi - lo <= lam).
  { specialize (AL' ph Iph). lra. }
  split; [| split; [| split; [| split]]]; try assumption.
  - subst l. apply aboveL_combine with (pi := pi); assumption.
  - rewrite f_fQ. fold l.
    assert (T : tm lam lo pl == 1).
    { apply tm_own; [assumption | apply P'; assumption | lra]. }
    pose proof (fQ_ge_member lam l lo pl Hl P AL Ipl). lra.
  - rewrite f_fQ. fold l.
    assert (fQ lam l hi <= Qsum (map fst l)) by (apply fQ_le_weights; assumption).
    subst l. rewrite map_fst_combine in H by assumption. lra.
Qed.

(* degenerate K = 1: the bracket is a point (and f there is 1) *)
Theorem bracket_K1 : forall lam p x lo hi,
  Hyp lam [p] [x] -> bracket QA lam [p] [x] = (lo, hi) -> lo == hi /\ f lam [p] [x] lo == 1.
Proof.
  intros lam p x lo hi H B. pose proof (bracket_spec _ _ _ _ _ H B) as [A [L [W [F1 F2]]]].
  destruct H as [_ Hpos Hsum _ [Hl _]]. cbn in Hsum.
  unfold bracket, lo_terms, hi_terms, run_max in B. cbn in B. injection B as <- <-.
  assert (E : p == 1) by lra. split.
  - rewrite E. ring.
  - rewrite f_fQ. cbn [combine fQ]. inversion Hpos; subst.
    rewrite (tm_own lam (x + lam * p) (p, x)); cbn [fst snd]; try assumption; [ring | reflexivity].
Qed.

(* ------------------------------------------------------------------ *)
(* THEOREM 3: the loop keeps the root bracketed; the width halves       *)
(* ------------------------------------------------------------------ *)
(* state after k halvings of the initial bracket [lo0, hi0] *)
Record St (lam : Q) (pi q : list Q) (lo0 hi0 : Q) (k : nat) (lo hi alpha : Q) : Prop := {
  S_above : above q lo;
  S_le : lo <= hi;
  S_flo : 1 <= f lam pi q lo;
  S_fhi : f lam pi q hi <= 1;
  S_mid : alpha == (lo + hi) * (1 # 2);
  S_in_lo : lo0 <= lo;
  S_in_hi : hi <= hi0;
  S_width : (hi - lo) * pow2 k == hi0 - lo0
}.

Lemma above_mono : forall q a b, above q a -> a <= b -> above q b.
Proof.
  intros q a b H L. unfold above in *. rewrite Forall_forall in *. intros x I. specialize (H x I). lra.
Qed.

Lemma St_step_up : forall lam pi q lo0 hi0 k lo hi alpha,
  St lam pi q lo0 hi0 k lo hi alpha -> 1 < f lam pi q alpha ->
  St lam pi q lo0 hi0 (S k) alpha hi (mid QA alpha hi).
Proof.
  intros lam pi q lo0 hi0 k lo hi alpha [A L F1 F2 M I1 I2 W] G.
  constructor; try assumption; try lra.
  - apply above_mono with lo; [assumption | lra].
  - apply mid_eq.
  - cbn [pow2]. rewrite <- W. rewrite M. ring.
Qed.

Lemma St_step_down : forall lam pi q lo0 hi0 k lo hi alpha,
  St lam pi q lo0 hi0 k lo hi alpha -> f lam pi q alpha <= 1 ->
  St lam pi q lo0 hi0 (S k) lo alpha (mid QA alpha lo).
Proof.
  intros lam pi q lo0 hi0 k lo hi alpha [A L F1 F2 M I1 I2 W] G.
  constructor; try assumption; try lra.
  - rewrite mid_eq. ring.
  - cbn [pow2]. rewrite <- W. rewrite M. ring.
Qed.

(* Whatever the exit rule: a returned result was produced by the exit test
   firing in a state that still brackets the root, after iters-1 halvings. *)
Theorem loop_spec : forall lam pi q (X : exit_rule Q) lo0 hi0 fuel n mem lo hi alpha k a w,
  St lam pi q lo0 hi0 n lo hi alpha ->
  loop QA X lam pi q fuel n mem lo hi alpha = Returned k a w ->
  exists mem' mem'' lo' hi' alpha',
    (n < k <= n + fuel)%nat /\
    St lam pi q lo0 hi0 (k - 1) lo' hi' alpha' /\
    x_test X mem' lo' hi' alpha' (f lam pi q alpha') = (Some a, mem'') /\
    w = weights QA lam pi q a.
Proof.
  intros lam pi q X lo0 hi0 fuel. induction fuel as [| fuel IH]; intros n mem lo hi alpha k a w Hst R.
  - discriminate.
  - cbn [loop] in R. fold (f lam pi q alpha) in R.
    destruct (x_test X mem lo hi alpha (f lam pi q alpha)) as [[a' |] mem'] eqn:T.
    + injection R as <- <- <-. exists mem, mem', lo, hi, alpha.
      replace (S n - 1)%nat with n by lia.
      split; [lia | split; [assumption | split; [assumption | reflexivity]]].
    + cbn [a_ltb a_one QA] in R. destruct (Qltb 1 (f lam pi q alpha)) eqn:C.
      * apply Qltb_true in C. pose proof (St_step_up _ _ _ _ _ _ _ _ _ Hst C) as Hst'.
        destruct (IH _ _ _ _ _ _ _ _ Hst' R) as (m1 & m2 & lo' & hi' & al' & Hk & HS & HT & HW).
        exists m1, m2, lo', hi', al'. split; [lia | split; [assumption | split; assumption]].
      * apply Qltb_false in C. pose proof (St_step_down _ _ _ _ _ _ _ _ _ Hst C) as Hst'.
        destruct (IH _ _ _ _ _ _ _ _ Hst' R) as (m1 & m2 & lo' & hi' & al' & Hk & HS & HT & HW).
        exists m1, m2, lo', hi', al'. split; [lia | split; [assumption | split; assumption]].
Qed.

(* the initial state *)
Lemma St_init : forall lam pi q lo hi,
  Hyp lam pi q -> bracket QA lam pi q = (lo, hi) -> St lam pi q lo hi 0 lo hi (mid QA lo hi).
Proof.
  intros lam pi q lo hi H B. destruct (bracket_spec _ _ _ _ _ H B) as [A [L [W [F1 F2]]]].
  constructor; try assumption; try lra; [apply mid_eq | cbn [pow2]; ring].
Qed.

(* width_k = width_0 / 2^k <= lambda / 2^k *)
Theorem width_k : forall lam pi q lo0 hi0 k lo hi alpha,
  Hyp lam pi q -> bracket QA lam pi q = (lo0, hi0) -> St lam pi q lo0 hi0 k lo hi alpha ->
  hi - lo == (hi0 - lo0) / 2 ^ Z.of_nat k /\ hi - lo <= lam / 2 ^ Z.of_nat k.
Proof.
  intros lam pi q lo0 hi0 k lo hi alpha H B Hst.
  destruct (bracket_spec _ _ _ _ _ H B) as [_ [_ [W _]]]. destruct Hst as [_ _ _ _ _ _ _ Wd].
  rewrite <- pow2_Qpower. pose proof (pow2_pos k) as P.
  assert (E : hi - lo == (hi0 - lo0) / pow2 k).
  { rewrite <- Wd. field. lra. }
  split; [exact E |]. rewrite E. unfold Qdiv. apply Qmult_le_compat_r; [lra |].
  apply Qlt_le_weak, Qinv_lt_0_compat, P.
Qed.

(* ------------------------------------------------------------------ *)
(* output form: positive weights at one alpha above every q            *)
(* ------------------------------------------------------------------ *)
Lemma weights_pos : forall lam pi q a,
  Hyp lam pi q -> above q a -> Forall (fun w => 0 < w) (weights QA lam pi q a).
Proof.
  intros lam pi q a [Hlen Hpos _ _ [Hl _]] A. unfold weights.
  pose proof (combine_posL pi q Hpos) as P. pose proof (combine_aboveL pi q a A) as AL.
  rewrite Forall_map. unfold posL, aboveL in *. rewrite Forall_forall in *. intros pq I.
  rewrite term_tm. apply tm_pos; auto.
Qed.

Lemma weights_sum : forall lam pi q a, Qsum (weights QA lam pi q a) == f lam pi q a.
Proof.
  intros. rewrite f_fQ. unfold weights. induction (combine pi q) as [| pq t IH]; cbn; [reflexivity |].
  fold (Qsum (map (term QA lam a) t)). rewrite IH. reflexivity.
Qed.

Lemma weights_form : forall lam pi q a,
  weights QA lam pi q a = map (fun pq => lam * fst pq / (a - snd pq)) (combine pi q).
Proof. reflexivity. Qed.

(* `solve` = initial bracket + loop, for any exit rule and any fuel *)
Theorem solve_spec : forall (X : exit_rule Q) fuel lam pi q k a w,
  Hyp lam pi q -> solve QA X fuel lam pi q = Returned k a w ->
  exists lo0 hi0 mem' mem'' lo hi alpha,
    bracket QA lam pi q = (lo0, hi0) /\
    (1 <= k <= fuel)%nat /\
    St lam pi q lo0 hi0 (k - 1) lo hi alpha /\
    x_test X mem' lo hi alpha (f lam pi q alpha) = (Some a, mem'') /\
    w = weights QA lam pi q a.
Proof.
  intros X fuel lam pi q k a w H R. unfold solve in R.
  destruct (bracket QA lam pi q) as [lo0 hi0] eqn:B.
  pose proof (St_init _ _ _ _ _ H B) as Hst0.
  destruct (loop_spec _ _ _ _ _ _ _ _ _ _ _ _ _ _ _ Hst0 R) as (m1 & m2 & lo & hi & al & Hk & Hst & T & W).
  exists lo0, hi0, m1, m2, lo, hi, al.
  split; [reflexivity | split; [lia | split; [exact Hst | split; [exact T | exact W]]]].
Qed.

(* an exit rule that only ever answers `alpha` or `hi` *)
Definition exit_in_bracket (X : exit_rule Q) : Prop :=
  forall mem lo hi alpha s a mem', x_test X mem lo hi alpha s = (Some a, mem') -> a = alpha \/ a = hi.

Lemma python_exit_in_bracket : exit_in_bracket python_exit_Q.
Proof.
  intros mem lo hi alpha s a mem' T. unfold python_exit_Q, python_exit in T. cbn [x_test] in T.
  match type of T with (if ?c then _ else _, _) = _ => destruct c end; inversion T. left; reflexivity.
Qed.
Lemma native_exit_in_bracket : exit_in_bracket native_exit_Q.
Proof.
  intros mem lo hi alpha s a mem' T. unfold native_exit_Q, native_exit in T. cbn [x_test a_finite QA negb] in T.
  match type of T with (if ?c then _ else _) = _ => destruct c end; [inversion T; left; reflexivity |].
  match type of T with (if ?c then _ else _) = _ => destruct c end; inversion T. left; reflexivity.
Qed.

Theorem returns_in_bracket : forall (X : exit_rule Q) fuel lam pi q k a w,
  exit_in_bracket X -> Hyp lam pi q ->
  solve QA X fuel lam pi q = Returned k a w ->
  exists lo0 hi0 lo hi,
    bracket QA lam pi q = (lo0, hi0) /\
    above q lo /\ lo0 <= lo /\ lo <= a /\ a <= hi /\ hi <= hi0 /\
    1 <= f lam pi q lo /\ f lam pi q hi <= 1 /\
    (hi - lo) * pow2 (k - 1) == hi0 - lo0 /\
    (1 <= k <= fuel)%nat /\
    above q a /\
    w = map (fun pq => lam * fst pq / (a - snd pq)) (combine pi q) /\
    Forall (fun x => 0 < x) w /\
    Qsum w == f lam pi q a.
Proof.
  intros X fuel lam pi q k a w XB H R.
  destruct (solve_spec _ _ _ _ _ _ _ _ H R) as (lo0 & hi0 & m1 & m2 & lo & hi & al & B & Hk & Hst & T & W).
  exists lo0, hi0, lo, hi. destruct Hst as [A L F1 F2 M I1 I2 Wd].
  assert (Ba : lo <= a /\ a <= hi).
  { destruct (XB _ _ _ _ _ _ _ T) as [-> | ->]; lra. }
  assert (Aa : above q a) by (apply above_mono with lo; [assumption | lra]).
  destruct Ba as [Ba1 Ba2].
  split; [exact B |]. split; [exact A |]. split; [exact I1 |]. split; [exact Ba1 |].
  split; [exact Ba2 |]. split; [exact I2 |]. split; [exact F1 |]. split; [exact F2 |].
  split; [exact Wd |]. split; [lia |]. split; [exact Aa |]. split; [exact W |].
  split; [subst w; apply weights_pos; assumption | subst w; apply weights_sum].
Qed.

(* ------------------------------------------------------------------ *)
(* THEOREM 4: the Python exit rule returns within 32 iterations         *)
(* ------------------------------------------------------------------ *)
Lemma python_loop_returns : forall lam pi q lo0 hi0 fuel n lo hi alpha,
  St lam pi q lo0 hi0 n lo hi alpha ->
  hi - lo <= TOL_Q * pow2 fuel ->
  loop QA python_exit_Q lam pi q (S fuel) n tt lo hi alpha <> OutOfIters.
Proof.
  intros lam pi q lo0 hi0 fuel. induction fuel as [| fuel IH]; intros n lo hi alpha Hst W.
  - cbn [loop]. cbn [pow2] in W.
    assert (E : Qle_bool (hi - lo) TOL_Q = true) by (apply Qle_bool_iff; lra).
    cbn [x_test python_exit_Q python_exit a_leb a_sub QA]. rewrite E, orb_true_r. discriminate.
  - remember (S fuel) as sf. cbn [loop]. fold (f lam pi q alpha).
    destruct (x_test python_exit_Q tt lo hi alpha (f lam pi q alpha)) as [[a' |] m'] eqn:T; [discriminate |].
    destruct m'. cbn [a_ltb a_one QA]. destruct (Qltb 1 (f lam pi q alpha)) eqn:C; subst sf.
    + apply Qltb_true in C. pose proof (St_step_up _ _ _ _ _ _ _ _ _ Hst C) as Hst'.
      apply IH; [assumption |]. destruct Hst as [_ _ _ _ M _ _ _]. cbn [pow2] in W. lra.
    + apply Qltb_false in C. pose proof (St_step_down _ _ _ _ _ _ _ _ _ Hst C) as Hst'.
      apply IH; [assumption |]. destruct Hst as [_ _ _ _ M _ _ _]. cbn [pow2] in W. lra.
Qed.

Lemma pow2_31 : pow2 31 == 2147483648.
Proof. vm_compute. reflexivity. Qed.

Theorem python_terminates : forall lam pi q,
  Hyp lam pi q -> solve_python_Q lam pi q <> OutOfIters.
Proof.
  intros lam pi q H. unfold solve_python_Q, solve. destruct (bracket QA lam pi q) as [lo hi] eqn:B.
  pose proof (St_init _ _ _ _ _ H B) as Hst0.
  destruct (bracket_spec _ _ _ _ _ H B) as [_ [_ [W _]]].
  change MAX_ITERS with (S 31). apply python_loop_returns with (lo0 := lo) (hi0 := hi); [assumption |].
  destruct H as [_ _ _ _ [_ L]]. rewrite pow2_31. unfold TOL_Q. lra.
Qed.

(* ------------------------------------------------------------------ *)
(* THEOREM 5/6: output of the Python rule                              *)
(* ------------------------------------------------------------------ *)
Theorem python_output_form : forall lam pi q,
  Hyp lam pi q ->
  exists k a w,
    solve_python_Q lam pi q = Returned k a w /\ (1 <= k <= 32)%nat /\
    above q a /\
    w = map (fun pq => lam * fst pq / (a - snd pq)) (combine pi q) /\
    Forall (fun x => 0 < x) w.
Proof.
  intros lam pi q H. pose proof (python_terminates lam pi q H) as NT.
  destruct (solve_python_Q lam pi q) as [k a w |] eqn:R; [| congruence].
  exists k, a, w.
  destruct (returns_in_bracket _ _ _ _ _ _ _ _ python_exit_in_bracket H R)
    as (lo0 & hi0 & lo & hi & _ & _ & _ & _ & _ & _ & _ & _ & _ & Hk & Aa & Ew & Pw & _).
  repeat split; try assumption; unfold MAX_ITERS in Hk; lia.
Qed.

(* |sum - 1| <= 1e-3, or f > 1 everywhere left of alpha - 1e-6 and f < 1
   everywhere right of alpha + 1e-6: the root of f (which is unique, f being
   strictly decreasing) is within 1e-6 of the returned alpha. *)
Theorem python_output_sum : forall lam pi q k a w,
  Hyp lam pi q -> solve_python_Q lam pi q = Returned k a w ->
  Qabs (1 - Qsum w) <= EPS_Q \/
  ((forall x, above q x -> x < a - TOL_Q -> 1 < f lam pi q x) /\
   (forall x, a + TOL_Q < x -> f lam pi q x < 1)).
Proof.
  intros lam pi q k a w H R.
  destruct (solve_spec _ _ _ _ _ _ _ _ H R) as (lo0 & hi0 & m1 & m2 & lo & hi & al & B & Hk & Hst & T & W).
  cbn [x_test python_exit_Q python_exit a_leb a_abs a_sub a_one QA] in T.
  destruct (Qle_bool (Qabs (1 - f lam pi q al)) EPS_Q) eqn:E1.
  - left. cbn [orb] in T. injection T as Ea _. subst a w. rewrite weights_sum. apply Qle_bool_iff. exact E1.
  - right. cbn [orb] in T. destruct (Qle_bool (hi - lo) TOL_Q) eqn:E2; [| discriminate].
    injection T as Ea _. subst a. apply Qle_bool_iff in E2. destruct Hst as [A L F1 F2 M I1 I2 Wd]. split.
    + intros x Ax Lx. assert (Lx' : x < lo) by lra.
      pose proof (f_strictly_decreasing lam pi q x lo H Ax Lx'). lra.
    + intros x Lx. assert (Lx' : hi < x) by lra.
      assert (Ah : above q hi) by (apply above_mono with lo; assumption).
      pose proof (f_strictly_decreasing lam pi q hi x H Ah Lx'). lra.
Qed.

(* ------------------------------------------------------------------ *)
(* THEOREM 7: the native exit rule, conditionally                      *)
(* ------------------------------------------------------------------ *)
(* `sum == last_sum` has no counterpart in exact arithmetic (a strictly
   monotone f never repeats a value), so termination is not claimed; whenever
   the loop returns, alpha is inside a bracket of the root and the output has
   the stated form. *)
Theorem native_if_returns : forall lam pi q k a w,
  Hyp lam pi q -> solve_native_Q lam pi q = Returned k a w ->
  exists lo0 hi0 lo hi,
    bracket QA lam pi q = (lo0, hi0) /\
    above q lo /\ lo0 <= lo /\ lo <= a /\ a <= hi /\ hi <= hi0 /\
    1 <= f lam pi q lo /\ f lam pi q hi <= 1 /\
    (hi - lo) * pow2 (k - 1) == hi0 - lo0 /\
    (1 <= k <= MAX_ITERS)%nat /\
    above q a /\
    w = map (fun pq => lam * fst pq / (a - snd pq)) (combine pi q) /\
    Forall (fun x => 0 < x) w /\
    Qsum w == f lam pi q a.
Proof.
  intros lam pi q k a w H R. exact (returns_in_bracket native_exit_Q MAX_ITERS lam pi q k a w native_exit_in_bracket H R).
Qed.

(* ------------------------------------------------------------------ *)
(* Examples: the hypotheses are satisfiable; a K = 3 run               *)
(* ------------------------------------------------------------------ *)
Definition ex_lam : Q := 1 # 3.
Definition ex_pi : list Q := [1 # 2; 1 # 4; 1 # 4].
Definition ex_q : list Q := [-1; 0; 1 # 2].

Example ex_hyp : Hyp ex_lam ex_pi ex_q.
Proof.
  constructor.
  - reflexivity.
  - repeat constructor.
  - reflexivity.
  - repeat constructor; cbn; discriminate.
  - split; [reflexivity | cbn; discriminate].
Qed.

Example ex_bracket : bracket QA ex_lam ex_pi ex_q = (14 # 24, 5 # 6)%Q.
Proof. vm_compute. reflexivity. Qed.

Example ex_python_run :
  exists a w, solve_python_Q ex_lam ex_pi ex_q = Returned 8 a w /\
              Qred a = 1873 # 3072 /\ map Qred w = [512 # 4945; 256 # 1873; 256 # 337].
Proof. eexists. eexists. split; [vm_compute; reflexivity | split; vm_compute; reflexivity]. Qed.

Example ex_native_run :
  exists a w, solve_native_Q ex_lam ex_pi ex_q = Returned 8 a w /\ Qred a = 1873 # 3072.
Proof. eexists. eexists. split; vm_compute; reflexivity. Qed.

(* hypotheses of bracket_K1 *)
Example ex_hyp_K1 : Hyp (3 # 10) [1] [1 # 2].
Proof.
  constructor; [reflexivity | repeat constructor | reflexivity | repeat constructor; cbn; discriminate
               | split; [reflexivity | cbn; discriminate]].
Qed.

Example ex_bracket_K1 : bracket QA (3 # 10) [1] [1 # 2] = ((1 # 2) + (3 # 10) * 1, (1 # 2) + (3 # 10))%Q.
Proof. reflexivity. Qed.

(* hypotheses of f_strictly_decreasing: two points above every q *)
Example ex_above : above ex_q (14 # 24) /\ (14 # 24) < (5 # 6).
Proof. split; [repeat constructor | reflexivity]. Qed.

(* a state reachable by the loop, for width_k / loop_spec *)
Example ex_state : St ex_lam ex_pi ex_q (14 # 24) (5 # 6) 0 (14 # 24) (5 # 6) (mid QA (14 # 24) (5 # 6)).
Proof. apply St_init; [exact ex_hyp | exact ex_bracket]. Qed.

(* the decimal constants of the two sources against the rationals used here *)
Example sigma_epsilon32_value :
  bits_of_b32 SIGMA_EPSILON32 = 981668463%Z /\
  Qabs (sf_toQ SIGMA_EPSILON32 - EPS_Q) <= 1 # 10000000000.
Proof. split; [vm_compute; reflexivity | vm_compute; discriminate]. Qed.
