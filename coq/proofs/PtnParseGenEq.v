(* T14P - parse_move and PTN.parse REGENERATED from python/tak/ptn/ptn.py (gen/PtnParseGen.v, written by
   harness/ptn2coq.py against model/PySem.v + model/PtnSem.v) are equal to the hand-written model/Ptn.v:
     gen_parse_move_eq : forall s, PtnParseGen.parse_move s = embed (Ptn.parse_move_raw s)
     gen_parse_game_eq : on the texts where the model takes a position
   and the chain for the regular expressions is closed:
     pattern literal in the source = show re_k (by computation)  ->  re_k is one of the terms the library knows
     ->  the library function on that term is sound for the declarative semantics of spec/RegexSpec.v
         (by the theorems of proofs/TiePtnRegex.v). *)
From Coq Require Import ZArith String List Bool Lia.
From TV Require Import model.Tak model.PySem model.Ptn spec.PtnSpec spec.RegexSpec model.PtnSem.
From TV Require Import proofs.PtnProofs proofs.PtnGame proofs.TiePtnRegex.
From TV Require gen.PtnParseGen.
Import ListNotations.
Open Scope Z_scope.

(* ------------------------------------------------------------------ *)
(* the pattern literals                                                 *)
(* ------------------------------------------------------------------ *)
(* the text of every pattern in the source is the printed term, and the term prints faithfully *)
Lemma gen_regex_text :
  show PtnParseGen.re_0 = PtnParseGen.re_0_src /\ show PtnParseGen.re_1 = PtnParseGen.re_1_src /\
  show PtnParseGen.re_2 = PtnParseGen.re_2_src /\ show PtnParseGen.re_3 = PtnParseGen.re_3_src /\
  show PtnParseGen.re_4 = PtnParseGen.re_4_src /\ show PtnParseGen.re_5 = PtnParseGen.re_5_src /\
  show PtnParseGen.re_6 = PtnParseGen.re_6_src /\
  forallb syntax_ok [PtnParseGen.re_0; PtnParseGen.re_1; PtnParseGen.re_2; PtnParseGen.re_3;
                     PtnParseGen.re_4; PtnParseGen.re_5; PtnParseGen.re_6] = true.
Proof. repeat split; reflexivity. Qed.

(* the terms parsed from the source are the ones the library knows, which are the ones of proofs/TiePtnRegex.v *)
Lemma gen_regex_known :
  PtnParseGen.re_0 = known_move /\ PtnParseGen.re_1 = known_tag /\ PtnParseGen.re_2 = known_comment /\
  PtnParseGen.re_3 = known_space /\ PtnParseGen.re_4 = known_result /\ PtnParseGen.re_5 = known_number /\
  PtnParseGen.re_6 = known_suffix.
Proof. repeat split; reflexivity. Qed.
Lemma known_regex_terms :
  known_move = move_re /\ known_tag = tag_re /\ known_comment = comment_re /\ known_space = space_re /\
  known_result = result_re /\ known_number = number_re /\ known_suffix = suffix_re.
Proof. repeat split; reflexivity. Qed.

(* ------------------------------------------------------------------ *)
(* parse_move                                                           *)
(* ------------------------------------------------------------------ *)
Lemma truthy_opt_text o : truthy_list (opt_text o) = is_some o.
Proof. destruct o; reflexivity. Qed.
Lemma truthy_nonempty {A} (l : list A) : truthy_list l = nonempty l.
Proof. destruct l; reflexivity. Qed.

Lemma py_int_digit p : 49 <= p <= 56 -> py_int_str [p] = Ok (p - 48).
Proof.
  intros H. unfold py_int_str. cbn [truthy_list forallb andb].
  replace ((48 <=? p) && (p <=? 57)) with true by (symmetry; apply andb_true_iff; split; apply Z.leb_le; lia).
  cbn [andb]. change (py_int_max_str_digits <? zlen [p]) with false. cbn [fold_left]. f_equal; lia.
Qed.

(* slide_map[dir] / place_map[stone] cannot raise KeyError after a successful match *)
Lemma slide_lookup d : classify d = KDir -> py_dict_get pystr_eqb PtnParseGen.slide_map [d] = Ok (dir_type d).
Proof. intros H. apply classify_dir in H. destruct H as [-> | [-> | [-> | ->]]]; reflexivity. Qed.
Lemma place_lookup st : ocls KStone st -> py_dict_get pystr_eqb PtnParseGen.place_map (opt_text st) = Ok (stone_type st).
Proof.
  destruct st as [c|]; cbn [ocls opt_text]; intros H; [|reflexivity].
  apply classify_stone in H. destruct H as [-> | [-> | ->]]; reflexivity.
Qed.

Theorem gen_parse_move_eq s : PtnParseGen.parse_move s = embed (parse_move_raw s).
Proof.
  unfold PtnParseGen.parse_move, parse_move_raw, re_search_groups.
  change (regex_eqb PtnParseGen.re_0 known_move) with true. cbn iota. cbn [bind].
  destruct (match_move s) as [g|] eqn:Eg; [|reflexivity].
  destruct (match_move_sound s g Eg) as [_ Hwf]. clear Eg.
  destruct g as [st pk f r d ds tr]. destruct Hwf as (H1 & H2 & H3 & H4 & H5 & H6 & H7).
  cbn [g_stone g_pickup g_file g_rank g_dir g_drops g_trail] in *.
  cbn [py_match_truthy negb py_match_groups groups_list bind py_unpack6 py_ord
       g_stone g_pickup g_file g_rank g_dir g_drops g_trail].
  change (ch "a") with 97. change (ch "1") with 49. change (ch "0") with 48.
  rewrite !truthy_opt_text, !truthy_nonempty.
  unfold post_checks. cbn [g_stone g_pickup g_file g_rank g_dir g_drops g_trail].
  destruct d as [dd|]; cbn [is_some negb andb orb opt_text ocls] in *.
  - rewrite (slide_lookup dd H5). cbn [bind ret]. rewrite !andb_false_r. cbn [orb andb].
    destruct pk as [p|]; cbn [is_some negb andb orb opt_text ocls] in *.
    + apply classify_digit in H2.
      destruct ds as [|c ds']; cbn [nonempty is_some negb andb orb bind ret truthy_opt_list truthy_list map].
      * rewrite (py_int_digit p H2). cbn [bind ret py_iter_opt]. unfold py_sum, zsum. cbn [fold_right].
        rewrite Z.add_0_r, Z.eqb_refl. reflexivity.
      * rewrite (py_int_digit p H2). cbn [bind ret py_iter_opt]. unfold py_sum.
        match goal with |- context [?a =? ?b] => destruct (a =? b) end; reflexivity.
    + destruct ds as [|c ds']; cbn [nonempty is_some negb andb orb bind ret truthy_opt_list truthy_list map].
      * change (truthy_list (pystr "1")) with true. cbn [andb negb bind ret].
        change (py_int_str (pystr "1")) with (Ok 1 : res Z). cbn [bind ret py_iter_opt]. reflexivity.
      * reflexivity.
  - rewrite (place_lookup st H1). cbn [bind ret]. rewrite !andb_true_r.
    destruct pk as [p|]; cbn [is_some negb andb orb opt_text]; [reflexivity|].
    destruct ds as [|c ds']; cbn [nonempty is_some negb andb orb bind ret truthy_opt_list truthy_list map]; reflexivity.
Qed.

(* ------------------------------------------------------------------ *)
(* PTN.parse                                                            *)
(* ------------------------------------------------------------------ *)
Lemma split_first_nn s : split_first [10; 10] s = split_nn s.
Proof.
  induction s as [|c r IH]; [reflexivity|]. cbn [split_first split_nn starts_with length].
  rewrite IH. rewrite (Z.eqb_sym 10 c).
  destruct r as [|d r']; cbn [starts_nl starts_with skipn tl].
  - rewrite andb_false_r. reflexivity.
  - rewrite (Z.eqb_sym 10 d), andb_true_r. reflexivity.
Qed.

Lemma py_dict_set_eq d k v : py_dict_set d k v = dict_set d k v.
Proof. induction d as [|[k' v'] d IH]; cbn [py_dict_set dict_set]; [reflexivity|]. rewrite IH. reflexivity. Qed.
Lemma py_dict_fold_eq (l : list tag) : forall d : list tag,
  fold_left (fun d kv => py_dict_set d (fst kv) (snd kv)) l d = fold_left (fun d kv => dict_set d (fst kv) (snd kv)) l d.
Proof. induction l as [|kv l IH]; intros d; cbn [fold_left]; [reflexivity|]. rewrite py_dict_set_eq. apply IH. Qed.
Lemma py_dict_of_pairs_eq (l : list tag) : py_dict_of_pairs l = dict_of l.
Proof. unfold py_dict_of_pairs, dict_of. apply py_dict_fold_eq. Qed.

(* what the code does on a token, against the three-valued model *)
Lemma raw_of_parse s :
  match parse_move s with
  | Reject => parse_move_raw s = None
  | Accept m => parse_move_raw s = Some m
  | Unspecified => True
  end.
Proof.
  unfold parse_move, parse_move_raw. destruct (match_move s) as [g|]; [|reflexivity].
  destruct (post_checks g) as [m|]; [|reflexivity]. destruct (lenient g); [exact I|reflexivity].
Qed.

(* the pieces of re.split(\s+) hold no white space, in particular no newline *)
Lemma split_ws_nospace s :
  Forall (fun c => is_space c = false) (fst (split_ws s)) /\
  Forall (Forall (fun c => is_space c = false)) (snd (split_ws s)).
Proof.
  induction s as [|c r [IH1 IH2]]; [split; constructor|]. cbn [split_ws].
  destruct (split_ws r) as [t ts]. cbn [fst snd] in *. destruct (is_space c) eqn:Ec.
  - destruct (head_is_space r); cbn [fst snd]; split; try constructor; assumption.
  - cbn [fst snd]. split; [constructor; assumption|assumption].
Qed.
Lemma tokens_no_newline s : Forall (fun t => existsb (Z.eqb 10) t = false) (re_split_ws s).
Proof.
  unfold re_split_ws. destruct (split_ws_nospace s) as [H1 H2]. destruct (split_ws s) as [t ts]. cbn [fst snd] in *.
  assert (Hn : forall t0, Forall (fun c => is_space c = false) t0 -> existsb (Z.eqb 10) t0 = false).
  { intros t0 H. induction H as [|c l Hc Hl IH]; [reflexivity|]. cbn [existsb]. rewrite IH, orb_false_r.
    destruct (Z.eqb_spec 10 c) as [<-|]; [discriminate Hc|reflexivity]. }
  constructor; [apply Hn; exact H1|]. eapply Forall_impl; [|exact H2]. exact Hn.
Qed.

Definition embed_moves (r : moves_result) (acc : list mv) : res (list mv) :=
  match r with MovesOk l => Ok (acc ++ l) | MovesBad _ => Illegal | MovesUnspec => Crash Unmodelled end.

Lemma gen_token_loop_eq ts :
  Forall (fun t => existsb (Z.eqb 10) t = false) ts -> run_tokens ts <> MovesUnspec ->
  forall acc, PtnParseGen.parse_for1 ts acc = embed_moves (run_tokens ts) acc.
Proof.
  induction 1 as [|t r Ht Hr IH]; intros Hu acc.
  - cbn. rewrite app_nil_r. reflexivity.
  - cbn [PtnParseGen.parse_for1 run_tokens] in *.
    change (pystr_eqb t (pystr "--")) with (str_eqb t [45; 45]).
    unfold re_test, re_sub.
    change (regex_eqb PtnParseGen.re_4 known_result) with true.
    change (regex_eqb PtnParseGen.re_5 known_result) with false.
    change (regex_eqb PtnParseGen.re_5 known_number) with true.
    change (regex_eqb PtnParseGen.re_6 known_comment) with false.
    change (regex_eqb PtnParseGen.re_6 known_suffix) with true.
    cbn [andb bind]. change (pystr_eqb [] []) with true. cbn iota.
    destruct (str_eqb t [45; 45]); cbn [orb] in *; [apply IH; exact Hu|].
    destruct (is_result t); cbn [orb] in *; [apply IH; exact Hu|].
    destruct (is_move_number t); cbn [orb] in *; [apply IH; exact Hu|].
    destruct t as [|c0 t']; cbn [nonempty negb pystr_eqb list_eqb] in *; [apply IH; exact Hu|].
    change (list_eqb Z.eqb (c0 :: t') []) with false. cbn iota.
    rewrite Ht. cbn [bind]. rewrite gen_parse_move_eq.
    pose proof (raw_of_parse (strip_suffix (c0 :: t'))) as Hraw.
    destruct (parse_move (strip_suffix (c0 :: t'))) as [m| |] eqn:Ep.
    + rewrite Hraw. cbn [embed bind].
      assert (Hu' : run_tokens r <> MovesUnspec) by (intros E0; apply Hu; rewrite E0; reflexivity).
      rewrite (IH Hu'). destruct (run_tokens r); cbn [embed_moves]; [rewrite <- app_assoc; reflexivity|reflexivity|congruence].
    + rewrite Hraw. reflexivity.
    + congruence.
Qed.

(* PTN(tags=, moves=) | ValueError | BadMove | no position *)
Definition embed_game (g : game_result) : res (list (list Z * list Z) * list mv) :=
  match g with
  | GameOk tags ms => Ok (tags, ms)
  | GameNoSplit => Crash ValueError
  | GameBadMove _ => Illegal
  | GameUnspecified => Crash Unmodelled
  end.

(* the texts on which model/Ptn.v takes a position: the tag scan of the head knows every code point it meets in
   key position and meets no tag line with an empty value; no token of the lenient (Unspecified) class is reached *)
Definition game_modelled (text : list Z) : Prop :=
  match split_nn text with
  | None => True
  | Some (head, tail) =>
    scan_tags head true 0 <> None /\ run_tokens (re_split_ws (sub_comments tail 0)) <> MovesUnspec
  end.

Theorem gen_parse_game_eq text : game_modelled text -> PtnParseGen.parse text = embed_game (parse_game text).
Proof.
  unfold game_modelled, PtnParseGen.parse, parse_game, py_split_max1. rewrite split_first_nn.
  destruct (split_nn text) as [[head tail]|]; [|intros _; reflexivity].
  intros [Htags Hmoves]. cbn [bind py_unpack2].
  unfold re_findall2, re_sub, re_split.
  change (regex_eqb PtnParseGen.re_1 known_tag) with true.
  change (regex_eqb PtnParseGen.re_2 known_comment) with true.
  change (regex_eqb PtnParseGen.re_3 known_space) with true.
  change (pystr_eqb (pystr " ") [32]) with true. cbn [andb]. cbn iota.
  destruct (scan_tags head true 0) as [l|]; [|congruence]. cbn [bind].
  rewrite (gen_token_loop_eq _ (tokens_no_newline _) Hmoves).
  rewrite py_dict_of_pairs_eq.
  destruct (run_tokens (re_split_ws (sub_comments tail 0))); cbn [embed_moves bind ret app embed_game]; try reflexivity.
Qed.

(* every text the model parses to a game, refuses for a missing blank line, is in that domain *)
Lemma game_ok_modelled text :
  (exists tags ms, parse_game text = GameOk tags ms) \/ parse_game text = GameNoSplit -> game_modelled text.
Proof.
  unfold parse_game, game_modelled. destruct (split_nn text) as [[head tail]|]; [|intros _; exact I].
  destruct (run_tokens (re_split_ws (sub_comments tail 0))) as [ms| |];
    destruct (scan_tags head true 0) as [l|]; intros [(tags & ms' & H)|H]; try discriminate; split; congruence.
Qed.


(* ------------------------------------------------------------------ *)
(* the library's regex functions are sound for the declarative          *)
(* semantics of spec/RegexSpec.v (by proofs/TiePtnRegex.v)               *)
(* ------------------------------------------------------------------ *)
Lemma citems_eqb_eq a : forall b, list_eqb citem_eqb a b = true -> a = b.
Proof.
  induction a as [|x a IH]; intros [|y b]; cbn [list_eqb]; intros H; try reflexivity; try discriminate.
  apply andb_true_iff in H. destruct H as [H1 H2]. rewrite (IH b H2). f_equal.
  destruct x, y; cbn [citem_eqb] in H1; try discriminate.
  - apply Z.eqb_eq in H1. subst. reflexivity.
  - apply andb_true_iff in H1. destruct H1 as [Ha Hb]. apply Z.eqb_eq in Ha. apply Z.eqb_eq in Hb. subst. reflexivity.
Qed.
Lemma regex_eqb_eq a : forall b, regex_eqb a b = true -> a = b.
Proof.
  induction a; intros b; destruct b; cbn [regex_eqb]; intros H; try reflexivity; try discriminate.
  - apply Z.eqb_eq in H. subst. reflexivity.
  - apply citems_eqb_eq in H. subst. reflexivity.
  - apply citems_eqb_eq in H. subst. reflexivity.
  - destruct k, k0; cbn in H; try discriminate; reflexivity.
  - apply andb_true_iff in H. destruct H as [H1 H2]. rewrite (IHa1 _ H1), (IHa2 _ H2). reflexivity.
  - apply andb_true_iff in H. destruct H as [H1 H2]. rewrite (IHa1 _ H1), (IHa2 _ H2). reflexivity.
  - rewrite (IHa _ H). reflexivity.
  - rewrite (IHa _ H). reflexivity.
  - rewrite (IHa _ H). reflexivity.
  - apply andb_true_iff in H. destruct H as [H1 H2]. apply Nat.eqb_eq in H1. subst. rewrite (IHa _ H2). reflexivity.
Qed.

(* group k of the match object = the k-th capture *)
Definition caps_list (gs : list (list Z)) : caps := combine (seq 1 (length gs)) gs.

(* m = re.search(r, s) *)
Lemma re_search_groups_sound r s m :
  re_search_groups r s = Ok m ->
  match m with
  | Some gs => search E r s (caps_list gs)
  | None => forall cp, ~ search E r s cp
  end.
Proof.
  unfold re_search_groups. destruct (regex_eqb r known_move) eqn:Er; [|discriminate].
  apply regex_eqb_eq in Er. subst r. intros H. injection H as <-.
  change known_move with move_re. destruct (match_move s) as [g|] eqn:Eg.
  - apply move_matcher. exists g. split; [exact Eg|reflexivity].
  - intros cp H. apply move_matcher in H. destruct H as (g & Hg & _). congruence.
Qed.

Lemma bos_search_rematch r' s cp : search E (Seq Bos r') s cp <-> rematch E (Seq Bos r') s cp.
Proof.
  split.
  - intros (pre & m & post & -> & H). pose proof H as H'. apply seq_inv in H'.
    destruct H' as (s0 & t & c0 & k & _ & _ & H0 & _). apply bos_inv in H0. destruct H0 as (-> & _ & _).
    exists m, post. split; [reflexivity|exact H].
  - intros (m & post & -> & H). exists [], m, post. split; [reflexivity|exact H].
Qed.

(* `if re.search(r, s)` / `if re.match(r, s)` *)
Lemma re_test_sound anchored r s b :
  re_test anchored r s = Ok b ->
  (b = true <-> exists cp, search E r s cp) /\ (b = true <-> exists cp, rematch E r s cp).
Proof.
  unfold re_test. destruct (regex_eqb r known_result) eqn:E1.
  - apply regex_eqb_eq in E1. subst r. intros H. injection H as <-. change known_result with result_re.
    split; [apply is_result_matcher|]. rewrite is_result_matcher. unfold result_re.
    split; intros (cp & H); exists cp; apply bos_search_rematch; exact H.
  - destruct (regex_eqb r known_number) eqn:E2; [|discriminate].
    apply regex_eqb_eq in E2. subst r. intros H. injection H as <-. change known_number with number_re.
    split; [apply is_move_number_matcher|]. rewrite is_move_number_matcher. unfold number_re.
    split; intros (cp & H); exists cp; apply bos_search_rematch; exact H.
Qed.

(* re.sub(r, rep, s): the comment pattern - leftmost, non-overlapping replacement; the suffix pattern on a subject
   without a newline - what proofs/TiePtnRegex.strip_suffix_is_sub says of strip_suffix *)
Lemma re_sub_sound r rep s out :
  re_sub r rep s = Ok out ->
  (r = comment_re /\ rep = [32] /\ resub E r rep [] s out) \/
  (r = suffix_re /\ rep = [] /\ ~ In 10 s /\ out = strip_suffix s).
Proof.
  unfold re_sub. destruct (regex_eqb r known_comment && pystr_eqb rep [32]) eqn:E1.
  - apply andb_true_iff in E1. destruct E1 as [E1 E2]. apply regex_eqb_eq in E1. apply str_eqb_eq in E2. subst.
    intros H. injection H as <-. left. repeat split. apply sub_comments_is_sub.
  - destruct (regex_eqb r known_suffix && pystr_eqb rep []) eqn:E2; [|discriminate].
    apply andb_true_iff in E2. destruct E2 as [E2 E3]. apply regex_eqb_eq in E2. apply str_eqb_eq in E3. subst.
    destruct (existsb (Z.eqb 10) s) eqn:Enl; [discriminate|]. intros H. injection H as <-. right. repeat split.
    intros Hin. assert (existsb (Z.eqb 10) s = true) by (apply existsb_exists; exists 10; split; [exact Hin|reflexivity]).
    congruence.
Qed.

(* re.split(r, s): cut at the leftmost, longest white-space runs *)
Lemma re_split_sound r s out : re_split r s = Ok out -> r = space_re /\ resplit E r [] s out.
Proof.
  unfold re_split. destruct (regex_eqb r known_space) eqn:E1; [|discriminate]. apply regex_eqb_eq in E1. subst.
  intros H. injection H as <-. split; [reflexivity|]. apply re_split_ws_is_split.
Qed.
(* re.findall(r, s) with the flag re.M in the term: leftmost, non-overlapping matches, each unique at its start *)
Lemma re_findall2_sound r s out : re_findall2 r s = Ok out -> r = tag_re /\ refindall2 E r [] s out.
Proof.
  unfold re_findall2. destruct (regex_eqb r known_tag) eqn:E1; [|discriminate]. apply regex_eqb_eq in E1. subst.
  destruct (scan_tags s true 0) as [l|] eqn:Es; [|discriminate]. intros H. injection H as <-.
  split; [reflexivity|]. apply scan_tags_is_findall. exact Es.
Qed.

(* ------------------------------------------------------------------ *)
(* C14 transported to the regenerated parse_move                         *)
(* ------------------------------------------------------------------ *)
(* no other error escapes: no KeyError from slide_map[dir] / place_map[stone], no TypeError from ord / sum(None),
   no ValueError from int(pickup) or the unpacking of m.groups(), no AttributeError from m.groups() *)
Lemma gen_parse_move_no_crash s : PtnParseGen.parse_move s = Illegal \/ exists m, PtnParseGen.parse_move s = Ok m.
Proof. rewrite gen_parse_move_eq. destruct (parse_move_raw s) as [m|]; [right; exists m; reflexivity|left; reflexivity]. Qed.

Lemma gen_parse_move_refuses s : PtnParseGen.parse_move s = Illegal <-> parse_move s = Reject.
Proof.
  rewrite gen_parse_move_eq. unfold parse_move, parse_move_raw.
  destruct (match_move s) as [g|]; [|split; reflexivity].
  destruct (post_checks g) as [m|]; [|split; reflexivity].
  cbn [embed]. destruct (lenient g); split; discriminate.
Qed.

Lemma gen_parse_move_denotes s m :
  (ptn_denotes s m -> PtnParseGen.parse_move s = Ok m) /\
  (PtnParseGen.parse_move s = Ok m -> ptn_denotes s m \/ ptn_lenient s).
Proof.
  rewrite gen_parse_move_eq. split.
  - intros H. apply denotes_parse in H. pose proof (raw_of_parse s) as Hr. rewrite H in Hr. rewrite Hr. reflexivity.
  - intros H. pose proof (raw_of_parse s) as Hr. destruct (parse_move s) as [m'| |] eqn:Ep.
    + rewrite Hr in H. injection H as <-. left. apply parse_denotes. exact Ep.
    + rewrite Hr in H. discriminate.
    + right. apply parse_unspecified. exact Ep.
Qed.

Lemma gen_parse_format_move m : wf_move8 m -> PtnParseGen.parse_move (format_move m) = Ok m.
Proof. intros H. apply gen_parse_move_denotes. apply format_denotes. exact H. Qed.
