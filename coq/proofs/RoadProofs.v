(* C02: the flood fill of model/Road.v decides exactly the declarative road of
   spec/RoadSpec.v, and `winner` is the outcome relation of the property. *)
From Coq Require Import ZArith List Bool Lia.
From TV Require Import model.Tak model.Road model.Lit spec.RoadSpec proofs.ListUtil proofs.Reach.
Import ListNotations.
Open Scope Z_scope.

(* ---------- squares ---------- *)
Lemma zrange_In n x : In x (zrange n) <-> 0 <= x < n.
Proof.
  unfold zrange. rewrite in_map_iff. split.
  - intros (k & <- & Hk). apply in_seq in Hk. lia.
  - intros H. exists (Z.to_nat x). split; [lia|]. apply in_seq. lia.
Qed.

Lemma zrange_length n : length (zrange n) = Z.to_nat n.
Proof. unfold zrange. rewrite map_length, seq_length. reflexivity. Qed.

Lemma all_squares_In n v : In v (all_squares n) <-> 0 <= fst v < n /\ 0 <= snd v < n.
Proof.
  unfold all_squares. rewrite in_flat_map. split.
  - intros (x & Hx & Hv). apply in_map_iff in Hv. destruct Hv as (y & <- & Hy).
    apply zrange_In in Hx. apply zrange_In in Hy. simpl. lia.
  - intros (Hx & Hy). exists (fst v). split; [apply zrange_In; assumption|].
    apply in_map_iff. exists (snd v). split; [destruct v; reflexivity|apply zrange_In; assumption].
Qed.

Lemma flat_map_const_length {A B} (f : A -> list B) (k : nat) (l : list A) :
  (forall a, length (f a) = k) -> length (flat_map f l) = (length l * k)%nat.
Proof.
  intros Hf. induction l as [|a l IH]; simpl; [reflexivity|].
  rewrite app_length, Hf, IH. reflexivity.
Qed.

Lemma all_squares_length n : 0 <= n -> length (all_squares n) = Z.to_nat (n * n).
Proof.
  intros Hn. unfold all_squares.
  rewrite (flat_map_const_length _ (Z.to_nat n)).
  - rewrite zrange_length. rewrite Z2Nat.inj_mul by lia. reflexivity.
  - intros a. rewrite map_length. apply zrange_length.
Qed.

Lemma sqr_eqb_spec (a b : sqr) : sqr_eqb a b = true <-> a = b.
Proof.
  unfold sqr_eqb. destruct a as [ax ay], b as [bx b_y]. simpl.
  rewrite andb_true_iff, !Z.eqb_eq. split; [intros (-> & ->); reflexivity|intros E; inversion E; auto].
Qed.

Lemma in_bounds_spec n x y : in_bounds n x y = true <-> 0 <= x < n /\ 0 <= y < n.
Proof.
  unfold in_bounds. rewrite !andb_true_iff, !Z.leb_le, !Z.ltb_lt. lia.
Qed.

Lemma color_eqb_spec a b : color_eqb a b = true <-> a = b.
Proof. destruct a, b; simpl; split; intros H; congruence. Qed.
Lemma kind_eqb_spec a b : kind_eqb a b = true <-> a = b.
Proof. destruct a, b; simpl; split; intros H; congruence. Qed.
Lemma kind_is_road_spec k : kind_is_road k = true <-> k = Flat \/ k = Capstone.
Proof. destruct k; simpl; split; intros H; try tauto; try congruence; destruct H; congruence. Qed.

(* the model's square test is the spec's road_top *)
Lemma road_sq_spec p c v : road_sq p c v = true <-> road_top p c v.
Proof.
  unfold road_sq, road_top, on_board. rewrite andb_true_iff, in_bounds_spec.
  destruct (sq p (fst v) (snd v)) as [|top below] eqn:E.
  - split; [intros (_ & H); discriminate|intros (_ & t & b & H & _); discriminate].
  - rewrite andb_true_iff, kind_is_road_spec, color_eqb_spec. split.
    + intros (Hb & Hk & Hc). split; [assumption|]. exists top, below. auto.
    + intros (Hb & t & b & Ht & Hc & Hk). inversion Ht; subst. auto.
Qed.

Lemma adjacent_spec a b : adjacent a b = true <-> orth_adjacent a b.
Proof.
  unfold adjacent, orth_adjacent. cbv zeta.
  rewrite !orb_true_iff, !andb_true_iff, !orb_true_iff, !Z.eqb_eq. lia.
Qed.

Lemma orth_adjacent_sym a b : orth_adjacent a b -> orth_adjacent b a.
Proof. unfold orth_adjacent. lia. Qed.

Lemma adjacent_sym a b : adjacent a b = adjacent b a.
Proof.
  destruct (adjacent a b) eqn:E1, (adjacent b a) eqn:E2; try reflexivity.
  - apply adjacent_spec, orth_adjacent_sym, adjacent_spec in E1. congruence.
  - apply adjacent_spec, orth_adjacent_sym, adjacent_spec in E2. congruence.
Qed.

(* ---------- the model's closure is the generic early-exit closure ---------- *)
Definition gclosure (p : position) (c : color) :=
  closure_ee sqr sqr_eqb (all_squares (size p)) (road_sq p c) adjacent.
Definition gchain (p : position) (c : color) := chain sqr (road_sq p c) adjacent.

Lemma closure_generic p c k : forall W, Road.closure p c k W = gclosure p c k W.
Proof.
  induction k as [|k IH]; intros W; [reflexivity|].
  unfold gclosure. simpl.
  change (Reach.frontier sqr sqr_eqb (all_squares (size p)) (road_sq p c) adjacent W)
    with (Road.frontier p c W).
  destruct (Road.frontier p c W); [reflexivity|apply IH].
Qed.

Lemma road_sq_all p c v : road_sq p c v = true -> In v (all_squares (size p)).
Proof.
  unfold road_sq. intros H. apply andb_prop in H. destruct H as (H & _).
  apply in_bounds_spec in H. apply all_squares_In. assumption.
Qed.

Lemma closure_reach p c seeds0 v :
  0 <= size p ->
  (forall s, In s seeds0 -> road_sq p c s = true) ->
  (In v (Road.closure p c (Z.to_nat (size p * size p)) seeds0) <->
   exists u n, In u seeds0 /\ gchain p c u v n).
Proof.
  intros Hn Hs. rewrite closure_generic. unfold gclosure, gchain.
  apply closure_ee_spec_ge.
  - exact sqr_eqb_spec.
  - apply road_sq_all.
  - assumption.
  - rewrite all_squares_length by assumption. lia.
Qed.

(* ---------- chains <-> the spec's paths ---------- *)
Lemma last_cons {A} l : forall (a d : A), last (a :: l) d = last l a.
Proof.
  induction l as [|b l IH]; intros a d; [reflexivity|].
  change (last (a :: b :: l) d) with (last (b :: l) d). rewrite (IH b d), (IH b a). reflexivity.
Qed.

Lemma linked_snoc l a b :
  linked (l ++ [a]) -> orth_adjacent a b -> linked ((l ++ [a]) ++ [b]).
Proof.
  induction l as [|x l IH]; intros HL Hab.
  - simpl. auto.
  - destruct l as [|y l].
    + simpl in *. tauto.
    + change (orth_adjacent x y /\ linked ((y :: l) ++ [a])) in HL.
      destruct HL as (Hxy & HL).
      change (orth_adjacent x y /\ linked (((y :: l) ++ [a]) ++ [b])). auto.
Qed.

(* a chain from u to v gives a path u :: rest ending in v *)
Lemma chain_path p c u v n : gchain p c u v n ->
  exists rest, Forall (road_top p c) (u :: rest) /\ linked (u :: rest) /\ last (u :: rest) u = v.
Proof.
  induction 1 as [v Hok|u w v n Hc (rest & HF & HL & Hlast) Hok Ha].
  - exists []. split; [|split; [exact I|reflexivity]]. constructor; [apply road_sq_spec; assumption|constructor].
  - exists (rest ++ [v]). split; [|split].
    + change (Forall (road_top p c) ((u :: rest) ++ [v])). apply Forall_app. split; [assumption|].
      constructor; [apply road_sq_spec; assumption|constructor].
    + change (linked ((u :: rest) ++ [v])).
      destruct (exists_last (l := u :: rest)) as (l' & a & El); [discriminate|].
      assert (a = w) as ->.
      { rewrite El in Hlast. rewrite last_last in Hlast. assumption. }
      rewrite El in *. apply linked_snoc; [assumption|].
      apply orth_adjacent_sym, adjacent_spec. assumption.
    + change (last ((u :: rest) ++ [v]) u = v). apply last_last.
Qed.

Lemma chain_prepend p c u w v n :
  road_sq p c u = true -> adjacent w u = true -> gchain p c w v n -> gchain p c u v (S n).
Proof.
  intros Hu Ha Hc. induction Hc as [w Hok|w x v n Hc IH Hok Hax].
  - econstructor; [constructor; eassumption|assumption|assumption].
  - econstructor; [apply IH; assumption|assumption|assumption].
Qed.

(* a path u :: rest gives a chain from u to its last square *)
Lemma path_chain p c : forall rest u,
  Forall (road_top p c) (u :: rest) -> linked (u :: rest) ->
  gchain p c u (last (u :: rest) u) (length rest).
Proof.
  induction rest as [|w rest IH]; intros u HF HL.
  - simpl. constructor. apply road_sq_spec. inversion HF; assumption.
  - inversion HF as [|? ? Hu HF']; subst.
    change (orth_adjacent u w /\ linked (w :: rest)) in HL. destruct HL as (Huw & HL).
    rewrite last_cons. rewrite (last_cons rest w u), <- (last_cons rest w w).
    simpl length. apply chain_prepend with (w := w).
    + apply road_sq_spec; assumption.
    + apply adjacent_spec, orth_adjacent_sym. assumption.
    + apply IH; assumption.
Qed.

(* ---------- walk ---------- *)
Lemma seeds_In n horiz v :
  In v (seeds n horiz) <-> coord horiz v = 0 /\ 0 <= coord (negb horiz) v < n.
Proof.
  unfold seeds. rewrite in_map_iff. destruct v as [x y]. split.
  - intros (i & E & Hi). apply zrange_In in Hi. destruct horiz; inversion E; subst; simpl; lia.
  - intros (H0 & Hr). destruct horiz; simpl in *.
    + exists y. split; [congruence|apply zrange_In; assumption].
    + exists x. split; [congruence|apply zrange_In; assumption].
Qed.

Theorem walk_spec p c horiz : wf_pos p -> (walk p c horiz = true <-> spans p c horiz).
Proof.
  intros (Hn & _). unfold walk. cbv zeta.
  set (W0 := filter (road_sq p c) (seeds (size p) horiz)).
  assert (HW0 : forall s, In s W0 -> road_sq p c s = true).
  { intros s Hs. apply filter_In in Hs. tauto. }
  rewrite existsb_exists. split.
  - intros (v & Hv & Hedge). apply closure_reach in Hv; [|lia|assumption].
    destruct Hv as (u & n & Hu & Hc). apply chain_path in Hc.
    destruct Hc as (rest & HF & HL & Hlast).
    exists u, rest. repeat split; try assumption.
    + apply filter_In in Hu. destruct Hu as (Hu & _). apply seeds_In in Hu. tauto.
    + rewrite Hlast. destruct horiz; simpl; apply Z.eqb_eq; assumption.
  - intros (u & rest & HF & HL & H0 & Hlast).
    exists (last (u :: rest) u). split.
    + apply closure_reach; [lia|assumption|].
      exists u, (length rest). split; [|apply path_chain; assumption].
      apply filter_In. inversion HF as [|? ? Hu _]; subst. split; [|apply road_sq_spec; assumption].
      apply seeds_In. split; [assumption|]. destruct Hu as ((Hx & Hy) & _). destruct horiz; simpl; assumption.
    + destruct horiz; simpl in *; apply Z.eqb_eq; assumption.
Qed.

Theorem color_has_road_spec p c : wf_pos p -> (color_has_road p c = true <-> road p c).
Proof.
  intros Hwf. unfold color_has_road, road. rewrite orb_true_iff, !walk_spec by assumption. reflexivity.
Qed.

(* ---------- the road question ---------- *)
Lemma not_road_false p c : wf_pos p -> (color_has_road p c = false <-> ~ road p c).
Proof.
  intros Hwf. rewrite <- color_has_road_spec by assumption.
  destruct (color_has_road p c); split; intros H; congruence.
Qed.

Theorem has_road_spec p : wf_pos p -> forall o, road_verdict p o <-> has_road p = o.
Proof.
  intros Hwf o. unfold has_road. cbv zeta.
  pose proof (color_has_road_spec p White Hwf) as HW.
  pose proof (color_has_road_spec p Black Hwf) as HB.
  pose proof (not_road_false p White Hwf) as HW'.
  pose proof (not_road_false p Black Hwf) as HB'.
  split.
  - intros H. destruct H as [Hw Hb|c Hc Hn|Hw Hb].
    + apply HW in Hw. apply HB in Hb. rewrite Hw, Hb. reflexivity.
    + destruct c; simpl in Hn.
      * apply HW in Hc. apply HB' in Hn. rewrite Hc, Hn. reflexivity.
      * apply HB in Hc. apply HW' in Hn. rewrite Hc, Hn. reflexivity.
    + apply HW' in Hw. apply HB' in Hb. rewrite Hw, Hb. reflexivity.
  - intros <-.
    destruct (color_has_road p White) eqn:Ew, (color_has_road p Black) eqn:Eb; simpl.
    + apply rv_both; [apply HW|apply HB]; reflexivity.
    + apply rv_one; [apply HW; reflexivity|apply HB'; reflexivity].
    + apply rv_one; [apply HB; reflexivity|apply HW'; reflexivity].
    + apply rv_none; [apply HW'|apply HB']; reflexivity.
Qed.

(* the road query alone answers the same road question as winner *)
Theorem has_road_agrees_winner p c : has_road p = Some c <-> winner p = (Some c, Some Road).
Proof.
  unfold winner. destruct (has_road p) as [c'|].
  - split; intros H; inversion H; reflexivity.
  - split; [discriminate|]. destruct (board_full p || out_of_pieces p); discriminate.
Qed.

Theorem has_road_none_winner p : has_road p = None <-> snd (winner p) <> Some Road.
Proof.
  unfold winner. destruct (has_road p) as [c'|]; simpl.
  - split; [discriminate|]. intros H; exfalso; apply H; reflexivity.
  - split; [|reflexivity]. intros _. destruct (board_full p || out_of_pieces p); simpl; discriminate.
Qed.

(* ---------- board index <-> coordinates ---------- *)
Lemma idx_coords n i : 1 <= n -> 0 <= i < n * n ->
  0 <= i mod n < n /\ 0 <= i / n < n /\ i / n * n + i mod n = i.
Proof.
  intros Hn Hi.
  pose proof (Z.mod_pos_bound i n ltac:(lia)) as Hm.
  pose proof (Z.div_mod i n ltac:(lia)) as Hd.
  assert (0 <= i / n) by (apply Z.div_pos; lia).
  assert (i / n < n) by (apply Z.div_lt_upper_bound; lia).
  lia.
Qed.

Lemma coords_idx n x y : 1 <= n -> 0 <= x < n -> 0 <= y < n ->
  0 <= y * n + x < n * n /\ (y * n + x) mod n = x /\ (y * n + x) / n = y.
Proof.
  intros Hn Hx Hy. split; [nia|].
  assert (Hq : y * n + x = n * y + x) by lia.
  symmetry in Hq. 
  pose proof (Z.div_mod_unique n ((y * n + x) / n) y ((y * n + x) mod n) x) as U.
  pose proof (Z.mod_pos_bound (y * n + x) n ltac:(lia)) as Hm.
  pose proof (Z.div_mod (y * n + x) n ltac:(lia)) as Hd.
  destruct U as (U1 & U2); [left; lia|left; lia|lia|]. split; assumption.
Qed.

Lemma sq_nth p v : sq p (fst v) (snd v) = nth (Z.to_nat (snd v * size p + fst v)) (board p) [].
Proof. reflexivity. Qed.

(* every on-board square is an element of the board list and conversely *)
Lemma sq_In p v : wf_pos p -> on_board p v -> In (sq p (fst v) (snd v)) (board p).
Proof.
  intros (Hn & Hlen) (Hx & Hy). rewrite sq_nth. apply nth_In.
  destruct (coords_idx (size p) (fst v) (snd v) Hn Hx Hy) as (Hi & _).
  unfold zlen in Hlen. lia.
Qed.

Lemma In_sq p s : wf_pos p -> In s (board p) -> exists v, on_board p v /\ sq p (fst v) (snd v) = s.
Proof.
  intros (Hn & Hlen) Hs. destruct (In_nth _ _ [] Hs) as (i & Hi & Hnth).
  unfold zlen in Hlen.
  assert (Hiz : 0 <= Z.of_nat i < size p * size p) by (unfold stack in *; lia).
  destruct (idx_coords (size p) (Z.of_nat i) Hn Hiz) as (Hx & Hy & E).
  exists (Z.of_nat i mod size p, Z.of_nat i / size p). split; [split; assumption|].
  rewrite sq_nth. simpl fst. simpl snd. rewrite E, Nat2Z.id. assumption.
Qed.

Lemma board_full_spec p : wf_pos p -> (board_full p = true <-> all_occupied p).
Proof.
  intros Hwf. unfold board_full, all_occupied. rewrite forallb_forall. split.
  - intros H v Hv. specialize (H _ (sq_In p v Hwf Hv)).
    destruct (sq p (fst v) (snd v)); [discriminate|discriminate].
  - intros H s Hs. destruct (In_sq p s Hwf Hs) as (v & Hv & <-).
    specialize (H v Hv). destruct (sq p (fst v) (snd v)); [contradiction|reflexivity].
Qed.

Lemma out_of_pieces_spec p : out_of_pieces p = true <-> reserve_empty p.
Proof. unfold out_of_pieces, reserve_empty. rewrite orb_true_iff, !Z.eqb_eq. reflexivity. Qed.

(* ---------- counting top flats ---------- *)
Lemma top_flat_of_spec c s : top_flat_of c s = true <-> exists below, s = mkPiece c Flat :: below.
Proof.
  unfold top_flat_of. destruct s as [|[pc pk] below].
  - split; [discriminate|intros (b & H); discriminate].
  - simpl. rewrite andb_true_iff, kind_eqb_spec, color_eqb_spec. split.
    + intros (-> & ->). eauto.
    + intros (b & H). inversion H; auto.
Qed.

Lemma filter_map_length {A B} (f : B -> bool) (g : A -> B) l :
  length (filter f (map g l)) = length (filter (fun x => f (g x)) l).
Proof. induction l as [|a l IH]; simpl; [reflexivity|]. destruct (f (g a)); simpl; rewrite IH; reflexivity. Qed.

Lemma filter_nth_length {A} (f : A -> bool) d (l : list A) :
  length (filter (fun i => f (nth i l d)) (seq 0 (length l))) = length (filter f l).
Proof.
  induction l as [|x l IH] using rev_ind; [reflexivity|].
  rewrite app_length. simpl length. rewrite Nat.add_1_r, seq_S, !filter_app, !app_length.
  simpl. rewrite nth_middle. f_equal.
  - rewrite <- IH. f_equal. apply filter_ext_in. intros i Hi. apply in_seq in Hi.
    rewrite app_nth1 by lia. reflexivity.
  - destruct (f x); reflexivity.
Qed.

Definition coords (n i : Z) : sqr := (i mod n, i / n).
Definition flat_squares (p : position) (c : color) : list sqr :=
  map (coords (size p))
      (filter (fun i => top_flat_of c (getz [] (board p) i)) (zrange (zlen (board p)))).

Lemma flat_squares_length p c : zlen (flat_squares p c) = flat_count_of p c.
Proof.
  unfold flat_squares, flat_count_of, zlen, zrange. rewrite map_length. f_equal.
  rewrite filter_map_length, Nat2Z.id.
  rewrite <- (filter_nth_length (top_flat_of c) [] (board p)). f_equal.
  apply filter_ext. intros i. unfold getz. rewrite Nat2Z.id. reflexivity.
Qed.

Lemma flat_squares_In p c v : wf_pos p -> (In v (flat_squares p c) <-> top_flat p c v).
Proof.
  intros (Hn & Hlen). unfold flat_squares, top_flat. rewrite in_map_iff. split.
  - intros (i & <- & Hi). apply filter_In in Hi. destruct Hi as (Hi & Hf).
    apply zrange_In in Hi. rewrite Hlen in Hi.
    destruct (idx_coords (size p) i Hn Hi) as (Hx & Hy & E).
    split; [split; assumption|]. apply top_flat_of_spec in Hf.
    unfold sq, coords. simpl fst. simpl snd. rewrite E. assumption.
  - intros ((Hx & Hy) & Hf).
    destruct (coords_idx (size p) (fst v) (snd v) Hn Hx Hy) as (Hi & Em & Ed).
    exists (snd v * size p + fst v). split.
    + unfold coords. rewrite Em, Ed. destruct v; reflexivity.
    + apply filter_In. split; [apply zrange_In; rewrite Hlen; assumption|].
      apply top_flat_of_spec. exact Hf.
Qed.

Lemma flat_squares_nodup p c : wf_pos p -> NoDup (flat_squares p c).
Proof.
  intros (Hn & Hlen). unfold flat_squares. apply NoDup_map_inj.
  - intros a b Ha Hb E. apply filter_In in Ha, Hb. destruct Ha as (Ha & _), Hb as (Hb & _).
    apply zrange_In in Ha, Hb. rewrite Hlen in Ha, Hb.
    destruct (idx_coords (size p) a Hn Ha) as (_ & _ & Ea).
    destruct (idx_coords (size p) b Hn Hb) as (_ & _ & Eb).
    unfold coords in E. inversion E as [[E1 E2]]. rewrite <- Ea, <- Eb, E1, E2. reflexivity.
  - apply NoDup_filter. unfold zrange. apply NoDup_seq_Z.
Qed.

Theorem flat_count_spec p c : wf_pos p -> top_flats p c (flat_count_of p c).
Proof.
  intros Hwf. exists (flat_squares p c). split; [apply flat_squares_nodup; assumption|].
  split; [intros v; apply flat_squares_In; assumption|]. symmetry. apply flat_squares_length.
Qed.

Lemma top_flats_functional p c k k' : top_flats p c k -> top_flats p c k' -> k = k'.
Proof.
  intros (L & HL & HinL & ->) (L' & HL' & HinL' & ->). unfold zlen. f_equal.
  apply Nat.le_antisymm; apply NoDup_incl_length; try assumption; intros v Hv.
  - apply HinL'. apply HinL. assumption.
  - apply HinL. apply HinL'. assumption.
Qed.

Lemma flats_winner_verdict p :
  flats_winner p = flat_verdict (flat_count_of p White) (flat_count_of p Black).
Proof.
  unfold flats_winner, flat_verdict. cbv zeta.
  destruct (Z.compare_spec (flat_count_of p White) (flat_count_of p Black)) as [E|E|E];
  destruct (flat_count_of p Black <? flat_count_of p White) eqn:E1;
  destruct (flat_count_of p White <? flat_count_of p Black) eqn:E2; try reflexivity; lia.
Qed.

(* ---------- winner ---------- *)
Lemma ended_spec p : wf_pos p ->
  (board_full p || out_of_pieces p = true <-> all_occupied p \/ reserve_empty p).
Proof. intros Hwf. rewrite orb_true_iff, board_full_spec, out_of_pieces_spec by assumption. reflexivity. Qed.

Theorem winner_spec p : wf_pos p -> forall r, outcome p r <-> winner p = r.
Proof.
  intros Hwf r. pose proof (has_road_spec p Hwf) as HR. pose proof (ended_spec p Hwf) as HE.
  unfold winner. split.
  - intros H. destruct H as [c Hc|w b Hn He Hw Hb|Hn He].
    + apply HR in Hc. rewrite Hc. reflexivity.
    + apply HR in Hn. rewrite Hn. apply HE in He. rewrite He.
      rewrite (top_flats_functional _ _ _ _ Hw (flat_count_spec p White Hwf)).
      rewrite (top_flats_functional _ _ _ _ Hb (flat_count_spec p Black Hwf)).
      rewrite flats_winner_verdict. reflexivity.
    + apply HR in Hn. rewrite Hn.
      destruct (board_full p || out_of_pieces p) eqn:E; [|reflexivity].
      exfalso. apply He, HE. reflexivity.
  - intros <-. destruct (has_road p) as [c|] eqn:Eh.
    + apply out_road. apply HR. reflexivity.
    + assert (Hnone : road_verdict p None) by (apply HR; reflexivity).
      destruct (board_full p || out_of_pieces p) eqn:E.
      * rewrite flats_winner_verdict. apply out_flats.
        -- assumption.
        -- apply HE. reflexivity.
        -- apply flat_count_spec; assumption.
        -- apply flat_count_spec; assumption.
      * apply out_open; [assumption|]. intros He. apply HE in He. congruence.
Qed.

(* the outcome relation is total and single-valued on well-formed positions *)
Corollary outcome_total p : wf_pos p -> outcome p (winner p).
Proof. intros Hwf. apply winner_spec; [assumption|reflexivity]. Qed.
Corollary outcome_functional p r r' : wf_pos p -> outcome p r -> outcome p r' -> r = r'.
Proof. intros Hwf H H'. apply winner_spec in H, H'; try assumption. congruence. Qed.
Corollary road_decidable p c : wf_pos p -> road p c \/ ~ road p c.
Proof.
  intros Hwf. destruct (color_has_road p c) eqn:E.
  - left. apply color_has_road_spec; assumption.
  - right. apply not_road_false; assumption.
Qed.

(* ---------- Examples (3x3; board index = y*3 + x) ---------- *)
(* White: a1 b1, capstone on b2 (on top of a black flat), c2: a winding road
   left to right; it is Black's turn (ply 9), so White just moved. *)
Definition ex_road : position :=
  P 3 6 0 7 1 9 [[WF]; [WF]; []; [BF]; [WC; BF]; [WF]; []; [BS]; []].
(* the same with a white WALL on b2, and with the white flat on b2 buried
   under a black flat *)
Definition ex_wall : position :=
  P 3 6 0 7 1 9 [[WF]; [WF]; []; [BF]; [WS; BF]; [WF]; []; [BS]; []].
Definition ex_buried : position :=
  P 3 6 0 7 1 9 [[WF]; [WF]; []; [BF]; [BF; WF]; [WF]; []; [BS]; []].
(* a full board without a road: top flats 2 : 2 (buried flats would make it 4 : 3) *)
Definition ex_full : position :=
  P 3 3 0 4 1 12 [[WF]; [BF]; [WS]; [BF; WF; WF]; [WF]; [BS]; [WS]; [BS; BF]; [WC]].
(* both colours have a road (White along rank 1, Black along rank 3) *)
Definition ex_both (pl : Z) : position :=
  P 3 7 0 7 0 pl [[WF]; [WF]; [WF]; []; []; []; [BF]; [BF]; [BC]].

Example ex_road_wf : wf_pos ex_road. Proof. split; [vm_compute; discriminate|reflexivity]. Qed.
Example ex_wall_wf : wf_pos ex_wall. Proof. split; [vm_compute; discriminate|reflexivity]. Qed.
Example ex_buried_wf : wf_pos ex_buried. Proof. split; [vm_compute; discriminate|reflexivity]. Qed.
Example ex_full_wf : wf_pos ex_full. Proof. split; [vm_compute; discriminate|reflexivity]. Qed.
Example ex_both_wf pl : wf_pos (ex_both pl). Proof. split; [vm_compute; discriminate|reflexivity]. Qed.

(* the road exhibited directly against the spec (no model involved) *)
Example ex_road_path : spans ex_road White true.
Proof.
  exists (0, 0), [(1, 0); (1, 1); (2, 1)]. split; [|split; [|split]].
  - repeat constructor; simpl; try lia;
      (eexists; eexists; split; [reflexivity|split; [reflexivity|auto]]).
  - simpl. unfold orth_adjacent. simpl. lia.
  - reflexivity.
  - reflexivity.
Qed.
Example ex_road_white : road ex_road White. Proof. left. exact ex_road_path. Qed.
Example ex_road_model : winner ex_road = (Some White, Some Road) /\ has_road ex_road = Some White.
Proof. split; vm_compute; reflexivity. Qed.
Example ex_road_outcome : outcome ex_road (Some White, Some Road).
Proof. apply winner_spec; [exact ex_road_wf|vm_compute; reflexivity]. Qed.

Example ex_wall_no_road : ~ road ex_wall White /\ outcome ex_wall (None, None).
Proof.
  split.
  - apply not_road_false; [exact ex_wall_wf|vm_compute; reflexivity].
  - apply winner_spec; [exact ex_wall_wf|vm_compute; reflexivity].
Qed.
Example ex_buried_no_road : ~ road ex_buried White /\ ~ road ex_buried Black /\ outcome ex_buried (None, None).
Proof.
  split; [|split].
  - apply not_road_false; [exact ex_buried_wf|vm_compute; reflexivity].
  - apply not_road_false; [exact ex_buried_wf|vm_compute; reflexivity].
  - apply winner_spec; [exact ex_buried_wf|vm_compute; reflexivity].
Qed.
Example ex_full_draw :
  top_flats ex_full White 2 /\ top_flats ex_full Black 2 /\ all_occupied ex_full /\
  outcome ex_full (None, Some Flats).
Proof.
  split; [|split; [|split]].
  - exact (flat_count_spec ex_full White ex_full_wf).
  - exact (flat_count_spec ex_full Black ex_full_wf).
  - apply board_full_spec; [exact ex_full_wf|vm_compute; reflexivity].
  - apply winner_spec; [exact ex_full_wf|vm_compute; reflexivity].
Qed.
(* both roads: the player who just moved wins, for either parity of ply *)
Example ex_both_mover :
  outcome (ex_both 10) (Some Black, Some Road) /\ outcome (ex_both 11) (Some White, Some Road).
Proof. split; (apply winner_spec; [apply ex_both_wf|vm_compute; reflexivity]). Qed.
