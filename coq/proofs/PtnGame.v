(* C14, game notation: PTN.parse on the texts produced by the model's own
   renderer (tags, then tokens separated by white space and brace comments). *)
From Coq Require Import ZArith List Bool Lia.
From TV Require Import model.Tak model.Ptn spec.MoveSpec spec.PtnSpec proofs.PtnProofs.
Import ListNotations.
Open Scope Z_scope.

(* ------------------------------------------------------------------ *)
(* the decoration class D                                               *)
(* ------------------------------------------------------------------ *)
Definition tag_ok (t : tag) : Prop :=
  fst t <> [] /\ Forall (fun c => word_class c = Some true) (fst t) /\
  snd t <> [] /\ Forall (fun c => c <> 34 /\ c <> 10) (snd t).
Definition tags_ok (tags : list tag) : Prop := Forall tag_ok tags /\ NoDup (map fst tags).

Definition satom_ok (a : satom) : Prop :=
  match a with
  | SWs c => is_space c = true
  | SCom b => b <> [] /\ Forall (fun c => c <> 125) b
  end.
Definition sep_ok (s : sep) : Prop := Forall satom_ok s.
Definition tok_ok (t : tok) : Prop :=
  match t with
  | TMove m suf => wf_move8 m /\ Forall (fun c => is_suffix_char c = true) suf
  | TNum n => 0 <= n
  | TRes a b => In a result_halves /\ In b result_halves
  | TDash => True
  end.
(* every separator between two tokens is non-empty; the last one may be empty *)
Fixpoint body_ok (body : list (tok * sep)) : Prop :=
  match body with
  | [] => True
  | ts :: rest => tok_ok (fst ts) /\ sep_ok (snd ts) /\ (rest <> [] -> snd ts <> []) /\ body_ok rest
  end.

(* ------------------------------------------------------------------ *)
(* strings                                                              *)
(* ------------------------------------------------------------------ *)
Lemma str_eqb_eq (a b : str) : str_eqb a b = true <-> a = b.
Proof.
  unfold str_eqb. revert b. induction a as [|x a IH]; intros [|y b]; cbn [list_eqb]; split; intros H;
    try reflexivity; try discriminate.
  - apply andb_true_iff in H. destruct H as [H1 H2]. apply Z.eqb_eq in H1. apply IH in H2. subst. reflexivity.
  - injection H as -> ->. rewrite Z.eqb_refl. apply IH. reflexivity.
Qed.
Lemma str_eqb_refl a : str_eqb a a = true.
Proof. apply str_eqb_eq. reflexivity. Qed.

(* printable ASCII between ! and z: neither white space nor a brace *)
Definition plain (c : Z) : Prop := 33 <= c <= 122.
Lemma plain_not_space c : plain c -> is_space c = false.
Proof.
  unfold plain, is_space, in_ranges, space_ranges. intros H. cbn [existsb fst snd].
  repeat match goal with
         | |- context [?a <=? ?b] => destruct (Z.leb_spec a b); try lia
         end; reflexivity.
Qed.
Lemma space_not_brace c : is_space c = true -> c <> 123.
Proof. intros H ->. vm_compute in H. discriminate. Qed.

(* ------------------------------------------------------------------ *)
(* text.split on the first blank line                                   *)
(* ------------------------------------------------------------------ *)
Lemma split_nn_plain l r :
  Forall (fun c => c <> 10) l ->
  split_nn (l ++ r) = match split_nn r with Some (h, t) => Some (l ++ h, t) | None => None end.
Proof.
  induction 1 as [|c l Hc Hl IH]; cbn [app].
  - destruct (split_nn r) as [[h t]|]; reflexivity.
  - cbn [split_nn]. destruct (Z.eqb_spec c 10) as [E|_]; [contradiction|]. cbn [andb].
    rewrite IH. destruct (split_nn r) as [[h t]|]; reflexivity.
Qed.
Lemma split_nn_here t : split_nn (10 :: 10 :: t) = Some ([], t).
Proof. reflexivity. Qed.
Lemma split_nn_single c r :
  c <> 10 -> split_nn (10 :: c :: r) = match split_nn (c :: r) with Some (h, t) => Some (10 :: h, t) | None => None end.
Proof.
  intros Hc. cbn [split_nn starts_nl]. destruct (Z.eqb_spec c 10) as [E|_]; [contradiction|]. reflexivity.
Qed.

Lemma word_not_nl c : word_class c = Some true -> c <> 10 /\ c <> 34 /\ c <> 32.
Proof. intros H. repeat split; intros ->; vm_compute in H; discriminate. Qed.

Lemma render_tag_plain t : tag_ok t -> Forall (fun c => c <> 10) (render_tag t).
Proof.
  intros (_ & Hk & _ & Hv). unfold render_tag.
  constructor; [discriminate|]. apply Forall_app. split.
  - eapply Forall_impl; [|exact Hk]. intros c Hc. cbn beta in Hc. apply word_not_nl in Hc. cbn beta. tauto.
  - cbn [app]. constructor; [discriminate|]. constructor; [discriminate|].
    apply Forall_app. split.
    + eapply Forall_impl; [|exact Hv]. intros c Hc. cbn beta in *. tauto.
    + constructor; [discriminate|]. constructor; [discriminate|constructor].
Qed.

Lemma render_head_cons t t' r : render_head (t :: t' :: r) = render_tag t ++ 10 :: render_head (t' :: r).
Proof. reflexivity. Qed.
Lemma render_head_starts t r : exists rest, render_head (t :: r) = 91 :: rest.
Proof. destruct r as [|t' r]; cbn [render_head]; unfold render_tag; cbn [app]; eexists; reflexivity. Qed.

Lemma split_render_head tags tail :
  Forall tag_ok tags -> split_nn (render_head tags ++ 10 :: 10 :: tail) = Some (render_head tags, tail).
Proof.
  induction 1 as [|t r Ht Hr IH].
  - reflexivity.
  - destruct r as [|t' r].
    + cbn [render_head]. rewrite split_nn_plain by (apply render_tag_plain; exact Ht).
      rewrite split_nn_here, app_nil_r. reflexivity.
    + rewrite render_head_cons. rewrite <- app_assoc. cbn [app].
      rewrite split_nn_plain by (apply render_tag_plain; exact Ht).
      destruct (render_head_starts t' r) as [rest Erest]. rewrite Erest in *. cbn [app] in *.
      rewrite split_nn_single by discriminate. rewrite IH. reflexivity.
Qed.

(* ------------------------------------------------------------------ *)
(* the tag lines                                                        *)
(* ------------------------------------------------------------------ *)
Lemma take_word_run k r :
  Forall (fun c => word_class c = Some true) k ->
  (exists c r', r = c :: r' /\ word_class c = Some false) ->
  take_word (k ++ r) = Some (k, r).
Proof.
  intros Hk (c & r' & -> & Hc). induction Hk as [|a k Ha Hk IH]; cbn [app take_word].
  - rewrite Hc. reflexivity.
  - rewrite Ha, IH. reflexivity.
Qed.
Lemma take_nonquote_run v r : Forall (fun c => c <> 34) v -> take_nonquote (v ++ 34 :: r) = (v, 34 :: r).
Proof.
  induction 1 as [|a v Ha Hv IH]; cbn [app take_nonquote].
  - reflexivity.
  - destruct (Z.eqb_spec a 34) as [E|_]; [contradiction|]. rewrite IH. reflexivity.
Qed.

Lemma render_tag_app t rest :
  render_tag t ++ rest = 91 :: fst t ++ 32 :: 34 :: snd t ++ 34 :: 93 :: rest.
Proof. unfold render_tag. cbn [app]. repeat (rewrite <- app_assoc; cbn [app]). reflexivity. Qed.

Lemma try_tag_render t rest :
  tag_ok t -> at_eol rest = true ->
  try_tag (render_tag t ++ rest) = TagOk (fst t) (snd t) (length (fst t) + length (snd t) + 5).
Proof.
  intros (Hk0 & Hk & Hv0 & Hv) Hrest. rewrite render_tag_app. cbn [try_tag].
  change (91 =? 91) with true. cbn [negb].
  rewrite take_word_run; [|exact Hk|exists 32; eexists; split; reflexivity].
  destruct (fst t) as [|k0 k] eqn:Ek; [congruence|]. cbn [nonempty negb].
  change (32 =? 32) with true. change (34 =? 34) with true. cbn [andb negb].
  rewrite take_nonquote_run by (eapply Forall_impl; [|exact Hv]; intros c Hc; cbn beta in *; tauto).
  change (93 =? 93) with true. rewrite Hrest. cbn [andb negb].
  destruct (snd t) as [|v0 v] eqn:Ev; [congruence|]. reflexivity.
Qed.

Lemma scan_skip a : forall b bol, a <> [] -> scan_tags (a ++ b) bol (length a) = scan_tags b false 0.
Proof.
  induction a as [|c a IH]; intros b bol Hne; [congruence|].
  destruct a as [|c' a'].
  - reflexivity.
  - cbn [app length scan_tags]. apply (IH b false). discriminate.
Qed.

Lemma scan_tag_line t rest :
  tag_ok t -> at_eol rest = true ->
  scan_tags (render_tag t ++ rest) true 0 =
  match scan_tags rest false 0 with Some l => Some (t :: l) | None => None end.
Proof.
  intros Ht Hrest. pose proof (try_tag_render t rest Ht Hrest) as Htry.
  rewrite render_tag_app in *.
  set (body := fst t ++ 32 :: 34 :: snd t ++ 34 :: 93 :: rest) in *.
  cbn [scan_tags]. rewrite Htry.
  assert (Hbody : body = (fst t ++ 32 :: 34 :: snd t ++ [34; 93]) ++ rest).
  { unfold body. repeat (rewrite <- app_assoc; cbn [app]). reflexivity. }
  assert (Hlen : (length (fst t) + length (snd t) + 5 - 1)%nat = length (fst t ++ 32 :: 34 :: snd t ++ [34; 93])).
  { rewrite app_length. cbn [length]. rewrite app_length. cbn [length]. lia. }
  rewrite Hlen, Hbody, scan_skip by (destruct (fst t); discriminate).
  destruct t as [k v]. reflexivity.
Qed.

Lemma scan_render_head tags : Forall tag_ok tags -> scan_tags (render_head tags) true 0 = Some tags.
Proof.
  induction 1 as [|t r Ht Hr IH]; [reflexivity|].
  destruct r as [|t' r].
  - cbn [render_head]. rewrite <- (app_nil_r (render_tag t)). rewrite scan_tag_line by (exact Ht || reflexivity).
    reflexivity.
  - rewrite render_head_cons, scan_tag_line by (exact Ht || reflexivity).
    change (scan_tags (10 :: render_head (t' :: r)) false 0) with (scan_tags (render_head (t' :: r)) true 0).
    rewrite IH. reflexivity.
Qed.

(* dict(pairs) with distinct keys is the list itself *)
Lemma dict_set_fresh d k v : ~ In k (map fst d) -> dict_set d k v = d ++ [(k, v)].
Proof.
  induction d as [|[k' v'] d IH]; cbn [dict_set map In app fst]; intros H; [reflexivity|].
  destruct (str_eqb k' k) eqn:E.
  - apply str_eqb_eq in E. exfalso. apply H. left. exact E.
  - rewrite IH; [reflexivity|]. intros Hin. apply H. right. exact Hin.
Qed.
Lemma dict_fold_fresh l : forall d,
  NoDup (map fst d ++ map fst l) ->
  fold_left (fun d kv => dict_set d (fst kv) (snd kv)) l d = d ++ l.
Proof.
  induction l as [|[k v] l IH]; intros d Hnd; cbn [fold_left map fst snd] in *.
  - rewrite app_nil_r. reflexivity.
  - rewrite dict_set_fresh.
    + rewrite IH.
      * rewrite <- app_assoc. reflexivity.
      * rewrite map_app. cbn [map fst]. rewrite <- app_assoc. exact Hnd.
    + apply NoDup_remove_2 in Hnd. intros Hin. apply Hnd. apply in_or_app. left. exact Hin.
Qed.
Lemma dict_of_nodup l : NoDup (map fst l) -> dict_of l = l.
Proof. intros H. unfold dict_of. rewrite dict_fold_fresh; [reflexivity|exact H]. Qed.

(* ------------------------------------------------------------------ *)
(* brace comments                                                       *)
(* ------------------------------------------------------------------ *)
Definition clean_satom (a : satom) : Z := match a with SWs c => c | SCom _ => 32 end.
Definition clean_sep (s : sep) : str := map clean_satom s.

Lemma sub_skip a : forall b, sub_comments (a ++ b) (length a) = sub_comments b 0.
Proof. induction a as [|c a IH]; intros b; [reflexivity|]. cbn [app length sub_comments]. apply IH. Qed.

Lemma comment_len_run b r : forall seen,
  Forall (fun c => c <> 125) b ->
  comment_len (b ++ 125 :: r) seen =
  match (seen + length b)%nat with O => None | S _ => Some (S (seen + length b)) end.
Proof.
  induction b as [|c b IH]; intros seen Hb; cbn [app comment_len length].
  - change (125 =? 125) with true. rewrite Nat.add_0_r. reflexivity.
  - inversion Hb as [|? ? Hc Hb']; subst. destruct (Z.eqb_spec c 125) as [E|_]; [contradiction|].
    rewrite IH by exact Hb'. rewrite Nat.add_succ_r. reflexivity.
Qed.

Lemma sub_comment b r :
  b <> [] -> Forall (fun c => c <> 125) b -> sub_comments (123 :: b ++ 125 :: r) 0 = 32 :: sub_comments r 0.
Proof.
  intros Hne Hb. cbn [sub_comments]. change (123 =? 123) with true. cbn iota.
  rewrite (comment_len_run b r 0 Hb). cbn [Nat.add].
  destruct b as [|c b']; [congruence|]. cbn [length].
  f_equal. change (c :: b') with ([c] ++ b').
  replace (([c] ++ b') ++ 125 :: r) with (((c :: b') ++ [125]) ++ r) by (rewrite <- app_assoc; reflexivity).
  replace (S (S (length b'))) with (length ((c :: b') ++ [125])) by (rewrite app_length; cbn [length]; lia).
  apply sub_skip.
Qed.

Lemma sub_plain l r : Forall (fun c => c <> 123) l -> sub_comments (l ++ r) 0 = l ++ sub_comments r 0.
Proof.
  induction 1 as [|c l Hc Hl IH]; [reflexivity|]. cbn [app sub_comments].
  destruct (Z.eqb_spec c 123) as [E|_]; [contradiction|]. rewrite IH. reflexivity.
Qed.

Lemma sub_sep s r : sep_ok s -> sub_comments (render_sep s ++ r) 0 = clean_sep s ++ sub_comments r 0.
Proof.
  induction 1 as [|a s Ha Hs IH]; [reflexivity|].
  unfold render_sep, clean_sep in *. cbn [map concat]. rewrite <- app_assoc.
  destruct a as [c|b]; cbn [satom_ok render_satom clean_satom app] in *.
  - destruct (Z.eqb_spec c 123) as [E|_]; [exfalso; exact (space_not_brace c Ha E)|].
    change (c :: concat (map render_satom s) ++ r) with ([c] ++ concat (map render_satom s) ++ r).
    rewrite sub_plain by (constructor; [intros ->; vm_compute in Ha; discriminate|constructor]).
    rewrite IH. reflexivity.
  - destruct Ha as [Hne Hb]. rewrite <- app_assoc. cbn [app].
    rewrite sub_comment by assumption. rewrite IH. reflexivity.
Qed.

(* ------------------------------------------------------------------ *)
(* re.split on white space                                              *)
(* ------------------------------------------------------------------ *)
Definition words (s : str) : list str := filter (fun t => nonempty t) (re_split_ws s).

Lemma split_ws_fst_nil s : head_is_space s = true \/ s = [] -> fst (split_ws s) = [].
Proof.
  intros [H| ->]; [|reflexivity]. destruct s as [|c r]; [discriminate|].
  cbn [head_is_space] in H. cbn [split_ws]. destruct (split_ws r) as [t ts]. rewrite H.
  destruct (head_is_space r); reflexivity.
Qed.

Lemma words_space c s : is_space c = true -> words (c :: s) = words s.
Proof.
  intros Hc. unfold words, re_split_ws. cbn [split_ws].
  destruct (split_ws s) as [t ts] eqn:Es. rewrite Hc.
  destruct (head_is_space s) eqn:Eh; cbn [filter nonempty].
  - assert (Ht : t = []) by (change t with (fst (t, ts)); rewrite <- Es; apply split_ws_fst_nil; left; exact Eh).
    subst t. reflexivity.
  - reflexivity.
Qed.

Lemma split_ws_token t s :
  Forall (fun c => is_space c = false) t ->
  split_ws (t ++ s) = (t ++ fst (split_ws s), snd (split_ws s)).
Proof.
  induction 1 as [|c t Hc Ht IH]; cbn [app].
  - destruct (split_ws s); reflexivity.
  - cbn [split_ws]. rewrite IH, Hc. reflexivity.
Qed.

Lemma words_token t s :
  t <> [] -> Forall (fun c => is_space c = false) t -> (head_is_space s = true \/ s = []) ->
  words (t ++ s) = t :: words s.
Proof.
  intros Hne Ht Hs. unfold words, re_split_ws. rewrite split_ws_token by exact Ht.
  rewrite (split_ws_fst_nil s Hs), app_nil_r.
  destruct (split_ws s) as [t' ts] eqn:Es. cbn [fst snd filter].
  assert (Ht' : t' = []) by (change t' with (fst (t', ts)); rewrite <- Es; apply split_ws_fst_nil; exact Hs).
  subst t'. destruct t; [congruence|]. reflexivity.
Qed.

Lemma words_spaces w s : Forall (fun c => is_space c = true) w -> words (w ++ s) = words s.
Proof. induction 1 as [|c w Hc Hw IH]; [reflexivity|]. cbn [app]. rewrite words_space by exact Hc. exact IH. Qed.

Lemma run_tokens_words ts : run_tokens (filter (fun t => nonempty t) ts) = run_tokens ts.
Proof.
  induction ts as [|t ts IH]; [reflexivity|]. cbn [filter].
  destruct t as [|c t']; cbn [nonempty].
  - cbn [run_tokens str_eqb list_eqb is_result]. rewrite IH.
    change (is_result []) with false. change (is_move_number []) with false. reflexivity.
  - cbn [run_tokens]. rewrite IH. reflexivity.
Qed.

Lemma clean_sep_spaces s : sep_ok s -> Forall (fun c => is_space c = true) (clean_sep s).
Proof.
  induction 1 as [|a s Ha Hs IH]; [constructor|]. unfold clean_sep. cbn [map]. constructor; [|exact IH].
  destruct a as [c|b]; cbn [clean_satom satom_ok] in *; [exact Ha|reflexivity].
Qed.

(* ------------------------------------------------------------------ *)
(* tokens                                                               *)
(* ------------------------------------------------------------------ *)
Lemma dec_digits_shape fuel : forall n acc, 0 <= n ->
  exists ds, dec_digits (S fuel) n acc = ds ++ acc /\ ds <> [] /\ Forall (fun c => 48 <= c <= 57) ds.
Proof.
  induction fuel as [|f IH]; intros n acc Hn.
  - exists [48 + n mod 10]. cbn [dec_digits]. split; [destruct (n <? 10); reflexivity|].
    split; [discriminate|]. constructor; [|constructor]. pose proof (Z.mod_pos_bound n 10). lia.
  - remember (S f) as f1. cbn [dec_digits]. destruct (n <? 10).
    + exists [48 + n mod 10]. split; [reflexivity|]. split; [discriminate|].
      constructor; [|constructor]. pose proof (Z.mod_pos_bound n 10). lia.
    + subst f1. destruct (IH (n / 10) ((48 + n mod 10) :: acc)) as (ds & E & Hne & Hd).
      { apply Z.div_pos; lia. }
      exists (ds ++ [48 + n mod 10]). rewrite E, <- app_assoc. split; [reflexivity|].
      split; [destruct ds; discriminate|]. apply Forall_app. split; [exact Hd|].
      constructor; [|constructor]. pose proof (Z.mod_pos_bound n 10). lia.
Qed.

Lemma str_z_digits n : 0 <= n -> str_z n <> [] /\ Forall (fun c => 48 <= c <= 57) (str_z n).
Proof.
  intros Hn. unfold str_z. destruct (Z.ltb_spec n 0) as [H|_]; [lia|]. unfold str_nat.
  destruct (dec_digits_shape (Z.to_nat (Z.log2 n)) n [] Hn) as (ds & E & Hne & Hd).
  rewrite E, app_nil_r. split; assumption.
Qed.

Lemma ascii_digit_is_digit c : 48 <= c <= 57 -> is_digit c = true.
Proof.
  intros H. unfold is_digit, in_ranges. apply existsb_exists. exists (48, 57).
  split; [left; reflexivity|]. cbn [fst snd]. apply andb_true_iff. split; apply Z.leb_le; lia.
Qed.

Lemma number_token ds : ds <> [] -> Forall (fun c => 48 <= c <= 57) ds -> is_move_number (ds ++ [46]) = true.
Proof.
  intros Hne Hd. unfold is_move_number. induction Hd as [|c ds Hc Hd IH]; [congruence|].
  cbn [app digits_then_dot]. rewrite ascii_digit_is_digit by exact Hc. cbn [andb].
  destruct ds as [|c' ds'].
  - reflexivity.
  - rewrite IH by discriminate. apply orb_true_r.
Qed.

Lemma number_chars t : digits_then_dot t = true -> Forall (fun c => is_digit c = true \/ c = 46) t.
Proof.
  induction t as [|c r IH]; cbn [digits_then_dot]; intros H; [discriminate|].
  apply andb_true_iff in H. destruct H as [Hc H]. apply orb_true_iff in H.
  constructor; [left; exact Hc|]. destruct H as [H|H].
  - apply str_eqb_eq in H. subst r. constructor; [right; reflexivity|constructor].
  - apply IH. exact H.
Qed.

Lemma result_chars t : is_result t = true -> Forall (fun c => classify c <> KFile) t.
Proof.
  unfold is_result. intros H. apply existsb_exists in H. destruct H as (a & Ha & H).
  apply existsb_exists in H. destruct H as (b & Hb & H). apply str_eqb_eq in H. subst t.
  cbn [result_halves In] in Ha, Hb.
  repeat (destruct Ha as [<-|Ha]); try contradiction;
    repeat (destruct Hb as [<-|Hb]); try contradiction;
      cbn [app]; repeat constructor; vm_compute; discriminate.
Qed.

Lemma file_not_digit f : classify f = KFile -> is_digit f = false /\ f <> 46 /\ f <> 45.
Proof.
  intros H. apply classify_file in H.
  assert (E : f = 97 \/ f = 98 \/ f = 99 \/ f = 100 \/ f = 101 \/ f = 102 \/ f = 103 \/ f = 104) by lia.
  repeat (destruct E as [->|E]; [repeat split; (reflexivity || discriminate)|]).
  subst f. repeat split; (reflexivity || discriminate).
Qed.

Lemma suffix_other c : is_suffix_char c = true -> classify c = KOther /\ plain c.
Proof.
  unfold is_suffix_char. intros H. apply orb_true_iff in H. destruct H as [H|H]; [apply orb_true_iff in H; destruct H as [H|H]|];
    apply Z.eqb_eq in H; subst c; split; try reflexivity; unfold plain; lia.
Qed.

Lemma strip_suffix_all suf : Forall (fun c => is_suffix_char c = true) suf -> strip_suffix suf = [].
Proof. induction 1 as [|c suf Hc Hs IH]; [reflexivity|]. cbn [strip_suffix]. rewrite IH, Hc. reflexivity. Qed.

Lemma strip_suffix_app b c suf :
  is_suffix_char c = false -> Forall (fun c => is_suffix_char c = true) suf ->
  strip_suffix (b ++ c :: suf) = b ++ [c].
Proof.
  intros Hc Hs. induction b as [|a b IH]; cbn [app strip_suffix].
  - rewrite (strip_suffix_all suf Hs), Hc. reflexivity.
  - rewrite IH. destruct b; reflexivity.
Qed.

Lemma format_groups m : ptn_ok m -> exists g, format_move m = render_groups g /\ wf_groups g.
Proof.
  intros H. pose proof (parse_format_ok m H) as Hp. unfold parse_move in Hp.
  destruct (match_move (format_move m)) as [g|] eqn:Eg; [|discriminate].
  exists g. apply match_move_sound. exact Eg.
Qed.

Lemma render_has_file g : In (g_file g) (render_groups g).
Proof.
  unfold render_groups. apply in_or_app. right. apply in_or_app. right. left. reflexivity.
Qed.

Lemma ptn_char_plain c : classify c <> KOther -> plain c.
Proof.
  intros H. apply classify_other in H. unfold ptn_char, stone_letter, plain in *. lia.
Qed.

Lemma token_skip t ws :
  str_eqb t [45; 45] || is_result t || is_move_number t || negb (nonempty t) = true ->
  run_tokens (t :: ws) = run_tokens ws.
Proof. intros H. cbn [run_tokens]. rewrite H. reflexivity. Qed.

Lemma token_move m suf ws :
  ptn_ok m -> Forall (fun c => is_suffix_char c = true) suf ->
  run_tokens ((format_move m ++ suf) :: ws) =
  match run_tokens ws with MovesOk l => MovesOk (m :: l) | e => e end.
Proof.
  intros Hm Hs. destruct (format_groups m Hm) as (g & Eg & Hwf).
  pose proof (render_chars g Hwf) as Hchars. pose proof (render_has_file g) as Hfile.
  assert (Hf : classify (g_file g) = KFile) by (destruct Hwf as (_ & _ & H & _); exact H).
  destruct (file_not_digit _ Hf) as (Hnd & Hn46 & Hn45).
  set (t := format_move m ++ suf).
  assert (Hin : In (g_file g) t) by (unfold t; apply in_or_app; left; rewrite Eg; exact Hfile).
  assert (H1 : str_eqb t [45; 45] = false).
  { destruct (str_eqb t [45; 45]) eqn:E; [|reflexivity]. apply str_eqb_eq in E. rewrite E in Hin.
    destruct Hin as [H|[H|[]]]; congruence. }
  assert (H2 : is_result t = false).
  { destruct (is_result t) eqn:E; [|reflexivity]. apply result_chars in E. rewrite Forall_forall in E.
    exfalso. exact (E _ Hin Hf). }
  assert (H3 : is_move_number t = false).
  { destruct (is_move_number t) eqn:E; [|reflexivity]. apply number_chars in E. rewrite Forall_forall in E.
    destruct (E _ Hin); congruence. }
  assert (H4 : nonempty t = true) by (destruct t; [destruct Hin|reflexivity]).
  cbn [run_tokens]. fold t. rewrite H1, H2, H3, H4. cbn [orb negb].
  assert (Hstrip : strip_suffix t = format_move m).
  { unfold t. assert (Hne : render_groups g <> []) by (intros E; rewrite E in Hfile; destruct Hfile).
    destruct (exists_last Hne) as (b & c & Ebc). rewrite Eg, Ebc. rewrite <- app_assoc. cbn [app].
    apply strip_suffix_app; [|exact Hs].
    destruct (is_suffix_char c) eqn:Ec; [|reflexivity]. apply suffix_other in Ec. destruct Ec as [Ec _].
    rewrite Forall_forall in Hchars. exfalso. apply (Hchars c); [|exact Ec].
    rewrite Ebc. apply in_or_app. right. left. reflexivity. }
  rewrite Hstrip, (parse_format_ok m Hm). reflexivity.
Qed.

Lemma halves_plain a : In a result_halves -> Forall plain a /\ a <> [].
Proof.
  cbn [result_halves In]. intros H.
  repeat (destruct H as [<-|H]; [split; [repeat constructor; unfold plain; lia|discriminate]|]). contradiction.
Qed.

(* every token of the class is a non-empty run of plain characters *)
Lemma tok_plain t : tok_ok t -> render_tok t <> [] /\ Forall plain (render_tok t).
Proof.
  destruct t as [m suf|n|a b|]; cbn [tok_ok render_tok].
  - intros [Hm Hs]. apply wf_move8_ok in Hm. destruct (format_groups m Hm) as (g & Eg & Hwf).
    split.
    + rewrite Eg. pose proof (render_has_file g) as H. destruct (render_groups g); [destruct H|discriminate].
    + apply Forall_app. split.
      * rewrite Eg. eapply Forall_impl; [|exact (render_chars g Hwf)]. intros c Hc. apply ptn_char_plain. exact Hc.
      * eapply Forall_impl; [|exact Hs]. intros c Hc. apply suffix_other in Hc. tauto.
  - intros Hn. destruct (str_z_digits n Hn) as [Hne Hd]. split; [destruct (str_z n); [congruence|discriminate]|].
    apply Forall_app. split.
    + eapply Forall_impl; [|exact Hd]. intros c Hc. unfold plain. cbn beta in Hc. lia.
    + constructor; [unfold plain; lia|constructor].
  - intros [Ha Hb]. destruct (halves_plain a Ha) as [Hpa Hna]. destruct (halves_plain b Hb) as [Hpb _].
    split; [destruct a; [congruence|discriminate]|].
    apply Forall_app. split; [exact Hpa|]. constructor; [unfold plain; lia|exact Hpb].
  - intros _. split; [discriminate|]. repeat constructor; unfold plain; lia.
Qed.

Lemma token_step t ws :
  tok_ok t ->
  run_tokens (render_tok t :: ws) =
  match t with
  | TMove m _ => match run_tokens ws with MovesOk l => MovesOk (m :: l) | e => e end
  | _ => run_tokens ws
  end.
Proof.
  destruct t as [m suf|n|a b|]; cbn [tok_ok render_tok].
  - intros [Hm Hs]. apply token_move; [apply wf_move8_ok; exact Hm|exact Hs].
  - intros Hn. destruct (str_z_digits n Hn) as [Hne Hd]. apply token_skip.
    rewrite (number_token _ Hne Hd). rewrite orb_true_r. reflexivity.
  - intros [Ha Hb]. apply token_skip.
    assert (E : is_result (a ++ 45 :: b) = true).
    { unfold is_result. apply existsb_exists. exists a. split; [exact Ha|].
      apply existsb_exists. exists b. split; [exact Hb|apply str_eqb_refl]. }
    rewrite E. rewrite orb_true_r. reflexivity.
  - intros _. apply token_skip. reflexivity.
Qed.

(* ------------------------------------------------------------------ *)
(* the game theorem                                                     *)
(* ------------------------------------------------------------------ *)
Definition clean_body (body : list (tok * sep)) : str :=
  concat (map (fun ts => render_tok (fst ts) ++ clean_sep (snd ts)) body).

Lemma plain_not_brace t : Forall plain t -> Forall (fun c => c <> 123) t.
Proof. intros H. eapply Forall_impl; [|exact H]. intros c Hc. unfold plain in Hc. lia. Qed.
Lemma plain_no_space t : Forall plain t -> Forall (fun c => is_space c = false) t.
Proof. intros H. eapply Forall_impl; [|exact H]. intros c Hc. apply plain_not_space. exact Hc. Qed.

Lemma sub_body body :
  body_ok body ->
  sub_comments (concat (map (fun ts => render_tok (fst ts) ++ render_sep (snd ts)) body)) 0 = clean_body body.
Proof.
  induction body as [|[t s] rest IH]; [reflexivity|].
  cbn [body_ok fst snd]. intros (Ht & Hs & _ & Hrest).
  unfold clean_body. cbn [map concat fst snd]. rewrite <- !app_assoc.
  destruct (tok_plain t Ht) as [_ Hp].
  rewrite sub_plain by (apply plain_not_brace; exact Hp).
  rewrite sub_sep by exact Hs. rewrite IH by exact Hrest. reflexivity.
Qed.

Lemma words_body body : body_ok body -> run_tokens (words (clean_body body)) = MovesOk (moves_of body).
Proof.
  induction body as [|[t s] rest IH]; [reflexivity|].
  cbn [body_ok fst snd]. intros (Ht & Hs & Hne & Hrest).
  unfold clean_body. cbn [map concat fst snd]. fold (clean_body rest). rewrite <- app_assoc.
  destruct (tok_plain t Ht) as [Hn Hp].
  rewrite words_token; [|exact Hn|apply plain_no_space; exact Hp|].
  - rewrite words_spaces by (apply clean_sep_spaces; exact Hs).
    rewrite token_step by exact Ht. rewrite IH by exact Hrest.
    unfold moves_of. cbn [flat_map fst]. destruct t; reflexivity.
  - destruct s as [|a s'].
    + right. destruct rest as [|x rest']; [reflexivity|]. exfalso. apply Hne; [discriminate|reflexivity].
    + left. inversion Hs as [|? ? Ha _]; subst. unfold clean_sep. cbn [map app head_is_space].
      destruct a as [c|b]; cbn [clean_satom satom_ok] in *; [exact Ha|reflexivity].
Qed.

Lemma game_moves tags lead body :
  tags_ok tags -> sep_ok lead -> body_ok body ->
  parse_game (render_game tags lead body) = GameOk tags (moves_of body).
Proof.
  intros [Htags Hnd] Hlead Hbody. unfold parse_game, render_game. cbn [app].
  rewrite split_render_head by exact Htags.
  unfold render_tail. rewrite sub_sep by exact Hlead. rewrite sub_body by exact Hbody.
  rewrite <- run_tokens_words. fold (words (clean_sep lead ++ clean_body body)).
  rewrite words_spaces by (apply clean_sep_spaces; exact Hlead).
  rewrite words_body by exact Hbody.
  rewrite scan_render_head by exact Htags. rewrite dict_of_nodup by exact Hnd. reflexivity.
Qed.

(* a concrete, non-trivial text of the class:
     [Size "5"]\n[Player1 "x y"]\n\n {intro}1. a1'  h8?! \n2. 3c3>12 {c}{d} -- 1/2-1/2 *)
Example game_moves_nonvacuous :
  let tags := [([83; 105; 122; 101], [53]); ([80; 108; 97; 121; 101; 114; 49], [120; 32; 121])] in
  let lead := [SWs 32; SCom [105; 110; 116; 114; 111]] in
  let body := [(TNum 1, [SWs 32]); (TMove (mkMove 0 0 PlaceFlat None) [39], [SWs 32; SWs 8195]);
               (TMove (mkMove 7 7 PlaceFlat None) [63; 33], [SWs 32; SWs 10]);
               (TNum 2, [SWs 160]); (TMove (mkMove 2 2 SlideRight (Some [1; 2])) [], [SWs 32; SCom [99]; SCom [100]; SWs 32]);
               (TDash, [SWs 32]); (TRes [49; 47; 50] [49; 47; 50], [])] in
  tags_ok tags /\ sep_ok lead /\ body_ok body /\
  parse_game (render_game tags lead body) =
  GameOk tags [mkMove 0 0 PlaceFlat None; mkMove 7 7 PlaceFlat None; mkMove 2 2 SlideRight (Some [1; 2])].
Proof.
  cbv zeta.
  assert (Hw : forall m, (exists n, 3 <= n <= 8 /\ wf_move n m) -> wf_move8 m) by (intros m H; exact H).
  split; [|split; [|split]].
  - split.
    + repeat constructor; try discriminate.
    + repeat constructor; cbn [map fst In]; intros H; repeat (destruct H as [H|H]; try discriminate); exact H.
  - repeat constructor; discriminate.
  - cbn [body_ok fst snd tok_ok sep_ok].
    repeat split; try (repeat constructor; discriminate); try lia; try discriminate;
      try (cbn [result_halves In]; tauto).
    + exists 8. split; [lia|]. unfold wf_move; cbn. repeat split; lia.
    + exists 8. split; [lia|]. unfold wf_move; cbn. repeat split; lia.
    + exists 5. split; [lia|]. unfold wf_move; cbn [mx my mt mslides is_slide mtype_code Z.leb Z.compare Pos.compare Pos.compare_cont].
      split; [lia|split; [lia|]]. exists [1; 2]. split; [reflexivity|]. split; [|cbn; lia].
      split; [discriminate|split; [repeat constructor; lia|cbn; lia]].
  - vm_compute. reflexivity.
Qed.

(* ------------------------------------------------------------------ *)
(* refusals                                                             *)
(* ------------------------------------------------------------------ *)
Lemma split_nn_some s h t : split_nn s = Some (h, t) -> s = h ++ 10 :: 10 :: t.
Proof.
  revert h. induction s as [|c r IH]; intros h; cbn [split_nn]; [discriminate|].
  destruct ((c =? 10) && starts_nl r) eqn:E.
  - intros H. injection H as <- <-. apply andb_true_iff in E. destruct E as [E1 E2].
    apply Z.eqb_eq in E1. subst c. destruct r as [|c' r']; [discriminate|].
    cbn [starts_nl] in E2. apply Z.eqb_eq in E2. subst c'. reflexivity.
  - destruct (split_nn r) as [[h' t']|]; [|discriminate]. intros H. injection H as <- <-.
    cbn [app]. f_equal. apply IH. reflexivity.
Qed.
Lemma split_nn_found h t : split_nn (h ++ 10 :: 10 :: t) <> None.
Proof.
  induction h as [|c h IH]; cbn [app split_nn]; [discriminate|].
  destruct ((c =? 10) && starts_nl (h ++ 10 :: 10 :: t)); [discriminate|].
  destruct (split_nn (h ++ 10 :: 10 :: t)) as [[h' t']|]; [discriminate|congruence].
Qed.

(* no blank line: the unpacking of text.split fails (ValueError), whatever else the text holds *)
Lemma game_nosplit s : (forall h t, s <> h ++ 10 :: 10 :: t) <-> parse_game s = GameNoSplit.
Proof.
  unfold parse_game. split.
  - intros H. destruct (split_nn s) as [[h t]|] eqn:E; [|reflexivity].
    exfalso. exact (H h t (split_nn_some s h t E)).
  - intros H h t ->. destruct (split_nn (h ++ 10 :: 10 :: t)) as [[h' t']|] eqn:E.
    + destruct (run_tokens (re_split_ws (sub_comments t' 0))); try discriminate.
      destruct (scan_tags h' true 0); discriminate.
    + exact (split_nn_found h t E).
Qed.

Definition prepend (ms : list mv) (r : moves_result) : moves_result :=
  match r with MovesOk l => MovesOk (ms ++ l) | e => e end.

Definition body_ok1 (body : list (tok * sep)) : Prop :=
  Forall (fun ts => tok_ok (fst ts) /\ sep_ok (snd ts) /\ snd ts <> []) body.

Lemma sep_head_space s X : sep_ok s -> s <> [] -> head_is_space (clean_sep s ++ X) = true.
Proof.
  intros Hs Hne. destruct s as [|a s']; [congruence|]. inversion Hs as [|? ? Ha _]; subst.
  unfold clean_sep. cbn [map app head_is_space]. destruct a as [c|b]; cbn [clean_satom satom_ok] in *; [exact Ha|reflexivity].
Qed.

Lemma sub_body_gen body R :
  body_ok1 body ->
  sub_comments (concat (map (fun ts => render_tok (fst ts) ++ render_sep (snd ts)) body) ++ R) 0
  = clean_body body ++ sub_comments R 0.
Proof.
  induction 1 as [|[t s] rest (Ht & Hs & _) Hrest IH]; [reflexivity|]. cbn [fst snd] in *.
  unfold clean_body. cbn [map concat fst snd]. rewrite <- !app_assoc.
  destruct (tok_plain t Ht) as [_ Hp].
  rewrite sub_plain by (apply plain_not_brace; exact Hp).
  rewrite sub_sep by exact Hs. rewrite IH. reflexivity.
Qed.

Lemma words_body_gen body X :
  body_ok1 body -> run_tokens (words (clean_body body ++ X)) = prepend (moves_of body) (run_tokens (words X)).
Proof.
  induction 1 as [|[t s] rest (Ht & Hs & Hne) Hrest IH].
  - cbn [clean_body map concat app moves_of flat_map prepend]. destruct (run_tokens (words X)); reflexivity.
  - cbn [fst snd] in *. unfold clean_body. cbn [map concat fst snd]. fold (clean_body rest). rewrite <- !app_assoc.
    destruct (tok_plain t Ht) as [Hn Hp].
    rewrite words_token; [|exact Hn|apply plain_no_space; exact Hp|left; apply sep_head_space; assumption].
    rewrite words_spaces by (apply clean_sep_spaces; exact Hs).
    rewrite token_step by exact Ht. rewrite IH.
    unfold moves_of. cbn [flat_map fst]. fold (moves_of rest).
    destruct t; destruct (run_tokens (words X)); reflexivity.
Qed.

(* the first token that is not a move is reported with the parser's own error,
   whatever follows it *)
Lemma game_badmove tags lead body bad s R :
  tags_ok tags -> sep_ok lead -> body_ok1 body ->
  bad <> [] -> Forall plain bad ->
  str_eqb bad [45; 45] = false -> is_result bad = false -> is_move_number bad = false ->
  parse_move (strip_suffix bad) = Reject ->
  sep_ok s -> s <> [] ->
  parse_game (render_head tags ++ [10; 10] ++ render_tail lead body ++ bad ++ render_sep s ++ R)
  = GameBadMove (strip_suffix bad).
Proof.
  intros [Htags Hnd] Hlead Hbody Hne Hp H1 H2 H3 Hrej Hs Hsne. unfold parse_game. cbn [app].
  rewrite split_render_head by exact Htags.
  unfold render_tail. rewrite <- !app_assoc. rewrite sub_sep by exact Hlead.
  rewrite sub_body_gen by exact Hbody.
  rewrite sub_plain by (apply plain_not_brace; exact Hp). rewrite sub_sep by exact Hs.
  rewrite <- run_tokens_words.
  fold (words (clean_sep lead ++ clean_body body ++ bad ++ clean_sep s ++ sub_comments R 0)).
  rewrite words_spaces by (apply clean_sep_spaces; exact Hlead).
  rewrite words_body_gen by exact Hbody.
  rewrite words_token; [|exact Hne|apply plain_no_space; exact Hp|left; apply sep_head_space; assumption].
  cbn [run_tokens]. rewrite H1, H2, H3. destruct bad as [|b0 bad']; [congruence|]. cbn [nonempty negb orb].
  rewrite Hrej. reflexivity.
Qed.

Example game_badmove_nonvacuous :
  (* [Size "5"]\n\n1. a1 zz9! b2   ->  BadMove zz9 *)
  parse_game ([91; 83; 105; 122; 101; 32; 34; 53; 34; 93; 10; 10] ++
              [49; 46; 32; 97; 49; 32; 122; 122; 57; 33; 32; 98; 50]) = GameBadMove [122; 122; 57] /\
  parse_game [97; 49; 10; 98; 50] = GameNoSplit.
Proof. split; reflexivity. Qed.
