(* Compositions across properties (work package X), self-play side:

   C11 + C08/C09 (+ C01, C04, C06)
     C11's theorems about play_one_game take the engine as a stream of
     `answer`s and ASSUME that the candidates are legal and the rows good.
     Here the answers are what the loop reads off a search tree of
     model/Mcts.v (`answer_of_tree`), the trees satisfy C08's invariant, and
     the assumptions of C11 are DISCHARGED:
       - every candidate is legal (hypothesis of C11_candidates_legal), the
         candidates of a row are pairwise distinct (hypothesis of
         C12_dense_target);
       - the next recorded position - which the model computes as
         `move pos m` - IS the position stored in the chosen child
         (`tree.children[idx].position` in the code): closes the open item
         of notes/C11.md;
       - with 3 <= size <= 8 every recorded position is well formed (C04), so
         "legal" is the rulebook relation of C01; with size <= 6 every
         recorded position is `encodable` (C06's domain);
       - rows: |probs| = |moves| and value in [-1,1] (needs only that the
         solver returns as many weights as it is given priors). *)
From Coq Require Import ZArith QArith Qabs List Bool Lia Lqa.
From TV Require Import model.Tak model.Road model.Mcts model.SelfPlay model.Solver.
From TV Require Import spec.SelfPlaySpec spec.Rules.
From TV Require model.Run model.Encoding spec.EncodingSpec.
From TV Require proofs.ListUtil proofs.MoveRules proofs.Generator proofs.Invariant proofs.EncodingReach
  proofs.MctsProofs proofs.SolverProofs proofs.SelfPlayProofs proofs.ComposeMcts.
Import ListNotations.
Open Scope Z_scope.

(* [c.move for c in tree.children]; a tree without children (tree.children is
   None: TypeError in the code) and a child without a move are outside the
   domain - the theorems assume an expanded `Good` tree, where
   `map Some (kid_moves t) = map n_move ks` (good_kid_moves) *)
Definition kid_moves (t : node) : list mv :=
  match n_kids t with
  | Some ks => flat_map (fun k => match n_move k with Some m => [m] | None => [] end) ks
  | None => []
  end.

(* what play_one_game reads off the tree returned by engine.analyze:
   the children's moves, engine.tree_probs(tree) = tree.policy_probs(C),
   tree.value, tree.simulations, tree.v_zero; pick = the sampled index *)
Definition answer_of_tree (solve : pinputs -> list Q) (C : Q) (t : node) (pick : Z) : answer :=
  mkAns (kid_moves t) (policy_probs solve t C) (n_value t) (Z.of_nat (n_sims t)) (n_v0 t) pick.

(* tak_ext.solve_policy replaced by the Python-rule bisection in exact arithmetic
   (C10's object), with the multiplier chosen by lamf *)
Definition exact_solver (lamf : pinputs -> Q) (i : pinputs) : list Q :=
  match solve_python_Q (lamf i) (pi_prior i) (pi_q i) with
  | Returned _ _ w => w
  | OutOfIters => []
  end.

Section RealEngine.
  Variable cutoff : Q.
  Variable solve : pinputs -> list Q.
  Variable C : Q.
  Notation Good := (MctsProofs.Good cutoff).
  Notation Bounded := MctsProofs.Bounded.

  Lemma good_kid_moves t ks : Good t -> n_kids t = Some ks -> map Some (kid_moves t) = map n_move ks.
  Proof.
    intros Hg Hk. unfold kid_moves. rewrite Hk.
    assert (Hall : Forall (fun k => exists m, n_move k = Some m) ks).
    { apply Forall_forall. intros k Hin. apply In_nth_error in Hin. destruct Hin as (i & Hi).
      destruct (MctsProofs.select_root_move_legal cutoff t ks i k Hg Hk Hi) as (m & E & _). eauto. }
    clear Hk. induction Hall as [|k l (m & E) _ IH]; simpl; [reflexivity|]. rewrite E. simpl. f_equal. exact IH.
  Qed.

  (* what the fields of answer_of_tree are, on an expanded tree satisfying C08's invariant *)
  Lemma answer_of_tree_reads t ks pk :
    Good t -> n_kids t = Some ks ->
    let a := answer_of_tree solve C t pk in
    map Some (a_moves a) = map n_move ks /\ a_probs a = policy_probs solve t C /\
    a_value a = n_value t /\ a_sims a = Z.of_nat (n_sims t) /\ a_vzero a = n_v0 t /\ a_pick a = pk.
  Proof. intros Hg Hk. cbv zeta. split; [exact (good_kid_moves t ks Hg Hk)|]. repeat split. Qed.

  (* the picked candidate of an answer read off a Good tree is the move of the picked
     child, and `move` yields the position stored in that child *)
  Lemma picked_child t ks pk m :
    Good t -> n_kids t = Some ks -> picks (answer_of_tree solve C t pk) m ->
    exists k, nthz ks pk = Some k /\ n_move k = Some m /\ move (n_pos t) m = Some (n_pos k).
  Proof.
    intros Hg Hk Hp. unfold picks, nthz in *. simpl in Hp.
    destruct (pk <? 0); [discriminate|].
    pose proof (good_kid_moves t ks Hg Hk) as E.
    assert (Hs : nth_error (map Some (kid_moves t)) (Z.to_nat pk) = Some (Some m))
      by (rewrite nth_error_map, Hp; reflexivity).
    rewrite E, nth_error_map in Hs.
    destruct (nth_error ks (Z.to_nat pk)) as [k|] eqn:Ek; [|discriminate]. simpl in Hs.
    exists k. split; [reflexivity|]. split; [congruence|].
    destruct (MctsProofs.select_root_move_legal cutoff t ks _ k Hg Hk Ek) as (m' & E' & _ & Hm).
    congruence.
  Qed.

  Lemma kid_moves_legal t ks m :
    Good t -> n_kids t = Some ks -> In m (kid_moves t) -> exists k, In k ks /\ move (n_pos t) m = Some (n_pos k).
  Proof.
    intros Hg Hk Hin.
    assert (Hs : In (Some m) (map Some (kid_moves t))) by (apply in_map; exact Hin).
    rewrite (good_kid_moves t ks Hg Hk) in Hs. apply in_map_iff in Hs. destruct Hs as (k & E & Hink).
    exists k. split; [exact Hink|]. apply In_nth_error in Hink. destruct Hink as (i & Hi).
    destruct (MctsProofs.select_root_move_legal cutoff t ks i k Hg Hk Hi) as (m' & E' & _ & Hm). congruence.
  Qed.

  Lemma kid_moves_nodup t ks : Good t -> n_kids t = Some ks -> NoDup (kid_moves t).
  Proof.
    intros Hg Hk. destruct (MctsProofs.children_one_to_one cutoff t ks Hg Hk) as (_ & Hnd & _).
    rewrite <- (good_kid_moves t ks Hg Hk) in Hnd. exact (NoDup_map_inv _ _ Hnd).
  Qed.

  (* every CONSUMED answer (one per recorded position) was read off an expanded tree that
     satisfies C08's invariant and was grown for that position *)
  Definition answers_from_trees (s : list answer) (tr : transcript) : Prop :=
    forall i p, nth_error (t_positions tr) i = Some p ->
      exists t pk ks, nth_error s i = Some (answer_of_tree solve C t pk) /\
                      Good t /\ n_kids t = Some ks /\ n_pos t = p.

  (* ---------- every recorded position is reachable by accepted moves ---------- *)
  Lemma sp_run_reachable cfg pos s tr e f : SelfPlayProofs.run cfg pos s tr e f ->
    forall i p, nth_error (t_positions tr) i = Some p ->
      exists ms, length ms = i /\ Run.run pos ms = Some p.
  Proof.
    induction 1 as [| |pos a rest|pos a rest m q tr e f Hl Hw Hs Hr Hm Hq Hrun IH]; intros i p Hi; simpl in *.
    - destruct i; discriminate.
    - destruct i; discriminate.
    - destruct i as [|i]; [|destruct i; discriminate]. injection Hi as <-. exists []. split; reflexivity.
    - destruct i as [|i].
      + injection Hi as <-. exists []. split; reflexivity.
      + destruct (IH i p Hi) as (ms & Hlen & Hms). exists (m :: ms). split; [simpl; congruence|].
        simpl. rewrite Hq. exact Hms.
  Qed.

  Lemma standard_counts n : 3 <= n <= 8 ->
    0 <= flat_count (mkCfg n None None) /\ 0 <= capstone_count (mkCfg n None None).
  Proof.
    intros Hn. unfold flat_count, capstone_count. cbn [cpieces ccaps csize].
    assert (Hc : n = 3 \/ n = 4 \/ n = 5 \/ n = 6 \/ n = 7 \/ n = 8) by lia.
    destruct Hc as [Hc|[Hc|[Hc|[Hc|[Hc|Hc]]]]]; subst n; simpl; lia.
  Qed.

  (* C11 + C04: positions of a transcript are well formed; C11 + C06: encodable for size <= 6 *)
  Theorem transcript_positions_wf cfg s tr e f : play_one_game cfg s = Done tr e f ->
    3 <= sp_size cfg <= 8 -> Forall Rules.wf_pos (t_positions tr).
  Proof.
    intros H Hn. apply SelfPlayProofs.play_loop_run in H. apply Forall_forall. intros p Hin.
    apply In_nth_error in Hin. destruct Hin as (i & Hi).
    destruct (sp_run_reachable _ _ _ _ _ _ H i p Hi) as (ms & _ & Hms).
    destruct (standard_counts _ Hn). eapply Invariant.wf_reachable; [| | |exact Hms]; cbn [csize]; assumption.
  Qed.

  Theorem transcript_positions_encodable cfg s tr e f : play_one_game cfg s = Done tr e f ->
    3 <= sp_size cfg <= 6 -> Forall EncodingSpec.encodable (t_positions tr).
  Proof.
    intros H Hn. apply SelfPlayProofs.play_loop_run in H. apply Forall_forall. intros p Hin.
    apply In_nth_error in Hin. destruct Hin as (i & Hi).
    destruct (sp_run_reachable _ _ _ _ _ _ H i p Hi) as (ms & _ & Hms).
    exact (EncodingReach.reachable_encodable_standard _ ms p Hn Hms).
  Qed.

  (* ---------- the main composition ---------- *)
  Theorem real_engine_transcript_legal cfg s tr e f :
    play_one_game cfg s = Done tr e f -> answers_from_trees s tr ->
    (* (a) the hypothesis of C11_candidates_legal ... *)
    (forall i p a, nth_error (t_positions tr) i = Some p -> nth_error s i = Some a ->
       forall m, In m (a_moves a) -> move p m <> None) /\
    (* ... hence its conclusion: every recorded candidate is legal *)
    (forall i p ms m, nth_error (t_positions tr) i = Some p -> nth_error (t_moves tr) i = Some ms ->
       In m ms -> exists q, move p m = Some q) /\
    (* the candidates of a row are pairwise distinct (hypothesis of C12_dense_target) *)
    (forall i ms, nth_error (t_moves tr) i = Some ms -> NoDup ms) /\
    (* (b) the next recorded position is the position stored in the chosen child *)
    (forall i p q, nth_error (t_positions tr) i = Some p -> nth_error (t_positions tr) (S i) = Some q ->
       exists t pk ks k m, nth_error s i = Some (answer_of_tree solve C t pk) /\ n_pos t = p /\
         n_kids t = Some ks /\ nthz ks pk = Some k /\ n_move k = Some m /\
         picks (answer_of_tree solve C t pk) m /\ n_pos k = q) /\
    (* (c) in rulebook terms (C01, well-formedness along the game from C04) *)
    (3 <= sp_size cfg <= 8 ->
       Forall Rules.wf_pos (t_positions tr) /\
       (forall i p ms m, nth_error (t_positions tr) i = Some p -> nth_error (t_moves tr) i = Some ms ->
          In m ms -> Generator.canonical m /\ exists q, legal_step p m q) /\
       (forall i p q, nth_error (t_positions tr) i = Some p -> nth_error (t_positions tr) (S i) = Some q ->
          exists ms m, nth_error (t_moves tr) i = Some ms /\ In m ms /\ legal_step p m q)).
  Proof.
    intros H Htrees.
    assert (Ha : forall i p a, nth_error (t_positions tr) i = Some p -> nth_error s i = Some a ->
                               forall m, In m (a_moves a) -> move p m <> None).
    { intros i p a Hp Hs m Hin. destruct (Htrees i p Hp) as (t & pk & ks & Es & Hg & Hk & Hpos).
      assert (a = answer_of_tree solve C t pk) by congruence. subst a p. simpl in Hin.
      destruct (kid_moves_legal t ks m Hg Hk Hin) as (k & _ & Hm). congruence. }
    pose proof (SelfPlayProofs.candidates_legal cfg s tr e f H Ha) as Hb.
    destruct (SelfPlayProofs.lists_aligned _ _ _ _ _ H) as (Hlm & _ & _ & _).
    destruct (SelfPlayProofs.transcript_chain _ _ _ _ _ H) as (_ & Hchain & _).
    assert (Hrow : forall i ms, nth_error (t_moves tr) i = Some ms ->
                     exists p t pk ks, nth_error (t_positions tr) i = Some p /\ ms = kid_moves t /\
                                       Good t /\ n_kids t = Some ks /\ n_pos t = p /\
                                       nth_error s i = Some (answer_of_tree solve C t pk)).
    { intros i ms Hms. destruct (nth_error (t_positions tr) i) as [p|] eqn:Ep.
      - destruct (Htrees i p Ep) as (t & pk & ks & Es & Hg & Hk & Hpos).
        destruct (SelfPlayProofs.rows_are_engine_answers _ _ _ _ _ H i p Ep) as (a & Hsa & Hma & _).
        assert (a = answer_of_tree solve C t pk) by congruence. subst a.
        exists p, t, pk, ks. repeat split; try assumption. simpl in Hma. congruence.
      - apply nth_error_None in Ep. assert (Hsome : nth_error (t_moves tr) i <> None) by congruence.
        apply nth_error_Some in Hsome. lia. }
    split; [exact Ha|]. split; [exact Hb|]. split; [|split].
    - intros i ms Hms. destruct (Hrow i ms Hms) as (p & t & pk & ks & _ & -> & Hg & Hk & _).
      exact (kid_moves_nodup t ks Hg Hk).
    - intros i p q Hp Hq. destruct (Hchain i p q Hp Hq) as (a & m & Hsa & _ & Hpk & _ & Hmv).
      destruct (Htrees i p Hp) as (t & pk & ks & Es & Hg & Hk & Hpos).
      assert (a = answer_of_tree solve C t pk) by congruence. subst a.
      destruct (picked_child t ks pk m Hg Hk Hpk) as (k & Hnk & Hmk & Hmove).
      exists t, pk, ks, k, m. repeat split; try assumption. rewrite Hpos in Hmove. congruence.
    - intros Hn. pose proof (transcript_positions_wf cfg s tr e f H Hn) as Hwf.
      split; [exact Hwf|]. split.
      + intros i p ms m Hp Hms Hin.
        assert (Hwp : Rules.wf_pos p) by (eapply Forall_forall; [exact Hwf|eapply nth_error_In; exact Hp]).
        destruct (Hb i p ms m Hp Hms Hin) as (q & Hq). split.
        * destruct (Hrow i ms Hms) as (p' & t & pk & ks & Hp' & -> & Hg & Hk & Hpos & _).
          assert (Epp : p' = p) by congruence. rewrite Epp in *. clear Epp.
          assert (Hs : In (Some m) (map n_move ks)).
          { rewrite <- (good_kid_moves t ks Hg Hk). apply in_map. exact Hin. }
          rewrite <- Hpos in Hwp.
          destruct (ComposeMcts.children_are_rulebook_moves cutoff t ks Hg Hk Hwp) as (_ & _ & Hiff & _).
          apply Hiff in Hs. tauto.
        * exists q. apply MoveRules.move_sound; assumption.
      + intros i p q Hp Hq. destruct (Hchain i p q Hp Hq) as (a & m & _ & Hms & _ & Hin & Hmv).
        assert (Hwp : Rules.wf_pos p) by (eapply Forall_forall; [exact Hwf|eapply nth_error_In; exact Hp]).
        exists (a_moves a), m. repeat split; try assumption. apply MoveRules.move_sound; assumption.
  Qed.

  (* ---------- the rows: what comes from the tree ---------- *)
  Definition answers_from_bounded_trees (s : list answer) (tr : transcript) : Prop :=
    forall i p, nth_error (t_positions tr) i = Some p ->
      exists t pk ks, nth_error s i = Some (answer_of_tree solve C t pk) /\
                      Good t /\ Bounded t /\ n_kids t = Some ks /\ n_pos t = p.

  Lemma probs_length_kids t ks : Good t -> n_kids t = Some ks -> length (n_probs t) = length ks.
  Proof.
    intros Hg Hk. destruct (MctsProofs.child_priors_renormalised cutoff t ks Hg Hk) as (Ep & Ek).
    rewrite Ep. rewrite (proj1 (MctsProofs.renorm_spec _)), map_length.
    rewrite <- (map_length MctsProofs.c_key), <- Ek, map_length. reflexivity.
  Qed.

  Lemma kid_moves_length t ks : Good t -> n_kids t = Some ks -> length (kid_moves t) = length ks.
  Proof.
    intros Hg Hk. rewrite <- (map_length Some), (good_kid_moves t ks Hg Hk), map_length. reflexivity.
  Qed.

  (* the one assumption on the solver's output: as many weights as priors *)
  Definition solver_keeps_length : Prop := forall i, length (solve i) = length (pi_prior i).

  Lemma answer_sides t ks pk :
    Good t -> Bounded t -> n_kids t = Some ks -> solver_keeps_length ->
    let a := answer_of_tree solve C t pk in
    length (a_probs a) = length (a_moves a) /\ 0 < a_sims a /\
    (Qabs (a_value a) <= inject_Z (a_sims a))%Q /\ (-(1) <= row_value a <= 1)%Q /\
    (-(1) <= a_vzero a <= 1)%Q.
  Proof.
    intros Hg Hb Hk Hsol. cbv zeta.
    destruct (MctsProofs.good_expanded_visited cutoff t ks Hg Hk) as (j & Hj).
    pose proof (MctsProofs.abs_value_le_sims_abs cutoff t Hg Hb) as Habs.
    assert (Hs : 0 < Z.of_nat (n_sims t)) by lia.
    split; [|split; [exact Hs|split; [exact Habs|split]]].
    - simpl. rewrite (kid_moves_length t ks Hg Hk). unfold policy_probs. rewrite Hj.
      destruct t as [p m v0 value sims raw probs kids]. simpl in Hk. subst kids. simpl.
      rewrite Hsol. simpl. exact (probs_length_kids _ ks Hg eq_refl).
    - unfold row_value. simpl. exact (SelfPlayProofs.value_in_range _ _ Hs Habs).
    - simpl. exact (MctsProofs.bounded_v0 t Hb).
  Qed.

  Theorem real_engine_rows_partial cfg s tr e f :
    play_one_game cfg s = Done tr e f -> answers_from_bounded_trees s tr -> solver_keeps_length ->
    forall i ms ps v, nth_error (t_moves tr) i = Some ms -> nth_error (t_probs tr) i = Some ps ->
      nth_error (t_values tr) i = Some v ->
      length ps = length ms /\ (-(1) <= v <= 1)%Q.
  Proof.
    intros H Htrees Hsol i ms ps v Hms Hps Hv.
    destruct (SelfPlayProofs.lists_aligned _ _ _ _ _ H) as (Hlm & _ & _ & _).
    destruct (nth_error (t_positions tr) i) as [p|] eqn:Ep.
    - destruct (SelfPlayProofs.rows_are_engine_answers _ _ _ _ _ H i p Ep) as (a & Ha & Hma & Hpa & Hva).
      destruct (Htrees i p Ep) as (t & pk & ks & Es & Hg & Hb & Hk & _).
      assert (a = answer_of_tree solve C t pk) by congruence. subst a.
      destruct (answer_sides t ks pk Hg Hb Hk Hsol) as (Hl & _ & _ & Hval & _).
      assert (ms = a_moves (answer_of_tree solve C t pk)) by congruence.
      assert (ps = a_probs (answer_of_tree solve C t pk)) by congruence.
      assert (v = row_value (answer_of_tree solve C t pk)) by congruence. subst ms ps v.
      split; assumption.
    - apply nth_error_None in Ep. assert (Hsome : nth_error (t_moves tr) i <> None) by congruence.
      apply nth_error_Some in Hsome. lia.
  Qed.

  (* with the FURTHER assumption that the solver's output is an exact distribution (which C10
     proves only up to its tolerance) every consumed answer is C11's `good_answer` *)
  Definition solver_exact_distribution : Prop :=
    forall i, Forall (fun p => 0 <= p)%Q (solve i) /\ (qsum (solve i) == 1)%Q.

  Theorem real_engine_answers_good_partial cfg s tr e f :
    play_one_game cfg s = Done tr e f -> answers_from_bounded_trees s tr ->
    solver_keeps_length -> solver_exact_distribution ->
    forall i p a, nth_error (t_positions tr) i = Some p -> nth_error s i = Some a -> good_answer a.
  Proof.
    intros H Htrees Hsol Hdist i p a Hp Ha.
    destruct (Htrees i p Hp) as (t & pk & ks & Es & Hg & Hb & Hk & _).
    assert (a = answer_of_tree solve C t pk) by congruence. subst a.
    destruct (answer_sides t ks pk Hg Hb Hk Hsol) as (Hl & Hs & Habs & _ & _).
    destruct (MctsProofs.good_expanded_visited cutoff t ks Hg Hk) as (j & Hj).
    assert (Epp : exists i0, a_probs (answer_of_tree solve C t pk) = solve i0).
    { simpl. unfold policy_probs. rewrite Hj.
      destruct t as [p0 m v0 value sims raw probs kids]. simpl in Hk. subst kids. simpl. eauto. }
    destruct Epp as (i0 & Ei0). destruct (Hdist i0) as (Hnn & Hsum).
    unfold good_answer. rewrite Ei0 in *. repeat split; assumption.
  Qed.
End RealEngine.

(* ---------- C11 + C09 + C10: the exact-arithmetic Python-rule solver needs no assumption for
   the length and positivity of the recorded search probabilities ---------- *)
Theorem exact_solver_rows cutoff C lamf cfg s tr e f :
  (0 < cutoff)%Q -> (forall i, (0 < lamf i)%Q /\ (lamf i <= 1024)%Q) ->
  play_one_game cfg s = Done tr e f ->
  (forall i p, nth_error (t_positions tr) i = Some p ->
     exists t pk ks, nth_error s i = Some (answer_of_tree (exact_solver lamf) C t pk) /\
       MctsProofs.Good cutoff t /\ MctsProofs.Bounded t /\ n_kids t = Some ks /\ n_pos t = p /\
       live cutoff (n_pos t) (n_raw t) = true) ->
  forall i ms ps v, nth_error (t_moves tr) i = Some ms -> nth_error (t_probs tr) i = Some ps ->
    nth_error (t_values tr) i = Some v ->
    length ps = length ms /\ Forall (fun x => 0 < x)%Q ps /\ (-(1) <= v <= 1)%Q /\
    exists t ks pin k a, n_kids t = Some ks /\ policy_inputs t C = Some pin /\
      SolverProofs.Hyp (lamf pin) (pi_prior pin) (pi_q pin) /\
      solve_python_Q (lamf pin) (pi_prior pin) (pi_q pin) = Returned k a ps /\
      SolverProofs.above (pi_q pin) a /\
      ((Qabs (1 - SolverProofs.Qsum ps) <= EPS_Q)%Q \/
       ((forall x, SolverProofs.above (pi_q pin) x -> (x < a - TOL_Q)%Q ->
                   (1 < SolverProofs.f (lamf pin) (pi_prior pin) (pi_q pin) x)%Q) /\
        (forall x, (a + TOL_Q < x)%Q -> (SolverProofs.f (lamf pin) (pi_prior pin) (pi_q pin) x < 1)%Q))).
Proof.
  intros Hc Hlam H Htrees i ms ps v Hms Hps Hv.
  destruct (SelfPlayProofs.lists_aligned _ _ _ _ _ H) as (Hlm & _ & _ & _).
  destruct (nth_error (t_positions tr) i) as [p|] eqn:Ep.
  2:{ apply nth_error_None in Ep. assert (Hsome : nth_error (t_moves tr) i <> None) by congruence.
      apply nth_error_Some in Hsome. lia. }
  destruct (SelfPlayProofs.rows_are_engine_answers _ _ _ _ _ H i p Ep) as (a0 & Ha & Hma & Hpa & Hva).
  destruct (Htrees i p Ep) as (t & pk & ks & Es & Hg & Hb & Hk & _ & Hlive).
  assert (a0 = answer_of_tree (exact_solver lamf) C t pk) by congruence. subst a0.
  assert (ms = kid_moves t) by (simpl in Hma; congruence).
  assert (ps = policy_probs (exact_solver lamf) t C) by (simpl in Hpa; congruence).
  assert (v = row_value (answer_of_tree (exact_solver lamf) C t pk)) by congruence. subst ms v.
  destruct (MctsProofs.good_expanded_visited cutoff t ks Hg Hk) as (j & Hj).
  assert (Hinp : exists pin, policy_inputs t C = Some pin).
  { destruct t as [p0 m v0 value sims raw probs kids]. simpl in Hk. subst kids. simpl. eauto. }
  destruct Hinp as (pin & Epin).
  destruct (ComposeMcts.policy_meets_solver_contract cutoff t ks C (lamf pin) Hc Hg Hb Hk Hlive (Hlam pin))
    as (pin' & Epin' & _ & _ & _ & Hyp & _ & k & a & w & R & _ & Hab & _ & Hpos & Hlen & Hsum).
  assert (pin' = pin) by congruence. subst pin'.
  assert (Eps : ps = w).
  { subst ps. rewrite (MctsProofs.policy_after_visit _ t C j pin Hj Epin). unfold exact_solver. rewrite R. reflexivity. }
  subst w.
  pose proof (MctsProofs.abs_value_le_sims_abs cutoff t Hg Hb) as Habs.
  assert (Hs : 0 < Z.of_nat (n_sims t)) by lia.
  split; [rewrite Hlen; symmetry; exact (kid_moves_length cutoff t ks Hg Hk)|].
  split; [exact Hpos|]. split; [exact (SelfPlayProofs.value_in_range _ _ Hs Habs)|].
  exists t, ks, pin, k, a. split; [exact Hk|]. split; [exact Epin|]. split; [exact Hyp|].
  split; [exact R|]. split; [exact Hab|exact Hsum].
Qed.

(* ================================================================== *)
(* the hypotheses are satisfiable: games on 3x3 whose consumed answers  *)
(* are read off searched trees of MctsProofs (ex_tree: 4 visits, nine    *)
(* children, v_zero = 1/4); ex_solve is a stand-in solver that returns   *)
(* the prior                                                             *)
(* ================================================================== *)
Definition ex_solve (i : pinputs) : list Q := pi_prior i.
Definition ex_cfg1 : sp_config := mkSp 3 (1 # 8) 100.
Definition ex_stream1 : list answer := [answer_of_tree ex_solve 4 MctsProofs.ex_tree 0].

Lemma ex_stream1_positions tr e f : play_one_game ex_cfg1 ex_stream1 = Done tr e f ->
  t_positions tr = [MctsProofs.start3] /\ e = ExitResign.
Proof.
  intros H.
  assert (E : match play_one_game ex_cfg1 ex_stream1 with
              | Done tr e f => Some (t_positions tr, e) | Err _ => None end = Some ([MctsProofs.start3], ExitResign))
    by (vm_compute; reflexivity).
  rewrite H in E. injection E as -> ->. split; reflexivity.
Qed.

Example ex_real_engine :
  (exists tr f, play_one_game ex_cfg1 ex_stream1 = Done tr ExitResign f) /\
  forall tr e f, play_one_game ex_cfg1 ex_stream1 = Done tr e f ->
    length (t_positions tr) = 1%nat /\
    answers_from_bounded_trees MctsProofs.ex_cutoff ex_solve 4 ex_stream1 tr /\
    answers_from_trees MctsProofs.ex_cutoff ex_solve 4 ex_stream1 tr /\
    solver_keeps_length ex_solve /\ 3 <= sp_size ex_cfg1 <= 6.
Proof.
  split; [eexists; eexists; vm_compute; reflexivity|].
  intros tr e f H. destruct (ex_stream1_positions tr e f H) as (Ep & _).
  destruct MctsProofs.ex_tree_good as (Hg & _ & Hp). destruct MctsProofs.ex_tree_kids as (ks & Hk & _ & _).
  unfold answers_from_bounded_trees, answers_from_trees. rewrite Ep. split; [reflexivity|].
  split; [|split; [|split; [intros i; reflexivity|cbn [sp_size ex_cfg1]; lia]]].
  - intros [|[|i]] p Hi; cbn [nth_error] in Hi; [|discriminate Hi|discriminate Hi]. injection Hi as <-.
    exists MctsProofs.ex_tree, 0, ks. split; [reflexivity|]. split; [exact Hg|].
    split; [exact MctsProofs.ex_tree_bounded|]. split; [exact Hk|exact Hp].
  - intros [|[|i]] p Hi; cbn [nth_error] in Hi; [|discriminate Hi|discriminate Hi]. injection Hi as <-.
    exists MctsProofs.ex_tree, 0, ks. split; [reflexivity|]. split; [exact Hg|]. split; [exact Hk|exact Hp].
Qed.

(* a two-ply game: the second answer is read off the tree grown (one visit) at the chosen child's
   position, so clause (b) - next position = chosen child's position - is exercised *)
Definition ex_cfg2 : sp_config := mkSp 3 (1 # 2) 1.
Definition ex_child_pos : position :=
  match n_kids MctsProofs.ex_tree with
  | Some (k :: _) => n_pos k
  | _ => MctsProofs.start3
  end.
Definition ex_tree2 : node :=
  fst (Mcts.run MctsProofs.ex_cutoff MctsProofs.ex_mix [[]] (root ex_child_pos) None [MctsProofs.uniform3]).
Definition ex_stream2 : list answer :=
  [answer_of_tree ex_solve 4 MctsProofs.ex_tree 0; answer_of_tree ex_solve 4 ex_tree2 0].

Lemma ex_stream2_positions tr e f : play_one_game ex_cfg2 ex_stream2 = Done tr e f ->
  t_positions tr = [MctsProofs.start3; ex_child_pos] /\ e = ExitLimit.
Proof.
  intros H.
  assert (E : match play_one_game ex_cfg2 ex_stream2 with
              | Done tr e f => Some (t_positions tr, e) | Err _ => None end
              = Some ([MctsProofs.start3; ex_child_pos], ExitLimit))
    by (vm_compute; reflexivity).
  rewrite H in E. injection E as -> ->. split; reflexivity.
Qed.

Example ex_tree2_good : MctsProofs.Good MctsProofs.ex_cutoff ex_tree2 /\ n_pos ex_tree2 = ex_child_pos /\
  exists ks, n_kids ex_tree2 = Some ks.
Proof.
  assert (Hv : MctsProofs.valid_run MctsProofs.ex_cutoff MctsProofs.ex_mix [[]] (root ex_child_pos) None
                                    [MctsProofs.uniform3])
    by (apply MctsProofs.valid_runb_ok; vm_compute; reflexivity).
  destruct (MctsProofs.run_good _ _ _ _ _ _ (MctsProofs.good_init MctsProofs.ex_cutoff ex_child_pos) Hv)
    as (A & _ & B). split; [exact A|]. split; [exact B|]. eexists. vm_compute. reflexivity.
Qed.

Example ex_real_engine2 :
  (exists tr f, play_one_game ex_cfg2 ex_stream2 = Done tr ExitLimit f) /\
  forall tr e f, play_one_game ex_cfg2 ex_stream2 = Done tr e f ->
    length (t_positions tr) = 2%nat /\
    answers_from_trees MctsProofs.ex_cutoff ex_solve 4 ex_stream2 tr.
Proof.
  split; [eexists; eexists; vm_compute; reflexivity|].
  intros tr e f H. destruct (ex_stream2_positions tr e f H) as (Ep & _).
  destruct MctsProofs.ex_tree_good as (Hg & _ & Hp). destruct MctsProofs.ex_tree_kids as (ks & Hk & _ & _).
  destruct ex_tree2_good as (Hg2 & Hp2 & ks2 & Hk2).
  unfold answers_from_trees. rewrite Ep. split; [reflexivity|].
  intros [|[|[|i]]] p Hi; cbn [nth_error] in Hi; [| |discriminate Hi|discriminate Hi]; injection Hi as <-.
  - exists MctsProofs.ex_tree, 0, ks. split; [reflexivity|]. split; [exact Hg|]. split; [exact Hk|exact Hp].
  - exists ex_tree2, 0, ks2. split; [reflexivity|]. split; [exact Hg2|]. split; [exact Hk2|exact Hp2].
Qed.

(* the same one-ply game with the exact-arithmetic solver, multiplier 8/13 (C = 4, N = 4, K = 9) *)
Definition ex_lamf (i : pinputs) : Q := 8 # 13.
Definition ex_stream3 : list answer := [answer_of_tree (exact_solver ex_lamf) 4 MctsProofs.ex_tree 0].

Lemma ex_stream3_positions tr e f : play_one_game ex_cfg1 ex_stream3 = Done tr e f ->
  t_positions tr = [MctsProofs.start3].
Proof.
  intros H.
  assert (E : match play_one_game ex_cfg1 ex_stream3 with
              | Done tr e f => Some (t_positions tr) | Err _ => None end = Some [MctsProofs.start3])
    by (vm_compute; reflexivity).
  rewrite H in E. injection E as ->. reflexivity.
Qed.

Example ex_exact_solver_game :
  (forall i, (0 < ex_lamf i)%Q /\ (ex_lamf i <= 1024)%Q) /\
  (exists tr f, play_one_game ex_cfg1 ex_stream3 = Done tr ExitResign f) /\
  forall tr e f, play_one_game ex_cfg1 ex_stream3 = Done tr e f ->
    forall i p, nth_error (t_positions tr) i = Some p ->
     exists t pk ks, nth_error ex_stream3 i = Some (answer_of_tree (exact_solver ex_lamf) 4 t pk) /\
       MctsProofs.Good MctsProofs.ex_cutoff t /\ MctsProofs.Bounded t /\ n_kids t = Some ks /\ n_pos t = p /\
       live MctsProofs.ex_cutoff (n_pos t) (n_raw t) = true.
Proof.
  split; [intros i; split; [reflexivity|discriminate]|].
  split; [eexists; eexists; vm_compute; reflexivity|].
  intros tr e f H. rewrite (ex_stream3_positions tr e f H).
  destruct MctsProofs.ex_tree_good as (Hg & _ & Hp). destruct MctsProofs.ex_tree_kids as (ks & Hk & _ & Hl).
  intros [|[|i]] p Hi; cbn [nth_error] in Hi; [|discriminate Hi|discriminate Hi]. injection Hi as <-.
  exists MctsProofs.ex_tree, 0, ks. split; [reflexivity|]. split; [exact Hg|].
  split; [exact MctsProofs.ex_tree_bounded|]. split; [exact Hk|]. split; [exact Hp|exact Hl].
Qed.
