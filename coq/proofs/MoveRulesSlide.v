(* The drop loop `slide_go` of model/Tak.v, characterised square by square.
   The loop is generalised over its running state: current square (x, y),
   what is still carried, the board being built.  After i steps from a state
   whose carry is `carry`, the carry is `rem carry D_i` (its top
   |carry| - D_i pieces), the square x + i*dx, y + i*dy has received
   skipn (|carry| - D_i) (rem carry D_(i-1)) on top of its old content (read
   from the OLD board, a wall flattened), and no other entry has changed. *)
From Coq Require Import ZArith List Bool Lia.
From TV Require Import model.Tak spec.Rules proofs.MoveRulesUtil.
Import ListNotations.
Open Scope Z_scope.

(* what one step demands of the square moved onto, given what is still carried *)
Definition step_ok (orig carry : stack) : Prop :=
  match orig with
  | [] => True
  | top :: _ => pkind top <> Capstone /\
                (pkind top = Standing -> exists c, carry = [c] /\ pkind c = Capstone)
  end.

Lemma kind_eqb_eq a b : kind_eqb a b = true <-> a = b.
Proof. destruct a, b; simpl; split; congruence. Qed.

Lemma color_eqb_eq a b : color_eqb a b = true <-> a = b.
Proof. destruct a, b; simpl; split; congruence. Qed.

(* one iteration of the loop, all cases of the code folded into one shape *)
Lemma slide_go_cons p dx dy x y carry nb d ds nb' :
  slide_go p dx dy x y carry nb (d :: ds) = Some nb' <->
  in_bounds (size p) (x + dx) (y + dy) = true /\
  step_ok (getz [] (board p) ((y + dy) * size p + (x + dx))) carry /\
  slide_go p dx dy (x + dx) (y + dy) (firstn (Z.to_nat (zlen carry - d)) carry)
    (updz nb ((y + dy) * size p + (x + dx))
       (skipn (Z.to_nat (zlen carry - d)) carry ++
        flattened (getz [] (board p) ((y + dy) * size p + (x + dx))))) ds = Some nb'.
Proof.
  replace ((y + dy) * size p + (x + dx)) with (x + dx + (y + dy) * size p) by ring.
  cbn [slide_go]. destruct (in_bounds (size p) (x + dx) (y + dy)) eqn:Eb; cbn [negb].
  2: { split; [discriminate|]. intros (H & _). discriminate. }
  destruct (getz [] (board p) (x + dx + (y + dy) * size p)) as [|top rest] eqn:Eo.
  - cbn [step_ok flattened]. tauto.
  - cbn [step_ok flattened]. destruct (pkind top) eqn:Ek.
    + split; [intros H|intros (_ & _ & H); exact H].
      split; [reflexivity|]. split; [|exact H]. split; congruence.
    + destruct carry as [|c [|c' carry']].
      * split; [discriminate|]. intros (_ & (_ & H) & _).
        destruct (H eq_refl) as (c & Hc & _). discriminate.
      * destruct (kind_eqb (pkind c) Capstone) eqn:Ec.
        -- split; [intros H|intros (_ & _ & H); exact H].
           split; [reflexivity|]. split; [|exact H]. split; [congruence|].
           intros _. exists c. split; [reflexivity|]. apply kind_eqb_eq. exact Ec.
        -- split; [discriminate|]. intros (_ & (_ & H) & _).
           destruct (H eq_refl) as (c0 & Hc & Hk). injection Hc as <-.
           apply kind_eqb_eq in Hk. congruence.
      * split; [discriminate|]. intros (_ & (_ & H) & _).
        destruct (H eq_refl) as (c0 & Hc & _). discriminate.
    + split; [discriminate|]. intros (_ & (H & _) & _). congruence.
Qed.

Lemma firstn_S_cons {A} i (d : A) ds : firstn (S i) (d :: ds) = d :: firstn i ds.
Proof. reflexivity. Qed.

Ltac slia := unfold stack in *; lia.

Section Loop.
  Variable p : position.
  Variables dx dy : Z.
  Hypothesis Hdir : (dx = 0 /\ (dy = 1 \/ dy = -1)) \/ (dy = 0 /\ (dx = 1 \/ dx = -1)).

  Lemma slide_go_sound : forall drops x y carry nb nb',
    pos_drops drops -> zlen carry = zsum drops -> zlen nb = size p * size p ->
    (0 <= x < size p /\ 0 <= y < size p) ->
    slide_go p dx dy x y carry nb drops = Some nb' ->
    zlen nb' = zlen nb /\
    (forall i, (1 <= i <= length drops)%nat ->
       (0 <= x + Z.of_nat i * dx < size p /\ 0 <= y + Z.of_nat i * dy < size p) /\
       step_ok (getz [] (board p) ((y + Z.of_nat i * dy) * size p + (x + Z.of_nat i * dx)))
               (rem carry (zsum (firstn (i - 1) drops))) /\
       getz [] nb' ((y + Z.of_nat i * dy) * size p + (x + Z.of_nat i * dx)) =
         skipn (Z.to_nat (zlen carry - zsum (firstn i drops))) (rem carry (zsum (firstn (i - 1) drops)))
         ++ flattened (getz [] (board p) ((y + Z.of_nat i * dy) * size p + (x + Z.of_nat i * dx)))) /\
    (forall j, 0 <= j ->
       (forall i, (1 <= i <= length drops)%nat ->
          j <> (y + Z.of_nat i * dy) * size p + (x + Z.of_nat i * dx)) ->
       getz [] nb' j = getz [] nb j).
  Proof.
    induction drops as [|d ds IH]; intros x y carry nb nb' Hpos Hlen Hnb Hxy Hgo.
    - cbn [slide_go] in Hgo. injection Hgo as <-. split; [reflexivity|]. split.
      + intros i Hi. simpl in Hi. lia.
      + reflexivity.
    - apply slide_go_cons in Hgo. destruct Hgo as (Hb & Hok & Hgo).
      apply in_bounds_iff in Hb.
      inversion Hpos as [|? ? Hd Hds]; subst.
      pose proof (pos_drops_nonneg _ Hds) as Hds0.
      rewrite zsum_cons in Hlen.
      set (x' := x + dx) in *. set (y' := y + dy) in *.
      set (idx := y' * size p + x') in *.
      assert (Hidx : 0 <= idx < size p * size p) by (apply idx_range; lia).
      assert (Hc' : zlen (firstn (Z.to_nat (zlen carry - d)) carry) = zsum ds)
        by (rewrite zlen_firstn; lia).
      destruct (IH x' y' _ _ nb' Hds Hc' (eq_trans (zlen_updz _ _ _) Hnb) Hb Hgo) as (Hl & Htar & Hoth).
      rewrite zlen_updz in Hl.
      change (firstn (Z.to_nat (zlen carry - d)) carry) with (rem carry d) in *.
      split; [exact Hl|]. split.
      + intros i Hi. cbn [length] in Hi.
        destruct i as [|[|i1]]; [lia| |].
        * (* the first square *)
          replace (x + Z.of_nat 1 * dx) with x' by (unfold x'; lia).
          replace (y + Z.of_nat 1 * dy) with y' by (unfold y'; lia).
          fold idx. cbn [Nat.sub firstn]. change (zsum []) with 0. rewrite rem_0.
          split; [exact Hb|]. split; [exact Hok|].
          rewrite Hoth.
          -- rewrite getz_updz_eq by slia.
             rewrite zsum_cons. change (zsum []) with 0. rewrite Z.add_0_r. reflexivity.
          -- lia.
          -- intros i Hi' Heq. destruct (Htar i Hi') as (Hbi & _).
             unfold idx in Heq. apply idx_inj in Heq; try lia;
             destruct Hdir as [(-> & [-> | ->])|(-> & [-> | ->])]; lia.
        * (* later squares: the induction hypothesis one square further *)
          assert (Hi1 : (1 <= S i1 <= length ds)%nat) by lia.
          destruct (Htar (S i1) Hi1) as (Hbi & Hoki & Hget).
          replace (x + Z.of_nat (S (S i1)) * dx) with (x' + Z.of_nat (S i1) * dx) by (unfold x'; lia).
          replace (y + Z.of_nat (S (S i1)) * dy) with (y' + Z.of_nat (S i1) * dy) by (unfold y'; lia).
          pose proof (dropped_bounds i1 ds Hds) as Hb1.
          pose proof (dropped_bounds (S i1) ds Hds) as Hb2.
          replace (S (S i1) - 1)%nat with (S i1) by lia.
          replace (S i1 - 1)%nat with i1 in Hoki, Hget by lia.
          rewrite !firstn_S_cons, !zsum_cons.
          rewrite rem_rem in Hoki, Hget by lia.
          rewrite zlen_rem in Hget by lia.
          split; [exact Hbi|]. split; [exact Hoki|].
          rewrite Hget. f_equal. f_equal. lia.
      + intros j Hj Hne. rewrite Hoth; [|exact Hj|].
        * apply getz_updz_neq; [lia|exact Hj|].
          intros Heq. apply (Hne 1%nat); [cbn [length]; lia|].
          rewrite <- Heq. unfold idx, x', y'. lia.
        * intros i Hi Heq. apply (Hne (S i)); [cbn [length]; lia|].
          rewrite Heq. unfold x', y'. lia.
  Qed.

  Lemma slide_go_complete : forall drops x y carry nb,
    pos_drops drops -> zlen carry = zsum drops ->
    (forall i, (1 <= i <= length drops)%nat ->
       (0 <= x + Z.of_nat i * dx < size p /\ 0 <= y + Z.of_nat i * dy < size p) /\
       step_ok (getz [] (board p) ((y + Z.of_nat i * dy) * size p + (x + Z.of_nat i * dx)))
               (rem carry (zsum (firstn (i - 1) drops)))) ->
    exists nb', slide_go p dx dy x y carry nb drops = Some nb'.
  Proof.
    induction drops as [|d ds IH]; intros x y carry nb Hpos Hlen Hall.
    - exists nb. reflexivity.
    - inversion Hpos as [|? ? Hd Hds]; subst.
      pose proof (pos_drops_nonneg _ Hds) as Hds0.
      rewrite zsum_cons in Hlen.
      assert (Hc' : zlen (firstn (Z.to_nat (zlen carry - d)) carry) = zsum ds)
        by (rewrite zlen_firstn; lia).
      destruct (IH (x + dx) (y + dy) (firstn (Z.to_nat (zlen carry - d)) carry)
                   (updz nb ((y + dy) * size p + (x + dx))
                      (skipn (Z.to_nat (zlen carry - d)) carry ++
                       flattened (getz [] (board p) ((y + dy) * size p + (x + dx)))))
                   Hds Hc') as (nb' & Hgo).
      + intros i Hi. assert (Hi' : (1 <= S i <= length (d :: ds))%nat) by (cbn [length]; lia).
        destruct (Hall (S i) Hi') as (Hbi & Hoki).
        replace (x + Z.of_nat (S i) * dx) with (x + dx + Z.of_nat i * dx) in * by lia.
        replace (y + Z.of_nat (S i) * dy) with (y + dy + Z.of_nat i * dy) in * by lia.
        split; [exact Hbi|].
        change (firstn (Z.to_nat (zlen carry - d)) carry) with (rem carry d).
        pose proof (dropped_bounds (i - 1) ds Hds) as Hb1.
        rewrite rem_rem by lia.
        replace (S i - 1)%nat with (S (i - 1)) in Hoki by lia.
        rewrite firstn_S_cons, zsum_cons in Hoki. exact Hoki.
      + exists nb'. apply slide_go_cons.
        assert (H1 : (1 <= 1 <= length (d :: ds))%nat) by (cbn [length]; lia).
        destruct (Hall 1%nat H1) as (Hb1 & Hok1).
        replace (x + Z.of_nat 1 * dx) with (x + dx) in * by lia.
        replace (y + Z.of_nat 1 * dy) with (y + dy) in * by lia.
        cbn [Nat.sub firstn] in Hok1. change (zsum []) with 0 in Hok1. rewrite rem_0 in Hok1.
        split; [apply in_bounds_iff; exact Hb1|]. split; [exact Hok1|exact Hgo].
  Qed.

  (* Piece counts (for C04): if the part of the board still to be visited agrees
     with the old board, the loop adds exactly the carry to the board, for every
     class of pieces that does not distinguish a wall from a flat. *)
  Lemma slide_go_count (f : piece -> bool) :
    (forall c, f (mkPiece c Standing) = f (mkPiece c Flat)) ->
    forall drops x y carry nb nb',
    pos_drops drops -> zlen carry = zsum drops -> zlen nb = size p * size p ->
    (0 <= x < size p /\ 0 <= y < size p) ->
    (forall i, (1 <= i)%nat ->
       0 <= x + Z.of_nat i * dx < size p /\ 0 <= y + Z.of_nat i * dy < size p ->
       getz [] nb ((y + Z.of_nat i * dy) * size p + (x + Z.of_nat i * dx)) =
       getz [] (board p) ((y + Z.of_nat i * dy) * size p + (x + Z.of_nat i * dx))) ->
    slide_go p dx dy x y carry nb drops = Some nb' ->
    count_pieces f nb' = count_pieces f nb + cs f carry.
  Proof.
    intros Hf. induction drops as [|d ds IH]; intros x y carry nb nb' Hpos Hlen Hnb Hxy Hagree Hgo.
    - cbn [slide_go] in Hgo. injection Hgo as <-. change (zsum []) with 0 in Hlen.
      destruct carry; [unfold cs; simpl; lia|]. rewrite zlen_cons in Hlen.
      pose proof (zlen_nonneg carry). lia.
    - apply slide_go_cons in Hgo. destruct Hgo as (Hb & Hok & Hgo).
      apply in_bounds_iff in Hb.
      inversion Hpos as [|? ? Hd Hds]; subst.
      pose proof (pos_drops_nonneg _ Hds) as Hds0.
      rewrite zsum_cons in Hlen.
      set (x' := x + dx) in *. set (y' := y + dy) in *.
      set (idx := y' * size p + x') in *.
      assert (Hidx : 0 <= idx < size p * size p) by (apply idx_range; lia).
      assert (Hc' : zlen (firstn (Z.to_nat (zlen carry - d)) carry) = zsum ds)
        by (rewrite zlen_firstn; lia).
      rewrite (IH x' y' (firstn (Z.to_nat (zlen carry - d)) carry)
                  (updz nb idx (skipn (Z.to_nat (zlen carry - d)) carry ++ flattened (getz [] (board p) idx)))
                  nb' Hds Hc' (eq_trans (zlen_updz _ _ _) Hnb) Hb); [| |exact Hgo].
      + rewrite count_updz by slia. rewrite cs_app.
        assert (Hold : getz [] nb idx = getz [] (board p) idx).
        { specialize (Hagree 1%nat).
          replace (x + Z.of_nat 1 * dx) with x' in Hagree by (unfold x'; lia).
          replace (y + Z.of_nat 1 * dy) with y' in Hagree by (unfold y'; lia).
          apply Hagree; [lia|exact Hb]. }
        rewrite Hold.
        assert (Hfl : cs f (flattened (getz [] (board p) idx)) = cs f (getz [] (board p) idx)).
        { destruct (getz [] (board p) idx) as [|[c k] rest]; [reflexivity|].
          cbn [flattened pkind pcolor]. destruct k; try reflexivity.
          rewrite !cs_cons, Hf. reflexivity. }
        rewrite Hfl. pose proof (cs_firstn_skipn f (Z.to_nat (zlen carry - d)) carry). lia.
      + intros i Hi Hbi.
        assert (Hne : idx <> (y' + Z.of_nat i * dy) * size p + (x' + Z.of_nat i * dx)).
        { intros Heq. unfold idx in Heq. apply idx_inj in Heq; try lia;
          destruct Hdir as [(-> & [-> | ->])|(-> & [-> | ->])]; lia. }
        rewrite getz_updz_neq; [|lia| |exact Hne].
        * specialize (Hagree (S i)).
          replace (x + Z.of_nat (S i) * dx) with (x' + Z.of_nat i * dx) in Hagree by (unfold x'; lia).
          replace (y + Z.of_nat (S i) * dy) with (y' + Z.of_nat i * dy) in Hagree by (unfold y'; lia).
          apply Hagree; [lia|exact Hbi].
        * pose proof (idx_range (size p) (x' + Z.of_nat i * dx) (y' + Z.of_nat i * dy)). lia.
  Qed.
End Loop.
