(* C16 - tie (T): the dataflow IR regenerated from the source (gen/XformerIR.v)
   denotes the hand-written model of model/Attention.v.  Every lemma here is
   closed by computation (vm_compute / reflexivity) and is re-checked against
   the regenerated file on every run: a change of the dataflow in the source
   changes the IR and breaks one of these `Qed`s. *)
From Coq Require Import String List Bool Arith ZArith Lia.
From TV Require Import model.Attention gen.XformerIR proofs.AttentionProofs.
Import ListNotations.
Open Scope string_scope.

(* ---- __init__ member tables: what each `self.<name>` is ---- *)
Lemma init_tables_tie :
  resblock_init = [("attn_ln", KTokenOp "LayerNorm"); ("attn", KAttention true); ("mlp_ln", KTokenOp "LayerNorm");
                   ("mlp_up", KLinearOut "cfg.d_mlp"); ("mlp_act", KTokenOp "ReLU"); ("mlp_down", KLinearOut "cfg.d_model")] /\
  torso_init = [("autoregressive_mask", KIfCfg "autoregressive_mask" "ar_mask"); ("layers", KLayers "Resblock")] /\
  posenc_sin_init = [("pe", KBuffer)] /\ posenc_learned_init = [("pe", KBuffer)] /\
  text_embedding_init = [("embedding", KEmbedding);
                         ("positional_encoding", KByCfg "positional_encoding"
                            [("sin", "PositionalEncoding"); ("learned", "LearnedPositionalEncoding"); ("none", "lambda")])] /\
  transformer_init = [("embedding", KModule "TextEmbedding"); ("torso", KModule "Torso"); ("unembedding", KCfgHead)] /\
  text_unembedding_init = [("final_ln", KTokenOp "LayerNorm"); ("unembedding", KLinearOut "cfg.n_vocab")] /\
  policy_value_init = [("final_ln", KTokenOp "LayerNorm"); ("v_proj", KLinearOut "1"); ("move_proj", KLinearOut "encoding.MAX_MOVE_ID")].
Proof. repeat split; reflexivity. Qed.

Section Tie.
  Context {tok act layer : Type}.
  Variable O : ops tok act layer.
  Notation val := (@val tok act).
  Notation member := (@member tok act layer).

  Definition env_of (l : list (string * member)) : menv := fun s => lookup s l.
  Definition fns (f : string) : option (act -> act) := if String.eqb f "tanh" then Some (tanh_v O) else None.
  Definition amv (am : amask) : val := match am with None => VNone | Some f => VAm f end.
  Definition pmv (pm : pmask) : val := match pm with None => VNone | Some m => VPad m end.

  (* the members of each class, named as in the source *)
  Definition resblock_env (L : layer) : menv :=
    env_of [("attn_ln", MTokOp (attn_ln O L)); ("attn", MAttn (attn_core O L)); ("mlp_ln", MTokOp (mlp_ln O L));
            ("mlp_up", MTokOp (mlp_up O L)); ("mlp_act", MTokOp (mlp_act O L)); ("mlp_down", MTokOp (mlp_down O L))].
  Definition run_resblock (L : layer) : list val -> val := run_method O (resblock_env L) fns resblock_forward.
  (* Torso.__init__: the buffer exists iff cfg.autoregressive_mask; it is ar_mask(cfg.n_ctx) = triu(diagonal) *)
  Definition torso_env (layers : list layer) (causal : bool) : menv :=
    env_of (("layers", MLayers layers run_resblock)
            :: if causal then [("autoregressive_mask", MMaskBuf (triu ar_mask_diagonal))] else []).
  Definition run_torso layers causal : list val -> val := run_method O (torso_env layers causal) fns torso_forward.
  Definition posenc_method (pk : pe_kind) : method :=
    match pk with PeSin => posenc_sin_forward | PeLearned => posenc_learned_forward | PeNone => posenc_none_forward end.
  Definition run_posenc (pk : pe_kind) : list val -> val :=
    run_method O (env_of [("pe", MRowsBuf (pe_row O pk))]) fns (posenc_method pk).
  Definition run_text_embedding (pk : pe_kind) : list val -> val :=
    run_method O (env_of [("embedding", MEmbed (embed O)); ("positional_encoding", MSub (run_posenc pk))]) fns text_embedding_forward.
  Definition run_policy_value : list val -> val :=
    run_method O (env_of [("final_ln", MTokOp (final_ln O)); ("v_proj", MTokOp (v_proj O)); ("move_proj", MTokOp (move_proj O))])
               fns policy_value_forward.
  Definition run_text_unembedding : list val -> val :=
    run_method O (env_of [("final_ln", MTokOp (lm_final_ln O)); ("unembedding", MTokOp (unembed O))]) fns text_unembedding_forward.
  Definition run_transformer (head : list val -> val) pk layers causal : list val -> val :=
    run_method O (env_of [("embedding", MSub (run_text_embedding pk)); ("torso", MSub (run_torso layers causal));
                          ("unembedding", MSub head)]) fns transformer_forward.

  Definition pv_val (r : act * act) : val := VDict [("values", VVec (fst r)); ("moves", VVec (snd r))].

  Lemma resblock_tie : forall L am pm xs,
    run_resblock L [VActs xs; amv am; pmv pm] = VActs (resblock O L am pm xs).
  Proof. intros L [f|] [m|] xs; vm_compute; reflexivity. Qed.

  Lemma torso_tie : forall layers causal pm xs,
    run_torso layers causal [VActs xs; pmv pm] = VActs (torso O layers causal pm xs).
  Proof. intros layers [|] [m|] xs; vm_compute; reflexivity. Qed.
  (* called without a mask argument: the default `padding_mask=None` *)
  Lemma torso_default_tie : forall layers causal xs,
    run_torso layers causal [VActs xs] = VActs (torso O layers causal None xs).
  Proof. intros layers [|] xs; vm_compute; reflexivity. Qed.

  Lemma text_embedding_tie : forall pk toks, run_text_embedding pk [VToks toks] = VActs (text_embedding O pk toks).
  Proof. intros [| |] toks; vm_compute; reflexivity. Qed.

  Lemma policy_value_tie : forall xs, run_policy_value [VActs xs] = pv_val (policy_value O xs).
  Proof. intros xs; vm_compute; reflexivity. Qed.
  Lemma text_unembedding_tie : forall xs, run_text_unembedding [VActs xs] = VActs (text_unembedding O xs).
  Proof. intros xs; vm_compute; reflexivity. Qed.

  Lemma transformer_pv_tie : forall pk layers causal pm toks,
    run_transformer run_policy_value pk layers causal [VToks toks; pmv pm]
      = pv_val (transformer_pv O pk layers causal pm toks) /\
    run_transformer run_policy_value pk layers causal [VToks toks]
      = pv_val (transformer_pv O pk layers causal None toks).
  Proof. intros [| |] layers [|] [m|] toks; split; vm_compute; reflexivity. Qed.
  Lemma transformer_lm_tie : forall pk layers causal pm toks,
    run_transformer run_text_unembedding pk layers causal [VToks toks; pmv pm]
      = VActs (transformer_lm O pk layers causal pm toks).
  Proof. intros [| |] layers [|] [m|] toks; vm_compute; reflexivity. Qed.
End Tie.

(* the second positional parameter of Transformer.forward is the padding mask, and every
   producer that passes a mask passes it there *)
Lemma call_sites_tie :
  map fst (m_params transformer_forward) = ["input"; "padding_mask"] /\
  map fst (m_params torso_forward) = ["acts"; "padding_mask"] /\
  map fst (m_params resblock_forward) = ["resid"; "attn_mask"; "padding_mask"] /\
  forallb (fun p => match pr_argpos p with Some n => Nat.eqb n 1 | None => match pr_mask p with MAbsent => true | _ => false end end)
          mask_producers = true /\
  map pr_name mask_producers =
    ["tak/model/batches.py:Position.extra_inputs"; "tak/model/batches.py:PositionValuePolicy.extra_inputs";
     "tak/alphazero/data.py:ReplayBufferBatch.extra_inputs"; "tak/model/server.py:Server.run_model";
     "tak/model/wrapper.py:ModelWrapper.evaluate"].
Proof. repeat split; reflexivity. Qed.

(* every mask is allocated as a BOOLEAN tensor.  torch treats a floating-point attn_mask / key_padding_mask as
   ADDITIVE (added to the scores) instead of hiding keys, so `visible` is the meaning of a mask only for dtype bool;
   `~m` of a boolean tensor is boolean *)
Lemma mask_dtypes_tie :
  mask_dtypes = [("xformer/model.py:ar_mask", "torch.bool"); ("tak/model/encoding.py:_encode_batch", "torch.bool");
                 ("tak/model/server.py:Server.run_model", "torch.bool")].
Proof. reflexivity. Qed.

Lemma wrapper_evaluate_tie :
  wrapper_evaluate = {| ev_moves_key := "moves"; ev_value_key := "values"; ev_row := 0; ev_softmax_dim := 0 |}.
Proof. reflexivity. Qed.

(* the whole dataflow tie in one statement *)
Theorem ir_denotes_model : forall (tok act layer : Type) (O : ops tok act layer),
  (forall L am pm xs, run_resblock O L [VActs xs; amv am; pmv pm] = VActs (resblock O L am pm xs)) /\
  (forall layers causal pm xs, run_torso O layers causal [VActs xs; pmv pm] = VActs (torso O layers causal pm xs)) /\
  (forall pk toks, run_text_embedding O pk [VToks toks] = VActs (text_embedding O pk toks)) /\
  (forall xs, run_policy_value O [VActs xs] = pv_val (policy_value O xs)) /\
  (forall xs, run_text_unembedding O [VActs xs] = VActs (text_unembedding O xs)) /\
  (forall pk layers causal pm toks,
     run_transformer O (run_policy_value O) pk layers causal [VToks toks; pmv pm]
       = pv_val (transformer_pv O pk layers causal pm toks) /\
     run_transformer O (run_policy_value O) pk layers causal [VToks toks]
       = pv_val (transformer_pv O pk layers causal None toks)) /\
  (forall pk layers causal pm toks,
     run_transformer O (run_text_unembedding O) pk layers causal [VToks toks; pmv pm]
       = VActs (transformer_lm O pk layers causal pm toks)).
Proof.
  intros tok act layer O.
  split; [apply resblock_tie|]. split; [apply torso_tie|]. split; [apply text_embedding_tie|].
  split; [apply policy_value_tie|]. split; [apply text_unembedding_tie|].
  split; [apply transformer_pv_tie|apply transformer_lm_tie].
Qed.

(* every mask producer of the source yields true = padding at exactly the positions >= the row's real length *)
Theorem producers_polarity : Forall polarity_ok mask_producers.
Proof. unfold mask_producers, data_mask. repeat (constructor; [producer_polarity|]). constructor. Qed.

(* model level, for every producer of the source that pads rows to the batch width: position i of a batch
   evaluates to what it evaluates to alone and unpadded *)
Theorem producers_alone_or_batched : forall p, In p mask_producers -> pr_rows p = RZeroPadded ->
  (forall W, mask_width (pr_mask p) W = W) ->
  forall (tok act layer : Type) (O : ops tok act layer) pk layers causal pad ps i q,
    nth_error ps i = Some q -> q <> [] ->
    nth_error (batch_pv O pk layers causal (padded_batch pad (denote_mask (pr_mask p)) ps)) i
    = Some (transformer_pv O pk layers causal None q).
Proof.
  intros p Hin Hr Hw tok act layer O pk layers causal pad ps i q Hi Hne.
  apply alone_or_batched; try assumption. apply polarity_producer_flags; try assumption.
  exact (proj1 (Forall_forall _ _) producers_polarity p Hin).
Qed.
Example server_producer_is_one :
  exists p, In p mask_producers /\ pr_rows p = RZeroPadded /\ (forall W, mask_width (pr_mask p) W = W) /\
            pr_name p = "tak/model/server.py:Server.run_model".
Proof. eexists. split; [right; right; right; left; reflexivity|]. split; [reflexivity|]. split; [intros W; reflexivity|reflexivity]. Qed.
