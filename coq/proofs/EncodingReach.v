(* C06 <- C04: every position reachable by accepted moves from the initial
   position of a configuration of size 3..6 whose piece counts the vocabulary
   can index (stones <= 49, capstones <= 1; the standard sets of sizes 3..6 are
   10/0, 15/0, 21/1, 30/1) is `encodable`.  Uses C04's invariant
   (proofs/Invariant.v: reserve + pieces on the board = configured count,
   reserves >= 0, only the top of a stack standing / capstone). *)
From Coq Require Import ZArith List Bool Lia.
From TV Require Import model.Tak model.Run model.Encoding spec.Rules spec.EncodingSpec proofs.Invariant.
Import ListNotations.
Open Scope Z_scope.

Lemma inv_encodable cfg p :
  csize cfg <= 6 -> flat_count cfg <= 49 -> capstone_count cfg <= 1 -> Inv cfg p -> encodable p.
Proof.
  intros Hsz Hfl Hcap HI. destruct HI as [[Hs1 Hs2] Hsq Hst Hcp Hnn Htops _ _ _ _ _].
  pose proof (Hst White) as SW. pose proof (Hst Black) as SB.
  pose proof (Hcp White) as CW. pose proof (Hcp Black) as CB.
  pose proof (Hnn White false) as NW. pose proof (Hnn Black false) as NB.
  pose proof (Hnn White true) as NCW. pose proof (Hnn Black true) as NCB.
  pose proof (count_le_all (is_stone_of White) (board p)).
  pose proof (count_le_all (is_stone_of Black) (board p)).
  pose proof (count_le_all (is_cap_of White) (board p)).
  pose proof (count_le_all (is_cap_of Black) (board p)).
  cbn [reserve] in *.
  unfold encodable. repeat split; try lia.
  exact Htops.
Qed.

Theorem reachable_encodable cfg ms p :
  3 <= csize cfg <= 6 -> 0 <= flat_count cfg <= 49 -> 0 <= capstone_count cfg <= 1 ->
  run (from_config cfg) ms = Some p -> encodable p.
Proof.
  intros Hs Hf Hc Hrun.
  destruct (inv_reachable cfg ms p ltac:(lia) ltac:(lia) ltac:(lia) Hrun) as [HI _].
  apply (inv_encodable cfg p); try lia. exact HI.
Qed.

(* the standard piece sets of sizes 3..6 *)
Corollary reachable_encodable_standard n ms p :
  3 <= n <= 6 -> run (from_config (mkCfg n None None)) ms = Some p -> encodable p.
Proof.
  intros Hn. apply reachable_encodable; cbn [csize]; try lia.
  - unfold flat_count. cbn [cpieces csize].
    assert (Hc : n = 3 \/ n = 4 \/ n = 5 \/ n = 6) by lia.
    destruct Hc as [Hc|[Hc|[Hc|Hc]]]; subst n; simpl; lia.
  - unfold capstone_count. cbn [ccaps csize].
    assert (Hc : n = 3 \/ n = 4 \/ n = 5 \/ n = 6) by lia.
    destruct Hc as [Hc|[Hc|[Hc|Hc]]]; subst n; simpl; lia.
Qed.

(* hypotheses are satisfiable: a short 5x5 game with a capstone and a slide *)
Definition ex_game : list mv :=
  [mkMove 0 0 PlaceFlat None; mkMove 1 0 PlaceFlat None; mkMove 2 2 PlaceCapstone None;
   mkMove 0 0 SlideRight (Some [1])].
Example reachable_example :
  exists p, run (from_config (mkCfg 5 None None)) ex_game = Some p /\ encodable p.
Proof.
  eexists. split; [vm_compute; reflexivity|].
  apply (reachable_encodable_standard 5 ex_game); [lia|]. vm_compute. reflexivity.
Qed.
