(* C13, part 2: one cell and one rank.  The parser's cell loop is characterised
   by a declarative shape (cell_shape): "x", "x<d>" with d in 1..8, or colour
   characters bottom to top followed by an optional mark. *)
From Coq Require Import ZArith List Bool Lia.
From TV Require Import model.Tak model.Tps spec.TpsSpec proofs.TpsStrings.
Import ListNotations.
Open Scope Z_scope.

Definition mark_str (k : kind) : str :=
  match k with Flat => [] | Standing => [ch_S] | Capstone => [ch_C] end.
(* colours bottom to top, then the mark of the top piece *)
Definition cell_of (cols : list color) (k : kind) : str := map color_char cols ++ mark_str k.
(* the stack (top first) such a cell denotes *)
Definition stack_of (cols : list color) (k : kind) : stack :=
  match rev cols with
  | [] => []
  | c :: r => mkPiece c k :: map flat_of r
  end.

Inductive cell_shape : str -> list stack -> Prop :=
| cs_x : cell_shape [ch_x] [[]]
| cs_xn d : ch_1 <= d <= ch_8 -> cell_shape [ch_x; d] (repeat [] (Z.to_nat (d - ch_0)))
| cs_stack cols k : cols <> [] -> cell_shape (cell_of cols k) [stack_of cols k].

(* ---------- parse_chars ---------- *)

Lemma parse_chars_colors cols : forall rest stk,
  parse_chars (map color_char cols ++ rest) stk false = parse_chars rest (stk ++ map flat_of cols) false.
Proof.
  induction cols as [|c cols IH]; intros rest stk.
  - simpl. rewrite app_nil_r. reflexivity.
  - destruct c; simpl; rewrite IH; rewrite <- app_assoc; reflexivity.
Qed.

Lemma removelast_snoc {A} (l : list A) x : removelast (l ++ [x]) = l.
Proof. rewrite removelast_app by discriminate. simpl. apply app_nil_r. Qed.

Lemma last_snoc {A} (l : list A) x d : last (l ++ [x]) d = x.
Proof. induction l as [|a l IH]; [reflexivity|]. simpl. destruct (l ++ [x]) eqn:E; [destruct l; discriminate|assumption]. Qed.

Lemma stack_of_flat cols : stack_of cols Flat = rev (map flat_of cols).
Proof.
  unfold stack_of. rewrite <- map_rev. destruct (rev cols); reflexivity.
Qed.

Lemma parse_cell_complete cols k : cols <> [] -> parse_cell (cell_of cols k) = Some [stack_of cols k].
Proof.
  intros Hne.
  assert (Hbody : parse_chars (cell_of cols k) [] false = Some (rev (stack_of cols k))).
  { unfold cell_of. rewrite parse_chars_colors. simpl app.
    destruct (exists_last Hne) as (cols' & cl & ->).
    unfold stack_of. rewrite rev_app_distr. simpl rev at 1. simpl app at 1.
    rewrite map_app. simpl map at 2.
    destruct k; simpl mark_str.
    - simpl. rewrite <- map_rev. rewrite rev_involutive. reflexivity.
    - cbn [parse_chars]. change (ch_S =? ch_1) with false. change (ch_S =? ch_2) with false.
      change ((ch_S =? ch_C) || (ch_S =? ch_S)) with true. cbv iota.
      destruct (map flat_of cols' ++ [flat_of cl]) eqn:E; [destruct (map flat_of cols'); discriminate|].
      rewrite <- E. rewrite removelast_snoc, last_snoc. change (ch_S =? ch_C) with false. cbv iota.
      simpl. rewrite <- map_rev. rewrite rev_involutive. reflexivity.
    - cbn [parse_chars]. change (ch_C =? ch_1) with false. change (ch_C =? ch_2) with false.
      change ((ch_C =? ch_C) || (ch_C =? ch_S)) with true. cbv iota.
      destruct (map flat_of cols' ++ [flat_of cl]) eqn:E; [destruct (map flat_of cols'); discriminate|].
      rewrite <- E. rewrite removelast_snoc, last_snoc. change (ch_C =? ch_C) with true. cbv iota.
      simpl. rewrite <- map_rev. rewrite rev_involutive. reflexivity. }
  destruct cols as [|c cols]; [congruence|].
  unfold cell_of in *. simpl map in *. rewrite <- app_comm_cons in *.
  unfold parse_cell.
  assert (Hx : (color_char c =? ch_x) = false) by (destruct c; reflexivity).
  rewrite Hx. rewrite Hbody. rewrite rev_involutive. reflexivity.
Qed.

Lemma parse_chars_marked b stk res : parse_chars b stk true = Some res -> b = [] /\ res = stk.
Proof. destruct b; simpl; intros H; [inversion H; auto|discriminate]. Qed.

Lemma parse_chars_inv b : forall stk0 res,
  parse_chars b stk0 false = Some res ->
  exists cols k, b = cell_of cols k /\
    let full := stk0 ++ map flat_of cols in
    ((k = Flat /\ res = full) \/
     (k <> Flat /\ full <> [] /\
      res = removelast full ++ [mkPiece (pcolor (last full (flat_of White))) k])).
Proof.
  induction b as [|c t IH]; intros stk0 res H.
  - simpl in H. inversion H. exists [], Flat. split; [reflexivity|]. left. simpl. rewrite app_nil_r. auto.
  - cbn [parse_chars] in H. cbv iota in H.
    destruct (c =? ch_1) eqn:E1; [|destruct (c =? ch_2) eqn:E2].
    + apply Z.eqb_eq in E1. subst c. destruct (IH _ _ H) as (cols & k & -> & Hk).
      exists (White :: cols), k. split; [reflexivity|].
      simpl. simpl in Hk. rewrite <- app_assoc in Hk. exact Hk.
    + apply Z.eqb_eq in E2. subst c. destruct (IH _ _ H) as (cols & k & -> & Hk).
      exists (Black :: cols), k. split; [reflexivity|].
      simpl. simpl in Hk. rewrite <- app_assoc in Hk. exact Hk.
    + destruct ((c =? ch_C) || (c =? ch_S)) eqn:E3; [|discriminate].
      destruct stk0 as [|q stk0']; [discriminate|].
      apply parse_chars_marked in H. destruct H as [-> ->].
      destruct (c =? ch_C) eqn:EC.
      * apply Z.eqb_eq in EC. subst c. exists [], Capstone. split; [reflexivity|].
        right. simpl. rewrite app_nil_r. split; [discriminate|]. split; [discriminate|reflexivity].
      * simpl in E3. apply Z.eqb_eq in E3. subst c. exists [], Standing. split; [reflexivity|].
        right. simpl. rewrite app_nil_r. split; [discriminate|]. split; [discriminate|reflexivity].
Qed.

Lemma parse_cell_sound b sqs : parse_cell b = Some sqs -> cell_shape b sqs.
Proof.
  unfold parse_cell. destruct b as [|c0 rest]; [discriminate|].
  destruct (c0 =? ch_x) eqn:Ex.
  - apply Z.eqb_eq in Ex. subst c0. destruct rest as [|d rest].
    + intros H. inversion H. constructor.
    + destruct rest as [|e rest]; [|discriminate].
      destruct ((ch_1 <=? d) && (d <=? ch_8)) eqn:Ed; [|discriminate].
      intros H. inversion H. apply andb_true_iff in Ed. destruct Ed as [Ha Hb].
      apply Z.leb_le in Ha. apply Z.leb_le in Hb. constructor. lia.
  - destruct (parse_chars (c0 :: rest) [] false) as [stk|] eqn:Ep; [|discriminate].
    intros H. inversion H. subst sqs. clear H.
    destruct (parse_chars_inv _ _ _ Ep) as (cols & k & Hb & Hk).
    simpl in Hk. rewrite Hb.
    assert (Hne : cols <> []).
    { intro E. subst cols. destruct Hk as [[-> _]|(_ & Hnn & _)]; [discriminate|]. apply Hnn. reflexivity. }
    replace (rev stk) with (stack_of cols k); [constructor; assumption|].
    destruct Hk as [[-> ->]|(Hk & _ & ->)].
    + apply stack_of_flat.
    + destruct (exists_last Hne) as (cols' & cl & ->).
      rewrite map_app. change (map flat_of [cl]) with [flat_of cl]. rewrite removelast_snoc, last_snoc.
      rewrite rev_app_distr. simpl. unfold stack_of. rewrite rev_app_distr. simpl.
      rewrite map_rev. reflexivity.
Qed.

Lemma parse_cell_iff b sqs : parse_cell b = Some sqs <-> cell_shape b sqs.
Proof.
  split; [apply parse_cell_sound|].
  intros H. destruct H as [|d Hd|cols k Hne].
  - reflexivity.
  - unfold parse_cell. rewrite Z.eqb_refl.
    destruct ((ch_1 <=? d) && (d <=? ch_8)) eqn:E; [reflexivity|].
    apply andb_false_iff in E. destruct E as [E|E]; apply Z.leb_gt in E; lia.
  - apply parse_cell_complete. assumption.
Qed.

(* ---------- what the shapes mean ---------- *)

Lemma stack_of_nonempty cols k : cols <> [] -> stack_of cols k <> [].
Proof.
  intros Hne. unfold stack_of. destruct (rev cols) eqn:E; [|discriminate].
  apply (f_equal (@rev _)) in E. rewrite rev_involutive in E. simpl in E. congruence.
Qed.

Lemma cell_of_head cols k : cols <> [] ->
  exists c t, cell_of cols k = c :: t /\ (c = ch_1 \/ c = ch_2).
Proof.
  intros Hne. destruct cols as [|c cols]; [congruence|].
  exists (color_char c), (map color_char cols ++ mark_str k). split; [reflexivity|].
  destruct c; [left|right]; reflexivity.
Qed.

Lemma is_x_cell_stack cols k : cols <> [] -> is_x_cell (cell_of cols k) = false.
Proof.
  intros Hne. destruct (cell_of_head cols k Hne) as (c & t & -> & [->| ->]); reflexivity.
Qed.

Lemma flat_map_colors cols :
  flat_map (fun c => match color_of_char c with Some col => [col] | None => [] end) (map color_char cols) = cols.
Proof. induction cols as [|c cols IH]; [reflexivity|]. destruct c; simpl; rewrite IH; reflexivity. Qed.

Lemma stack_of_text_cell cols k : stack_of_text (cell_of cols k) = stack_of cols k.
Proof.
  unfold stack_of_text, cell_of. destruct k; simpl mark_str.
  - rewrite app_nil_r. destruct (rev (map color_char cols)) as [|m rb] eqn:E.
    + rewrite flat_map_colors. unfold stack_of. destruct (rev cols); reflexivity.
    + assert (Hm : mark_of_char m = None).
      { assert (Hin : In m (map color_char cols)) by (apply in_rev; rewrite E; left; reflexivity).
        apply in_map_iff in Hin. destruct Hin as (c & <- & _). destruct c; reflexivity. }
      rewrite Hm. rewrite flat_map_colors. unfold stack_of. destruct (rev cols); reflexivity.
  - rewrite rev_app_distr. simpl. change (mark_of_char ch_S) with (Some Standing). cbv iota.
    rewrite rev_involutive. rewrite flat_map_colors. unfold stack_of. destruct (rev cols); reflexivity.
  - rewrite rev_app_distr. simpl. change (mark_of_char ch_C) with (Some Capstone). cbv iota.
    rewrite rev_involutive. rewrite flat_map_colors. unfold stack_of. destruct (rev cols); reflexivity.
Qed.

Lemma map_repeat {A B} (f : A -> B) x n : map f (repeat x n) = repeat (f x) n.
Proof. induction n; simpl; congruence. Qed.

(* expanding x<n> and reading every cell with the spec's reader gives the squares the parser adds *)
Lemma cell_shape_meaning b sqs : cell_shape b sqs -> map stack_of_text (expand_cell b) = sqs.
Proof.
  intros H. destruct H as [|d Hd|cols k Hne].
  - reflexivity.
  - unfold expand_cell. rewrite Z.eqb_refl. cbn [andb].
    destruct ((ch_1 <=? d) && (d <=? ch_8)) eqn:E.
    + rewrite map_repeat. reflexivity.
    + apply andb_false_iff in E. destruct E as [E|E]; apply Z.leb_gt in E; lia.
  - assert (He : expand_cell (cell_of cols k) = [cell_of cols k]).
    { destruct (cell_of_head cols k Hne) as (c & t & E & Hc). rewrite E. unfold expand_cell.
      destruct t as [|d t]; [reflexivity|]. destruct t; [|reflexivity].
      assert (Hx : (c =? ch_x) = false) by (destruct Hc as [-> | ->]; reflexivity).
      rewrite Hx. reflexivity. }
    rewrite He. simpl. rewrite stack_of_text_cell. reflexivity.
Qed.

(* ---------- the writer's cell ---------- *)

Lemma format_square_stack_of cols k : cols <> [] -> format_square (stack_of cols k) = cell_of cols k.
Proof.
  intros Hne. unfold stack_of. destruct (rev cols) as [|c r] eqn:E.
  - apply (f_equal (@rev _)) in E. rewrite rev_involutive in E. simpl in E. congruence.
  - apply (f_equal (@rev _)) in E. rewrite rev_involutive in E. subst cols.
    unfold format_square, cell_of. simpl rev. rewrite !map_app. simpl.
    f_equal.
    f_equal. rewrite <- map_rev. rewrite !map_map. simpl. reflexivity.
Qed.

Lemma wf_stack_stack_of sq : wf_stack sq -> sq <> [] ->
  sq = stack_of (rev (map pcolor sq)) (pkind (hd (flat_of White) sq)).
Proof.
  intros Hwf Hne. destruct sq as [|top below]; [congruence|].
  unfold stack_of. rewrite rev_involutive. simpl. destruct top as [tc tk]. simpl. f_equal.
  unfold wf_stack in Hwf. simpl in Hwf.
  induction below as [|q below IH]; [reflexivity|].
  simpl. f_equal.
  - destruct q as [qc qk]. assert (Hq := Hwf (mkPiece qc qk) (or_introl eq_refl)). simpl in Hq. subst qk. reflexivity.
  - apply IH; [|discriminate]. intros x Hx. apply Hwf. right. assumption.
Qed.

Lemma stack_of_wf cols k : wf_stack (stack_of cols k).
Proof.
  unfold stack_of, wf_stack. destruct (rev cols) as [|c r]; simpl; [intros q []|].
  intros q Hq. apply in_map_iff in Hq. destruct Hq as (x & <- & _). reflexivity.
Qed.

Lemma parse_cell_format_square sq : wf_stack sq -> sq <> [] -> parse_cell (format_square sq) = Some [sq].
Proof.
  intros Hwf Hne. rewrite (wf_stack_stack_of sq Hwf Hne) at 1.
  assert (Hc : rev (map pcolor sq) <> []).
  { destruct sq; [congruence|]. simpl. intro E. apply app_eq_nil in E. destruct E; discriminate. }
  rewrite format_square_stack_of by assumption.
  rewrite parse_cell_complete by assumption.
  rewrite <- (wf_stack_stack_of sq Hwf Hne). reflexivity.
Qed.

(* characters a cell can contain: none of ',', '/', ' ' *)
Definition cell_char (c : Z) : Prop := c = ch_x \/ is_digit_char c \/ c = ch_S \/ c = ch_C.

Lemma format_square_chars sq c : In c (format_square sq) -> cell_char c.
Proof.
  unfold format_square. intros H. apply in_app_or in H. destruct H as [H|H].
  - apply in_map_iff in H. destruct H as (p & <- & _). right. left.
    destruct (pcolor p); unfold is_digit_char, color_char, ch_0, ch_1, ch_2, ch_9; lia.
  - destruct sq as [|top ?]; [destruct H|]. destruct (pkind top); simpl in H.
    + destruct H.
    + destruct H as [<-|[]]. right. right. left. reflexivity.
    + destruct H as [<-|[]]. right. right. right. reflexivity.
Qed.

Lemma cell_char_not_sep c : cell_char c -> c <> ch_comma /\ c <> ch_slash /\ c <> ch_space.
Proof.
  unfold cell_char, is_digit_char, ch_x, ch_S, ch_C, ch_0, ch_9, ch_comma, ch_slash, ch_space. lia.
Qed.
