(* T11 + C08: the hypothesis `kids_ok` of proofs/SelfPlayGenEq.v DISCHARGED for the real engine.

   `otree_of_tree solve C t pick` is the oracle answer the translated play_one_game (gen/SelfPlayGen.v) consumes, read
   off a search tree t of model/Mcts.v: the children as (move, position stored in the child), the reported policy,
   value, simulations, v_zero and the sampled index.  For trees that satisfy C08's invariant `Good`, are expanded and
   were grown for the position they answer, every child carries the position `move` gives
   (MctsProofs.select_root_move_legal), so a stream of such answers satisfies kids_ok, and the translated loop
   returns what the hand model returns, with every clause of C11 and of C11_real_engine_transcript_legal. *)
From Coq Require Import ZArith QArith Qabs String List Bool Lia.
From TV Require Import model.Tak model.Road model.PySem model.Mcts model.SelfPlay model.SelfPlaySem spec.SelfPlaySpec.
From TV Require Import proofs.GameGenEq proofs.SelfPlayProofs proofs.SelfPlayGenEq proofs.ComposeSelfPlay.
From TV Require proofs.MctsProofs.
From TV Require gen.SelfPlayGen.
Import ListNotations.
Open Scope Z_scope.

Section RealEngineGen.
  Variable cutoff : Q.
  Variable solve : pinputs -> list Q.
  Variable C : Q.
  Notation Good := (MctsProofs.Good cutoff).

  (* tree.children as the loop reads them: (c.move, c.position) *)
  Definition kid_children (t : node) : list (mv * position) :=
    match n_kids t with
    | Some ks => flat_map (fun k => match n_move k with Some m => [(m, n_pos k)] | None => [] end) ks
    | None => []
    end.

  Definition otree_of_tree (t : node) (pick : Z) : otree :=
    mkOTree (kid_children t) (policy_probs solve t C) (n_value t) (Z.of_nat (n_sims t)) (n_v0 t) pick.

  (* what model/SelfPlay.v calls the answer of that tree is ComposeSelfPlay's answer_of_tree *)
  Lemma answer_of_otree t pk : answer_of (otree_of_tree t pk) = answer_of_tree solve C t pk.
  Proof.
    unfold answer_of, otree_of_tree, answer_of_tree, kid_children, kid_moves. cbn [ot_children ot_probs ot_value ot_sims ot_vzero ot_pick].
    f_equal. destruct (n_kids t) as [ks|]; [|reflexivity].
    induction ks as [|k ks IH]; [reflexivity|]. cbn [flat_map]. rewrite map_app, IH.
    destruct (n_move k); reflexivity.
  Qed.

  (* every child of a Good expanded tree carries the position `move` gives from the tree's position *)
  Lemma kid_children_consistent t ks : Good t -> n_kids t = Some ks ->
    Forall (fun c => move (n_pos t) (fst c) = Some (snd c)) (kid_children t).
  Proof.
    intros Hg Hk. unfold kid_children. rewrite Hk. apply Forall_forall. intros [m q] Hin.
    apply in_flat_map in Hin. destruct Hin as (k & Hink & Hc).
    destruct (n_move k) as [m'|] eqn:Em; [|destruct Hc]. destruct Hc as [Hc|[]]. injection Hc as <- <-.
    apply In_nth_error in Hink. destruct Hink as (i & Hi).
    destruct (MctsProofs.select_root_move_legal cutoff t ks i k Hg Hk Hi) as (m2 & E2 & _ & Hm). cbn [fst snd]. congruence.
  Qed.

  (* the stream the real engine produces along a game: each tree is Good, expanded, grown for the position it
     answers, the sampled index is not negative; the next tree answers the position stored in the picked child *)
  Fixpoint engine_run_ok (cfg : sp_config) (pos : position) (ts : list (node * Z)) : Prop :=
    if sp_ply_limit cfg <? ply pos then True else
    match winner pos with
    | (_, Some _) => True
    | (_, None) =>
      match ts with
      | [] => True
      | (t, pk) :: rest =>
        Good t /\ (exists ks, n_kids t = Some ks) /\ n_pos t = pos /\ 0 <= pk /\
        (if (Z.of_nat (n_sims t) =? 0) || resigns cfg (answer_of_tree solve C t pk) then True else
         match nthz (kid_children t) pk with
         | Some c => engine_run_ok cfg (snd c) rest
         | None => True
         end)
      end
    end.

  Definition engine_stream (ts : list (node * Z)) : list otree := map (fun tp => otree_of_tree (fst tp) (snd tp)) ts.

  Theorem engine_kids_ok cfg : forall ts pos, engine_run_ok cfg pos ts -> kids_ok cfg pos (engine_stream ts).
  Proof.
    induction ts as [|[t pk] rest IH]; intros pos H; cbn [engine_stream map kids_ok engine_run_ok fst snd] in *.
    - destruct (sp_ply_limit cfg <? ply pos); [exact I|]. destruct (winner pos) as [c [r|]]; exact I.
    - destruct (sp_ply_limit cfg <? ply pos); [exact I|]. destruct (winner pos) as [c [r|]]; [exact I|].
      destruct H as (Hg & (ks & Hk) & Hp & Hpk & Hrest). cbn [otree_of_tree ot_pick ot_children ot_sims].
      split; [exact Hpk|]. split; [rewrite <- Hp; exact (kid_children_consistent t ks Hg Hk)|].
      rewrite answer_of_otree.
      destruct ((Z.of_nat (n_sims t) =? 0) || resigns cfg (answer_of_tree solve C t pk)); [exact I|].
      destruct (nthz (kid_children t) pk) as [c2|]; [|exact I]. apply IH. exact Hrest.
  Qed.

  Lemma engine_stream_answers ts :
    map answer_of (engine_stream ts) = map (fun tp => answer_of_tree solve C (fst tp) (snd tp)) ts.
  Proof. unfold engine_stream. rewrite map_map. apply map_ext. intros [t pk]. apply answer_of_otree. Qed.

  (* every recorded position was answered by the tree grown for it (the hypothesis of C11_real_engine_transcript_legal) *)
  Lemma engine_answers_from_trees cfg : forall ts pos tr e f, engine_run_ok cfg pos ts ->
    play_loop cfg pos (map (fun tp => answer_of_tree solve C (fst tp) (snd tp)) ts) = Done tr e f ->
    forall i p, nth_error (t_positions tr) i = Some p ->
      exists t pk ks, nth_error (map (fun tp => answer_of_tree solve C (fst tp) (snd tp)) ts) i = Some (answer_of_tree solve C t pk) /\
                      Good t /\ n_kids t = Some ks /\ n_pos t = p.
  Proof.
    induction ts as [|[t pk] rest IH]; intros pos tr e f Hok H i p Hi; cbn [map play_loop engine_run_ok fst snd] in *.
    - destruct (sp_ply_limit cfg <? ply pos); [injection H as <- _ _; destruct i; discriminate|].
      destruct (winner pos) as [c [r|]]; [injection H as <- _ _; destruct i; discriminate|discriminate].
    - destruct (sp_ply_limit cfg <? ply pos); [injection H as <- _ _; destruct i; discriminate|].
      destruct (winner pos) as [c [r|]]; [injection H as <- _ _; destruct i; discriminate|].
      destruct Hok as (Hg & (ks & Hk) & Hp & Hpk & Hrest).
      cbn [answer_of_tree a_sims a_moves a_pick a_value a_probs a_vzero] in H, Hrest.
      destruct (Z.of_nat (n_sims t) =? 0); [discriminate|]. cbn [orb] in Hrest.
      destruct (resigns cfg (answer_of_tree solve C t pk)) eqn:Er.
      + injection H as <- _ _. cbn [t_positions] in Hi. destruct i as [|[|i]]; try discriminate. injection Hi as <-.
        exists t, pk, ks. cbn [nth_error]. auto.
      + assert (Hm : nthz (kid_moves t) pk = option_map fst (nthz (kid_children t) pk)).
        { pose proof (answer_of_otree t pk) as E. apply (f_equal a_moves) in E. cbn in E. rewrite <- E. apply nthz_map. }
        rewrite Hm in H. destruct (nthz (kid_children t) pk) as [[m q]|] eqn:En; cbn [option_map fst] in H; [|discriminate].
        assert (Hmv : move pos m = Some q).
        { pose proof (kid_children_consistent t ks Hg Hk) as HF. rewrite Forall_forall in HF. rewrite <- Hp.
          apply (HF (m, q)). unfold nthz in En. destruct (pk <? 0); [discriminate|]. eapply nth_error_In; exact En. }
        rewrite Hmv in H. cbn [snd] in Hrest.
        destruct (play_loop cfg q _) as [tr' e' f'|er] eqn:E2; cbn [cons_row] in H; [|discriminate].
        injection H as <- _ _. cbn [t_positions] in Hi. destruct i as [|i].
        * injection Hi as <-. exists t, pk, ks. cbn [nth_error]. auto.
        * cbn [nth_error] in *. exact (IH q tr' e' f' Hrest E2 i p Hi).
  Qed.

  (* END TO END: the translated play_one_game on the stream of a real engine *)
  Theorem gen_real_engine cfg ts : 0 <= sp_size cfg <= 8 -> engine_run_ok cfg (start cfg) ts ->
    let s := map (fun tp => answer_of_tree solve C (fst tp) (snd tp)) ts in
    SelfPlayGen.play_one_game cfg (engine_stream ts) = embed_outcome (SelfPlay.play_one_game cfg s) /\
    forall tr, SelfPlayGen.play_one_game cfg (engine_stream ts) = Ok tr ->
      exists e f, SelfPlay.play_one_game cfg s = Done tr e f /\
      (* every recorded candidate is legal, the candidates of a row are pairwise distinct *)
      (forall i p ms m, nth_error (t_positions tr) i = Some p -> nth_error (t_moves tr) i = Some ms ->
         In m ms -> exists q, move p m = Some q) /\
      (forall i ms, nth_error (t_moves tr) i = Some ms -> NoDup ms) /\
      (* the next recorded position is the position stored in the chosen child, and it is `move` of the picked candidate *)
      (forall i p q, nth_error (t_positions tr) i = Some p -> nth_error (t_positions tr) (S i) = Some q ->
         exists t pk ks k m, nth_error s i = Some (answer_of_tree solve C t pk) /\ n_pos t = p /\
           n_kids t = Some ks /\ nthz ks pk = Some k /\ n_move k = Some m /\ n_pos k = q /\ move p m = Some q) /\
      (* positions start at the initial position, ply i at index i *)
      (forall p0, nth_error (t_positions tr) 0 = Some p0 -> p0 = start cfg) /\
      (forall i p, nth_error (t_positions tr) i = Some p -> ply p = Z.of_nat i).
  Proof.
    intros Hsz Hok. cbv zeta. pose proof (engine_kids_ok cfg ts (start cfg) Hok) as Hk.
    pose proof (gen_play_one_game_eq cfg (engine_stream ts) Hsz Hk) as Heq. rewrite engine_stream_answers in Heq.
    split; [exact Heq|]. intros tr Htr. rewrite Heq in Htr.
    destruct (SelfPlay.play_one_game cfg _) as [tr' e f|er] eqn:HD; cbn in Htr; [|discriminate]. injection Htr as ->.
    exists e, f. split; [reflexivity|].
    pose proof (engine_answers_from_trees cfg ts (start cfg) tr e f Hok HD) as Htrees.
    destruct (real_engine_transcript_legal cutoff solve C cfg _ tr e f HD Htrees) as (_ & Hlegal & Hnd & Hchild & _).
    destruct (transcript_chain cfg _ tr e f HD) as (H0 & Hchain & Hply).
    split; [exact Hlegal|]. split; [exact Hnd|]. split; [|split; [exact H0|exact Hply]].
    intros i p q Hp Hq. destruct (Hchild i p q Hp Hq) as (t & pk & ks & k & m & Hs & Hpt & Hks & Hnk & Hmk & Hpicks & Hq').
    exists t, pk, ks, k, m. repeat split; try assumption.
    destruct (Hchain i p q Hp Hq) as (a & m0 & Ha & _ & Hp0 & _ & Hmv).
    assert (Ea : a = answer_of_tree solve C t pk) by congruence. subst a.
    unfold picks in *. congruence.
  Qed.
End RealEngineGen.

(* ---------- the hypotheses are satisfiable: the searched tree of MctsProofs (3x3, 4 visits, nine children, v_zero =
   1/4) answers the start position; with threshold 1/8 the mover wins by resignation ---------- *)
Example gen_real_engine_nonvacuous :
  engine_run_ok MctsProofs.ex_cutoff ex_solve 4 ex_cfg1 (start ex_cfg1) [(MctsProofs.ex_tree, 0)] /\
  exists tr, SelfPlayGen.play_one_game ex_cfg1 (engine_stream ex_solve 4 [(MctsProofs.ex_tree, 0)]) = Ok tr /\
             t_positions tr = [MctsProofs.start3] /\ t_result tr = Some White.
Proof.
  destruct MctsProofs.ex_tree_good as (Hg & _ & Hp).
  assert (Hok : engine_run_ok MctsProofs.ex_cutoff ex_solve 4 ex_cfg1 (start ex_cfg1) [(MctsProofs.ex_tree, 0)]).
  { cbn [engine_run_ok]. change (sp_ply_limit ex_cfg1 <? ply (start ex_cfg1)) with false. cbv iota.
    change (winner (start ex_cfg1)) with (@None color, @None reason). cbv iota.
    split; [exact Hg|]. split; [destruct (n_kids MctsProofs.ex_tree) as [ks|] eqn:E; [eauto|vm_compute in E; discriminate]|].
    split; [exact Hp|]. split; [lia|].
    replace ((Z.of_nat (n_sims MctsProofs.ex_tree) =? 0) || resigns ex_cfg1 (answer_of_tree ex_solve 4 MctsProofs.ex_tree 0)) with true
      by (vm_compute; reflexivity). exact I. }
  split; [exact Hok|].
  destruct (gen_real_engine MctsProofs.ex_cutoff ex_solve 4 ex_cfg1 _ ltac:(cbn; lia) Hok) as (Heq & _).
  eexists. split; [rewrite Heq; vm_compute; reflexivity|]. split; reflexivity.
Qed.
