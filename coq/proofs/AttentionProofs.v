(* C16 - proofs about the hand model of model/Attention.v.
   Everything is proved for arbitrary per-token operators and an arbitrary
   attention kernel (`ops`): only the dataflow matters. *)
From Coq Require Import List Bool Arith ZArith Lia.
From TV Require Import model.Attention.
Import ListNotations.

(* ------------------------------------------------------------------ *)
(* list helpers                                                        *)
(* ------------------------------------------------------------------ *)
Lemma mapi_from_app {A B} (f : nat -> A -> B) l1 l2 : forall i,
  mapi_from f i (l1 ++ l2) = mapi_from f i l1 ++ mapi_from f (i + length l1) l2.
Proof.
  induction l1 as [|x t IH]; intros i; simpl.
  - now rewrite Nat.add_0_r.
  - rewrite IH. do 3 f_equal. lia.
Qed.

Lemma mapi_from_ext {A B} (f g : nat -> A -> B) l : forall i,
  (forall j x, i <= j < i + length l -> f j x = g j x) -> mapi_from f i l = mapi_from g i l.
Proof.
  induction l as [|x t IH]; intros i H; simpl; [reflexivity|].
  rewrite (H i x) by (simpl; lia). f_equal. apply IH. intros j y Hj. apply H. simpl. lia.
Qed.

Lemma mapi_from_length {A B} (f : nat -> A -> B) l : forall i, length (mapi_from f i l) = length l.
Proof. induction l as [|x t IH]; intros i; simpl; [reflexivity|]. now rewrite IH. Qed.

Lemma zipw_app {A B C} (f : A -> B -> C) a1 b1 : forall a2 b2, length a1 = length b1 ->
  zipw f (a1 ++ a2) (b1 ++ b2) = zipw f a1 b1 ++ zipw f a2 b2.
Proof.
  revert b1. induction a1 as [|x t IH]; intros [|y b1] a2 b2 H; simpl in *; try discriminate; [reflexivity|].
  f_equal. apply IH. lia.
Qed.

Lemma zipw_length {A B C} (f : A -> B -> C) a : forall b, length (zipw f a b) = Nat.min (length a) (length b).
Proof. induction a as [|x t IH]; intros [|y b]; simpl; try reflexivity. now rewrite IH. Qed.

Lemma combine_app' {A B} (a1 : list A) (b1 : list B) : forall a2 b2, length a1 = length b1 ->
  combine (a1 ++ a2) (b1 ++ b2) = combine a1 b1 ++ combine a2 b2.
Proof.
  revert b1. induction a1 as [|x t IH]; intros [|y b1] a2 b2 H; simpl in *; try discriminate; [reflexivity|].
  f_equal. apply IH. lia.
Qed.

Lemma visible_from_app {A} keep (l1 l2 : list A) : forall j,
  visible_from keep j (l1 ++ l2) = visible_from keep j l1 ++ visible_from keep (j + length l1) l2.
Proof.
  induction l1 as [|x t IH]; intros j; simpl.
  - now rewrite Nat.add_0_r.
  - rewrite IH. replace (S j + length t) with (j + S (length t)) by lia. now destruct (keep j).
Qed.

Lemma visible_from_ext {A} k1 k2 (l : list A) : forall j,
  (forall j', j <= j' < j + length l -> k1 j' = k2 j') -> visible_from k1 j l = visible_from k2 j l.
Proof.
  induction l as [|x t IH]; intros j H; simpl; [reflexivity|].
  rewrite (H j) by (simpl; lia). rewrite (IH (S j)); [reflexivity|]. intros j' Hj. apply H. simpl. lia.
Qed.

Lemma visible_from_none {A} k (l : list A) : forall j,
  (forall j', j <= j' < j + length l -> k j' = false) -> visible_from k j l = [].
Proof.
  induction l as [|x t IH]; intros j H; simpl; [reflexivity|].
  rewrite (H j) by (simpl; lia). apply IH. intros j' Hj. apply H. simpl. lia.
Qed.

Lemma nth_firstn' {A} (d : A) : forall k i l, i < k -> nth i (firstn k l) d = nth i l d.
Proof.
  induction k as [|k IH]; intros i l H; [lia|].
  destruct l as [|x t]; [now destruct i|]. destruct i as [|i]; simpl; [reflexivity|]. apply IH. lia.
Qed.

Lemma nth_error_map' {A B} (f : A -> B) : forall l i, nth_error (map f l) i = option_map f (nth_error l i).
Proof. induction l as [|x t IH]; intros [|i]; simpl; try reflexivity. apply IH. Qed.

Lemma nth_map_seq {B} (f : nat -> B) d : forall W s j, j < W -> nth j (map f (seq s W)) d = f (s + j).
Proof.
  induction W as [|W IH]; intros s j H; [lia|]. destruct j as [|j]; simpl.
  - now rewrite Nat.add_0_r.
  - rewrite IH by lia. f_equal. lia.
Qed.

Lemma list_max_ge : forall l n, In n l -> n <= list_max l.
Proof.
  induction l as [|x t IH]; intros n H; [destruct H|]. simpl. destruct H as [->|H]; [lia|].
  specialize (IH _ H). lia.
Qed.

(* ------------------------------------------------------------------ *)
(* attention: a prefix of the row that cannot see the rest             *)
(* ------------------------------------------------------------------ *)
Lemma attention_length {act} (core : act -> list (act * act) -> act) am pm q k v :
  length (attention core am pm q k v) = length q.
Proof. unfold attention, mapi. apply mapi_from_length. Qed.

Lemma attention_prefix {act} (core : act -> list (act * act) -> act) am pm am' pm' q1 q2 k1 k2 v1 v2 :
  length k1 = length q1 -> length v1 = length q1 ->
  (forall i j, i < length q1 -> length q1 <= j < length q1 + Nat.min (length k2) (length v2) -> keep am pm i j = false) ->
  (forall i j, i < length q1 -> j < length q1 -> keep am pm i j = keep am' pm' i j) ->
  exists s, length s = length q2 /\
    attention core am pm (q1 ++ q2) (k1 ++ k2) (v1 ++ v2) = attention core am' pm' q1 k1 v1 ++ s.
Proof.
  intros Hk Hv Hhide Hsame. unfold attention, mapi. rewrite mapi_from_app.
  eexists. split; [apply mapi_from_length|]. f_equal.
  apply mapi_from_ext. intros i x Hi. simpl in Hi. f_equal. unfold visible.
  rewrite combine_app' by lia. rewrite visible_from_app.
  assert (Hlen : length (combine k1 v1) = length q1) by (rewrite combine_length; lia).
  rewrite Hlen. rewrite (visible_from_none _ (combine k2 v2)).
  - rewrite app_nil_r. apply visible_from_ext. intros j Hj. rewrite Hlen in Hj. apply Hsame; lia.
  - intros j Hj. rewrite combine_length in Hj. apply Hhide; lia.
Qed.

Section Proofs.
  Context {tok act layer : Type}.
  Variable O : ops tok act layer.

  Lemma resblock_length L am pm xs : length (resblock O L am pm xs) = length xs.
  Proof.
    unfold resblock. cbv zeta. rewrite zipw_length, !map_length, zipw_length, attention_length, map_length. lia.
  Qed.

  (* queries of the prefix p cannot see the keys of the suffix s, and the two mask
     settings agree inside the prefix: the prefix is computed as if it were alone *)
  Definition hides (am : amask) (pm : pmask) (n m : nat) : Prop :=
    forall i j, i < n -> n <= j < n + m -> keep am pm i j = false.
  Definition agree (am : amask) (pm : pmask) (am' : amask) (pm' : pmask) (n : nat) : Prop :=
    forall i j, i < n -> j < n -> keep am pm i j = keep am' pm' i j.

  Lemma resblock_prefix L am pm am' pm' p s :
    hides am pm (length p) (length s) -> agree am pm am' pm' (length p) ->
    exists s', length s' = length s /\ resblock O L am pm (p ++ s) = resblock O L am' pm' p ++ s'.
  Proof.
    intros Hh Ha. unfold resblock. cbv zeta. rewrite map_app.
    destruct (attention_prefix (attn_core O L) am pm am' pm'
                (map (attn_ln O L) p) (map (attn_ln O L) s) (map (attn_ln O L) p) (map (attn_ln O L) s)
                (map (attn_ln O L) p) (map (attn_ln O L) s)) as [s1 [Hs1 Heq]];
      try reflexivity.
    - intros i j Hi Hj. rewrite !map_length in *. apply Hh; lia.
    - intros i j Hi Hj. rewrite !map_length in *. apply Ha; lia.
    - rewrite Heq. rewrite map_length in Hs1.
      rewrite zipw_app by (rewrite attention_length, map_length; reflexivity).
      rewrite !map_app. rewrite zipw_app by (now rewrite !map_length).
      eexists. split; [|reflexivity].
      rewrite zipw_length, !map_length, zipw_length. lia.
  Qed.

  Lemma layers_prefix layers am pm am' pm' : forall p s,
    hides am pm (length p) (length s) -> agree am pm am' pm' (length p) ->
    exists s', length s' = length s /\
      fold_left (fun a L => resblock O L am pm a) layers (p ++ s)
      = fold_left (fun a L => resblock O L am' pm' a) layers p ++ s'.
  Proof.
    induction layers as [|L t IH]; intros p s Hh Ha; simpl.
    - exists s. split; reflexivity.
    - destruct (resblock_prefix L am pm am' pm' p s Hh Ha) as [s1 [Hs1 Heq]]. rewrite Heq.
      destruct (IH (resblock O L am' pm' p) s1) as [s2 [Hs2 Heq2]].
      + now rewrite resblock_length, Hs1.
      + now rewrite resblock_length.
      + exists s2. split; [lia|exact Heq2].
  Qed.

  Lemma torso_length layers causal pm xs : length (torso O layers causal pm xs) = length xs.
  Proof.
    unfold torso. revert xs. induction layers as [|L t IH]; intros xs; simpl; [reflexivity|].
    now rewrite IH, resblock_length.
  Qed.

  (* ---------------------------------------------------------------- *)
  (* padding                                                           *)
  (* ---------------------------------------------------------------- *)
  (* a key padding mask that flags exactly the positions >= n of a row of width n + p *)
  Definition flags_padding (pm : pmask) (n p : nat) : Prop :=
    forall j, j < n + p -> pm_masked pm j = (n <=? j).

  Lemma mask_of_flags n p : flags_padding (Some (mask_of n p)) n p.
  Proof.
    intros j Hj. unfold pm_masked, mask_of. destruct (n <=? j) eqn:E.
    - apply Nat.leb_le in E. rewrite app_nth2 by (rewrite repeat_length; lia). rewrite repeat_length.
      rewrite nth_indep with (d' := true) by (rewrite repeat_length; lia). apply nth_repeat.
    - apply Nat.leb_gt in E. rewrite app_nth1 by (rewrite repeat_length; lia).
      apply nth_repeat.
  Qed.

  Lemma torso_padding_gen layers causal pm xs pads :
    flags_padding pm (length xs) (length pads) ->
    exists s', length s' = length pads /\
      torso O layers causal pm (xs ++ pads) = torso O layers causal None xs ++ s'.
  Proof.
    intros Hf. unfold torso. apply layers_prefix.
    - intros i j Hi Hj. unfold keep. rewrite Hf by lia.
      replace (length xs <=? j) with true by (symmetry; apply Nat.leb_le; lia). apply andb_false_r.
    - intros i j Hi Hj. unfold keep. rewrite Hf by lia.
      replace (length xs <=? j) with false by (symmetry; apply Nat.leb_gt; lia). reflexivity.
  Qed.

  Lemma firstn_app_exact {A} (a s : list A) n : length a = n -> firstn n (a ++ s) = a.
  Proof. intros <-. rewrite firstn_app, Nat.sub_diag, firstn_all. simpl. apply app_nil_r. Qed.

  Theorem padding_invariance_gen layers causal pm xs pads :
    flags_padding pm (length xs) (length pads) ->
    firstn (length xs) (torso O layers causal pm (xs ++ pads)) = torso O layers causal None xs.
  Proof.
    intros Hf. destruct (torso_padding_gen layers causal pm xs pads Hf) as [s' [_ ->]].
    apply firstn_app_exact, torso_length.
  Qed.

  Theorem padding_invariance layers causal xs pads :
    firstn (length xs) (torso O layers causal (Some (mask_of (length xs) (length pads))) (xs ++ pads))
    = torso O layers causal None xs.
  Proof. apply padding_invariance_gen, mask_of_flags. Qed.

  (* embedding: the pads are embedded behind the real tokens; position j gets pe[j] *)
  Lemma text_embedding_app pk t1 t2 :
    exists s, length s = length t2 /\ text_embedding O pk (t1 ++ t2) = text_embedding O pk t1 ++ s.
  Proof.
    unfold text_embedding, pos_enc. rewrite map_app.
    destruct pk.
    1,2: rewrite app_length, seq_app, map_app, zipw_app by (now rewrite !map_length, seq_length);
         eexists; split; [|reflexivity]; rewrite zipw_length, !map_length, seq_length; lia.
    exists (map (embed O) t2). split; [apply map_length|reflexivity].
  Qed.
  Lemma text_embedding_length pk t : length (text_embedding O pk t) = length t.
  Proof.
    unfold text_embedding, pos_enc. destruct pk; rewrite ?zipw_length, ?map_length, ?seq_length; lia.
  Qed.

  Lemma transformer_acts_padding pk layers causal pm toks padtoks :
    flags_padding pm (length toks) (length padtoks) ->
    exists s', length s' = length padtoks /\
      transformer_acts O pk layers causal pm (toks ++ padtoks) = transformer_acts O pk layers causal None toks ++ s'.
  Proof.
    intros Hf. unfold transformer_acts.
    destruct (text_embedding_app pk toks padtoks) as [s [Hs ->]]. rewrite <- Hs.
    apply torso_padding_gen. now rewrite text_embedding_length, Hs.
  Qed.

  (* ---------------------------------------------------------------- *)
  (* the head                                                          *)
  (* ---------------------------------------------------------------- *)
  Theorem head_reads_token0 : forall xs ys, hd_error xs = hd_error ys -> policy_value O xs = policy_value O ys.
  Proof.
    intros [|x xs] [|y ys] H; simpl in H; try discriminate; [reflexivity|]. injection H as ->. reflexivity.
  Qed.
  Example head_example (a b c : act) : hd_error [a; b] = hd_error [a; c; c] /\ [a; b] <> [a; c; c].
  Proof. split; [reflexivity|discriminate]. Qed.
  Lemma policy_value_cons x t :
    policy_value O (x :: t) = (tanh_v O (v_proj O (final_ln O x)), move_proj O (final_ln O x)).
  Proof. reflexivity. Qed.

  Theorem pv_padding_invariance pk layers causal pm toks padtoks :
    toks <> [] -> flags_padding pm (length toks) (length padtoks) ->
    transformer_pv O pk layers causal pm (toks ++ padtoks) = transformer_pv O pk layers causal None toks.
  Proof.
    intros Hne Hf. unfold transformer_pv.
    destruct (transformer_acts_padding pk layers causal pm toks padtoks Hf) as [s' [_ ->]].
    apply head_reads_token0.
    assert (Hl : length (transformer_acts O pk layers causal None toks) = length toks)
      by (unfold transformer_acts; now rewrite torso_length, text_embedding_length).
    destruct (transformer_acts O pk layers causal None toks) as [|a t]; [|reflexivity].
    destruct toks; [contradiction|discriminate].
  Qed.

  Theorem lm_padding_invariance pk layers causal pm toks padtoks :
    flags_padding pm (length toks) (length padtoks) ->
    firstn (length toks) (transformer_lm O pk layers causal pm (toks ++ padtoks)) = transformer_lm O pk layers causal None toks.
  Proof.
    intros Hf. unfold transformer_lm, text_unembedding.
    destruct (transformer_acts_padding pk layers causal pm toks padtoks Hf) as [s' [_ ->]].
    rewrite !map_app. apply firstn_app_exact. rewrite !map_length.
    unfold transformer_acts. now rewrite torso_length, text_embedding_length.
  Qed.

  (* ---------------------------------------------------------------- *)
  (* batches                                                           *)
  (* ---------------------------------------------------------------- *)
  (* rows never interact: output i of a batch is the evaluation of row i by itself *)
  Theorem batch_independence pk layers causal rows i :
    nth_error (batch_pv O pk layers causal rows) i
    = option_map (fun r => transformer_pv O pk layers causal (snd r) (fst r)) (nth_error rows i).
  Proof. apply nth_error_map'. Qed.

  Corollary batch_other_rows_irrelevant pk layers causal rows rows' i :
    nth_error rows i = nth_error rows' i ->
    nth_error (batch_pv O pk layers causal rows) i = nth_error (batch_pv O pk layers causal rows') i.
  Proof. intros H. now rewrite !batch_independence, H. Qed.

  (* a batch as the callers build it: every position padded with `pad` to the longest one,
     with the mask `mk len W` of some producer *)
  Definition padded_batch (pad : tok) (mk : nat -> nat -> pmask) (ps : list (list tok)) : list (list tok * pmask) :=
    let W := list_max (map (@length tok) ps) in
    map (fun p => (p ++ repeat pad (W - length p), mk (length p) W)) ps.
  Definition producer_flags (mk : nat -> nat -> pmask) : Prop :=
    forall len W, len <= W -> forall j, j < W -> pm_masked (mk len W) j = (len <=? j).

  Theorem alone_or_batched pk layers causal pad mk ps i p :
    producer_flags mk -> nth_error ps i = Some p -> p <> [] ->
    nth_error (batch_pv O pk layers causal (padded_batch pad mk ps)) i
    = Some (transformer_pv O pk layers causal None p).
  Proof.
    intros Hmk Hi Hne. rewrite batch_independence. unfold padded_batch. rewrite nth_error_map', Hi. simpl. f_equal.
    assert (Hle : length p <= list_max (map (@length tok) ps)).
    { apply list_max_ge, in_map, (nth_error_In _ _ Hi). }
    apply pv_padding_invariance; [exact Hne|].
    intros j Hj. rewrite repeat_length in Hj. apply Hmk; lia.
  Qed.

  (* ---------------------------------------------------------------- *)
  (* causal mask                                                       *)
  (* ---------------------------------------------------------------- *)
  Lemma ar_mask_hides pm n m : hides (Some ar_mask) pm n m.
  Proof.
    intros i j Hi Hj. unfold keep, am_masked, ar_mask, triu.
    replace (Z.of_nat i + 1 <=? Z.of_nat j)%Z with true by (symmetry; apply Z.leb_le; lia). reflexivity.
  Qed.

  Lemma torso_causal_prefix layers pm p s :
    exists s', length s' = length s /\
      torso O layers true pm (p ++ s) = torso O layers true pm p ++ s'.
  Proof. unfold torso. apply layers_prefix; [apply ar_mask_hides|intros i j _ _; reflexivity]. Qed.

  Theorem causal_prefix layers pm k xs ys :
    firstn k xs = firstn k ys ->
    firstn k (torso O layers true pm xs) = firstn k (torso O layers true pm ys).
  Proof.
    intros H.
    rewrite <- (firstn_skipn k xs), <- (firstn_skipn k ys), <- H.
    destruct (torso_causal_prefix layers pm (firstn k xs) (skipn k xs)) as [s1 [H1 ->]].
    destruct (torso_causal_prefix layers pm (firstn k xs) (skipn k ys)) as [s2 [H2 ->]].
    rewrite !firstn_app. f_equal. rewrite torso_length.
    destruct (le_lt_dec k (length xs)) as [Hk|Hk].
    - rewrite firstn_length_le by exact Hk. now rewrite Nat.sub_diag.
    - (* the whole of xs is in the prefix, hence so is the whole of ys *)
      assert (Hx : length (skipn k xs) = 0) by (rewrite skipn_length; lia).
      assert (Hy : length (skipn k ys) = 0).
      { rewrite skipn_length. apply (f_equal (@length act)) in H. rewrite !firstn_length in H. lia. }
      destruct s1; [|simpl in H1; lia]. destruct s2; [|simpl in H2; lia]. reflexivity.
  Qed.

  Theorem causal layers pm i xs ys d :
    firstn (i + 1) xs = firstn (i + 1) ys ->
    nth i (torso O layers true pm xs) d = nth i (torso O layers true pm ys) d.
  Proof.
    intros H. rewrite <- (nth_firstn' d (i + 1) i (torso O layers true pm xs)) by lia.
    rewrite <- (nth_firstn' d (i + 1) i (torso O layers true pm ys)) by lia.
    now rewrite (causal_prefix layers pm (i + 1) xs ys H).
  Qed.

  (* the hypotheses of the implication theorems are satisfiable by non-trivial values *)
  Example padding_example (a b c : act) :
    flags_padding (Some (mask_of 2 3)) (length [a; b]) (length [c; c; c]) /\ [a; b] <> [].
  Proof. split; [apply mask_of_flags|discriminate]. Qed.
  Example causal_example (a b c d : act) : c <> d -> firstn (1 + 1) [a; b; c] = firstn (1 + 1) [a; b; d] /\ [a; b; c] <> [a; b; d].
  Proof. intros H. split; [reflexivity|]. intros E. injection E as E. contradiction. Qed.
End Proofs.

(* ------------------------------------------------------------------ *)
(* mask producers                                                      *)
(* ------------------------------------------------------------------ *)
(* m denotes, for a row of `len` real tokens in a batch of width W, a mask of the
   width fed to the model whose flag at j is f j *)
Definition den_spec (m : mexpr) (len W : nat) (f : nat -> bool) : Prop :=
  exists l, denote_mask m len W = Some l /\ length l = mask_width m W /\
            forall j, j < mask_width m W -> nth j l false = f j.

Lemma spec_fill lo hi v len W :
  den_spec (MZerosFill lo hi v) len W
           (fun j => if (bound_val lo len W <=? j) && (j <? bound_val hi len W) then v else false).
Proof.
  eexists. split; [reflexivity|]. split; [now rewrite map_length, seq_length|].
  intros j Hj. simpl in Hj. now rewrite nth_map_seq.
Qed.

Lemma spec_not m len W f : den_spec m len W f -> den_spec (MNot m) len W (fun j => negb (f j)).
Proof.
  intros [l [Hd [Hl Hn]]]. exists (map negb l). simpl. rewrite Hd. split; [reflexivity|].
  split; [now rewrite map_length|]. intros j Hj.
  rewrite nth_indep with (d' := negb true) by (rewrite map_length; lia).
  rewrite map_nth. rewrite nth_indep with (d' := false) by lia. now rewrite Hn.
Qed.

Lemma spec_droplast m len W f : den_spec m len W f -> den_spec (MDropLast m) len W f.
Proof.
  intros [l [Hd [Hl Hn]]]. exists (removelast l). simpl. rewrite Hd. split; [reflexivity|].
  rewrite removelast_firstn_len. split.
  - rewrite firstn_length. lia.
  - intros j Hj. rewrite nth_firstn' by lia. apply Hn. lia.
Qed.

(* what C16 needs of a producer: true = padding at exactly the positions >= the row's real length *)
Definition polarity_ok (p : producer) : Prop :=
  forall len W, len <= W -> (pr_rows p = RSingleUnpadded -> W = len) ->
    (forall l, denote_mask (pr_mask p) len W = Some l -> length l = mask_width (pr_mask p) W) /\
    forall j, j < mask_width (pr_mask p) W -> pm_masked (denote_mask (pr_mask p) len W) j = (len <=? j).

Lemma polarity_from_spec n rk m ap f :
  (forall len W, len <= W -> den_spec m len W (f len W) /\ forall j, j < mask_width m W -> f len W j = (len <=? j)) ->
  polarity_ok {| pr_name := n; pr_rows := rk; pr_mask := m; pr_argpos := ap |}.
Proof.
  intros H len W Hle _. simpl. destruct (H len W Hle) as [[l [Hd [Hl Hn]]] Hf]. rewrite Hd. split.
  - intros l' E. injection E as <-. exact Hl.
  - intros j Hj. simpl. rewrite Hn by exact Hj. now apply Hf.
Qed.

Lemma polarity_absent n ap :
  polarity_ok {| pr_name := n; pr_rows := RSingleUnpadded; pr_mask := MAbsent; pr_argpos := ap |}.
Proof.
  intros len W Hle HW. simpl in *. specialize (HW eq_refl). subst W. split; [discriminate|].
  intros j Hj. symmetry. apply Nat.leb_gt. exact Hj.
Qed.

(* ~ (zeros; row[:len] = 1), possibly trimmed by [:, :-1] *)
Lemma polarity_not_head n rk ap :
  polarity_ok {| pr_name := n; pr_rows := rk; pr_mask := MNot (MZerosFill BStart BLen true); pr_argpos := ap |}.
Proof.
  apply polarity_from_spec with (f := fun len W j => negb (if (0 <=? j) && (j <? len) then true else false)).
  intros len W Hle. split; [apply spec_not, (spec_fill BStart BLen true)|].
  intros j Hj. simpl. destruct (j <? len) eqn:E1, (len <=? j) eqn:E2; try reflexivity;
    [apply Nat.ltb_lt in E1; apply Nat.leb_le in E2|apply Nat.ltb_ge in E1; apply Nat.leb_gt in E2]; lia.
Qed.
Lemma polarity_not_droplast_head n rk ap :
  polarity_ok {| pr_name := n; pr_rows := rk; pr_mask := MNot (MDropLast (MZerosFill BStart BLen true)); pr_argpos := ap |}.
Proof.
  apply polarity_from_spec with (f := fun len W j => negb (if (0 <=? j) && (j <? len) then true else false)).
  intros len W Hle. split; [apply spec_not, spec_droplast, (spec_fill BStart BLen true)|].
  intros j Hj. simpl. destruct (j <? len) eqn:E1, (len <=? j) eqn:E2; try reflexivity;
    [apply Nat.ltb_lt in E1; apply Nat.leb_le in E2|apply Nat.ltb_ge in E1; apply Nat.leb_gt in E2]; lia.
Qed.
(* zeros; row[len:] = 1 *)
Lemma polarity_tail n rk ap :
  polarity_ok {| pr_name := n; pr_rows := rk; pr_mask := MZerosFill BLen BEnd true; pr_argpos := ap |}.
Proof.
  apply polarity_from_spec with (f := fun len W j => if (len <=? j) && (j <? W) then true else false).
  intros len W Hle. split; [apply (spec_fill BLen BEnd true)|].
  intros j Hj. simpl in *. replace (j <? W) with true by (symmetry; apply Nat.ltb_lt; lia).
  now destruct (len <=? j).
Qed.

Ltac producer_polarity :=
  first [ apply polarity_absent | apply polarity_not_head | apply polarity_not_droplast_head | apply polarity_tail ].

(* a producer that satisfies polarity_ok and pads rows feeds `alone_or_batched` *)
Lemma polarity_producer_flags p :
  polarity_ok p -> pr_rows p = RZeroPadded -> (forall W, mask_width (pr_mask p) W = W) ->
  producer_flags (denote_mask (pr_mask p)).
Proof.
  intros H Hr Hw len W Hle j Hj. apply H; try assumption.
  - rewrite Hr. discriminate.
  - now rewrite Hw.
Qed.
