(* C18 - proofs about the protocol model model/Workers.v *)
From Coq Require Import ZArith List Bool Lia Permutation Arith.
From TV Require Import model.Workers.
Import ListNotations.
Open Scope Z_scope.

(* ------------------------------------------------------------------------- *)
(* lists                                                                        *)
(* ------------------------------------------------------------------------- *)
Lemma upd_split {A} (l : list A) (n : nat) (x : A) :
  nth_error l n = Some x ->
  exists l1 l2, l = l1 ++ x :: l2 /\ forall y, upd n y l = l1 ++ y :: l2.
Proof.
  revert n. induction l as [|h t IH]; intros [|n] H; simpl in H; try discriminate.
  - inversion H; subst. exists [], t. split; [reflexivity|]. intros y. reflexivity.
  - destruct (IH n H) as (l1 & l2 & E & U). exists (h :: l1), l2. split.
    + simpl. rewrite <- E. reflexivity.
    + intros y. simpl. rewrite U. reflexivity.
Qed.

Lemma upd_length {A} (l : list A) n x : length (upd n x l) = length l.
Proof. revert n. induction l as [|h t IH]; intros [|n]; simpl; auto. Qed.

Lemma nth_error_upd {A} (l : list A) n m x :
  nth_error (upd n x l) m =
  if Nat.eqb n m then match nth_error l m with Some _ => Some x | None => None end else nth_error l m.
Proof.
  revert n m. induction l as [|h t IH]; intros [|n] [|m]; simpl; auto.
  - destruct (Nat.eqb n m); reflexivity.
Qed.

Lemma flat_map_nil_length {A B} (f : A -> list B) l : length (flat_map f l) = 0%nat -> flat_map f l = [].
Proof. intros H. apply length_zero_iff_nil. exact H. Qed.

(* ------------------------------------------------------------------------- *)
(* reachability                                                                 *)
(* ------------------------------------------------------------------------- *)
Inductive reachable (cfg : config) : state -> Prop :=
| reach_init : forall n, reachable cfg (init n)
| reach_step : forall s e s', reachable cfg s -> step cfg e s = Some s' -> reachable cfg s'.

Lemma reachable_run cfg tr : forall s s', reachable cfg s -> run cfg tr s = Some s' -> reachable cfg s'.
Proof.
  induction tr as [|e tr IH]; intros s s' R H; simpl in H.
  - inversion H; subst; assumption.
  - destruct (step cfg e s) as [s1|] eqn:E; [|discriminate].
    eapply IH; [|exact H]. eapply reach_step; eauto.
Qed.

Lemma run_app cfg tr1 : forall tr2 s,
  run cfg (tr1 ++ tr2) s = match run cfg tr1 s with Some s1 => run cfg tr2 s1 | None => None end.
Proof.
  induction tr1 as [|e tr1 IH]; intros tr2 s; simpl; [reflexivity|].
  destruct (step cfg e s); [apply IH|reflexivity].
Qed.

(* case analysis of one step: every guard becomes an equation, the successor an explicit record *)
Ltac inv_step H :=
  unfold step in H;
  repeat match type of H with
         | context [match ?x with _ => _ end] => destruct x eqn:?; try discriminate H
         | context [if ?x then _ else _] => destruct x eqn:?; try discriminate H
         end;
  inversion H; subst; clear H.

Ltac split_ws :=
  repeat match goal with
         | Hn : nth_error (ws ?s) ?w = Some ?st |- _ =>
             let l1 := fresh "l1" in let l2 := fresh "l2" in
             let Hws := fresh "Hws" in let Hupd := fresh "Hupd" in
             destruct (upd_split _ _ _ Hn) as (l1 & l2 & Hws & Hupd); clear Hn;
             try rewrite !Hupd; rewrite Hws in *
         end.

(* ------------------------------------------------------------------------- *)
(* the invariant                                                                *)
(* ------------------------------------------------------------------------- *)
Definition cnt (i : Z) (s : state) : nat := count_occ Z.eq_dec (all_ids s) i.
Definition lo (s : state) : Z := next_id (par s) - Z.of_nat (target (par s) - todo (par s)).
Definition in_request (c : pc_t) : Prop := c = PFilling \/ c = PWaiting \/ c = PStuck.

Record Inv (s : state) : Prop := {
  inv_cnt : forall i, (cnt i s <= 1)%nat;
  inv_rng : forall i, (cnt i s >= 1)%nat -> lo s <= i < next_id (par s);
  inv_len : (length (all_ids s) + todo (par s) <= target (par s))%nat;
  inv_run : outcome (par s) = ORunning <-> in_request (pc (par s));
  inv_short : outcome (par s) = ORunning -> (length (collected (par s)) < target (par s))%nat;
  inv_ret : outcome (par s) = OReturned -> length (collected (par s)) = target (par s);
  inv_none : outcome (par s) = ONone -> target (par s) = 0%nat;
  inv_nonone : (pc (par s) = PBetween \/ in_request (pc (par s))) -> Forall (fun m => m <> None) (cmd s)
}.

Lemma playing_kill l :
  flat_map (fun st => match st with Playing i => [i] | _ => [] end) (map kill_one l) = [].
Proof.
  induction l as [|st l IH]; simpl; [reflexivity|]. rewrite IH.
  destruct st; reflexivity.
Qed.

Ltac norm :=
  unfold cnt, lo, all_ids, cmd_ids, game_ids, playing_ids in *; simpl in *;
  repeat rewrite ?flat_map_app, ?count_occ_app, ?app_length, ?playing_kill in *; simpl in *.

Ltac inreq := unfold in_request in *;
  repeat match goal with
         | H : _ \/ _ |- _ => destruct H
         | H : _ /\ _ |- _ => destruct H
         end; try congruence.

Lemma inv_init n : Inv (init n).
Proof.
  assert (P : flat_map (fun st => match st with Playing i => [i] | _ => [] end) (repeat Starting n) = []).
  { induction n; simpl; auto. }
  split; unfold init; norm; rewrite ?P; simpl; intros; try lia; try congruence; auto.
  - split; intros; inreq.
Qed.
