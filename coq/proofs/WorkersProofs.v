(* C18 - theorems about the protocol model model/Workers.v (invariant: proofs/WorkersInv.v) *)
From Coq Require Import ZArith List Bool Lia Permutation Arith.
From TV Require Import model.Workers proofs.WorkersInv.
Import ListNotations.
Open Scope Z_scope.

Lemma kill_one_exited st : exists c, kill_one st = Exited c.
Proof. destruct st; unfold kill_one; simpl; eauto. Qed.

Lemma kill_one_keeps c : kill_one (Exited c) = Exited c.
Proof. reflexivity. Qed.

(* an exit code, once set, never changes *)
Lemma exited_stable cfg e s s' w c :
  step cfg e s = Some s' -> nth_error (ws s) w = Some (Exited c) -> nth_error (ws s') w = Some (Exited c).
Proof.
  intros H X. destruct e; inv_step H; unfold set_par, set_pc, set_w; simpl; auto.
  all: try solve [rewrite nth_error_upd; destruct (Nat.eqb_spec w0 w); [subst; congruence|assumption]].
  all: try solve [erewrite map_nth_error by eassumption; reflexivity].
Qed.

Lemma exited_stable_run cfg tr : forall s s' w c,
  run cfg tr s = Some s' -> nth_error (ws s) w = Some (Exited c) -> nth_error (ws s') w = Some (Exited c).
Proof.
  induction tr as [|e tr IH]; intros s s' w c H X; simpl in H.
  - inversion H; subst; assumption.
  - destruct (step cfg e s) as [s1|] eqn:E; [|discriminate].
    eapply IH; [exact H|]. eapply exited_stable; eauto.
Qed.

Lemma has_failed_stable cfg tr s s' : run cfg tr s = Some s' -> has_failed s -> has_failed s'.
Proof. intros H (w & c & X & N). exists w, c. split; [eapply exited_stable_run; eauto|assumption]. Qed.

Lemma no_exit_back cfg e s s' : step cfg e s = Some s' -> no_exit s' -> no_exit s.
Proof. intros H N w c X. apply (N w c). eapply exited_stable; eauto. Qed.

Lemma existsb_bad_exit l : existsb bad_exit l = true -> exists w c, nth_error l w = Some (Exited c) /\ c <> 0.
Proof.
  induction l as [|a l IH]; simpl; [discriminate|]. intros H. apply orb_true_iff in H. destruct H as [H|H].
  - destruct a; simpl in H; try discriminate. exists 0%nat, code. split; [reflexivity|].
    apply negb_true_iff in H. apply Z.eqb_neq in H. assumption.
  - destruct (IH H) as (w & c & X & N). exists (S w), c. split; assumption.
Qed.

Ltac no_exit_contra NE :=
  exfalso;
  match goal with
  | Hn : nth_error (ws ?s) ?w = Some _ |- _ =>
      solve [eapply (NE w); simpl; rewrite nth_error_upd, Nat.eqb_refl, Hn; reflexivity]
  end.

(* collected + queued games + games being played + queued ids + todo = N while no worker has exited *)
Lemma count_invariant_l cfg s : reachable cfg s -> no_exit s ->
  (length (collected (par s)) + length (game_ids s) + length (playing_ids s) + length (cmd_ids s)
   + todo (par s) = target (par s))%nat.
Proof.
  induction 1 as [n|s e s' R IH H]; intros NE.
  - unfold init, game_ids, playing_ids, cmd_ids; simpl.
    assert (P : flat_map (fun st => match st with Playing i => [i] | _ => [] end) (repeat Starting n) = []).
    { clear. induction n; simpl; auto. }
    rewrite P. reflexivity.
  - specialize (IH (no_exit_back _ _ _ _ H NE)).
    pose proof (inv_reachable _ _ R) as I.
    destruct e; inv_step H; unfold set_par, set_pc, set_w in *.
    1-4: destruct (inv_clean s I) as (G0 & P0 & C0 & T0); [rewrite Heqo; auto|];
         unfold game_ids, playing_ids, cmd_ids in *; simpl in *; rewrite ?G0, ?P0, ?C0; simpl; lia.
    all: try solve [no_exit_contra NE].
    all: try solve [crunch].
    all: destruct (ws s) as [|a l0] eqn:W;
      [crunch; rewrite W in *; simpl in *; lia | exfalso; destruct (kill_one_exited a) as (c & K); apply (NE 0%nat c); simpl; rewrite K; reflexivity].
Qed.

(* ------------------------------------------------------------------------- *)
(* exactly N, distinct, nothing carried over                                    *)
(* ------------------------------------------------------------------------- *)
Lemma count_le_1_nodup (l : list Z) : (forall i, (count_occ Z.eq_dec l i <= 1)%nat) -> NoDup l.
Proof. intros H. apply (NoDup_count_occ Z.eq_dec). exact H. Qed.

Lemma ids_distinct_l cfg s : reachable cfg s -> NoDup (all_ids s).
Proof. intros R. apply count_le_1_nodup. apply (inv_cnt _ (inv_reachable _ _ R)). Qed.

Lemma in_zseq base n i : In i (zseq base n) <-> base <= i < base + Z.of_nat n.
Proof.
  unfold zseq. rewrite in_map_iff. split.
  - intros (k & E & K). apply in_seq in K. lia.
  - intros H. exists (Z.to_nat (i - base)). split; [lia|]. apply in_seq. lia.
Qed.

Lemma zseq_length base n : length (zseq base n) = n.
Proof. unfold zseq. rewrite map_length, seq_length. reflexivity. Qed.

Lemma returns_exactly_N_l cfg s : reachable cfg s -> outcome (par s) = OReturned ->
  length (collected (par s)) = target (par s) /\
  NoDup (collected (par s)) /\
  Permutation (collected (par s)) (zseq (next_id (par s) - Z.of_nat (target (par s))) (target (par s))).
Proof.
  intros R O. pose proof (inv_reachable _ _ R) as I.
  destruct (inv_clean s I (or_intror O)) as (G0 & P0 & C0 & T0).
  pose proof (inv_ret _ I O) as L.
  assert (A : all_ids s = collected (par s)).
  { unfold all_ids. rewrite G0, P0, C0. simpl. apply app_nil_r. }
  pose proof (ids_distinct_l _ _ R) as ND. rewrite A in ND.
  split; [exact L|]. split; [exact ND|].
  apply NoDup_Permutation_bis; [exact ND|rewrite zseq_length; lia|].
  intros i Hi. apply in_zseq.
  assert (C : (cnt i s >= 1)%nat).
  { unfold cnt. rewrite A. apply (count_occ_In Z.eq_dec) in Hi. lia. }
  pose proof (inv_rng _ I i C) as Rg. unfold lo in Rg. rewrite T0 in Rg. lia.
Qed.

Lemma flat_map_nil_all {A B} (f : A -> list B) l : flat_map f l = [] -> forall x, In x l -> f x = [].
Proof.
  induction l as [|a l IH]; simpl; intros H x Hx; [contradiction|].
  apply app_eq_nil in H. destruct H as [H1 H2]. destruct Hx as [<-|Hx]; auto.
Qed.

Lemma clean_between_requests_l cfg s : reachable cfg s ->
  outcome (par s) = OReturned -> pc (par s) = PBetween ->
  cmd s = [] /\ (forall m, In m (games s) -> m = GTorn) /\
  (forall w id, nth_error (ws s) w <> Some (Playing id)) /\ todo (par s) = 0%nat.
Proof.
  intros R O B. pose proof (inv_reachable _ _ R) as I.
  destruct (inv_clean s I (or_intror O)) as (G0 & P0 & C0 & T0).
  pose proof (inv_nonone _ I (or_introl B)) as NN.
  repeat split.
  - unfold cmd_ids in C0. destruct (cmd s) as [|m c]; [reflexivity|].
    inversion NN as [|? ? Hm _]; subst. destruct m as [i|]; [simpl in C0; discriminate|congruence].
  - intros m Hm. pose proof (flat_map_nil_all _ _ G0 m Hm) as E. destruct m; [discriminate|reflexivity].
  - intros w id X. apply nth_error_In in X. pose proof (flat_map_nil_all _ _ P0 _ X) as E. discriminate.
  - exact T0.
Qed.

Lemma clean_intact cfg s : reachable cfg s -> outcome (par s) = OReturned -> pc (par s) = PBetween ->
  ~ In GTorn (games s) -> games s = [].
Proof.
  intros R O B NT. destruct (clean_between_requests_l _ _ R O B) as (_ & G & _).
  destruct (games s) as [|m g]; [reflexivity|]. exfalso. apply NT. rewrite (G m (or_introl eq_refl)). left; reflexivity.
Qed.

(* ------------------------------------------------------------------------- *)
(* bounded detection of a failed worker                                          *)
(* ------------------------------------------------------------------------- *)
Definition no_ev (p : event -> bool) (tr : list event) : Prop := forall e, In e tr -> p e = false.
Definition finished (s : state) : Prop :=
  (outcome (par s) = OReturned /\ length (collected (par s)) = target (par s)) \/ outcome (par s) = ORaised.

Lemma no_ev_cons p e tr : no_ev p (e :: tr) -> p e = false /\ no_ev p tr.
Proof. intros H. split; [apply H; left; reflexivity|intros x Hx; apply H; right; assumption]. Qed.

Lemma failed_existsb s : has_failed s -> existsb bad_exit (ws s) = true.
Proof.
  intros (w & c & X & N). apply existsb_exists. exists (Exited c). split; [eapply nth_error_In; eauto|].
  simpl. apply negb_true_iff. apply Z.eqb_neq. assumption.
Qed.

(* outside a request only EBegin changes the outcome, the transcripts and the target *)
Lemma outcome_stable cfg e s s' : Inv s -> step cfg e s = Some s' -> is_begin e = false ->
  outcome (par s) <> ORunning ->
  outcome (par s') = outcome (par s) /\ collected (par s') = collected (par s) /\ target (par s') = target (par s).
Proof.
  intros I H B O. pose proof (inv_run _ I) as Irun.
  destruct e; try discriminate B; inv_step H; unfold set_par, set_pc, set_w; simpl; auto.
  all: exfalso; apply O; apply Irun; unfold in_request; auto.
Qed.

Lemma finished_stable cfg tr : forall s s', reachable cfg s -> run cfg tr s = Some s' -> no_ev is_begin tr ->
  finished s -> finished s'.
Proof.
  induction tr as [|e tr IH]; intros s s' R H NB F; simpl in H.
  - inversion H; subst; assumption.
  - destruct (step cfg e s) as [s1|] eqn:E; [|discriminate].
    apply no_ev_cons in NB. destruct NB as [B NB].
    assert (O : outcome (par s) <> ORunning) by (destruct F as [[F _]|F]; congruence).
    destruct (outcome_stable _ _ _ _ (inv_reachable _ _ R) E B O) as (O1 & C1 & T1).
    eapply IH; [eapply reach_step; eauto|exact H|exact NB|].
    unfold finished in *. rewrite O1, C1, T1. exact F.
Qed.

Lemma in_app_torn (g : list gmsg) m : ~ In GTorn g -> m <> GTorn -> ~ In GTorn (g ++ [m]).
Proof. intros A B C. apply in_app_or in C. destruct C as [C|[C|[]]]; [auto|congruence]. Qed.

(* one step of a running request in which some worker has already failed *)
Lemma failed_step cfg e s s' : Inv s -> step cfg e s = Some s' ->
  is_begin e = false -> is_midput e = false ->
  outcome (par s) = ORunning -> intact s -> has_failed s ->
  outcome (par s') = ORaised \/ outcome (par s') = OReturned \/
  (outcome (par s') = ORunning /\ intact s' /\
   (outstanding s' + (if is_get e then 1 else 0) <= outstanding s)%nat).
Proof.
  intros I H B M O [NT NS] F. pose proof (failed_existsb _ F) as FB.
  destruct e; try discriminate B; try discriminate M; inv_step H; unfold set_par, set_pc, set_w in *; simpl; auto.
  all: try congruence.
  all: right; right.
  all: unfold intact, outstanding, cmd_ids, game_ids, playing_ids in *; simpl in *.
  all: try (split; [assumption|]).
  all: split_ws; eqs; simpl in *.
  all: repeat rewrite ?flat_map_app, ?app_length, ?playing_kill in *; simpl in *.
  all: try solve [exfalso; apply NT; left; reflexivity].
  all: try solve [split; [split; [assumption || (try apply in_app_torn; try intros [?|?]; try congruence; auto)|congruence]|lia]].
Qed.

Lemma failure_detected_gen cfg tr : forall s s',
  reachable cfg s -> run cfg tr s = Some s' ->
  no_ev is_begin tr -> no_ev is_midput tr ->
  outcome (par s) = ORunning -> intact s -> has_failed s ->
  finished s' \/ (outcome (par s') = ORunning /\ (outstanding s' + gets tr <= outstanding s)%nat).
Proof.
  induction tr as [|e tr IH]; intros s s' R H NB NM O IT F; simpl in H.
  - inversion H; subst. right. split; [assumption|]. unfold gets; simpl; lia.
  - destruct (step cfg e s) as [s1|] eqn:E; [|discriminate].
    apply no_ev_cons in NB. destruct NB as [B NB]. apply no_ev_cons in NM. destruct NM as [M NM].
    pose proof (reach_step _ _ _ _ R E) as R1.
    assert (F1 : has_failed s1) by (apply (has_failed_stable cfg [e] s s1); [simpl; rewrite E; reflexivity|assumption]).
    destruct (failed_step _ _ _ _ (inv_reachable _ _ R) E B M O IT F) as [X|[X|(O1 & IT1 & L)]].
    + left. eapply finished_stable; [exact R1|exact H|exact NB|]. right; assumption.
    + left. eapply finished_stable; [exact R1|exact H|exact NB|]. left. split; [assumption|].
      apply (inv_ret _ (inv_reachable _ _ R1) X).
    + destruct (IH s1 s' R1 H NB NM O1 IT1 F1) as [Fin|(O2 & L2)]; [left; assumption|].
      right. split; [assumption|]. unfold gets in *. simpl. destruct (is_get e); simpl; lia.
Qed.

(* bounded detection: once a worker has exited with a non-zero code, outstanding+1 further
   completions of the parent's timed get are enough for the request to be over *)
Lemma failure_detected_l cfg s tr s' :
  reachable cfg s -> run cfg tr s = Some s' ->
  no_ev is_begin tr -> no_ev is_midput tr ->
  outcome (par s) = ORunning -> intact s -> has_failed s ->
  (gets tr >= outstanding s + 1)%nat ->
  finished s'.
Proof.
  intros R H NB NM O IT F G.
  destruct (failure_detected_gen _ _ _ _ R H NB NM O IT F) as [Fin|(_ & L)]; [assumption|lia].
Qed.

(* in the tree as it is now every fault leaves a non-zero exit code behind *)
Lemma fault_sets_failed e s s' : step current e s = Some s' -> is_fault e = true -> has_failed s'.
Proof.
  intros H Fl. destruct e; try discriminate Fl; inv_step H; unfold set_w; simpl.
  all: match goal with Hn : nth_error (ws _) ?w = Some _ |- _ => exists w end.
  all: eexists; simpl; (split; [rewrite nth_error_upd, Nat.eqb_refl; match goal with Hn : nth_error _ _ = _ |- _ => rewrite Hn end; reflexivity|]).
  all: try (apply Z.eqb_neq; assumption); try discriminate.
Qed.

(* the parent raises only if a worker really failed *)
Lemma raise_only_on_failure cfg s : reachable cfg s -> outcome (par s) = ORaised -> has_failed s.
Proof.
  induction 1 as [n|s e s' R IH H]; intros O; [discriminate|].
  destruct (outcome (par s)) eqn:Os.
  4: { apply (has_failed_stable cfg [e] s s'); [simpl; rewrite H; reflexivity|auto]. }
  all: pose proof (inv_reachable _ _ R) as I; pose proof (inv_run _ I) as Irun.
  all: destruct e; inv_step H; unfold set_par, set_pc, set_w in *; simpl in *; try congruence.
  all: try solve [exfalso; assert (X : ORunning = ORunning) by reflexivity; rewrite <- Os in X at 1; apply Irun in X; unfold in_request in X; intuition congruence].
  all: try solve [exfalso; assert (X : in_request (pc (par s))) by (unfold in_request; auto); apply Irun in X; congruence].
  all: match goal with Hb : existsb bad_exit (ws _) = true |- _ => apply existsb_bad_exit in Hb; destruct Hb as (w & c & X & N) end.
  all: exists w, c; split; [|assumption]; simpl; erewrite map_nth_error by eassumption; reflexivity.
Qed.


(* ------------------------------------------------------------------------- *)
(* PRE-FIX variant (before 45b70e8): a swallowed exception makes the parent wait for ever *)
(* ------------------------------------------------------------------------- *)
(* one worker, one game requested, the engine factory raises *)
Definition swallowed_schedule : list event := [EBegin 1; FRaise 0; EPut; EFillEnd].

Definition sw_inv (s : state) : Prop :=
  ws s = [Exited 0] /\ games s = [] /\ outcome (par s) = ORunning /\ todo (par s) = 0%nat /\
  collected (par s) = [] /\ (pc (par s) = PFilling \/ pc (par s) = PWaiting).

Lemma sw_inv_step e s s' : sw_inv s -> step prefix e s = Some s' -> sw_inv s'.
Proof.
  intros (W & G & O & T & C & P) H.
  destruct s as [ws0 cmd0 games0 sh rd [pc0 oc tg td col nid]]; simpl in *; subst.
  destruct e; simpl in H;
    try (destruct w as [|[|w]]; simpl in H); try discriminate H;
    destruct P as [P|P]; subst; simpl in H; try discriminate H;
    try (destruct (c =? 0); discriminate H).
  all: inversion H; subst; clear H; unfold sw_inv; simpl; auto 10.
Qed.

Lemma sw_inv_run tr : forall s s', sw_inv s -> run prefix tr s = Some s' -> sw_inv s'.
Proof.
  induction tr as [|e tr IH]; intros s s' J H; simpl in H.
  - inversion H; subst; assumption.
  - destruct (step prefix e s) as [s1|] eqn:E; [|discriminate]. eapply IH; [|exact H]. eapply sw_inv_step; eauto.
Qed.

Fixpoint spin (k : nat) : list event := match k with O => [] | S k' => ETimeout :: EFillEnd :: spin k' end.

Lemma spin_gets k : gets (spin k) = k.
Proof. induction k; unfold gets in *; simpl; auto. Qed.

Lemma spin_runs k : forall s, sw_inv s -> pc (par s) = PWaiting -> exists s', run prefix (spin k) s = Some s'.
Proof.
  induction k as [|k IH]; intros s J P; simpl; [eauto|].
  destruct J as (W & G & O & T & C & _).
  destruct s as [ws0 cmd0 games0 sh rd [pc0 oc tg td col nid]]; simpl in *; subst. simpl.
  apply IH; unfold sw_inv; simpl; auto 10.
Qed.

Lemma swallowed_exception_hangs_l :
  exists s0, run prefix swallowed_schedule (init 1) = Some s0 /\
    outcome (par s0) = ORunning /\
    (forall tr s', run prefix tr s0 = Some s' -> outcome (par s') = ORunning /\ collected (par s') = []) /\
    (forall k, exists tr s', gets tr = k /\ run prefix tr s0 = Some s').
Proof.
  eexists. split; [vm_compute; reflexivity|]. split; [reflexivity|].
  assert (J : sw_inv {| ws := [Exited 0]; cmd := [Some 0]; games := []; shutdown := false; rdead := false;
                        par := {| pc := PWaiting; outcome := ORunning; target := 1; todo := 0; collected := []; next_id := 1 |} |}).
  { unfold sw_inv; simpl; auto 10. }
  split.
  - intros tr s' H. destruct (sw_inv_run _ _ _ J H) as (_ & _ & O & _ & C & _). auto.
  - intros k. destruct (spin_runs k _ J eq_refl) as (s' & H). exists (spin k), s'. split; [apply spin_gets|exact H].
Qed.

(* the same schedule on the tree as it is now: the first timeout raises *)
Example swallowed_schedule_now_raises :
  match run current (swallowed_schedule ++ [ETimeout]) (init 1) with
  | Some s => outcome (par s) = ORaised
  | None => False
  end.
Proof. vm_compute. reflexivity. Qed.

(* ------------------------------------------------------------------------- *)
(* CURRENT tree: a worker killed in the middle of writing a transcript          *)
(* ------------------------------------------------------------------------- *)
Definition torn_schedule : list event :=
  [EBegin 1; WReady 0; EPut; EFillEnd; WLock 0; WTake 0; FKillMidPut 0 (-9); ERecv].

Lemma torn_put_hangs_l :
  exists s0, run current torn_schedule (init 1) = Some s0 /\
    has_failed s0 /\ outcome (par s0) = ORunning /\ pc (par s0) = PStuck /\
    (forall e, step current e s0 = None).
Proof.
  eexists. split; [vm_compute; reflexivity|]. split; [|split; [reflexivity|split; [reflexivity|]]].
  - exists 0%nat, (-9). split; [reflexivity|discriminate].
  - intros e. destruct e; try reflexivity; try (destruct w as [|[|w]]; reflexivity).
    all: unfold step; destruct (c =? 0); try reflexivity; destruct w as [|[|w]]; reflexivity.
Qed.

(* ------------------------------------------------------------------------- *)
(* variant before 28ebc86 (unbounded join): a worker killed while it holds cmd's read lock *)
(* ------------------------------------------------------------------------- *)
Definition dead_lock_schedule : list event :=
  [EBegin 1; WReady 0; WReady 1; EPut; EFillEnd; WLock 0; WTake 0; WLock 1; FKill 1 (-9);
   WFinish 0; ERecv; EStop; EStopPut; EStopPut; EStopSet].

Lemma dead_lock_holder_stop_hangs_l :
  exists s0, run pre_stopfix dead_lock_schedule (init 2) = Some s0 /\
    outcome (par s0) = OReturned /\ collected (par s0) = [0] /\ pc (par s0) = PJoining /\
    (forall e, is_fault e = false -> step pre_stopfix e s0 = None).
Proof.
  eexists. split; [vm_compute; reflexivity|]. repeat split.
  intros e NF. destruct e; try discriminate NF; try reflexivity; destruct w as [|[|[|w]]]; reflexivity.
Qed.

(* the same schedule on the tree as it is now: the join times out and stop() returns *)
Example dead_lock_schedule_now_stops :
  match run current (dead_lock_schedule ++ [EJoinTimeout]) (init 2) with
  | Some s => pc (par s) = PStopped /\ ws s = [Exited (-9); Exited (-9)]
  | None => False
  end.
Proof. vm_compute. auto. Qed.

(* ------------------------------------------------------------------------- *)
(* stop()                                                                       *)
(* ------------------------------------------------------------------------- *)
Definition is_stop_step (e : event) : bool :=
  match e with EStopPut | EStopFull | EStopSet | EJoined | EJoinTimeout => true | _ => false end.
Definition stop_steps (tr : list event) : nat := length (filter is_stop_step tr).
(* how many of its own steps stop() still has to take *)
Definition stop_rank (s : state) : nat :=
  match pc (par s) with PStopPut k => k + 2 | PJoining => 1 | _ => 0 end.
Definition stopping (s : state) : Prop := (exists k, pc (par s) = PStopPut k) \/ pc (par s) = PJoining.
Definition stop_over (s : state) : Prop := pc (par s) = PStopped \/ pc (par s) = PStopFailed.

(* stop() is never blocked: whatever the workers do, one of its own steps is enabled *)
Lemma stop_never_blocked s : stopping s -> exists e s', is_stop_step e = true /\ step current e s = Some s'.
Proof.
  intros [(k & P)|P].
  - destruct k as [|k].
    + exists EStopSet. unfold step. rewrite P. eauto.
    + destruct (Nat.ltb (length (cmd s)) (cmd_cap s)) eqn:L.
      * exists EStopPut. unfold step. rewrite P, L. eauto.
      * exists EStopFull. unfold step. rewrite P, L. eauto.
  - exists EJoinTimeout. unfold step. rewrite P. simpl. eauto.
Qed.

Lemma stop_rank_step cfg e s s' : step cfg e s = Some s' -> stopping s ->
  if is_stop_step e then (stop_rank s' < stop_rank s)%nat /\ (stopping s' \/ stop_over s')
  else pc (par s') = pc (par s).
Proof.
  intros H St. unfold stopping, stop_over, stop_rank in *.
  destruct e; inv_step H; unfold set_par, set_pc, set_w in *; simpl in *; auto.
  all: try solve [destruct St as [(k0 & P)|P]; congruence].
  all: try solve [split; [lia|eauto]].
Qed.

Lemma stop_over_step cfg e s s' : step cfg e s = Some s' -> stop_over s -> stop_over s'.
Proof.
  intros H Ov. unfold stop_over in *.
  destruct e; inv_step H; unfold set_par, set_pc, set_w in *; simpl in *; auto; destruct Ov; congruence.
Qed.

Lemma stop_over_stable cfg tr : forall s s', run cfg tr s = Some s' -> stop_over s -> stop_over s'.
Proof.
  induction tr as [|e tr IH]; intros s s' H Ov; simpl in H.
  - inversion H; subst; assumption.
  - destruct (step cfg e s) as [s1|] eqn:E; [|discriminate]. eapply IH; [exact H|]. eapply stop_over_step; eauto.
Qed.

Lemma stop_bounded_gen cfg tr : forall s s', run cfg tr s = Some s' -> stopping s ->
  stop_over s' \/ (stopping s' /\ (stop_rank s' + stop_steps tr <= stop_rank s)%nat).
Proof.
  induction tr as [|e tr IH]; intros s s' H St; simpl in H.
  - inversion H; subst. right. split; [assumption|unfold stop_steps; simpl; lia].
  - destruct (step cfg e s) as [s1|] eqn:E; [|discriminate].
    pose proof (stop_rank_step _ _ _ _ E St) as X. unfold stop_steps in *. simpl.
    destruct (is_stop_step e) eqn:Se.
    + destruct X as (Lt & [St1|Ov]).
      * destruct (IH _ _ H St1) as [Ov|(St' & L)]; [left; assumption|right; split; [assumption|simpl; lia]].
      * left. eapply stop_over_stable; eauto.
    + assert (St1 : stopping s1) by (unfold stopping in *; rewrite X; exact St).
      assert (Rk : stop_rank s1 = stop_rank s) by (unfold stop_rank; rewrite X; reflexivity).
      destruct (IH _ _ H St1) as [Ov|(St' & L)]; [left; assumption|right; split; [assumption|lia]].
Qed.

(* after at most stop_rank = workers + 2 of its own steps stop() is over *)
Lemma stop_bounded_l cfg s tr s' : run cfg tr s = Some s' -> stopping s ->
  (stop_steps tr >= stop_rank s)%nat -> stop_over s'.
Proof.
  intros H St G. destruct (stop_bounded_gen _ _ _ _ H St) as [Ov|(St' & L)]; [assumption|].
  exfalso. unfold stopping, stop_rank in *. destruct St' as [(k & P)|P]; rewrite P in L; lia.
Qed.

Lemma forallb_nth {A} (f : A -> bool) l w x : forallb f l = true -> nth_error l w = Some x -> f x = true.
Proof. intros F X. rewrite forallb_forall in F. apply F. eapply nth_error_In; eauto. Qed.

Lemma forallb_kill l : forallb is_exited (map kill_one l) = true.
Proof. induction l as [|a l IH]; simpl; [reflexivity|]. rewrite IH. destruct a; reflexivity. Qed.

Lemma forallb_upd {A} (f : A -> bool) l w x : forallb f l = true -> f x = true -> forallb f (upd w x l) = true.
Proof.
  revert w. induction l as [|a l IH]; intros [|w] F X; simpl in *; auto.
  - apply andb_true_iff in F. destruct F as [_ F]. rewrite X, F. reflexivity.
  - apply andb_true_iff in F. destruct F as [Fa F]. rewrite Fa. simpl. apply IH; assumption.
Qed.

(* nothing at all is queued between two requests *)
Lemma cmd_empty_between cfg s : reachable cfg s -> pc (par s) = PBetween -> outcome (par s) <> ORaised -> cmd s = [].
Proof.
  intros R B O. pose proof (inv_reachable _ _ R) as I.
  assert (O' : outcome (par s) = ONone \/ outcome (par s) = OReturned).
  { destruct (outcome (par s)) eqn:Os; auto; [|congruence].
    exfalso. apply (inv_run _ I) in Os. unfold in_request in Os. intuition congruence. }
  destruct (inv_clean s I O') as (_ & _ & C0 & _).
  pose proof (inv_nonone _ I (or_introl B)) as NN.
  unfold cmd_ids in C0. destruct (cmd s) as [|m c]; [reflexivity|].
  inversion NN as [|? ? Hm _]; subst. destruct m as [i|]; [simpl in C0; discriminate|congruence].
Qed.

Record SInv (s : state) : Prop := {
  k_raised : outcome (par s) = ORaised -> forallb is_exited (ws s) = true;
  k_room : forall k, pc (par s) = PStopPut k -> outcome (par s) <> ORaised -> (length (cmd s) + k <= nworkers s)%nat;
  k_failed : pc (par s) = PStopFailed -> outcome (par s) = ORaised;
  k_stopped : pc (par s) = PStopped -> forallb is_exited (ws s) = true }.

Lemma sinv_init n : SInv (init n).
Proof. split; simpl; intros; discriminate. Qed.

Ltac exited_contra :=
  match goal with
  | F : forallb is_exited (ws ?s) = true, X : nth_error (ws ?s) _ = Some _ |- _ =>
      let Y := fresh in pose proof (forallb_nth _ _ _ _ F X) as Y; simpl in Y; discriminate Y
  end.

Lemma sinv_preserved cfg e s s' : reachable cfg s -> SInv s -> step cfg e s = Some s' -> SInv s'.
Proof.
  intros R [K1 K2 K3 K4] H. pose proof (inv_reachable _ _ R) as I. pose proof (inv_run _ I) as Irun.
  pose proof (cmd_empty_between _ _ R) as CE.
  destruct e; inv_step H; unfold set_par, set_pc, set_w, nworkers, cmd_cap in *; simpl in *.
  all: split; unfold nworkers, cmd_cap in *; simpl in *; intros; try discriminate; try congruence; auto.
  all: try solve [apply forallb_kill].
  all: try solve [exfalso; match goal with X : ORunning = ORaised |- _ => discriminate X end].
  all: try solve [repeat match goal with X : ?a = ?a -> _ |- _ => specialize (X eq_refl) end; exited_contra].
  all: try solve [match goal with X : outcome _ = ORaised |- _ => specialize (K1 X) end; exited_contra].
  all: try solve [match goal with X : pc _ = PStopped |- _ => specialize (K4 X) end; exited_contra].
  all: eqs; rewrite ?upd_length, ?map_length, ?app_length in *; simpl in *.
  all: try solve [match goal with X : PStopPut _ = PStopPut _ |- _ => inversion X; subst end;
                  match goal with X : outcome _ <> ORaised |- _ => specialize (K2 _ eq_refl X) end; simpl in *; lia].
  all: try solve [match goal with X : outcome _ <> ORaised |- _ => specialize (K2 _ eq_refl X) end; simpl in *; lia].
  - match goal with X : outcome _ <> ORaised |- _ => rewrite (CE eq_refl X) end.
    match goal with X : PStopPut _ = PStopPut _ |- _ => inversion X; subst end. simpl. lia.
  - destruct (outcome (par s)) eqn:Os; try reflexivity; exfalso;
      (assert (NR : outcome (par s) <> ORaised) by congruence); rewrite Os in NR;
      specialize (K2 _ eq_refl NR); lia.
Qed.

Lemma sinv_reachable cfg s : reachable cfg s -> SInv s.
Proof.
  induction 1 as [n|s e s' R IH H]; [apply sinv_init|eapply sinv_preserved; eauto].
Qed.

(* when stop() is over - normally or with queue.Full - no worker process is left *)
Lemma stop_over_all_exited cfg s : reachable cfg s -> stop_over s -> all_exited s.
Proof.
  intros R Ov. pose proof (sinv_reachable _ _ R) as [K1 K2 K3 K4].
  assert (F : forallb is_exited (ws s) = true) by (destruct Ov as [P|P]; auto).
  intros w st X. pose proof (forallb_nth _ _ _ _ F X) as E. destruct st; try discriminate E. eauto.
Qed.

(* stop() fails with queue.Full only after play_many raised *)
Lemma stop_full_only_after_raise cfg s : reachable cfg s -> pc (par s) = PStopFailed -> outcome (par s) = ORaised.
Proof. intros R P. apply (k_failed _ (sinv_reachable _ _ R) P). Qed.


(* ------------------------------------------------------------------------- *)
(* graceful shutdown: after a clean return the workers exit by themselves      *)
(* ------------------------------------------------------------------------- *)
Definition needs (st : wstate) : bool := match st with Starting | Idle | Reading => true | _ => false end.
Definition wrank (st : wstate) : nat :=
  match st with Starting => 4 | Idle => 3 | Reading => 2 | Playing _ => 5 | Done => 1 | Exited _ => 0 end.
Definition nones_left (s : state) : nat := match pc (par s) with PStopPut k => k | _ => 0 end.
Definition smeasure (s : state) : nat := (stop_rank s + list_sum (map wrank (ws s)))%nat.
(* events of a shutdown in which nobody is killed and the join deadline is not needed *)
Definition graceful (e : event) : bool :=
  negb (is_kill e) && match e with EJoinTimeout => false | _ => true end.

Record GInv (s : state) : Prop := {
  g_stopping : stopping s;
  g_rdead : rdead s = false;
  g_noplay : playing_ids s = [];
  g_nones : Forall (fun m => m = None) (cmd s);
  g_need : (length (filter needs (ws s)) <= length (cmd s) + nones_left s)%nat;
  g_room : (length (cmd s) + nones_left s <= nworkers s)%nat;
  g_shut : pc (par s) = PJoining -> shutdown s = true }.

Lemma filter_length_le {A} (f : A -> bool) l : (length (filter f l) <= length l)%nat.
Proof. induction l as [|a l IH]; simpl; [lia|]. destruct (f a); simpl; lia. Qed.

Lemma ginv_start cfg s s1 : reachable cfg s -> pc (par s) = PBetween -> outcome (par s) <> ORaised ->
  rdead s = false -> step cfg EStop s = Some s1 -> GInv s1.
Proof.
  intros R B O RD H. pose proof (cmd_empty_between _ _ R B O) as CE.
  pose proof (inv_reachable _ _ R) as I.
  assert (O' : outcome (par s) = ONone \/ outcome (par s) = OReturned).
  { destruct (outcome (par s)) eqn:Os; auto; [|congruence].
    exfalso. apply (inv_run _ I) in Os. unfold in_request in Os. intuition congruence. }
  destruct (inv_clean s I O') as (_ & P0 & _ & _).
  inv_step H. unfold set_pc, set_par, nworkers. split; unfold stopping, nones_left, playing_ids, nworkers in *; simpl; eauto.
  - rewrite CE. constructor.
  - rewrite CE. simpl. apply filter_length_le.
  - rewrite CE. simpl. lia.
  - discriminate.
Qed.

Ltac gcrunch :=
  unfold stopping, nones_left, smeasure, stop_rank, playing_ids, nworkers, cmd_cap in *; simpl in *;
  split_ws; eqs; simpl in *;
  repeat rewrite ?flat_map_app, ?filter_app, ?map_app, ?list_sum_app, ?app_length in *; simpl in *.

Lemma g_step cfg e s s' : GInv s -> step cfg e s = Some s' -> graceful e = true ->
  (GInv s' \/ pc (par s') = PStopped) /\ (smeasure s' < smeasure s)%nat.
Proof.
  intros [St RD NP NN Nd Rm Sh] H Gr.
  destruct e; try discriminate Gr; inv_step H; unfold set_par, set_pc, set_w in *.
  all: try solve [exfalso; destruct St as [(k0 & P)|P]; congruence].
  all: gcrunch.
  all: try solve [exfalso; lia].
  all: try solve [exfalso; apply app_eq_nil in NP; destruct NP as [_ NP]; discriminate NP].
  all: try solve [exfalso; inversion NN; subst; discriminate].
  all: try (split; [|lia]).
  all: try solve [right; reflexivity].
  all: left; split; gcrunch; eauto; try lia; try discriminate; try congruence.
  all: try solve [apply Forall_app; split; [assumption|constructor; [reflexivity|constructor]]].
  all: try solve [inversion NN; subst; assumption].
Qed.

Lemma forallb_false_nth {A} (f : A -> bool) l : forallb f l = false -> exists w x, nth_error l w = Some x /\ f x = false.
Proof.
  induction l as [|a l IH]; simpl; [discriminate|]. intros H. destruct (f a) eqn:Fa.
  - destruct (IH H) as (w & x & X & Fx). exists (S w), x. auto.
  - exists 0%nat, a. auto.
Qed.

Lemma existsb_reading_nth l : existsb is_reading l = true -> exists w, nth_error l w = Some Reading.
Proof.
  induction l as [|a l IH]; simpl; [discriminate|]. intros H. apply orb_true_iff in H. destruct H as [H|H].
  - destruct a; try discriminate H. exists 0%nat. reflexivity.
  - destruct (IH H) as (w & X). exists (S w). exact X.
Qed.

Lemma needs_nth l w st : nth_error l w = Some st -> needs st = true -> (length (filter needs l) >= 1)%nat.
Proof.
  intros X N. apply nth_error_In in X. assert (I : In st (filter needs l)) by (apply filter_In; auto).
  destruct (filter needs l); [contradiction|simpl; lia].
Qed.

(* no deadlock: while stop() has not returned, somebody can move without any kill and without the deadline *)
Lemma g_progress cfg s : GInv s -> exists e s', graceful e = true /\ is_fault e = false /\ step cfg e s = Some s'.
Proof.
  intros [St RD NP NN Nd Rm Sh]. unfold nones_left, nworkers in *.
  destruct St as [(k & P)|P]; rewrite P in *.
  - destruct k as [|k].
    + exists EStopSet. unfold step. rewrite P. eauto.
    + exists EStopPut. unfold step, cmd_cap, nworkers. rewrite P.
      assert (L : Nat.ltb (length (cmd s)) (2 * length (ws s)) = true) by (apply Nat.ltb_lt; lia).
      rewrite L. eauto.
  - specialize (Sh eq_refl). destruct (forallb is_exited (ws s)) eqn:F.
    + exists EJoined. unfold step. rewrite P, F. eauto.
    + destruct (forallb_false_nth _ _ F) as (w & st & X & NE).
      assert (TK : forall w', nth_error (ws s) w' = Some Reading -> exists e s', graceful e = true /\ is_fault e = false /\ step cfg e s = Some s').
      { intros w' X'. pose proof (needs_nth _ _ _ X' eq_refl) as N1.
        destruct (cmd s) as [|m c] eqn:C; [simpl in *; lia|].
        exists (WTake w'). unfold step. rewrite X', C. eauto. }
      destruct st; try discriminate NE.
      * exists (WReady w). unfold step. rewrite X. eauto.
      * destruct (existsb is_reading (ws s)) eqn:ER.
        -- destruct (existsb_reading_nth _ ER) as (w' & X'). apply (TK w' X').
        -- exists (WLock w). unfold step. rewrite X, RD, ER. simpl. eauto.
      * apply (TK w X).
      * exfalso. unfold playing_ids in NP. apply nth_error_In in X.
        pose proof (flat_map_nil_all _ _ NP _ X) as E. discriminate E.
      * exists (WExit w). unfold step. rewrite X, Sh. eauto.
Qed.

Lemma g_run cfg tr : forall s s', GInv s -> run cfg tr s = Some s' -> (forall e, In e tr -> graceful e = true) ->
  (GInv s' \/ pc (par s') = PStopped) /\ (length tr + smeasure s' <= smeasure s)%nat.
Proof.
  induction tr as [|e tr IH]; intros s s' G H Gr; simpl in H.
  - inversion H; subst. split; [left; assumption|simpl; lia].
  - destruct (step cfg e s) as [s1|] eqn:E; [|discriminate].
    destruct (g_step _ _ _ _ G E (Gr e (or_introl eq_refl))) as ([G1|P1] & Lt).
    + destruct (IH _ _ G1 H (fun x Hx => Gr x (or_intror Hx))) as (D & L). split; [assumption|simpl; lia].
    + (* stop() has returned: nothing graceful is left to do for the parent; workers are all exited *)
      destruct tr as [|e2 tr]; simpl in H.
      * inversion H; subst. split; [right; assumption|simpl; lia].
      * exfalso. destruct (step cfg e2 s1) as [s2|] eqn:E2; [|discriminate].
        pose proof (Gr e2 (or_intror (or_introl eq_refl))) as G2.
        (* from PStopped with every worker exited no graceful event is enabled *)
        assert (F : forallb is_exited (ws s1) = true).
        { destruct e; inv_step E; unfold set_par, set_pc, set_w in *; simpl in *;
            try assumption; try apply forallb_kill; try discriminate P1;
            exfalso; destruct G as [[(k0 & P)|P] _ _ _ _ _ _]; congruence. }
        destruct e2; try discriminate G2; inv_step E2; try congruence;
          match goal with X : nth_error (ws s1) _ = Some _ |- _ =>
            let Y := fresh in pose proof (forallb_nth _ _ _ _ F X) as Y; discriminate Y end.
Qed.

Lemma smeasure_bound s : (smeasure s <= stop_rank s + 5 * nworkers s)%nat.
Proof.
  unfold smeasure, nworkers. assert (L : (list_sum (map wrank (ws s)) <= 5 * length (ws s))%nat).
  { induction (ws s) as [|a l IH]; simpl; [lia|]. destruct a; simpl; lia. }
  lia.
Qed.

(* workers exit on shutdown: after a request returned normally (or before the first one), if no
   worker died holding cmd's read lock, stop() can neither fail nor get stuck, every step anybody
   takes brings the shutdown closer to its end, and it ends with every worker exited - all that
   without a kill and without the join deadline *)
Lemma stop_graceful_l cfg s s1 tr s' :
  reachable cfg s -> pc (par s) = PBetween -> outcome (par s) <> ORaised -> rdead s = false ->
  step cfg EStop s = Some s1 -> run cfg tr s1 = Some s' ->
  (forall e, In e tr -> graceful e = true) ->
  (length tr <= 6 * nworkers s + 2)%nat /\
  pc (par s') <> PStopFailed /\
  (pc (par s') = PStopped -> all_exited s') /\
  (pc (par s') <> PStopped ->
     exists e s2, graceful e = true /\ is_fault e = false /\ step cfg e s' = Some s2).
Proof.
  intros R B O RD H1 H Gr. pose proof (ginv_start _ _ _ R B O RD H1) as G1.
  destruct (g_run _ _ _ _ G1 H Gr) as (D & L).
  assert (R' : reachable cfg s') by (eapply reachable_run; [eapply reach_step; eauto|exact H]).
  split; [|split; [|split]].
  - pose proof (smeasure_bound s1) as Bd. inv_step H1. unfold set_pc, set_par, stop_rank, nworkers in *. simpl in *. lia.
  - destruct D as [[[(k & P)|P] _ _ _ _ _ _]|P]; congruence.
  - intros P. apply (stop_over_all_exited _ _ R'). left; assumption.
  - intros NP. destruct D as [G|P]; [|congruence]. apply g_progress. assumption.
Qed.

Example stop_graceful_hyps :
  exists s s1, run current [EBegin 1; WReady 0; WReady 1; EPut; EFillEnd; WLock 1; WTake 1; WFinish 1; ERecv] (init 2) = Some s /\
    pc (par s) = PBetween /\ outcome (par s) = OReturned /\ rdead s = false /\ step current EStop s = Some s1 /\
    exists s', run current [EStopPut; WLock 0; WTake 0; EStopPut; EStopSet; WExit 0; WLock 1; WTake 1; WExit 1; EJoined] s1 = Some s' /\
      pc (par s') = PStopped /\ ws s' = [Exited 0; Exited 0].
Proof. eexists. eexists. split; [vm_compute; reflexivity|]. repeat split. eexists. split; [vm_compute; reflexivity|]. split; reflexivity. Qed.

(* ------------------------------------------------------------------------- *)
(* stop(): summary statement                                                    *)
(* ------------------------------------------------------------------------- *)
Lemma stop_terminates_workers_l s tr s' :
  reachable current s -> stopping s -> run current tr s = Some s' ->
  (* never blocked: one of stop()'s own steps is always enabled *)
  (exists e s2, is_stop_step e = true /\ step current e s = Some s2) /\
  (* after workers+2 of its own steps it is over *)
  ((stop_steps tr >= stop_rank s)%nat -> stop_over s') /\
  (* and then no worker process is left *)
  (stop_over s' -> all_exited s') /\
  (* queue.Full can only come out of stop() after play_many raised *)
  (pc (par s') = PStopFailed -> outcome (par s') = ORaised).
Proof.
  intros R St H. assert (R' : reachable current s') by (eapply reachable_run; eauto).
  split; [apply stop_never_blocked; assumption|]. split; [intros G; eapply stop_bounded_l; eauto|].
  split; [apply (stop_over_all_exited current); assumption|apply (stop_full_only_after_raise current); assumption].
Qed.

(* ------------------------------------------------------------------------- *)
(* the hypotheses of the implication theorems are satisfiable by non-trivial states *)
(* ------------------------------------------------------------------------- *)
Definition ex_pre : list event :=
  [EBegin 3; WReady 0; WReady 1; EPut; EPut; EPut; EFillEnd; WLock 0; WTake 0; WLock 1; WTake 1].

(* two workers are playing ids 0 and 1, id 2 is queued: nobody has exited, 0+0+2+1+0 = 3 *)
Example count_invariant_hyps :
  exists s, run current ex_pre (init 2) = Some s /\ no_exit s /\ playing_ids s = [0; 1] /\ cmd_ids s = [2].
Proof.
  eexists. split; [vm_compute; reflexivity|]. split; [|split; reflexivity].
  intros w c. destruct w as [|[|[|w]]]; simpl; discriminate.
Qed.

(* worker 1 raises while it plays id 1; the survivor delivers ids 0 and 2; the third get times out and raises *)
Example failure_detected_hyps :
  exists s, run current (ex_pre ++ [FRaise 1]) (init 2) = Some s /\
    outcome (par s) = ORunning /\ intact s /\ has_failed s /\ outstanding s = 2%nat /\
    let tr := [WFinish 0; ERecv; WLock 0; WTake 0; EFillEnd; WFinish 0; ERecv; EFillEnd; ETimeout] in
    no_ev is_begin tr /\ no_ev is_midput tr /\ gets tr = 3%nat /\
    exists s', run current tr s = Some s' /\ outcome (par s') = ORaised /\ collected (par s') = [0; 2].
Proof.
  eexists. split; [vm_compute; reflexivity|]. split; [reflexivity|]. split; [split; [intros []|discriminate]|].
  split; [exists 1%nat, 1; split; [reflexivity|discriminate]|]. split; [reflexivity|].
  split; [intros e He; simpl in He; repeat (destruct He as [<-|He]; [reflexivity|]); contradiction|].
  split; [intros e He; simpl in He; repeat (destruct He as [<-|He]; [reflexivity|]); contradiction|].
  split; [reflexivity|]. eexists. split; [vm_compute; reflexivity|]. split; reflexivity.
Qed.

(* a request that returns normally although a worker was killed: the survivor plays everything *)
Example returns_exactly_N_hyps :
  exists s, run current [EBegin 2; WReady 0; WReady 1; FKill 1 (-9); EPut; EPut; EFillEnd; WLock 0; WTake 0; WFinish 0;
                         ERecv; EFillEnd; WLock 0; WTake 0; WFinish 0; ERecv] (init 2) = Some s /\
    outcome (par s) = OReturned /\ pc (par s) = PBetween /\ collected (par s) = [0; 1] /\ has_failed s.
Proof.
  eexists. split; [vm_compute; reflexivity|]. repeat split. exists 1%nat, (-9). split; [reflexivity|discriminate].
Qed.

(* stop() after play_many raised can fail with queue.Full (two workers, three games, both factories raise) *)
Example stop_full_after_raise :
  match run current [EBegin 3; FRaise 0; FRaise 1; EPut; EPut; EPut; EFillEnd; ETimeout; EStop; EStopPut; EStopFull] (init 2) with
  | Some s => outcome (par s) = ORaised /\ pc (par s) = PStopFailed /\ ws s = [Exited 1; Exited 1]
  | None => False
  end.
Proof. vm_compute. auto. Qed.

(* a reachable state of the current tree in which stop() is joining while a worker cannot exit *)
Example stop_terminates_workers_hyps :
  exists s, run current dead_lock_schedule (init 2) = Some s /\ stopping s /\ stop_rank s = 1%nat /\
    exists s', run current [EJoinTimeout] s = Some s' /\ stop_steps [EJoinTimeout] = 1%nat /\ stop_over s'.
Proof.
  eexists. split; [vm_compute; reflexivity|]. split; [right; reflexivity|]. split; [reflexivity|].
  eexists. split; [vm_compute; reflexivity|]. split; [reflexivity|left; reflexivity].
Qed.

(* ------------------------------------------------------------------------- *)
(* the fault-free request makes progress (the dispatch loop cannot starve the workers) *)
(* ------------------------------------------------------------------------- *)
Lemma cids_length_nonone (c : list (option Z)) : Forall (fun m => m <> None) c ->
  length (flat_map (fun m => match m with Some i => [i] | None => [] end) c) = length c.
Proof.
  induction 1 as [|m c Hm _ IH]; simpl; [reflexivity|]. destruct m; [simpl; rewrite IH; reflexivity|congruence].
Qed.

(* while the parent waits in get() with ids still to issue, the 2*workers ids that filled cmd are
   still in the system (nothing left it: no game was received since, no worker has exited) *)
Lemma waiting_backlog cfg s : reachable cfg s -> no_exit s ->
  pc (par s) = PWaiting -> (todo (par s) > 0)%nat ->
  (length (cmd_ids s) + length (playing_ids s) + length (game_ids s) >= 2 * nworkers s)%nat.
Proof.
  induction 1 as [n|s e s' R IH H]; intros NE; [discriminate|].
  specialize (IH (no_exit_back _ _ _ _ H NE)).
  pose proof (inv_reachable _ _ R) as I. pose proof (inv_nonone _ I) as NN.
  destruct e; inv_step H; unfold set_pc, set_par, set_w, cmd_cap, nworkers in *; simpl; intros P T; try discriminate P.
  all: try solve [no_exit_contra NE].
  all: try solve [unfold cmd_ids, game_ids, playing_ids in *; simpl in *; rewrite upd_length; split_ws; eqs;
                  repeat rewrite ?flat_map_app, ?app_length in *; simpl in *;
                  specialize (IH eq_refl T); repeat rewrite ?flat_map_app, ?app_length in *; simpl in *; lia].
  all: try solve [specialize (IH P T); unfold cmd_ids, game_ids, playing_ids in *; simpl in *; lia].
  - (* EFull *)
    eqs. unfold cmd_ids. simpl. rewrite cids_length_nonone; [lia|]. apply NN. right. unfold in_request. auto.
  - (* EFillEnd: todo = 0 *) lia.
Qed.

(* before stop() nobody has seen a shutdown sentinel *)
Lemma no_done cfg s : reachable cfg s -> (pc (par s) = PBetween \/ in_request (pc (par s))) ->
  forall w, nth_error (ws s) w <> Some Done.
Proof.
  induction 1 as [n|s e s' R IH H]; intros P w X.
  - unfold init in X. simpl in X. apply nth_error_In in X. apply repeat_spec in X. discriminate.
  - pose proof (inv_reachable _ _ R) as I. pose proof (inv_nonone _ I) as NN.
    destruct e; inv_step H; unfold set_pc, set_par, set_w, in_request in *; simpl in *.
    all: try solve [destruct P as [P|[P|[P|P]]]; discriminate P].
    all: try solve [eapply IH; eauto; rewrite ?Heqp; unfold in_request; auto].
    all: try solve [rewrite nth_error_upd in X; destruct (Nat.eqb_spec w0 w);
                    [subst; match goal with Y : nth_error (ws _) _ = Some _ |- _ => rewrite Y in X end; discriminate X
                    |eapply IH; eauto; rewrite ?Heqp; unfold in_request; auto]].
    all: try solve [apply nth_error_In in X; apply in_map_iff in X; destruct X as (st & K & _);
                    destruct (kill_one_exited st) as (c & K'); congruence].
    + (* WTake None is impossible: no sentinel in cmd *)
      exfalso. specialize (NN P). inversion NN; subst. congruence.
Qed.

Lemma flat_map_playing_nth l :
  flat_map (fun st => match st with Playing i => [i] | _ => [] end) l <> [] ->
  exists w id, nth_error l w = Some (Playing id).
Proof.
  induction l as [|a l IH]; simpl; [congruence|]. intros H. destruct a; simpl in H;
    try (destruct (IH H) as (w & id & X); exists (S w), id; exact X).
  exists 0%nat, id. reflexivity.
Qed.

(* Fault-free progress of a request: as long as it is running, no worker has exited and no lock is
   dead, somebody can take a step that is neither a fault nor a (spurious) timeout.  In particular
   the parent always gets from its dispatch loop to the timed get (EFull = `except queue.Full: break`)
   and the ids that filled cmd keep the workers busy meanwhile. *)
Lemma request_progress_l cfg s : reachable cfg s ->
  outcome (par s) = ORunning -> no_exit s -> intact s -> rdead s = false -> (nworkers s >= 1)%nat ->
  exists e s', is_fault e = false /\ e <> ETimeout /\ step cfg e s = Some s'.
Proof.
  intros R O NE [NT NS] RD W1. pose proof (inv_reachable _ _ R) as I.
  pose proof (proj1 (inv_run _ I) O) as [P|[P|P]]; [| |congruence].
  - (* dispatch loop *)
    destruct (todo (par s)) as [|t] eqn:T.
    + exists EFillEnd. unfold step. rewrite P, T. eexists. repeat split; congruence.
    + destruct (Nat.ltb (length (cmd s)) (cmd_cap s)) eqn:L.
      * exists EPut. unfold step. rewrite P, T, L. eexists. repeat split; congruence.
      * exists EFull. unfold step. rewrite P, T, L. eexists. repeat split; congruence.
  - (* timed get *)
    destruct (games s) as [|g gs] eqn:G.
    2: { destruct g as [id|]; [|exfalso; apply NT; left; reflexivity].
         exists ERecv. unfold step. rewrite P, G.
         destruct (Nat.eqb _ _); eexists; repeat split; congruence. }
    assert (B : (length (cmd_ids s) + length (playing_ids s) >= 1)%nat).
    { pose proof (count_invariant_l _ _ R NE) as C. pose proof (inv_short _ I O) as Sh.
      assert (GI : game_ids s = []) by (unfold game_ids; rewrite G; reflexivity). rewrite GI in C. simpl in C.
      destruct (todo (par s)) as [|t] eqn:T; [lia|].
      pose proof (waiting_backlog _ _ R NE P) as Q. rewrite T, GI in Q. simpl in Q. specialize (Q ltac:(lia)). lia. }
    destruct (playing_ids s) as [|pid pl] eqn:PL.
    2: { assert (NEp : flat_map (fun st => match st with Playing i => [i] | _ => [] end) (ws s) <> []).
         { unfold playing_ids in PL. rewrite PL. discriminate. }
         destruct (flat_map_playing_nth _ NEp) as (w & id & X).
         exists (WFinish w). unfold step. rewrite X, G. unfold games_cap.
         assert (L : Nat.ltb (length (@nil gmsg)) (nworkers s) = true) by (apply Nat.ltb_lt; simpl; lia).
         rewrite L. eexists. repeat split; congruence. }
    simpl in B. destruct (cmd s) as [|m c] eqn:C; [unfold cmd_ids in B; rewrite C in B; simpl in B; lia|].
    (* somebody can get at the queued id *)
    assert (TK : forall w', nth_error (ws s) w' = Some Reading ->
                 exists e s', is_fault e = false /\ e <> ETimeout /\ step cfg e s = Some s').
    { intros w' X. exists (WTake w'). unfold step. rewrite X, C. eexists. repeat split; congruence. }
    destruct (nth_error (ws s) 0) as [st0|] eqn:X0;
      [|exfalso; apply nth_error_None in X0; unfold nworkers in W1; lia].
    destruct st0.
    + exists (WReady 0). unfold step. rewrite X0. eexists. repeat split; congruence.
    + destruct (existsb is_reading (ws s)) eqn:ER.
      * destruct (existsb_reading_nth _ ER) as (w' & X'). apply (TK w' X').
      * exists (WLock 0). unfold step. rewrite X0, RD, ER. simpl. eexists. repeat split; congruence.
    + apply (TK 0%nat X0).
    + exfalso. unfold playing_ids in PL. apply nth_error_In in X0.
      pose proof (flat_map_nil_all _ _ PL _ X0) as E. discriminate E.
    + exfalso. apply (no_done _ _ R (or_intror (or_intror (or_introl P))) 0%nat X0).
    + exfalso. apply (NE 0%nat code X0).
Qed.

(* ... and it cannot go on for ever: every step that is neither a fault, nor a timeout, nor the start of
   a request lowers a measure bounded by 6*N + 2*workers + 2 *)
Definition rrank (st : wstate) : nat :=
  match st with Starting => 2 | Idle => 1 | Done => 1 | _ => 0 end.
Definition pcrank (c : pc_t) : nat := match c with PFilling => 2 | PWaiting => 1 | _ => 0 end.
Definition rmeasure (s : state) : nat :=
  (6 * todo (par s) + 5 * length (cmd_ids s) + 4 * length (playing_ids s) + 2 * length (game_ids s)
   + list_sum (map rrank (ws s)) + pcrank (pc (par s)))%nat.
Definition productive (e : event) : bool :=
  negb (is_fault e) && negb (is_begin e) && match e with ETimeout => false | _ => true end.

Lemma rmeasure_step cfg e s s' : Inv s -> outcome (par s) = ORunning -> step cfg e s = Some s' ->
  productive e = true -> (rmeasure s' < rmeasure s)%nat.
Proof.
  intros I O H Pr. pose proof (proj1 (inv_run _ I) O) as IR. pose proof (inv_nonone _ I (or_intror IR)) as NN.
  destruct e; try discriminate Pr; inv_step H; unfold set_pc, set_par, set_w, in_request in *.
  all: try solve [exfalso; destruct IR as [P|[P|P]]; congruence].
  all: unfold rmeasure, pcrank, cmd_ids, game_ids, playing_ids in *; simpl in *.
  all: split_ws; eqs; simpl in *.
  all: repeat rewrite ?flat_map_app, ?map_app, ?list_sum_app, ?app_length in *; simpl in *.
  all: try lia.
  all: try solve [exfalso; inversion NN; subst; congruence].
Qed.

Lemma request_bounded_l cfg tr : forall s s', reachable cfg s -> run cfg tr s = Some s' ->
  outcome (par s') = ORunning -> (forall e, In e tr -> productive e = true) ->
  outcome (par s) = ORunning /\ (length tr + rmeasure s' <= rmeasure s)%nat.
Proof.
  induction tr as [|e tr IH]; intros s s' R H O' Pr; simpl in H.
  - inversion H; subst. split; [assumption|simpl; lia].
  - destruct (step cfg e s) as [s1|] eqn:E; [|discriminate].
    pose proof (reach_step _ _ _ _ R E) as R1.
    destruct (IH _ _ R1 H O' (fun x Hx => Pr x (or_intror Hx))) as (O1 & L).
    pose proof (Pr e (or_introl eq_refl)) as Pe.
    assert (O : outcome (par s) = ORunning).
    { destruct (outcome (par s)) eqn:Os; auto; exfalso;
        (assert (NB : is_begin e = false) by (unfold productive in Pe; destruct (is_begin e); [rewrite andb_false_r in Pe; discriminate|reflexivity]));
        (assert (NR : outcome (par s) <> ORunning) by congruence);
        destruct (outcome_stable _ _ _ _ (inv_reachable _ _ R) E NB NR) as (X & _); congruence. }
    split; [assumption|]. pose proof (rmeasure_step _ _ _ _ (inv_reachable _ _ R) O E Pe). simpl. lia.
Qed.

(* N = 5 on one worker (more than cmd 2 + playing 1 + games 1 can hold): the parent meets queue.Full,
   goes to its timed get, and a fault-free, timeout-free schedule returns exactly [0;1;2;3;4] *)
Example request_progress_hyps :
  exists s, run current [EBegin 5; WReady 0; EPut; EPut; EFull] (init 1) = Some s /\
    outcome (par s) = ORunning /\ no_exit s /\ intact s /\ rdead s = false /\ (nworkers s >= 1)%nat /\
    rmeasure s = 30%nat /\
    let g := [WLock 0; WTake 0; WFinish 0; ERecv] in
    exists s', run current (g ++ [EPut; EFull] ++ g ++ [EPut; EFull] ++ g ++ [EPut; EFillEnd] ++ g ++ [EFillEnd] ++ g) s = Some s' /\
      outcome (par s') = OReturned /\ collected (par s') = [0; 1; 2; 3; 4].
Proof.
  eexists. split; [vm_compute; reflexivity|]. split; [reflexivity|].
  split; [intros w c; destruct w as [|[|w]]; simpl; discriminate|].
  split; [split; [intros []|discriminate]|]. split; [reflexivity|]. split; [unfold nworkers; simpl; lia|]. split; [reflexivity|].
  eexists. split; [vm_compute; reflexivity|]. split; reflexivity.
Qed.
