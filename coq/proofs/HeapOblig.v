(* C05 - the generated obligations: every listed function, as translated from
   the current source into gen/HeapIR.v, satisfies the freshness discipline
   (re-checked by computation whenever the source changes), hence the frame
   and snapshot theorems apply to it.  Plus the Examples showing that the
   hypotheses of the implication theorems are satisfiable by non-trivial
   values (an accepted slide and a slide refused part-way). *)
From Coq Require Import List Bool Arith Lia.
From Coq Require String.
From TV Require Import model.HeapSem proofs.HeapProofs gen.HeapIR.
Import ListNotations.

(* every listed function was translated (a function the translator refused is
   emitted as a program that is not fresh_only, and all_translated is false) *)
Lemma all_translated_ok : all_translated = true.
Proof. vm_compute. reflexivity. Qed.

Lemma move_fresh : fresh_only move_ir = true.
Proof. vm_compute. reflexivity. Qed.
Lemma from_squares_fresh : fresh_only from_squares_ir = true.
Proof. vm_compute. reflexivity. Qed.
Lemma from_config_fresh : fresh_only from_config_ir = true.
Proof. vm_compute. reflexivity. Qed.
Lemma parse_row_fresh : fresh_only parse_row_ir = true.
Proof. vm_compute. reflexivity. Qed.
Lemma parse_tps_fresh : fresh_only parse_tps_ir = true.
Proof. vm_compute. reflexivity. Qed.
Lemma transform_position_fresh : fresh_only transform_position_ir = true.
Proof. vm_compute. reflexivity. Qed.

Definition listed : list prog := map snd all_irs.

Lemma listed_disciplined : all_translated = true /\ forall P, In P listed -> fresh_only P = true.
Proof.
  split; [exact all_translated_ok|].
  intros P H. unfold listed, all_irs in H. simpl in H.
  repeat (destruct H as [<-|H];
          [first [exact move_fresh | exact from_squares_fresh | exact from_config_fresh
                 | exact parse_row_fresh | exact parse_tps_fresh | exact transform_position_fresh]|]).
  contradiction.
Qed.

Lemma listed_frame : forall P, In P listed ->
  forall fuel h args orc h' out, run fuel P h args orc = (h', out) ->
  forall l, l < length h -> nth_error h' l = nth_error h l.
Proof. intros P H. apply discipline_sound. apply listed_disciplined. exact H. Qed.

(* call sequences made of the listed functions only *)
Fixpoint calls_listed (h : heap) (cs : list call) : Prop :=
  match cs with
  | [] => True
  | c :: t => In (c_prog c) listed /\ Forall (wfv (length h)) (c_args c) /\ calls_listed (step h c) t
  end.

Lemma calls_listed_ok : forall cs h, calls_listed h cs -> calls_ok h cs.
Proof.
  induction cs as [|c t IH]; intros h H; simpl in *; auto.
  destruct H as [I [A R]]. repeat split; auto. apply listed_disciplined. exact I.
Qed.

Lemma positions_immutable : forall pre post h, closed h -> calls_listed h (pre ++ post) ->
  forall v, wfv (length (run_calls pre h)) v ->
  forall d, snap d (run_calls (pre ++ post) h) v = snap d (run_calls pre h) v.
Proof. intros pre post h C L. apply snapshot_stable_mid; auto. apply calls_listed_ok. exact L. Qed.

(* ---- Examples (hand-written program, independent of the generated file) --- *)
Import String.
Local Open Scope string_scope.
Local Open Scope list_scope.
(* the core of a slide: copy the board, split the source stack, store, walk; refusal possible in the loop *)
Definition ex_slide : prog := {| params := ["self"];
  body :=
    SSeq (SBind "b" (RIdx "self" (IConst 3)))
   (SSeq (SBind "stack" (RIdx "b" IOr))
   (SSeq (SBind "new" (RCopy "b"))
   (SSeq (SBind "carry" (RSlice "stack"))
   (SSeq (SBind "rest" (RSlice "stack"))
   (SSeq (SMut "new" (MSet IOr (AVar "rest")))
   (SSeq (SLoop None 0
           (SSeq (SIf SRaise SSkip)
           (SSeq (SBind "orig" (RIdx "b" IOr))
           (SSeq (SBind "top" (RSlice "carry"))
           (SSeq (SBind "cell" (RConcat "top" "orig"))
           (SSeq (SMut "new" (MSet IOr (AVar "cell")))
                 (SBind "carry" (RSlice "carry"))))))))
   (SSeq (SBind "res" (REvolve "self" [(3, AVar "new")]))
         (SReturn (AVar "res"))))))))) |}.

(* 1x3 board: a1 holds two pieces (object 0), b1 and c1 are empty (objects 1, 2); board = object 3; position = object 4 *)
Definition ex_heap : heap :=
  [[VImm; VImm]; []; []; [VLoc 0; VLoc 1; VLoc 2]; [VImm; VImm; VImm; VLoc 3]].
(* accepted: pick up 2 from a1, drop 1 on b1, 1 on c1 *)
Definition ex_orc_ok : oracle := [0; 0;2; 2;2; 0;  1; 0; 1; 1;2; 1; 0;1;  1; 0; 2; 0;1; 2; 0;0;  0].
(* refused part-way: after the first drop the second step leaves the board *)
Definition ex_orc_refused : oracle := [0; 0;2; 2;2; 0;  1; 0; 1; 1;2; 1; 0;1;  1; 1].

Example ex_slide_disciplined : fresh_only ex_slide = true.
Proof. vm_compute. reflexivity. Qed.

Example ex_accepted :
  run 100 ex_slide ex_heap [VLoc 4] ex_orc_ok =
  (ex_heap ++ [[VLoc 7; VLoc 9; VLoc 12]; [VImm; VImm]; []; [VImm]; [VImm]; [VImm]; [VImm]; [VImm]; [];
               [VImm; VImm; VImm; VLoc 5]]%list,
   ORet (VLoc 14)).
Proof. vm_compute. reflexivity. Qed.

(* the new board (object 5) already received two stores when the slide is refused; nothing older changed *)
Example ex_refused_partway :
  run 100 ex_slide ex_heap [VLoc 4] ex_orc_refused =
  (ex_heap ++ [[VLoc 7; VLoc 9; VLoc 2]; [VImm; VImm]; []; [VImm]; [VImm]; [VImm]]%list, ORaise).
Proof. vm_compute. reflexivity. Qed.

Example ex_refused_frame : forall h' out, run 100 ex_slide ex_heap [VLoc 4] ex_orc_refused = (h', out) ->
  forall l, l < List.length ex_heap -> nth_error h' l = nth_error ex_heap l.
Proof. intros h' out R. exact (discipline_sound ex_slide ex_slide_disciplined _ _ _ _ _ _ R). Qed.

Example ex_heap_closed : closed ex_heap.
Proof.
  intros l o N. do 5 (destruct l as [|l]; [inv N; repeat constructor; simpl; lia|]).
  destruct l; discriminate.
Qed.

(* hypotheses of snapshot_stable are satisfiable: an accepted and a refused call, position 4 retained *)
Example ex_calls_ok :
  calls_ok ex_heap [ {| c_prog := ex_slide; c_fuel := 100; c_args := [VLoc 4]; c_orc := ex_orc_refused |};
                     {| c_prog := ex_slide; c_fuel := 100; c_args := [VLoc 4]; c_orc := ex_orc_ok |} ] /\
  wfv (List.length ex_heap) (VLoc 4).
Proof. vm_compute. repeat split; auto; repeat constructor. Qed.
