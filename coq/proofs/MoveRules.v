(* C01: the executable `move` of model/Tak.v is the rulebook relation
   `legal_step` of spec/Rules.v, in both directions, on every well-formed
   position and for EVERY move value (any integers as coordinates, any move
   type, any list of integers as drops).

   Totality / "no other error escapes": `move` has type
   position -> mv -> option position, so it has exactly two outcomes,
   `Some successor` and `None` (= IllegalMove); there is no third (crash)
   outcome by construction, and `move_refuses` says when `None` is returned.
   That the implementation has no third outcome either is what the
   correspondence observes (any exception other than IllegalMove is a case
   that cannot match the model).

   Domain note: a slide needs `mslides m = Some drops` (legal_step demands it;
   Python's `None` there is outside the property's domain); for placements the
   slides field is ignored by the code, the model and the specification. *)
From Coq Require Import ZArith List Bool Lia.
From TV Require Import model.Tak spec.Rules proofs.MoveRulesUtil proofs.MoveRulesSlide.
Import ListNotations.
Open Scope Z_scope.

(* ---------- small facts ---------- *)
Lemma existsb_pos drops : existsb (fun d => d <? 1) drops = false <-> pos_drops drops.
Proof.
  induction drops as [|d ds IH]; cbn [existsb].
  - split; [constructor|reflexivity].
  - rewrite orb_false_iff, IH. split.
    + intros (Hd & Hds). constructor; [lia|exact Hds].
    + intros H. inversion H; subst. split; [lia|assumption].
Qed.

Definition unit_dir (dx dy : Z) : Prop :=
  (dx = 0 /\ (dy = 1 \/ dy = -1)) \/ (dy = 0 /\ (dx = 1 \/ dx = -1)).

Lemma slide_dir_spec t dx dy :
  slide_dir t = Some (dx, dy) <-> is_slide t = true /\ direction t = (dx, dy).
Proof.
  destruct t; cbn; split; try (intros H; discriminate H); try (intros (H & _); discriminate H);
    try (intros H; injection H as <- <-; split; reflexivity);
    intros (_ & H); injection H as <- <-; reflexivity.
Qed.

Lemma slide_dir_unit t dx dy : slide_dir t = Some (dx, dy) -> unit_dir dx dy.
Proof. destruct t; cbn; intros H; try discriminate H; injection H as <- <-; unfold unit_dir; lia. Qed.

Lemma place_kind_not_slide t k : place_kind t = Some k -> is_slide t = false.
Proof. destruct t; cbn; intros H; try discriminate H; reflexivity. Qed.

Lemma nth_skipn_0 {A} (d : A) : forall i l, nth i l d = nth 0 (skipn i l) d.
Proof.
  induction i as [|i IH]; intros l; [reflexivity|]. destruct l as [|a l]; [reflexivity|].
  cbn [nth skipn]. apply IH.
Qed.

(* what is left to drop is exactly one piece: this is the last drop, and it is 1 *)
Lemma last_drop drops i : pos_drops drops -> (1 <= i <= length drops)%nat ->
  zsum drops - zsum (firstn (i - 1) drops) = 1 ->
  i = length drops /\ nth (i - 1) drops 0 = 1.
Proof.
  intros Hpos Hi Hs.
  pose proof (zsum_firstn_skipn (i - 1) drops) as Hsplit.
  assert (Hk : skipn (i - 1) drops = [1]).
  { apply pos_drops_sum1; [apply pos_drops_skipn; exact Hpos|lia]. }
  split.
  - pose proof (skipn_length (i - 1) drops) as Hl. rewrite Hk in Hl. simpl in Hl. lia.
  - rewrite nth_skipn_0, Hk. reflexivity.
Qed.

Lemma still_carried_rem (carry : stack) drops i : zlen carry = zsum drops ->
  still_carried carry drops i = rem carry (dropped_by drops i).
Proof. intros H. unfold still_carried, rem. rewrite H. reflexivity. Qed.

Lemma target_fst m dx dy i : fst (target m dx dy i) = mx m + Z.of_nat i * dx.
Proof. reflexivity. Qed.
Lemma target_snd m dx dy i : snd (target m dx dy i) = my m + Z.of_nat i * dy.
Proof. reflexivity. Qed.

Lemma target_not_origin m dx dy i : unit_dir dx dy -> (1 <= i)%nat ->
  target m dx dy i <> (mx m, my m).
Proof.
  unfold target. intros Hd Hi H. injection H as Hx Hy.
  destruct Hd as [(-> & [-> | ->])|(-> & [-> | ->])]; lia.
Qed.

Lemma pos_ext p q :
  size p = size q -> (forall c cap, reserve p c cap = reserve q c cap) ->
  ply p = ply q -> board p = board q -> p = q.
Proof.
  destruct p, q; cbn. intros -> Hr -> ->.
  pose proof (Hr White false). pose proof (Hr White true).
  pose proof (Hr Black false). pose proof (Hr Black true). cbn in *. congruence.
Qed.

(* ---------- soundness: what `move` accepts is what the rules prescribe ---------- *)
Lemma move_place_sound p m p' :
  wf_pos p -> on_board p (mx m) (my m) -> is_slide (mt m) = false ->
  move_place p m = Some p' -> legal_step p m p'.
Proof.
  intros (Hsz & Hlen & _) Hor Hsl Hmv. unfold move_place in Hmv.
  destruct Hor as (Hx & Hy).
  assert (Hidx : 0 <= my m * size p + mx m < zlen (board p))
    by (rewrite Hlen; apply idx_range; lia).
  replace (mx m + my m * size p) with (my m * size p + mx m) in Hmv by ring.
  assert (Hfr : forall b x y, 0 <= x < size p /\ 0 <= y < size p -> (x, y) <> (mx m, my m) ->
            getz [] (updz (board p) (my m * size p + mx m) b) (y * size p + x) =
            getz [] (board p) (y * size p + x)).
  { intros b x y (Hx' & Hy') Hne. apply getz_updz_neq; [lia| |].
    - pose proof (idx_range (size p) x y Hx' Hy'). lia.
    - intros Heq. apply idx_inj in Heq; try lia. destruct Heq; subst. congruence. }
  destruct (mt m) eqn:Et; try discriminate Hsl; clear Hsl;
    cbn [mtype_eqb mtype_code Z.eqb Pos.eqb negb andb] in Hmv;
    destruct (ply p <? 2) eqn:Eply; cbn [andb] in Hmv; try discriminate Hmv;
    (destruct (sq p (mx m) (my m)) as [|t0 r0] eqn:Esq; [|discriminate Hmv]);
    unfold to_move in Hmv; destruct (Z.even (ply p)) eqn:Eev; cbn [flip] in Hmv;
    match type of Hmv with (if ?c then _ else _) = _ => destruct c eqn:Eav; [discriminate Hmv|] end;
    injection Hmv as <-;
    match goal with
    | |- legal_step _ _ (mkPos _ _ _ _ _ _ (updz _ _ [mkPiece ?c ?k])) =>
      apply (Step_place p m _ k c)
    end;
    try (rewrite Et; reflexivity);
    try (split; lia);
    try exact Esq;
    try (unfold mover; rewrite Eev; cbn; intros; try split; try reflexivity; lia);
    try (cbn; lia);
    try (unfold sq; cbn [size board]; apply getz_updz_eq; exact Hidx);
    try (intros x y Hb Hne; unfold sq; cbn [size board]; apply Hfr; assumption);
    try (intros [|] [|]; cbn; lia);
    try (cbn [board]; rewrite zlen_updz; exact Hlen).
Qed.

Lemma move_slide_sound p m drops p' :
  wf_pos p -> on_board p (mx m) (my m) -> is_slide (mt m) = true -> mslides m = Some drops ->
  move_slide p m drops = Some p' -> legal_step p m p'.
Proof.
  intros (Hsz & Hlen & _) Hor Hsl Hdr Hmv. unfold move_slide in Hmv. cbv zeta in Hmv.
  destruct (ply p <? 2) eqn:Eply; [discriminate|].
  destruct (existsb (fun d => d <? 1) drops) eqn:Eex; [discriminate|].
  apply existsb_pos in Eex.
  destruct ((size p <? zsum drops) || (zlen (sq p (mx m) (my m)) <? zsum drops)) eqn:Elim; [discriminate|].
  apply orb_false_iff in Elim. destruct Elim as (El1 & El2).
  destruct (zsum drops <? 1) eqn:E1; [discriminate|].
  destruct (sq p (mx m) (my m)) as [|top rest] eqn:Est; [discriminate|].
  destruct (negb (color_eqb (pcolor top) (to_move p))) eqn:Ecol; [discriminate|].
  apply negb_false_iff, color_eqb_eq in Ecol.
  destruct (direction (mt m)) as (dx, dy) eqn:Edir.
  assert (Hsd : slide_dir (mt m) = Some (dx, dy)) by (apply slide_dir_spec; split; assumption).
  pose proof (slide_dir_unit _ _ _ Hsd) as Hunit.
  replace (mx m + my m * size p) with (my m * size p + mx m) in Hmv by ring.
  set (k := zsum drops) in *. set (st := top :: rest) in *.
  set (carry := firstn (Z.to_nat k) st) in *.
  set (oidx := my m * size p + mx m) in *.
  set (nb := updz (board p) oidx (skipn (Z.to_nat k) st)) in *.
  destruct (slide_go p dx dy (mx m) (my m) carry nb drops) as [nb'|] eqn:Ego; [|discriminate].
  injection Hmv as <-.
  destruct Hor as (Hx & Hy).
  assert (Hoidx : 0 <= oidx < zlen (board p)) by (rewrite Hlen; apply idx_range; lia).
  assert (Hclen : zlen carry = zsum drops) by (apply zlen_firstn; fold k; lia).
  assert (Hnblen : zlen nb = size p * size p) by (unfold nb; rewrite zlen_updz; exact Hlen).
  destruct (slide_go_sound p dx dy Hunit drops (mx m) (my m) carry nb nb' Eex Hclen Hnblen
              (conj Hx Hy) Ego) as (Hl & Htar & Hoth).
  assert (Hnot : forall i, (1 <= i <= length drops)%nat ->
            oidx <> (my m + Z.of_nat i * dy) * size p + (mx m + Z.of_nat i * dx)).
  { intros i Hi Heq. destruct (Htar i Hi) as (Hbi & _).
    unfold oidx in Heq. apply idx_inj in Heq; try lia.
    apply (target_not_origin m dx dy i Hunit); [lia|]. unfold target. f_equal; lia. }
  apply (Step_slide p m _ drops dx dy).
  - split; assumption.
  - exact Hsd.
  - exact Hdr.
  - lia.
  - exact Eex.
  - fold k. lia.
  - rewrite Est. fold st k. lia.
  - rewrite Est. exists top, rest. split; [reflexivity|exact Ecol].
  - intros i Hi. rewrite target_fst, target_snd. apply (Htar i Hi).
  - intros i top0 rest0 Hi Hsq. rewrite target_fst, target_snd in Hsq.
    destruct (Htar i Hi) as (_ & Hok & _). unfold sq in Hsq. rewrite Hsq in Hok.
    destruct Hok as (Hnc & Hst). split; [exact Hnc|]. intros Hstand.
    destruct (Hst Hstand) as (c & Hc & Hck).
    assert (Hone : zsum drops - zsum (firstn (i - 1) drops) = 1).
    { pose proof (dropped_bounds (i - 1) drops Eex) as Hb.
      pose proof (zlen_rem carry (zsum (firstn (i - 1) drops))) as Hz.
      rewrite Hc in Hz. rewrite Hclen in Hz. change (zlen [c]) with 1 in Hz. lia. }
    destruct (last_drop drops i Eex Hi Hone) as (Hlast & Hd1).
    split; [exact Hlast|]. split; [exact Hd1|].
    exists c. split; [|exact Hck]. rewrite Est. fold st k carry.
    rewrite still_carried_rem by exact Hclen. exact Hc.
  - intros i Hi. rewrite target_fst, target_snd.
    destruct (Htar i Hi) as (_ & _ & Hget). unfold sq at 1. cbn [size board with_board].
    rewrite Hget. rewrite Est. fold st k carry. unfold segment.
    rewrite still_carried_rem by exact Hclen. unfold dropped_by. rewrite Hclen. reflexivity.
  - unfold sq at 1. cbn [size board with_board]. fold oidx. rewrite Hoth; [|lia|exact Hnot].
    unfold nb. rewrite getz_updz_eq by exact Hoidx. rewrite Est. reflexivity.
  - intros x y (Hx' & Hy') Hno Hnt. unfold sq. cbn [size board with_board].
    pose proof (idx_range (size p) x y Hx' Hy') as Hr.
    rewrite Hoth; [|lia|].
    + unfold nb. apply getz_updz_neq; [lia|lia|]. intros Heq. unfold oidx in Heq.
      apply idx_inj in Heq; try lia. destruct Heq; subst. congruence.
    + intros i Hi Heq. destruct (Htar i Hi) as (Hbi & _).
      apply idx_inj in Heq; try lia. apply (Hnt i Hi). unfold target. destruct Heq; subst. reflexivity.
  - intros [|] [|]; reflexivity.
  - reflexivity.
  - cbn [board with_board]. rewrite Hl. exact Hnblen.
  - reflexivity.
Qed.

Theorem move_sound p m p' : wf_pos p -> move p m = Some p' -> legal_step p m p'.
Proof.
  intros Hwf Hmv. unfold move in Hmv.
  destruct (in_bounds (size p) (mx m) (my m)) eqn:Eb; cbn [negb] in Hmv; [|discriminate].
  apply in_bounds_iff in Eb.
  destruct (is_slide (mt m)) eqn:Esl.
  - destruct (mslides m) as [drops|] eqn:Ed; [|discriminate].
    eapply move_slide_sound; eassumption.
  - apply move_place_sound; assumption.
Qed.

(* ---------- the relation determines the successor ---------- *)
Lemma target_dec m dx dy x y : forall n,
  (exists i, (1 <= i <= n)%nat /\ (x, y) = target m dx dy i) \/
  (forall i, (1 <= i <= n)%nat -> (x, y) <> target m dx dy i).
Proof.
  induction n as [|n IH].
  - right. intros i Hi. lia.
  - destruct IH as [(i & Hi & He)|Hno].
    + left. exists i. split; [lia|exact He].
    + destruct (Z.eq_dec x (mx m + Z.of_nat (S n) * dx)) as [Ex|Ex].
      * destruct (Z.eq_dec y (my m + Z.of_nat (S n) * dy)) as [Ey|Ey].
        -- left. exists (S n). split; [lia|]. unfold target. congruence.
        -- right. intros i Hi He. destruct (Nat.eq_dec i (S n)) as [->|Hn].
           ++ unfold target in He. injection He as _ He. contradiction.
           ++ apply (Hno i); [lia|exact He].
      * right. intros i Hi He. destruct (Nat.eq_dec i (S n)) as [->|Hn].
        -- unfold target in He. injection He as He _. contradiction.
        -- apply (Hno i); [lia|exact He].
Qed.

Theorem legal_step_functional p m p' p'' :
  legal_step p m p' -> legal_step p m p'' -> p' = p''.
Proof.
  intros H1 H2.
  destruct H1 as [k c Hor Hkind Hop Hno Hemp Hres Hpl Hfr Hcnt Hsz Hsh Hply
                 |drops dx dy Hor Hdir Hdr Hno Hpos Hlim Hhei Hown Hpath Hblock Hdrop Hrem Hfr Hcnt Hsz Hsh Hply];
  destruct H2 as [k2 c2 Hor2 Hkind2 Hop2 Hno2 Hemp2 Hres2 Hpl2 Hfr2 Hcnt2 Hsz2 Hsh2 Hply2
                 |drops2 dx2 dy2 Hor2 Hdir2 Hdr2 Hno2 Hpos2 Hlim2 Hhei2 Hown2 Hpath2 Hblock2 Hdrop2 Hrem2 Hfr2 Hcnt2 Hsz2 Hsh2 Hply2].
  - (* two placements *)
    assert (k2 = k) by congruence. subst k2.
    assert (c2 = c).
    { destruct (Z_lt_le_dec (ply p) 2) as [Hlt|Hge].
      - destruct (Hop Hlt) as (_ & ->). destruct (Hop2 Hlt) as (_ & ->). reflexivity.
      - rewrite (Hno Hge), (Hno2 Hge). reflexivity. }
    subst c2.
    apply pos_ext; [congruence| |congruence|].
    + intros c' cap'. rewrite Hcnt, Hcnt2. reflexivity.
    + destruct Hor as (Hx & Hy).
      apply (board_ext (size p)); [lia|exact Hsh|exact Hsh2|]. intros x y Hx' Hy'.
      assert (E1 : getz [] (board p') (y * size p + x) = sq p' x y) by (unfold sq; rewrite Hsz; reflexivity).
      assert (E2 : getz [] (board p'') (y * size p + x) = sq p'' x y) by (unfold sq; rewrite Hsz2; reflexivity).
      rewrite E1, E2.
      destruct (Z.eq_dec x (mx m)) as [->|Nx]; [destruct (Z.eq_dec y (my m)) as [->|Ny]|].
      * rewrite Hpl, Hpl2. reflexivity.
      * rewrite Hfr, Hfr2; first [reflexivity | split; assumption | congruence].
      * rewrite Hfr, Hfr2; first [reflexivity | split; assumption | congruence].
  - exfalso. destruct (mt m); cbn in *; discriminate.
  - exfalso. destruct (mt m); cbn in *; discriminate.
  - (* two slides *)
    assert (drops2 = drops) by congruence. subst drops2.
    assert (E : (dx2, dy2) = (dx, dy)) by congruence. injection E as -> ->.
    apply pos_ext; [congruence| |congruence|].
    + intros c' cap'. rewrite Hcnt, Hcnt2. reflexivity.
    + destruct Hor as (Hx & Hy).
      apply (board_ext (size p)); [lia|exact Hsh|exact Hsh2|]. intros x y Hx' Hy'.
      assert (E1 : getz [] (board p') (y * size p + x) = sq p' x y) by (unfold sq; rewrite Hsz; reflexivity).
      assert (E2 : getz [] (board p'') (y * size p + x) = sq p'' x y) by (unfold sq; rewrite Hsz2; reflexivity).
      rewrite E1, E2.
      destruct (target_dec m dx dy x y (length drops)) as [(i & Hi & He)|Hnt].
      * unfold target in He. injection He as -> ->.
        pose proof (Hdrop i Hi) as Ha. pose proof (Hdrop2 i Hi) as Hb.
        rewrite target_fst, target_snd in Ha, Hb. rewrite Ha, Hb. reflexivity.
      * destruct (Z.eq_dec x (mx m)) as [->|Nx]; [destruct (Z.eq_dec y (my m)) as [->|Ny]|].
        -- rewrite Hrem, Hrem2. reflexivity.
        -- rewrite Hfr, Hfr2; first [reflexivity | split; assumption | exact Hnt | congruence].
        -- rewrite Hfr, Hfr2; first [reflexivity | split; assumption | exact Hnt | congruence].
Qed.

(* ---------- completeness: what the rules allow, `move` accepts ---------- *)
Lemma move_accepts p m p' : wf_pos p -> legal_step p m p' -> exists q, move p m = Some q.
Proof.
  intros (Hsz & Hlen & _) H.
  destruct H as [k c Hor Hkind Hop Hno Hemp Hres Hpl Hfr Hcnt Hsize Hsh Hply
                |drops dx dy Hor Hdir Hdr Hno Hpos Hlim Hhei Hown Hpath Hblock Hdrop Hrem Hfr Hcnt Hsize Hsh Hply].
  - unfold move. rewrite (proj2 (in_bounds_iff _ _ _) Hor). cbn [negb].
    rewrite (place_kind_not_slide _ _ Hkind). unfold move_place. rewrite Hemp.
    destruct (mt m); try discriminate Hkind; injection Hkind as <-;
      cbn [mtype_eqb mtype_code Z.eqb Pos.eqb negb andb];
      destruct (ply p <? 2) eqn:Eply; cbn [andb];
      try (destruct (Hop ltac:(lia)) as (Hk & _); discriminate Hk);
      try (destruct (Hop ltac:(lia)) as (_ & ->));
      try (rewrite (Hno ltac:(lia)) in * );
      unfold mover, to_move in *; destruct (Z.even (ply p)); cbn [flip reserve is_capstone] in *;
      match goal with |- exists q, (if ?c then _ else _) = _ => destruct c eqn:Eav; [lia|] end;
      eexists; reflexivity.
  - pose proof (slide_dir_unit _ _ _ Hdir) as Hunit.
    apply slide_dir_spec in Hdir. destruct Hdir as (Hsl & Hdirn).
    unfold move. rewrite (proj2 (in_bounds_iff _ _ _) Hor). cbn [negb].
    rewrite Hsl, Hdr. unfold move_slide. cbv zeta.
    destruct Hown as (top & rest & Est & Hcol).
    destruct (ply p <? 2) eqn:Eply; [lia|].
    rewrite (proj2 (existsb_pos drops) Hpos).
    destruct ((size p <? zsum drops) || (zlen (sq p (mx m) (my m)) <? zsum drops)) eqn:Elim.
    { apply orb_true_iff in Elim. lia. }
    destruct (zsum drops <? 1) eqn:E1; [lia|].
    rewrite Est in *. rewrite Hcol. change (to_move p) with (mover p).
    rewrite (proj2 (color_eqb_eq _ _) eq_refl). cbn [negb]. rewrite Hdirn.
    set (carry := firstn (Z.to_nat (zsum drops)) (top :: rest)) in *.
    assert (Hclen : zlen carry = zsum drops) by (apply zlen_firstn; lia).
    destruct (slide_go_complete p dx dy drops (mx m) (my m) carry
                (updz (board p) (mx m + my m * size p) (skipn (Z.to_nat (zsum drops)) (top :: rest)))
                Hpos Hclen) as (nb' & Hgo).
    + intros i Hi. pose proof (Hpath i Hi) as Hb. rewrite target_fst, target_snd in Hb.
      split; [exact Hb|].
      specialize (Hblock i). rewrite target_fst, target_snd in Hblock. unfold sq in Hblock.
      destruct (getz [] (board p) ((my m + Z.of_nat i * dy) * size p + (mx m + Z.of_nat i * dx)))
        as [|t0 r0]; [exact I|].
      destruct (Hblock t0 r0 Hi eq_refl) as (Hnc & Hst). split; [exact Hnc|].
      intros Hstand. destruct (Hst Hstand) as (_ & _ & c & Hc & Hck).
      exists c. split; [|exact Hck]. rewrite still_carried_rem in Hc by exact Hclen. exact Hc.
    + rewrite Hgo. eexists; reflexivity.
Qed.

Theorem move_complete p m p' : wf_pos p -> legal_step p m p' -> move p m = Some p'.
Proof.
  intros Hwf H. destruct (move_accepts p m p' Hwf H) as (q & Hq).
  rewrite Hq. f_equal. apply (legal_step_functional p m); [|exact H].
  apply move_sound; assumption.
Qed.

Theorem move_iff p m p' : wf_pos p -> (move p m = Some p' <-> legal_step p m p').
Proof. intros Hwf. split; [apply move_sound|apply move_complete]; exact Hwf. Qed.

(* refusal (IllegalMove) is returned exactly when the rules allow no successor *)
Theorem move_refuses p m : wf_pos p -> (move p m = None <-> ~ exists p', legal_step p m p').
Proof.
  intros Hwf. split.
  - intros Hn (p' & H). apply (move_complete _ _ _ Hwf) in H. congruence.
  - intros Hno. destruct (move p m) as [q|] eqn:E; [|reflexivity].
    exfalso. apply Hno. exists q. apply move_sound; assumption.
Qed.

(* `move` has two outcomes and no third: accepted with the prescribed successor, or refused *)
Theorem move_total p m : wf_pos p ->
  (exists p', move p m = Some p' /\ legal_step p m p') \/
  (move p m = None /\ ~ exists p', legal_step p m p').
Proof.
  intros Hwf. destruct (move p m) as [q|] eqn:E.
  - left. exists q. split; [reflexivity|]. apply move_sound; assumption.
  - right. split; [reflexivity|]. apply move_refuses; assumption.
Qed.

(* ---------- the hypotheses are satisfiable: a concrete, non-trivial instance ---------- *)
(* 5x5, White to move (ply 10).  c3 holds [white capstone; black flat; white flat]
   (top first), d3 a black flat, e3 a black wall.  Sliding right with drops (1, 1)
   leaves the white flat on c3, puts the black flat on d3 and lets the lone
   capstone flatten the wall on e3. *)
Definition ex_board : list stack :=
  repeat [] 10 ++
  [[]; []; [mkPiece White Capstone; mkPiece Black Flat; mkPiece White Flat];
   [mkPiece Black Flat]; [mkPiece Black Standing]] ++ repeat [] 10.
Definition ex_pos : position := mkPos 5 19 0 18 1 10 ex_board.
Definition ex_move : mv := mkMove 2 2 SlideRight (Some [1; 1]).
Definition ex_succ : position :=
  mkPos 5 19 0 18 1 11
    (repeat [] 10 ++
     [[]; []; [mkPiece White Flat]; [mkPiece Black Flat; mkPiece Black Flat];
      [mkPiece White Capstone; mkPiece Black Flat]] ++ repeat [] 10).

Example ex_wf : wf_pos ex_pos.
Proof.
  unfold wf_pos. split; [cbn; lia|]. split; [reflexivity|].
  unfold ex_pos, ex_board. cbn [board repeat app]. repeat constructor.
Qed.

Example move_iff_nonvacuous :
  wf_pos ex_pos /\ move ex_pos ex_move = Some ex_succ /\ legal_step ex_pos ex_move ex_succ /\
  (* the same capstone cannot flatten with a piece still under it, nor jump the carry limit *)
  move ex_pos (mkMove 2 2 SlideRight (Some [2])) = Some
    (mkPos 5 19 0 18 1 11
       (repeat [] 10 ++ [[]; []; [mkPiece White Flat];
          [mkPiece White Capstone; mkPiece Black Flat; mkPiece Black Flat]; [mkPiece Black Standing]]
        ++ repeat [] 10)) /\
  (~ exists p', legal_step ex_pos (mkMove 2 2 SlideRight (Some [0; 2])) p') /\
  (~ exists p', legal_step ex_pos (mkMove 2 2 SlideRight (Some [1; 2])) p') /\
  (~ exists p', legal_step ex_pos (mkMove (-1) 0 PlaceFlat None) p') /\
  (~ exists p', legal_step ex_pos (mkMove 0 0 PlaceCapstone None) p').
Proof.
  split; [exact ex_wf|]. split; [reflexivity|].
  split; [apply move_sound; [exact ex_wf|reflexivity]|].
  split; [reflexivity|].
  repeat split; apply (move_refuses _ _ ex_wf); reflexivity.
Qed.
