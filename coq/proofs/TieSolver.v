(* Tie (G) for C10: the constants regenerated from the repository
   (gen/Consts.v, by harness/gen_consts.py) and the source fragments scraped
   from python/ext/tak.cpp and python/tak/mcts.py (gen/SolverSrc.v, by
   harness/props/c10.py:pregen) equal what model/Solver.v was written against.
   Closed by computation; a source change that alters the bracket expressions,
   an exit test, a tolerance or the iteration bound breaks a Qed here. *)
From Coq Require Import ZArith QArith List Bool String Ascii.
From Coq Require Import Floats.SpecFloat.
From TV Require gen.Consts gen.SolverSrc.
From TV Require Import model.Solver.
Import ListNotations.
Open Scope Z_scope.

Definition codes (s : string) : list Z := map (fun a => Z.of_N (N_of_ascii a)) (list_ascii_of_string s).

(* ---- constants ---------------------------------------------------- *)
(* ALPHA_EPSILON = 1e-3 (mcts.py), SIGMA_EPSILON = 1e-3 (tak.cpp): EPS_Q = 1/1000 in the
   theorems, SIGMA_EPSILON32 = float(double(1/1000)) in the mirror *)
Lemma tie_ALPHA_EPSILON : Consts.mcts_ALPHA_EPSILON_text = codes "1e-3" /\ EPS_Q = (1 # 1000)%Q.
Proof. split; reflexivity. Qed.
Lemma tie_SIGMA_EPSILON :
  Consts.cpp_SIGMA_EPSILON_text = codes "1e-3" /\
  SIGMA_EPSILON32 = sf_convert prec32 emax32 (dec64 1 3) /\
  bits_of_b32 SIGMA_EPSILON32 = 981668463.      (* 0x3a83126f *)
Proof. split; [reflexivity | split; [reflexivity | vm_compute; reflexivity]]. Qed.
(* for (loops = 0; loops < 32; ...)   /   if iters > 32: raise *)
Lemma tie_max_loops : Consts.cpp_max_loops = Z.of_nat MAX_ITERS /\ Consts.py_max_iters = Z.of_nat MAX_ITERS.
Proof. split; reflexivity. Qed.

(* ---- tak.cpp ------------------------------------------------------- *)
(* alpha_min = max(alpha_min, E)  -- model: lo_terms = q + lam * pi, amax a b = if a < b then b else a *)
Lemma tie_cpp_lo_expr : SolverSrc.cpp_lo_expr = codes "q_a[i] + lambda_n * pi_theta_a[i]".
Proof. reflexivity. Qed.
(* alpha_max = max(alpha_max, E)  -- model: hi_terms = q + lam *)
Lemma tie_cpp_hi_expr : SolverSrc.cpp_hi_expr = codes "q_a[i] + lambda_n".
Proof. reflexivity. Qed.
(* both running maxima start at -inf  -- model: a_max_init B32 = Some (S754_infinity true) *)
Lemma tie_cpp_inits :
  SolverSrc.cpp_lo_init = codes "-std::numeric_limits<float>::infinity()" /\
  SolverSrc.cpp_hi_init = codes "-std::numeric_limits<float>::infinity()" /\
  a_max_init B32 = Some (S754_infinity true).
Proof. repeat split; reflexivity. Qed.
(* last_sum starts at +inf  -- model: x_init native_exit_32 = Some (S754_infinity false) *)
Lemma tie_cpp_last_init :
  SolverSrc.cpp_last_init = codes "std::numeric_limits<float>::infinity()" /\
  x_init native_exit_32 = Some (S754_infinity false).
Proof. split; reflexivity. Qed.
(* float error = sum - 1.0  -- model: err32 (double subtraction, rounded to float) *)
Lemma tie_cpp_error : SolverSrc.cpp_error = codes "sum - 1.0".
Proof. reflexivity. Qed.
(* the `if`s of the function, in order: tolerance exit, stagnation exit, its
   non-finite fallback, the branch of the bisection -- model: native_exit, loop *)
Lemma tie_cpp_ifs :
  SolverSrc.cpp_ifs = [codes "abs(error) <= SIGMA_EPSILON"; codes "sum == last_sum";
                       codes "!std::isfinite(sum)"; codes "sum > 1"].
Proof. reflexivity. Qed.
Lemma tie_cpp_fallback : SolverSrc.cpp_fallback = codes "alpha = alpha_max;".
Proof. reflexivity. Qed.

(* ---- mcts.py ------------------------------------------------------- *)
Lemma tie_py_lo_expr : SolverSrc.py_lo_expr = codes "(q + lambda_n * pi_theta).max().item()".
Proof. reflexivity. Qed.
Lemma tie_py_hi_expr : SolverSrc.py_hi_expr = codes "(q + lambda_n).max().item()".
Proof. reflexivity. Qed.
(* iteration bound, exit test (tolerance 1e-3 by name, bracket 1e-6), branch -- model: python_exit, TOL_Q *)
Lemma tie_py_ifs :
  SolverSrc.py_ifs = [codes "iters > 32";
                      codes "np.abs(1 - sigma) <= ALPHA_EPSILON or (alpha_max - alpha_min) <= 1e-6";
                      codes "sigma > 1"] /\
  TOL_Q = (1 # 1000000)%Q.
Proof. split; reflexivity. Qed.

(* collected *)
Theorem constants_tie :
  Consts.mcts_ALPHA_EPSILON_text = codes "1e-3" /\
  Consts.cpp_SIGMA_EPSILON_text = codes "1e-3" /\
  EPS_Q = (1 # 1000)%Q /\ TOL_Q = (1 # 1000000)%Q /\
  bits_of_b32 SIGMA_EPSILON32 = 981668463 /\
  Consts.cpp_max_loops = Z.of_nat MAX_ITERS /\ Consts.py_max_iters = Z.of_nat MAX_ITERS /\
  MAX_ITERS = 32%nat.
Proof.
  repeat split; reflexivity.
Qed.

Theorem source_shape_tie :
  SolverSrc.cpp_lo_expr = codes "q_a[i] + lambda_n * pi_theta_a[i]" /\
  SolverSrc.cpp_hi_expr = codes "q_a[i] + lambda_n" /\
  SolverSrc.cpp_lo_init = codes "-std::numeric_limits<float>::infinity()" /\
  SolverSrc.cpp_hi_init = codes "-std::numeric_limits<float>::infinity()" /\
  SolverSrc.cpp_last_init = codes "std::numeric_limits<float>::infinity()" /\
  SolverSrc.cpp_error = codes "sum - 1.0" /\
  SolverSrc.cpp_ifs = [codes "abs(error) <= SIGMA_EPSILON"; codes "sum == last_sum";
                       codes "!std::isfinite(sum)"; codes "sum > 1"] /\
  SolverSrc.cpp_fallback = codes "alpha = alpha_max;" /\
  SolverSrc.py_lo_expr = codes "(q + lambda_n * pi_theta).max().item()" /\
  SolverSrc.py_hi_expr = codes "(q + lambda_n).max().item()" /\
  SolverSrc.py_ifs = [codes "iters > 32";
                      codes "np.abs(1 - sigma) <= ALPHA_EPSILON or (alpha_max - alpha_min) <= 1e-6";
                      codes "sigma > 1"].
Proof.
  repeat split; reflexivity.
Qed.
