(* Compositions across properties (work package X), training-batch side:

   C12 + C06 (+ C11, C04)
     model/Batch.v keeps the per-position token encoding abstract (`enc`).
     Here it is the real one, `real_enc p = encoding.encode(p)` with the output
     sentinel (what encode_batch uses), and C06's injectivity turns C12's
     "each distinct KEY once" into "each distinct POSITION - in the sense of
     (board, side to move, reserves) - once, in order of first occurrence".
     The domain hypothesis (`encodable`) holds for every transcript of
     play_one_game on sizes 3..6 (ComposeSelfPlay.transcript_positions_encodable). *)
From Coq Require Import ZArith QArith List Bool Lia.
From TV Require gen.Consts.
From TV Require Import model.Tak model.SelfPlay model.Batch spec.SelfPlaySpec spec.BatchSpec.
From TV Require model.Encoding spec.EncodingSpec proofs.EncodingProofs proofs.BatchProofs proofs.ListUtil
  proofs.ComposeSelfPlay.
Import ListNotations.
Open Scope Z_scope.

(* encoding.encode(p) (include_sentinel = True, the default encode_batch uses); the IndexError
   outcome is [] - excluded on `encodable` positions (real_enc_defined) *)
Definition real_enc (p : position) : list Z :=
  match Encoding.encode true p with Some l => l | None => [] end.

(* "the same position" in the sense of C06: board, side to move, reserves *)
Notation triple := Encoding.triple.

Lemma real_enc_defined p : EncodingSpec.encodable p -> Encoding.encode true p = Some (real_enc p).
Proof.
  intros H. unfold real_enc. destruct (EncodingProofs.encode_defined true p H) as (l & ->). reflexivity.
Qed.

Lemma encode_triple s p q : triple p = triple q -> Encoding.encode s p = Encoding.encode s q.
Proof.
  unfold Encoding.triple, Encoding.reserves. intros H. injection H as Hb Hm Hws Hwc Hbs Hbc.
  unfold Encoding.encode, Encoding.stones_of. rewrite Hb, Hm, Hws, Hwc, Hbs, Hbc. reflexivity.
Qed.

(* C06: equal encodings <-> equal (board, side to move, reserves) *)
Lemma real_enc_iff p q : EncodingSpec.encodable p -> EncodingSpec.encodable q ->
  (real_enc p = real_enc q <-> triple p = triple q).
Proof.
  intros Hp Hq. split.
  - intros E. pose proof (real_enc_defined p Hp) as Ep. pose proof (real_enc_defined q Hq) as Eq.
    rewrite E in Ep. rewrite <- Eq in Ep.
    destruct (EncodingProofs.encode_injective true p q Hp Hq Ep) as (A & B & D).
    unfold Encoding.triple. rewrite A, B, D. reflexivity.
  - intros E. unfold real_enc. rewrite (encode_triple true p q E). reflexivity.
Qed.

Lemma real_enc_decode p : EncodingSpec.encodable p -> Encoding.decode (real_enc p) = Some (triple p).
Proof.
  intros H. destruct (EncodingProofs.decode_encode true p H) as (l & El & Dl).
  rewrite (real_enc_defined p H) in El. injection El as <-. exact Dl.
Qed.

(* ---------- the keys of an encoded batch are the encodings ---------- *)
Lemma zip_rows_keys w : forall encs lg vs ls,
  length (zip_rows (map (pad_tokens w) encs) (map (pad_mask w) encs) lg vs ls) = length encs ->
  map key_of (zip_rows (map (pad_tokens w) encs) (map (pad_mask w) encs) lg vs ls) = encs.
Proof.
  induction encs as [|e encs IH]; intros [|p lg] [|v vs] [|l ls] H; simpl in *; try reflexivity; try discriminate.
  injection H as H. f_equal; [|apply IH; exact H].
  unfold key_of, pad_tokens, pad_mask. simpl. apply BatchProofs.masked_pad.
Qed.

Lemma encode_games_keys enc logs b : Forall wf_transcript logs -> encode_games enc logs = Some b ->
  map key_of b = map enc (flat_map t_positions logs).
Proof.
  intros Hwf H. destruct (BatchProofs.rows_in_order enc logs b Hwf H) as (Hlen & _).
  unfold encode_games in H. destruct (all_logits logs) as [lg|]; [|discriminate]. injection H as <-.
  apply zip_rows_keys. rewrite Hlen, map_length. reflexivity.
Qed.

(* ---------- first occurrence, for keys and for positions ---------- *)
Lemma first_idx_spec : forall ks k a, first_idx ks k = Some a ->
  nth_error ks a = Some k /\ forall j k', (j < a)%nat -> nth_error ks j = Some k' -> k' <> k.
Proof.
  induction ks as [|h t IH]; intros k a H; simpl in H; [discriminate|].
  destruct (key_eqb h k) eqn:E.
  - injection H as <-. apply BatchProofs.key_eqb_spec in E. subst h. split; [reflexivity|]. intros j k' Hj. lia.
  - destruct (first_idx t k) as [a'|] eqn:Ea; [|discriminate]. simpl in H. injection H as <-.
    destruct (IH k a' Ea) as (Hn & Hbefore). split; [exact Hn|].
    intros [|j] k' Hj Hk'; simpl in Hk'.
    + injection Hk' as <-. apply BatchProofs.key_eqb_false. exact E.
    + apply (Hbefore j k'); [lia|exact Hk'].
Qed.

(* p is at index i and no earlier position is the same position *)
Definition first_pos_at (ps : list position) (i : nat) (p : position) : Prop :=
  nth_error ps i = Some p /\
  forall j q, (j < i)%nat -> nth_error ps j = Some q -> triple q <> triple p.

Lemma first_pos_at_reading ps i p :
  first_pos_at ps i p <->
  nth_error ps i = Some p /\
  forall j q, (j < i)%nat -> nth_error ps j = Some q -> triple q <> triple p.
Proof. reflexivity. Qed.

Section Dedup.
  Variable logs : list transcript.
  Variable b : batch.
  Hypothesis Hwf : Forall wf_transcript logs.
  Hypothesis Henc : Forall EncodingSpec.encodable (flat_map t_positions logs).
  Hypothesis Hb : encode_games real_enc logs = Some b.
  Let ps := flat_map t_positions logs.

  Lemma keys_b : map key_of b = map real_enc ps.
  Proof. exact (encode_games_keys real_enc logs b Hwf Hb). Qed.

  Lemma enc_in p : In p ps -> EncodingSpec.encodable p.
  Proof. intros H. eapply Forall_forall; [exact Henc|exact H]. Qed.

  Lemma key_at i k : nth_error (map key_of b) i = Some k ->
    exists p, nth_error ps i = Some p /\ k = real_enc p /\ EncodingSpec.encodable p.
  Proof.
    rewrite keys_b, nth_error_map. destruct (nth_error ps i) as [p|] eqn:E; [|discriminate].
    simpl. intros H. injection H as <-. exists p. split; [reflexivity|]. split; [reflexivity|].
    apply enc_in. eapply nth_error_In; exact E.
  Qed.

  (* the first index of a key is the first index of the position it encodes *)
  Lemma first_key_first_pos k a : first_idx (map key_of b) k = Some a ->
    exists p, first_pos_at ps a p /\ k = real_enc p /\ EncodingSpec.encodable p.
  Proof.
    intros H. destruct (first_idx_spec _ _ _ H) as (Hn & Hbefore).
    destruct (key_at a k Hn) as (p & Hp & -> & Hep). exists p. split; [|split; [reflexivity|exact Hep]].
    split; [exact Hp|]. intros j q Hj Hq Ht.
    assert (Heq : EncodingSpec.encodable q) by (apply enc_in; eapply nth_error_In; exact Hq).
    apply (Hbefore j (real_enc q) Hj).
    - rewrite keys_b. apply map_nth_error. exact Hq.
    - apply real_enc_iff; assumption.
  Qed.

  Lemma first_pos_unique i i' p p' :
    first_pos_at ps i p -> first_pos_at ps i' p' -> triple p = triple p' -> i = i'.
  Proof.
    intros (Hp & Hb1) (Hp' & Hb2) Ht.
    destruct (Nat.lt_trichotomy i i') as [Hlt|[Heq|Hgt]]; [|exact Heq|]; exfalso.
    - exact (Hb2 i p Hlt Hp Ht).
    - exact (Hb1 i' p' Hgt Hp' (eq_sym Ht)).
  Qed.

  Theorem dedup_distinct_positions :
    (* the de-duplication key of row i is the encoding of position i *)
    map key_of b = map real_enc ps /\
    (* two rows have the same key iff they carry the same position *)
    (forall i j p q ri rj, nth_error ps i = Some p -> nth_error ps j = Some q ->
       nth_error b i = Some ri -> nth_error b j = Some rj ->
       (key_of ri = key_of rj <-> triple p = triple q)) /\
    (* every output row is (decodes to) a position of the batch, at its FIRST occurrence *)
    (forall k o, nth_error (dedup b) k = Some o ->
       exists i p, first_pos_at ps i p /\ key_of o = real_enc p /\
                   Encoding.decode (key_of o) = Some (triple p)) /\
    (* every position of the batch has an output row ... *)
    (forall p, In p ps -> exists k o, nth_error (dedup b) k = Some o /\
                                      Encoding.decode (key_of o) = Some (triple p)) /\
    (* ... exactly one *)
    (forall k k' o o', nth_error (dedup b) k = Some o -> nth_error (dedup b) k' = Some o' ->
       Encoding.decode (key_of o) = Encoding.decode (key_of o') -> k = k') /\
    (* in order of first occurrence *)
    (forall k k' o o' i i' p p', (k < k')%nat ->
       nth_error (dedup b) k = Some o -> nth_error (dedup b) k' = Some o' ->
       first_pos_at ps i p -> Encoding.decode (key_of o) = Some (triple p) ->
       first_pos_at ps i' p' -> Encoding.decode (key_of o') = Some (triple p') -> (i < i')%nat).
  Proof.
    destruct (BatchProofs.dedup_keys b) as (Hfo & Hnd & Hin).
    (* every output row: its key, the first position carrying it *)
    assert (Hout : forall k o, nth_error (dedup b) k = Some o ->
              exists i p, first_pos_at ps i p /\ key_of o = real_enc p /\ EncodingSpec.encodable p /\
                          first_idx (map key_of b) (key_of o) = Some i).
    { intros k o Ho.
      assert (Hk : In (key_of o) (map key_of b)).
      { apply Hin. apply in_map. eapply nth_error_In; exact Ho. }
      destruct (BatchProofs.first_idx_Some _ _ Hk) as (a & Ha).
      destruct (first_key_first_pos _ _ Ha) as (p & Hfp & Ek & Hep). exists a, p. tauto. }
    split; [exact keys_b|]. split; [|split; [|split; [|split]]].
    - intros i j p q ri rj Hp Hq Hri Hrj.
      assert (Ei : key_of ri = real_enc p).
      { pose proof (map_nth_error key_of _ _ Hri) as E. rewrite keys_b, (map_nth_error real_enc _ _ Hp) in E. congruence. }
      assert (Ej : key_of rj = real_enc q).
      { pose proof (map_nth_error key_of _ _ Hrj) as E. rewrite keys_b, (map_nth_error real_enc _ _ Hq) in E. congruence. }
      rewrite Ei, Ej. apply real_enc_iff; apply enc_in; eapply nth_error_In; eassumption.
    - intros k o Ho. destruct (Hout k o Ho) as (i & p & Hfp & Ek & Hep & _). exists i, p.
      split; [exact Hfp|]. split; [exact Ek|]. rewrite Ek. apply real_enc_decode. exact Hep.
    - intros p Hp. assert (Hk : In (real_enc p) (map key_of (dedup b))).
      { apply Hin. rewrite keys_b. apply in_map. exact Hp. }
      apply in_map_iff in Hk. destruct Hk as (o & Eo & Ho). apply In_nth_error in Ho. destruct Ho as (k & Ho).
      exists k, o. split; [exact Ho|]. rewrite Eo. apply real_enc_decode. apply enc_in. exact Hp.
    - intros k k' o o' Ho Ho' Hd.
      destruct (Hout k o Ho) as (i & p & _ & Ek & Hep & _). destruct (Hout k' o' Ho') as (i' & p' & _ & Ek' & Hep' & _).
      rewrite Ek, Ek', (real_enc_decode p Hep), (real_enc_decode p' Hep') in Hd. injection Hd as Hd.
      assert (Hkk : key_of o = key_of o').
      { rewrite Ek, Ek'. apply real_enc_iff; try assumption.
        unfold Encoding.triple, Encoding.reserves. congruence. }
      eapply (ListUtil.NoDup_nth_error_inj (map key_of (dedup b))); [exact Hnd| |].
      + apply map_nth_error. exact Ho.
      + rewrite Hkk. apply map_nth_error. exact Ho'.
    - intros k k' o o' i i' p p' Hlt Ho Ho' Hfp Hd Hfp' Hd'.
      destruct (BatchProofs.dedup_keys_order b k k' o o' Hlt Ho Ho') as (a & c & Ha & Hc & Hac).
      destruct (first_key_first_pos _ _ Ha) as (p0 & Hfp0 & Ek0 & Hep0).
      destruct (first_key_first_pos _ _ Hc) as (p1 & Hfp1 & Ek1 & Hep1).
      rewrite Ek0, (real_enc_decode p0 Hep0) in Hd. rewrite Ek1, (real_enc_decode p1 Hep1) in Hd'.
      injection Hd as Hd. injection Hd' as Hd'.
      assert (T0 : triple p = triple p0) by (unfold Encoding.triple, Encoding.reserves; congruence).
      assert (T1 : triple p' = triple p1) by (unfold Encoding.triple, Encoding.reserves; congruence).
      rewrite (first_pos_unique i a p p0 Hfp Hfp0 T0), (first_pos_unique i' c p' p1 Hfp' Hfp1 T1). exact Hac.
  Qed.
End Dedup.

(* C11 + C04 + C06 supply the domain hypothesis for real self-play transcripts of sizes 3..6 *)
Corollary self_play_batches_encodable cfg (games : list (list answer * transcript * exit * position)) :
  3 <= sp_size cfg <= 6 ->
  Forall (fun g => let '(s, tr, e, f) := g in play_one_game cfg s = Done tr e f) games ->
  Forall wf_transcript (map (fun g => snd (fst (fst g))) games) /\
  Forall EncodingSpec.encodable (flat_map t_positions (map (fun g => snd (fst (fst g))) games)).
Proof.
  intros Hn Hall. induction Hall as [|[[[s tr] e] f] games Hg _ IH]; simpl; [split; constructor|].
  destruct IH as (IH1 & IH2). split.
  - constructor; [|exact IH1]. destruct (SelfPlayProofs.lists_aligned _ _ _ _ _ Hg) as (A & B & D & _).
    repeat split; assumption.
  - apply Forall_app. split; [|exact IH2].
    exact (ComposeSelfPlay.transcript_positions_encodable cfg s tr e f Hg Hn).
Qed.

(* ---------- the hypotheses are satisfiable: the two games of BatchProofs.ex_logs (positions
   start, start, start+a1: the start position occurs twice) with the REAL encoding ---------- *)
Example ex_dedup_positions :
  Forall wf_transcript BatchProofs.ex_logs /\
  Forall EncodingSpec.encodable (flat_map t_positions BatchProofs.ex_logs) /\
  exists b, encode_games real_enc BatchProofs.ex_logs = Some b /\ length b = 3%nat /\
    map (fun o => Encoding.decode (key_of o)) (dedup b) =
      [Some (triple BatchProofs.ex_p0); Some (triple BatchProofs.ex_p1)] /\
    triple BatchProofs.ex_p0 <> triple BatchProofs.ex_p1.
Proof.
  split; [repeat constructor|]. split.
  - repeat constructor; apply EncodingProofs.encodableb_encodable; vm_compute; reflexivity.
  - eexists. split; [vm_compute; reflexivity|]. split; [reflexivity|]. split; [vm_compute; reflexivity|].
    vm_compute. discriminate.
Qed.
