(* C19 - tie lemmas: the hand-written window / mode-switch definitions of model/Snapshot.v ARE the denotations of
   the statements regenerated into gen/TrainIR.v from trainer.py, and the regenerated call order has the
   properties the theorems and the known finding rest on.  Every lemma here is re-checked on every run. *)
From Coq Require Import String.
From Coq Require Import ZArith List Bool Arith Lia.
From TV Require Import gen.SaveIR gen.TrainIR model.Snapshot.
Import ListNotations.
Open Scope list_scope.
Open Scope Z_scope.

Lemma py_slice_from_1 : forall {A} (l : list A), py_slice (Some 1) None l = tl l.
Proof.
  intros A l. unfold py_slice, norm_idx.
  destruct l as [|x r]; [reflexivity|].
  remember (Z.of_nat (List.length (x :: r))) as n eqn:En.
  assert (Hn : n = Z.of_nat (List.length r) + 1) by (subst n; simpl List.length; lia).
  change (1 <? 0) with false. cbv iota.
  replace (Z.max 0 (Z.min n 1)) with 1 by lia.
  replace (Z.to_nat (n - 1)) with (List.length r) by lia.
  change (Z.to_nat 1) with 1%nat. simpl. apply firstn_all.
Qed.

(* the window statements of train_step: append, then `if len > cap: buf = buf[1:]` (comparison, bound and the
   end that is dropped are read off the regenerated statements) *)
Theorem window_tie : forall (A : Type) (cap : Z) (buf : list A) (b : A),
  wexec window_prog cap buf b = window_append cap buf b.
Proof.
  intros A cap buf b. unfold window_prog, window_append. cbn [wexec cmp_eval].
  destruct (Z.of_nat (List.length (buf ++ [b])) >? cap); [apply py_slice_from_1|reflexivity].
Qed.

(* serve_mode = capture train_params (k: v.cpu()), THEN convert to the serving dtype *)
Theorem serve_mode_tie : forall (T : Type) (cast : dtype -> T -> T) on_cpu serve train dflt (t : bool * @pstate T),
  mexec cast on_cpu serve train dflt serve_prog t = serve_tensor cast on_cpu serve dflt t.
Proof. intros T cast on_cpu serve train dflt [sd [C L M]]. destruct sd, on_cpu; reflexivity. Qed.

(* train_mode = convert to the training dtype, THEN load_state_dict(train_params) (in this order) *)
Theorem train_mode_tie : forall (T : Type) (cast : dtype -> T -> T) on_cpu serve train dflt (t : bool * @pstate T),
  mexec cast on_cpu serve train dflt train_prog t = train_tensor cast train dflt t.
Proof. intros T cast on_cpu serve train dflt [sd p]. reflexivity. Qed.

(* inside train_step: window, train_mode, step counter, optimisation, serve_mode - in this order *)
Theorem train_step_order_tie :
  train_step_events = [EWindow; ETrainMode; EStepInc; EOptimise; EServeMode].
Proof. reflexivity. Qed.

(* run_async constructs the optimiser over the model's parameters BEFORE load_or_init_model, and switches to
   serving precision before the training loop starts *)
Theorem run_async_order_tie :
  run_async_events = [EBuildModel; EBuildOpt; ELoadOrInit; EServeMode; ETrainLoop].
Proof. reflexivity. Qed.

(* train_loop: train_step, then the after_step and finalize hooks, every iteration; after_run once at the end *)
Theorem train_loop_order_tie :
  loop_pre = [EHook "before_run"] /\
  loop_body = [EHook "before_rollout"; EHook "before_train"; ETrainStep; EHook "after_step"; EHook "finalize"] /\
  loop_post = [EHook "after_run"].
Proof. repeat split; reflexivity. Qed.

(* WHY the known finding `serve-precision-snapshot` happens: in the regenerated order every hook that can save
   (after_step: periodic / SAVE_NOW; after_run: end of run) observes the model AFTER serve_mode - what
   state.model.state_dict() yields there is the serving-precision tensor.  If the order is repaired in /repo
   (hooks between train_mode and serve_mode, or a save of train_params) this lemma stops checking. *)
Theorem hooks_run_in_serving_precision :
  In ("after_step", Serving) hook_observations /\ In ("after_run", Serving) hook_observations /\
  forall h m, In (h, m) hook_observations -> (h = "after_step" \/ h = "after_run") -> m = Serving.
Proof.
  split; [vm_compute; tauto|split; [vm_compute; tauto|]].
  intros h m Hin Hh. vm_compute in Hin.
  repeat (destruct Hin as [Hin|Hin]; [inversion Hin; subst; try reflexivity;
                                       destruct Hh as [Hh|Hh]; discriminate|]).
  contradiction.
Qed.

(* load_or_init_model: run_dir/latest, when it exists, takes precedence over config.load_model (which is stored
   in run.yaml and therefore set on every later start of such a run); load_model next; init_weights last *)
Theorem resume_precedence_tie :
  (forall lm, choose_branch true lm true = Some ALoadState) /\
  (forall rd ex, rd && ex = false -> choose_branch rd true ex = Some ALoadInitial) /\
  (forall rd ex, rd && ex = false -> choose_branch rd false ex = Some AInitWeights).
Proof.
  split; [intros [|]; reflexivity|split]; intros [|] [|] H; try discriminate; reflexivity.
Qed.
