(* C19 - proofs about model/Snapshot.v instantiated with gen/SaveIR.v. *)
From Coq Require Import String.
From Coq Require Import ZArith List Bool Arith Lia.
From TV Require Import gen.SaveIR model.Snapshot.
Import ListNotations.
Open Scope list_scope.
Open Scope Z_scope.

(* ------------------------------------------------------------------------ *)
(* names, paths                                                               *)
(* ------------------------------------------------------------------------ *)
Lemma name_eqb_eq : forall a b, name_eqb a b = true <-> a = b.
Proof.
  intros a b; destruct a, b; simpl; split; intro H; try discriminate; try reflexivity;
    try (apply Z.eqb_eq in H; subst; reflexivity); try (inversion H; subst; apply Z.eqb_refl).
Qed.
Lemma name_eqb_refl : forall a, name_eqb a a = true.
Proof. intro a; apply name_eqb_eq; reflexivity. Qed.
Lemma name_eqb_neq : forall a b, name_eqb a b = false <-> a <> b.
Proof.
  intros a b; split; intro H.
  - intro E; apply name_eqb_eq in E; congruence.
  - destruct (name_eqb a b) eqn:E; [apply name_eqb_eq in E; contradiction | reflexivity].
Qed.
Lemma name_eqb_sym : forall a b, name_eqb a b = name_eqb b a.
Proof.
  intros a b; destruct (name_eqb a b) eqn:E.
  - apply name_eqb_eq in E; subst; symmetry; apply name_eqb_refl.
  - symmetry; apply name_eqb_neq; apply name_eqb_neq in E; congruence.
Qed.
Lemma path_eqb_eq : forall a b, path_eqb a b = true <-> a = b.
Proof.
  intros a b; destruct a, b; simpl; split; intro H; try discriminate.
  - apply name_eqb_eq in H; subst; reflexivity.
  - inversion H; subst; apply name_eqb_refl.
  - apply andb_true_iff in H; destruct H as [H1 H2]; apply name_eqb_eq in H1; apply String.eqb_eq in H2; subst; reflexivity.
  - inversion H; subst; rewrite name_eqb_refl, String.eqb_refl; reflexivity.
Qed.
Lemma path_eqb_refl : forall a, path_eqb a a = true.
Proof. intro a; apply path_eqb_eq; reflexivity. Qed.
Lemma path_eqb_neq : forall a b, path_eqb a b = false <-> a <> b.
Proof.
  intros a b; split; intro H.
  - intro E; apply path_eqb_eq in E; congruence.
  - destruct (path_eqb a b) eqn:E; [apply path_eqb_eq in E; contradiction | reflexivity].
Qed.

Section FSProofs.
  Context {B : Type}.
  Notation fs := (fs B).
  Notation op := (op B).
  Notation node := (node B).

  (* ---------------------------------------------------------------------- *)
  (* lookup after each primitive change                                       *)
  (* ---------------------------------------------------------------------- *)
  Lemma lookup_remove : forall (p q : path) (s : fs),
    lookup p (remove q s) = if path_eqb q p then None else lookup p s.
  Proof.
    intros p q s; induction s as [|[r v] s IH]; simpl.
    - destruct (path_eqb q p); reflexivity.
    - destruct (path_eqb r q) eqn:Erq; simpl.
      + apply path_eqb_eq in Erq; subst r. rewrite IH. destruct (path_eqb q p); reflexivity.
      + destruct (path_eqb r p) eqn:Erp.
        * apply path_eqb_eq in Erp; subst r.
          destruct (path_eqb q p) eqn:Eqp; [apply path_eqb_eq in Eqp; subst q; rewrite path_eqb_refl in Erq; discriminate | reflexivity].
        * exact IH.
  Qed.
  Lemma lookup_set : forall (p q : path) (v : node) (s : fs),
    lookup p (set q v s) = if path_eqb q p then Some v else lookup p s.
  Proof.
    intros p q v s; unfold set; simpl. destruct (path_eqb q p) eqn:E; [reflexivity|].
    rewrite lookup_remove, E; reflexivity.
  Qed.
  Lemma lookup_remove_tree : forall (p : path) (d : name) (s : fs),
    lookup p (remove_tree d s) = if name_eqb (top p) d then None else lookup p s.
  Proof.
    intros p d s; induction s as [|[r v] s IH]; simpl.
    - destruct (name_eqb (top p) d); reflexivity.
    - destruct (name_eqb (top r) d) eqn:Erd; simpl.
      + rewrite IH. destruct (name_eqb (top p) d) eqn:Epd; [reflexivity|].
        destruct (path_eqb r p) eqn:Erp; [apply path_eqb_eq in Erp; subst r; congruence | reflexivity].
      + destruct (path_eqb r p) eqn:Erp.
        * apply path_eqb_eq in Erp; subst r. rewrite Erd; reflexivity.
        * exact IH.
  Qed.

  Lemma top_rekey_ne : forall a b p, name_eqb (top p) a = false -> rekey a b p = p.
  Proof. intros a b [d|d f] H; simpl in *; rewrite H; reflexivity. Qed.
  Lemma rekey_eq : forall a b p, name_eqb (top p) a = true -> top (rekey a b p) = b.
  Proof. intros a b [d|d f] H; simpl in *; rewrite H; reflexivity. Qed.

  (* a <> b, nothing below b after remove_tree: keys of a move to b *)
  Lemma lookup_rename_tree : forall (p : path) (a b : name) (s : fs), a <> b ->
    lookup p (rename_tree a b s) =
      if name_eqb (top p) b then lookup (rekey b a p) s
      else if name_eqb (top p) a then None else lookup p s.
  Proof.
    intros p a b s Hab; unfold rename_tree.
    induction s as [|[r v] s IH]; simpl.
    - destruct (name_eqb (top p) b); [reflexivity|destruct (name_eqb (top p) a); reflexivity].
    - destruct (name_eqb (top r) b) eqn:Erb; simpl.
      + (* entry below b is dropped *)
        rewrite IH. destruct (name_eqb (top p) b) eqn:Epb.
        * destruct (path_eqb r (rekey b a p)) eqn:E; [|reflexivity].
          apply path_eqb_eq in E; subst r. rewrite rekey_eq in Erb by exact Epb.
          apply name_eqb_eq in Erb; contradiction.
        * destruct (name_eqb (top p) a) eqn:Epa; [reflexivity|].
          destruct (path_eqb r p) eqn:E; [apply path_eqb_eq in E; subst r; congruence|reflexivity].
      + destruct (name_eqb (top r) a) eqn:Era.
        * (* entry below a is re-keyed to b *)
          destruct (path_eqb (rekey a b r) p) eqn:E.
          -- apply path_eqb_eq in E; subst p. rewrite (rekey_eq a b r Era), name_eqb_refl.
             assert (R : rekey b a (rekey a b r) = r).
             { destruct r as [d|d f]; simpl in *; rewrite Era; simpl; rewrite name_eqb_refl;
                 apply name_eqb_eq in Era; subst; reflexivity. }
             rewrite R, path_eqb_refl; reflexivity.
          -- rewrite IH. destruct (name_eqb (top p) b) eqn:Epb.
             ++ destruct (path_eqb r (rekey b a p)) eqn:E2; [|reflexivity].
                apply path_eqb_eq in E2; subst r.
                assert (R : rekey a b (rekey b a p) = p).
                { destruct p as [d|d f]; simpl in *; rewrite Epb; simpl; rewrite name_eqb_refl;
                    apply name_eqb_eq in Epb; subst; reflexivity. }
                rewrite R, path_eqb_refl in E; discriminate.
             ++ destruct (name_eqb (top p) a) eqn:Epa; [reflexivity|].
                destruct (path_eqb r p) eqn:E2; [apply path_eqb_eq in E2; subst r; congruence|reflexivity].
        * rewrite (top_rekey_ne a b r Era).
          destruct (path_eqb r p) eqn:E.
          -- apply path_eqb_eq in E; subst r. rewrite Erb, Era; reflexivity.
          -- rewrite IH. destruct (name_eqb (top p) b) eqn:Epb; [|reflexivity].
             destruct (path_eqb r (rekey b a p)) eqn:E2; [|reflexivity].
             apply path_eqb_eq in E2; subst r. rewrite (rekey_eq b a p Epb), name_eqb_refl in Era; discriminate.
  Qed.

  Lemma has_children_false : forall (d : name) (s : fs),
    (forall f, lookup (Sub d f) s = None) -> has_children d s = false.
  Proof.
    intros d s; induction s as [|[r v] s IH]; simpl; intro H; [reflexivity|].
    destruct r as [d'|d' f]; simpl.
    - apply IH; intro f; specialize (H f); simpl in H; exact H.
    - destruct (name_eqb d' d) eqn:E.
      + apply name_eqb_eq in E; subst d'. specialize (H f); simpl in H.
        rewrite name_eqb_refl, String.eqb_refl in H; discriminate.
      + simpl; apply IH; intro g; specialize (H g); simpl in H.
        rewrite E in H; simpl in H; exact H.
  Qed.

  (* ---------------------------------------------------------------------- *)
  (* exec                                                                     *)
  (* ---------------------------------------------------------------------- *)
  Lemma exec_app : forall (a b : list op) (s : fs),
    exec (a ++ b) s = if exec_ok a s then exec b (exec a s) else exec a s.
  Proof.
    induction a as [|o a IH]; intros b s; simpl; [reflexivity|].
    destruct (step_op o s) as [s'|]; [apply IH|reflexivity].
  Qed.
  Lemma exec_ok_app : forall (a b : list op) (s : fs),
    exec_ok (a ++ b) s = exec_ok a s && exec_ok b (exec a s).
  Proof.
    induction a as [|o a IH]; intros b s; simpl; [reflexivity|].
    destruct (step_op o s) as [s'|]; [apply IH|reflexivity].
  Qed.
  Lemma firstn_app_le : forall {A} (k : nat) (a b : list A), (k <= length a)%nat -> firstn k (a ++ b) = firstn k a.
  Proof.
    intros A k a b H. rewrite firstn_app. replace (k - length a)%nat with O by lia. simpl. apply app_nil_r.
  Qed.
  Lemma firstn_app_ge : forall {A} (k : nat) (a b : list A), (length a <= k)%nat ->
    firstn k (a ++ b) = a ++ firstn (k - length a) b.
  Proof. intros A k a b H. rewrite firstn_app, firstn_all2 by exact H. reflexivity. Qed.

  (* ---------------------------------------------------------------------- *)
  (* the shape of the generated save program                                  *)
  (* ---------------------------------------------------------------------- *)
  Definition simple (st : stmt) : Prop :=
    match st with SIfNotIsDir _ _ | SIfNotPublished _ _ _ => False | _ => True end.

  Lemma expand_stmt_simple : forall n (d : comp -> B) st (s : fs), simple st ->
    expand_stmt n d st s = expand_stmt n d st [].
  Proof. intros n d st s H; destruct st; simpl in *; try contradiction; reflexivity. Qed.
  Lemma expand_simple : forall n (d : comp -> B) l (s : fs), Forall simple l ->
    expand n d l s = flat_map (fun st => expand_stmt n d st []) l.
  Proof.
    intros n d l; induction l as [|x r IH]; intros s H; simpl; [reflexivity|].
    inversion H; subst. rewrite (expand_stmt_simple n d x s) by assumption. f_equal. apply IH; assumption.
  Qed.
  Lemma expand_stmt_ifpub : forall n (d : comp -> B) l p body (s : fs),
    expand_stmt n d (SIfNotPublished l p body) s =
      if published (pname n l) (pname n p) s && is_dir (pname n p) s then [] else expand n d body s.
  Proof.
    intros n d l p body s; simpl.
    destruct (published (pname n l) (pname n p) s && is_dir (pname n p) s); [reflexivity|].
    revert s; induction body as [|x r IH]; intro s; [reflexivity|].
    simpl. f_equal. apply IH.
  Qed.
  Lemma expand_stmt_ifdir : forall n (d : comp -> B) p body (s : fs),
    expand_stmt n d (SIfNotIsDir p body) s = if is_dir (pname n p) s then [] else expand n d body s.
  Proof.
    intros n d p body s; simpl.
    destruct (is_dir (pname n p) s); [reflexivity|].
    revert s; induction body as [|x r IH]; intro s; [reflexivity|].
    simpl. f_equal. apply IH.
  Qed.

  Definition writes_of (l : list stmt) : list (string * comp) :=
    flat_map (fun st => match st with SWrite PTmp f c => [(f, c)] | _ => [] end) l.
  Definition mkdirs_of (l : list stmt) : nat :=
    List.length (filter (fun st => match st with SMkDirs PTmp => true | _ => false end) l).
  Definition body_of (prog : list stmt) : list stmt :=
    match prog with SIfNotPublished PLatest PFinal body :: _ => body | _ => [] end.
  (* the shape the theorems are proved for: any number >= 1 of makedirs, any list of writes *)
  Definition canon_prog (m : nat) (ws : list (string * comp)) : list stmt :=
    [ SIfNotPublished PLatest PFinal
        (SRmTree PTmp :: repeat (SMkDirs PTmp) m ++ map (fun w => SWrite PTmp (fst w) (snd w)) ws
           ++ [SRmTree PFinal; SRename PTmp PFinal]);
      SUnlinkQuiet PLatestTmp; SSymlinkBase PFinal PLatestTmp; SReplace PLatestTmp PLatest ].

  Definition wops (n : Z) (d : comp -> B) (ws : list (string * comp)) : list op :=
    flat_map (fun w => [OTruncate (StepTmp n) (fst w); OComplete (StepTmp n) (fst w) (d (snd w))]) ws.
  Definition P1 (m : nat) (ws : list (string * comp)) (n : Z) (d : comp -> B) : list op :=
    RmTree (StepTmp n) :: repeat (MkDirs (StepTmp n)) m ++ wops n d ws ++ [RmTree (Step n); Rename (StepTmp n) (Step n)].
  Definition P2 (n : Z) : list op :=
    [UnlinkQuiet LatestTmp; Symlink (Step n) LatestTmp; Replace LatestTmp Latest].
  Definition skip (n : Z) (s : fs) : bool := published Latest (Step n) s && is_dir (Step n) s.

  Lemma flat_map_app' : forall {X Y} (f : X -> list Y) a b, flat_map f (a ++ b) = flat_map f a ++ flat_map f b.
  Proof. intros X Y f a b; induction a; simpl; [reflexivity|]. rewrite IHa, app_assoc; reflexivity. Qed.
  Lemma flat_map_repeat1 : forall {X Y} (f : X -> list Y) x y m, f x = [y] -> flat_map f (repeat x m) = repeat y m.
  Proof. intros X Y f x y m H; induction m; simpl; [reflexivity|]. rewrite H, IHm; reflexivity. Qed.
  Lemma flat_map_map : forall {X Y Z'} (f : Y -> list Z') (g : X -> Y) l, flat_map f (map g l) = flat_map (fun x => f (g x)) l.
  Proof. intros X Y Z' f g l; induction l; simpl; [reflexivity|]. rewrite IHl; reflexivity. Qed.

  Lemma canon_save_ops : forall m ws (s : fs) (sv : save B),
    save_ops_with (canon_prog m ws) s sv =
      (if skip (sv_step sv) s then [] else P1 m ws (sv_step sv) (sv_data sv)) ++ P2 (sv_step sv).
  Proof.
    intros m ws s sv. unfold save_ops_with, canon_prog.
    cbn [expand]. rewrite expand_stmt_ifpub. cbn [pname].
    set (o1 := if published Latest (Step (sv_step sv)) s && is_dir (Step (sv_step sv)) s then [] else _).
    assert (Ho1 : o1 = if skip (sv_step sv) s then [] else P1 m ws (sv_step sv) (sv_data sv)).
    { unfold o1, skip. destruct (published Latest (Step (sv_step sv)) s && is_dir (Step (sv_step sv)) s); [reflexivity|].
      rewrite expand_simple.
      - cbn [flat_map]. rewrite flat_map_app', flat_map_app'.
        rewrite (flat_map_repeat1 _ (SMkDirs PTmp) (MkDirs (StepTmp (sv_step sv)))) by reflexivity.
        rewrite flat_map_map. unfold P1, wops. simpl. reflexivity.
      - constructor; [exact I|]. apply Forall_app; split; [apply Forall_forall; intros x Hx; apply repeat_spec in Hx; subst; exact I|].
        apply Forall_app; split; [apply Forall_forall; intros x Hx; apply in_map_iff in Hx; destruct Hx as [w [Hw _]]; subst; exact I|].
        repeat constructor. }
    rewrite Ho1. simpl. reflexivity.
  Qed.

  (* ---------------------------------------------------------------------- *)
  (* frame: an operation changes nothing outside the names it mentions        *)
  (* ---------------------------------------------------------------------- *)
  Definition names_of (o : op) : list name :=
    match o with
    | MkDirs d | RmTree d | OTruncate d _ | OComplete d _ _ | Unlink d | UnlinkQuiet d => [d]
    | Symlink _ l => [l]
    | Rename a b | Replace a b => [a; b]
    end.
  Definition not_link (o : option node) : Prop := forall t, o <> Some (Link t).
  Definition writes_direct (o : op) (s : fs) : Prop :=
    match o with
    | OTruncate d _ | OComplete d _ _ => not_link (lookup (Top d) s)
    | _ => True
    end.

  Lemma resolve_direct : forall fuel d (s : fs) v, lookup (Top d) s = Some v -> (forall t, v <> Link t) ->
    resolve fuel d s = Some (d, v).
  Proof. intros fuel d s v H Hn; destruct fuel; simpl; rewrite H; destruct v; try reflexivity; exfalso; eapply Hn; reflexivity. Qed.
  Lemma resolve_none : forall fuel d (s : fs), lookup (Top d) s = None -> resolve fuel d s = None.
  Proof. intros fuel d s H; destruct fuel; simpl; rewrite H; reflexivity. Qed.

  Lemma write_target_direct : forall d f (s : fs) p, not_link (lookup (Top d) s) ->
    write_target d f s = Some p -> p = Sub d f /\ lookup (Top d) s = Some Dir.
  Proof.
    intros d f s p Hn H. unfold write_target in H.
    destruct (lookup (Top d) s) as [v|] eqn:E.
    - destruct v as [|c|t]; [| |exfalso; eapply Hn; reflexivity].
      + rewrite (resolve_direct _ d s Dir E) in H by (intros t; discriminate).
        destruct (lookup (Sub d f) s) as [[|c|t]|]; inversion H; auto.
      + rewrite (resolve_direct _ d s (File c) E) in H by (intros t; discriminate). discriminate.
    - rewrite resolve_none in H by exact E. discriminate.
  Qed.

  Lemma do_rename_frame : forall a b (s s' : fs), do_rename a b s = Some s' ->
    forall p, top p <> a -> top p <> b -> lookup p s' = lookup p s.
  Proof.
    intros a b s s' H p Ha Hb. unfold do_rename in H.
    destruct (name_eqb a b) eqn:Eab.
    - destruct (lookup (Top a) s); inversion H; reflexivity.
    - apply name_eqb_neq in Eab.
      assert (R : lookup p (rename_tree a b s) = lookup p s).
      { rewrite lookup_rename_tree by exact Eab.
        apply name_eqb_neq in Ha, Hb. rewrite Ha, Hb. reflexivity. }
      destruct (lookup (Top a) s) as [src|]; [|discriminate].
      destruct (lookup (Top b) s) as [[|c|t]|]; destruct src as [|c'|t'];
        try discriminate; try (inversion H; subst; exact R).
      destruct (has_children b s); [discriminate|inversion H; subst; exact R].
  Qed.

  Lemma step_frame : forall (o : op) (s s' : fs), step_op o s = Some s' -> writes_direct o s ->
    forall p, ~ In (top p) (names_of o) -> lookup p s' = lookup p s.
  Proof.
    intros o s s' H Hw p Hp.
    destruct o as [d|d|d f|d f b|a b|d|d|t l|a b]; simpl in H, Hp, Hw.
    - (* MkDirs *)
      assert (Hd : top p <> d) by (intro X; apply Hp; left; congruence).
      destruct (lookup (Top d) s) as [[|c|t]|] eqn:E.
      + inversion H; reflexivity.
      + discriminate.
      + destruct (is_dir d s); inversion H; reflexivity.
      + inversion H; subst. rewrite lookup_set.
        destruct (path_eqb (Top d) p) eqn:E2; [apply path_eqb_eq in E2; subst p; simpl in Hd; congruence|reflexivity].
    - (* RmTree *)
      assert (Hd : top p <> d) by (intro X; apply Hp; left; congruence).
      destruct (lookup (Top d) s) as [[|c|t]|] eqn:E; inversion H; subst; try reflexivity;
        rewrite lookup_remove_tree; apply name_eqb_neq in Hd; rewrite Hd; reflexivity.
    - (* OTruncate *)
      assert (Hd : top p <> d) by (intro X; apply Hp; left; congruence).
      destruct (write_target d f s) as [q|] eqn:E; [|discriminate].
      apply write_target_direct in E; [|exact Hw]. destruct E as [E _]; subst q.
      inversion H; subst. rewrite lookup_set.
      destruct (path_eqb (Sub d f) p) eqn:E2; [apply path_eqb_eq in E2; subst p; simpl in Hd; congruence|reflexivity].
    - (* OComplete *)
      assert (Hd : top p <> d) by (intro X; apply Hp; left; congruence).
      destruct (write_target d f s) as [q|] eqn:E; [|discriminate].
      apply write_target_direct in E; [|exact Hw]. destruct E as [E _]; subst q.
      inversion H; subst. rewrite lookup_set.
      destruct (path_eqb (Sub d f) p) eqn:E2; [apply path_eqb_eq in E2; subst p; simpl in Hd; congruence|reflexivity].
    - (* Rename *) apply (do_rename_frame a b s s' H); intro X; apply Hp; [left|right; left]; congruence.
    - (* Unlink *)
      assert (Hd : top p <> d) by (intro X; apply Hp; left; congruence).
      destruct (lookup (Top d) s) as [[|c|t]|] eqn:E; inversion H; subst;
        rewrite lookup_remove; (destruct (path_eqb (Top d) p) eqn:E2; [apply path_eqb_eq in E2; subst p; simpl in Hd; congruence|reflexivity]).
    - (* UnlinkQuiet *)
      assert (Hd : top p <> d) by (intro X; apply Hp; left; congruence).
      destruct (lookup (Top d) s) as [[|c|t]|] eqn:E; inversion H; subst; try reflexivity;
        rewrite lookup_remove; (destruct (path_eqb (Top d) p) eqn:E2; [apply path_eqb_eq in E2; subst p; simpl in Hd; congruence|reflexivity]).
    - (* Symlink *)
      assert (Hd : top p <> l) by (intro X; apply Hp; left; congruence).
      destruct (lookup (Top l) s) eqn:E; inversion H; subst. rewrite lookup_set.
      destruct (path_eqb (Top l) p) eqn:E2; [apply path_eqb_eq in E2; subst p; simpl in Hd; congruence|reflexivity].
    - (* Replace *) apply (do_rename_frame a b s s' H); intro X; apply Hp; [left|right; left]; congruence.
  Qed.
End FSProofs.

(* ------------------------------------------------------------------------ *)
(* the invariant of the run directory and one save                            *)
(* ------------------------------------------------------------------------ *)
Section CrashProofs.
  Context {B : Type}.
  Variable step_of : B -> option Z.
  Notation fs := (fs B).
  Notation op := (op B).
  Notation node := (node B).
  Notation resume := (resume step_of).
  Notation resume_from := (resume_from step_of).

  Fixpoint run (ops : list op) (s : fs) : option fs :=
    match ops with
    | [] => Some s
    | o :: r => match step_op o s with Some s' => run r s' | None => None end
    end.
  Lemma run_app : forall a b (s : fs), run (a ++ b) s = match run a s with Some s' => run b s' | None => None end.
  Proof. induction a as [|o a IH]; intros b s; simpl; [reflexivity|]. destruct (step_op o s); [apply IH|reflexivity]. Qed.
  Lemma run_exec : forall ops (s s' : fs), run ops s = Some s' -> exec ops s = s' /\ exec_ok ops s = true.
  Proof.
    induction ops as [|o r IH]; intros s s' H; simpl in *.
    - inversion H; auto.
    - destruct (step_op o s) as [s1|]; [apply IH; exact H|discriminate].
  Qed.

  Definition dir_or_none (o : option node) : Prop := o = None \/ o = Some Dir.
  Definition link_or_none (o : option node) : Prop := o = None \/ exists t, o = Some (Link t).
  Definition file_or_none (o : option node) : Prop := o = None \/ exists c, o = Some (File c).

  Record Inv (s : fs) : Prop := mkInv {
    inv_step : forall n, dir_or_none (lookup (Top (Step n)) s);
    inv_tmp : forall n, dir_or_none (lookup (Top (StepTmp n)) s);
    inv_ltmp : link_or_none (lookup (Top LatestTmp) s);
    inv_tsub : forall n f, file_or_none (lookup (Sub (StepTmp n) f) s);
    (* latest, if present, designates a complete published snapshot *)
    inv_latest : lookup (Top Latest) s = None \/
                 exists n, lookup (Top Latest) s = Some (Link (Step n)) /\ lookup (Top (Step n)) s = Some Dir /\
                           resume_from (Step n) s = Resumed n }.

  Lemma forallb_ext' : forall {A} (f g : A -> bool) l, (forall x, f x = g x) -> forallb f l = forallb g l.
  Proof. intros A f g l H; induction l; simpl; [reflexivity|]. rewrite H, IHl; reflexivity. Qed.

  Lemma read_file_ext : forall d f (s s' : fs), lookup (Sub d f) s = lookup (Sub d f) s' -> read_file d f s = read_file d f s'.
  Proof. intros d f s s' H; unfold read_file; rewrite H; reflexivity. Qed.
  Lemma resume_from_ext : forall d (s s' : fs), (forall f, lookup (Sub d f) s = lookup (Sub d f) s') ->
    resume_from d s = resume_from d s'.
  Proof.
    intros d s s' H. unfold Snapshot.resume_from.
    rewrite (forallb_ext' _ (fun r => is_some (read_file d (fst r) s'))) by (intro x; rewrite (read_file_ext d (fst x) s s' (H _)); reflexivity).
    destruct (elapsed_file) as [f|]; [|reflexivity].
    rewrite (read_file_ext d f s s' (H f)). reflexivity.
  Qed.
  Lemma read_all_ext : forall d rs (s s' : fs), (forall f, lookup (Sub d f) s = lookup (Sub d f) s') ->
    read_all d rs s = read_all d rs s'.
  Proof.
    intros d rs s s' H; induction rs as [|[f c] r IH]; simpl; [reflexivity|].
    rewrite (read_file_ext d f s s' (H f)), IH. reflexivity.
  Qed.

  Lemma resume_no_latest : forall s : fs, lookup (Top Latest) s = None -> resume s = Scratch.
  Proof. intros s H. unfold Snapshot.resume, resume_probe. cbn [pname]. rewrite resolve_none by exact H. reflexivity. Qed.
  Lemma resolve_S : forall f d (s : fs), resolve (S f) d s =
    match lookup (Top d) s with None => None | Some (Link t) => resolve f t s | Some v => Some (d, v) end.
  Proof. reflexivity. Qed.
  Lemma resolve_latest : forall (s : fs) n, lookup (Top Latest) s = Some (Link (Step n)) -> lookup (Top (Step n)) s = Some Dir ->
    resolve link_fuel Latest s = Some (Step n, Dir).
  Proof.
    intros s n H1 H2. unfold link_fuel. rewrite resolve_S, H1.
    apply resolve_direct; [exact H2|intros t; discriminate].
  Qed.
  Lemma resume_latest : forall (s : fs) n, lookup (Top Latest) s = Some (Link (Step n)) -> lookup (Top (Step n)) s = Some Dir ->
    resume s = resume_from (Step n) s.
  Proof. intros s n H1 H2. unfold Snapshot.resume, resume_probe. cbn [pname]. rewrite (resolve_latest s n H1 H2). reflexivity. Qed.
  Lemma loaded_latest : forall (s : fs) n, lookup (Top Latest) s = Some (Link (Step n)) -> lookup (Top (Step n)) s = Some Dir ->
    loaded s = read_all (Step n) load_reads s.
  Proof. intros s n H1 H2. unfold loaded, resume_probe. cbn [pname]. rewrite (resolve_latest s n H1 H2). reflexivity. Qed.

  Lemma is_dir_direct : forall d (s : fs), lookup (Top d) s = Some Dir -> is_dir d s = true.
  Proof. intros d s H. unfold is_dir. rewrite (resolve_direct _ d s Dir H) by (intros t; discriminate). reflexivity. Qed.
  Lemma is_dir_none : forall d (s : fs), lookup (Top d) s = None -> is_dir d s = false.
  Proof. intros d s H. unfold is_dir. rewrite resolve_none by exact H. reflexivity. Qed.

  Lemma inv_resume_cases : forall s : fs, Inv s -> resume s = Scratch \/ exists n, resume s = Resumed n.
  Proof.
    intros s I. destruct (inv_latest s I) as [H|[n [H1 [H2 H3]]]].
    - left; apply resume_no_latest; exact H.
    - right; exists n. rewrite (resume_latest s n H1 H2). exact H3.
  Qed.

  (* when the save is not skipped, latest does not designate the step being saved *)
  Lemma not_skip_latest : forall (s : fs) n, Inv s -> skip n s = false -> lookup (Top Latest) s <> Some (Link (Step n)).
  Proof.
    intros s n I Hs E. destruct (inv_latest s I) as [H|[n' [H1 [H2 H3]]]]; [congruence|].
    rewrite E in H1; inversion H1; subst n'.
    unfold skip, published in Hs. rewrite E, name_eqb_refl, (is_dir_direct _ s H2) in Hs. discriminate.
  Qed.
  Lemma skip_latest : forall (s : fs) n, skip n s = true ->
    lookup (Top Latest) s = Some (Link (Step n)).
  Proof.
    intros s n Hs. unfold skip, published in Hs. apply andb_true_iff in Hs; destruct Hs as [Hp _].
    destruct (lookup (Top Latest) s) as [[|c|t]|]; try discriminate.
    apply name_eqb_eq in Hp; subst; reflexivity.
  Qed.
  (* ---- phase 1: everything up to and including the rename touches only step_N.tmp and step_N ---- *)
  Definition Q (n : Z) (s : fs) : Prop :=
    dir_or_none (lookup (Top (StepTmp n)) s) /\ dir_or_none (lookup (Top (Step n)) s) /\
    forall f, file_or_none (lookup (Sub (StepTmp n) f) s).
  Definition p1op (n : Z) (o : op) : Prop :=
    o = RmTree (StepTmp n) \/ o = MkDirs (StepTmp n) \/ (exists f, o = OTruncate (StepTmp n) f) \/
    (exists f b, o = OComplete (StepTmp n) f b) \/ o = RmTree (Step n) \/ o = Rename (StepTmp n) (Step n).

  Lemma Inv_Q : forall s n, Inv s -> Q n s.
  Proof. intros s n I; repeat split; [apply inv_tmp|apply inv_step|intro f; apply inv_tsub]; exact I. Qed.

  Lemma dir_or_none_not_link : forall o : option node, dir_or_none o -> not_link o.
  Proof. intros o [H|H] t E; rewrite H in E; discriminate. Qed.

  Lemma p1_Q : forall n o (s s' : fs), p1op n o -> Q n s -> step_op o s = Some s' -> Q n s'.
  Proof.
    intros n o s s' Hop [Qt [Qf Qs]] H.
    destruct Hop as [E|[E|[[f E]|[[f [b E]]|[E|E]]]]]; subst o; simpl in H.
    - (* RmTree tmp *)
      assert (R : s' = remove_tree (StepTmp n) s).
      { destruct Qt as [E|E]; rewrite E in H; inversion H; reflexivity. }
      subst s'. repeat split; [left|..].
      + rewrite lookup_remove_tree; simpl; rewrite Z.eqb_refl; reflexivity.
      + rewrite lookup_remove_tree; simpl; exact Qf.
      + intro f; left; rewrite lookup_remove_tree; simpl; rewrite Z.eqb_refl; reflexivity.
    - (* MkDirs tmp *)
      destruct Qt as [E|E]; rewrite E in H; inversion H; subst s'.
      + repeat split; [right|..].
        * rewrite lookup_set, path_eqb_refl; reflexivity.
        * rewrite lookup_set; simpl; exact Qf.
        * intro f; rewrite lookup_set; simpl; apply Qs.
      + repeat split; [right; exact E|exact Qf|exact Qs].
    - (* OTruncate *)
      destruct (write_target (StepTmp n) f s) as [q|] eqn:E; [|discriminate].
      apply write_target_direct in E; [|apply dir_or_none_not_link; exact Qt]. destruct E as [E Ed]; subst q.
      inversion H; subst s'. repeat split.
      + rewrite lookup_set; simpl; right; exact Ed.
      + rewrite lookup_set; simpl; exact Qf.
      + intro g; rewrite lookup_set. destruct (path_eqb (Sub (StepTmp n) f) (Sub (StepTmp n) g)); [right; eexists; reflexivity|apply Qs].
    - (* OComplete *)
      destruct (write_target (StepTmp n) f s) as [q|] eqn:E; [|discriminate].
      apply write_target_direct in E; [|apply dir_or_none_not_link; exact Qt]. destruct E as [E Ed]; subst q.
      inversion H; subst s'. repeat split.
      + rewrite lookup_set; simpl; right; exact Ed.
      + rewrite lookup_set; simpl; exact Qf.
      + intro g; rewrite lookup_set. destruct (path_eqb (Sub (StepTmp n) f) (Sub (StepTmp n) g)); [right; eexists; reflexivity|apply Qs].
    - (* RmTree final *)
      assert (R : s' = remove_tree (Step n) s).
      { destruct Qf as [E|E]; rewrite E in H; inversion H; reflexivity. }
      subst s'. repeat split.
      + rewrite lookup_remove_tree; simpl; exact Qt.
      + left; rewrite lookup_remove_tree; simpl; rewrite Z.eqb_refl; reflexivity.
      + intro f; rewrite lookup_remove_tree; simpl; apply Qs.
    - (* Rename tmp final *)
      unfold do_rename in H. simpl name_eqb in H. cbv iota in H.
      assert (Hne : StepTmp n <> Step n) by discriminate.
      destruct (lookup (Top (StepTmp n)) s) as [src|] eqn:Es; [|discriminate].
      assert (Esrc : src = Dir) by (destruct Qt as [E|E]; [discriminate|inversion E; reflexivity]). subst src.
      assert (R : s' = rename_tree (StepTmp n) (Step n) s).
      { destruct Qf as [E|E]; rewrite E in H; [inversion H; reflexivity|].
        destruct (has_children (Step n) s); [discriminate|inversion H; reflexivity]. }
      subst s'. repeat split.
      + left; rewrite lookup_rename_tree by exact Hne; simpl; rewrite Z.eqb_refl; reflexivity.
      + right; rewrite lookup_rename_tree by exact Hne; simpl; rewrite ?Z.eqb_refl; simpl; rewrite ?Z.eqb_refl. exact Es.
      + intro f; left; rewrite lookup_rename_tree by exact Hne; simpl; rewrite Z.eqb_refl; reflexivity.
  Qed.

  Lemma p1_frame : forall n o (s s' : fs), p1op n o -> Q n s -> step_op o s = Some s' ->
    forall p, top p <> StepTmp n -> top p <> Step n -> lookup p s' = lookup p s.
  Proof.
    intros n o s s' Hop [Qt [Qf Qs]] H p H1 H2.
    apply (step_frame o s s' H).
    - destruct Hop as [E|[E|[[f E]|[[f [b E]]|[E|E]]]]]; subst o; simpl; try exact I;
        apply dir_or_none_not_link; exact Qt.
    - destruct Hop as [E|[E|[[f E]|[[f [b E]]|[E|E]]]]]; subst o; simpl; intros [X|X]; try congruence;
        destruct X as [X|X]; congruence.
  Qed.

  Lemma p1_run : forall n ops (s : fs), Forall (p1op n) ops -> Q n s ->
    Q n (exec ops s) /\ forall p, top p <> StepTmp n -> top p <> Step n -> lookup p (exec ops s) = lookup p s.
  Proof.
    intros n ops; induction ops as [|o r IH]; intros s Hf HQ; simpl.
    - split; [exact HQ|reflexivity].
    - inversion Hf; subst. destruct (step_op o s) as [s1|] eqn:E.
      + destruct (IH s1 H2 (p1_Q n o s s1 H1 HQ E)) as [A Bf]. split; [exact A|].
        intros p Hp1 Hp2. rewrite Bf by assumption. apply (p1_frame n o s s1 H1 HQ E); assumption.
      + split; [exact HQ|reflexivity].
  Qed.

  Lemma Forall_firstn : forall {A} (P : A -> Prop) k l, Forall P l -> Forall P (firstn k l).
  Proof. intros A P k l H; revert k; induction H; intro k; destruct k; simpl; constructor; auto. Qed.

  Lemma P1_p1op : forall m ws n d, Forall (p1op n) (P1 m ws n d).
  Proof.
    intros m ws n d. unfold P1. constructor; [left; reflexivity|].
    apply Forall_app; split; [apply Forall_forall; intros x Hx; apply repeat_spec in Hx; subst; right; left; reflexivity|].
    apply Forall_app; split.
    - unfold wops. apply Forall_forall; intros x Hx. apply in_flat_map in Hx. destruct Hx as [w [_ Hx]].
      destruct Hx as [Hx|[Hx|[]]]; subst x; [right; right; left; eexists; reflexivity|right; right; right; left; do 2 eexists; reflexivity].
    - constructor; [right; right; right; right; left; reflexivity|].
      constructor; [repeat right; reflexivity|constructor].
  Qed.

  (* a state reached inside phase 1 still satisfies the invariant and resumes as before *)
  Lemma Inv_p1 : forall n (s s' : fs), Inv s -> lookup (Top Latest) s <> Some (Link (Step n)) -> Q n s' ->
    (forall p, top p <> StepTmp n -> top p <> Step n -> lookup p s' = lookup p s) ->
    Inv s' /\ resume s' = resume s.
  Proof.
    intros n s s' I Hl [Qt [Qf Qs]] Fr.
    assert (L : lookup (Top Latest) s' = lookup (Top Latest) s) by (apply Fr; simpl; discriminate).
    split.
    - constructor.
      + intro k. destruct (Z.eq_dec k n) as [->|Hk]; [exact Qf|].
        rewrite Fr by (simpl; congruence). apply inv_step; exact I.
      + intro k. destruct (Z.eq_dec k n) as [->|Hk]; [exact Qt|].
        rewrite Fr by (simpl; congruence). apply inv_tmp; exact I.
      + rewrite Fr by (simpl; discriminate). apply inv_ltmp; exact I.
      + intros k f. destruct (Z.eq_dec k n) as [->|Hk]; [apply Qs|].
        rewrite Fr by (simpl; congruence). apply inv_tsub; exact I.
      + destruct (inv_latest s I) as [H|[k [H1 [H2 H3]]]]; [left; congruence|right].
        assert (Hk : k <> n) by (intro; subst; contradiction).
        exists k. repeat split; [congruence|rewrite Fr by (simpl; congruence); exact H2|].
        rewrite <- H3. apply resume_from_ext. intro f. apply Fr; simpl; congruence.
    - destruct (inv_latest s I) as [H|[k [H1 [H2 H3]]]].
      + rewrite !resume_no_latest by congruence. reflexivity.
      + assert (Hk : k <> n) by (intro; subst; contradiction).
        rewrite (resume_latest s k H1 H2).
        rewrite (resume_latest s' k) by (try congruence; rewrite Fr by (simpl; congruence); exact H2).
        apply resume_from_ext. intro f. apply Fr; simpl; congruence.
  Qed.

  (* ---- phase 1 run to completion ---- *)
  Fixpoint assoc (f : string) (ws : list (string * comp)) : option comp :=
    match ws with [] => None | (g, c) :: r => if String.eqb g f then Some c else assoc f r end.
  Lemma assoc_notin : forall f ws, ~ In f (map fst ws) -> assoc f ws = None.
  Proof.
    intros f ws; induction ws as [|[g c] r IH]; simpl; intro H; [reflexivity|].
    destruct (String.eqb g f) eqn:E; [apply String.eqb_eq in E; subst; exfalso; apply H; left; reflexivity|].
    apply IH; intro X; apply H; right; exact X.
  Qed.
  Lemma assoc_in : forall f c ws, NoDup (map fst ws) -> In (f, c) ws -> assoc f ws = Some c.
  Proof.
    intros f c ws; induction ws as [|[g c'] r IH]; simpl; intros Hnd Hin; [contradiction|].
    inversion Hnd; subst. destruct Hin as [E|Hin].
    - inversion E; subst. rewrite String.eqb_refl. reflexivity.
    - destruct (String.eqb g f) eqn:E.
      + apply String.eqb_eq in E; subst g. exfalso; apply H1. apply in_map_iff. exists (f, c); auto.
      + apply IH; assumption.
  Qed.

  Lemma write_target_ok : forall d f (s : fs), lookup (Top d) s = Some Dir -> file_or_none (lookup (Sub d f) s) ->
    write_target d f s = Some (Sub d f).
  Proof.
    intros d f s Hd Hf. unfold write_target. rewrite (resolve_direct _ d s Dir Hd) by (intros t; discriminate).
    destruct Hf as [E|[c E]]; rewrite E; reflexivity.
  Qed.

  Lemma mkdirs_run : forall d m (s : fs), dir_or_none (lookup (Top d) s) ->
    exists s', run (repeat (MkDirs d) m) s = Some s' /\ (forall p, p <> Top d -> lookup p s' = lookup p s) /\
               dir_or_none (lookup (Top d) s') /\ ((1 <= m)%nat -> lookup (Top d) s' = Some Dir).
  Proof.
    intros d m; induction m as [|m IH]; intros s H; simpl.
    - exists s; repeat split; auto. lia.
    - destruct H as [E|E]; rewrite E.
      + destruct (IH (set (Top d) Dir s)) as [s' [R [Fr [Hd Hm]]]]; [right; rewrite lookup_set, path_eqb_refl; reflexivity|].
        exists s'; repeat split; [exact R| |exact Hd|].
        * intros p Hp. rewrite Fr by exact Hp. rewrite lookup_set.
          destruct (path_eqb (Top d) p) eqn:E2; [apply path_eqb_eq in E2; congruence|reflexivity].
        * intros _. destruct m; [|apply Hm; lia]. simpl in R; inversion R; subst. rewrite lookup_set, path_eqb_refl; reflexivity.
      + destruct (IH s) as [s' [R [Fr [Hd Hm]]]]; [right; exact E|].
        exists s'; repeat split; [exact R|exact Fr|exact Hd|].
        intros _. destruct m; [simpl in R; inversion R; subst; exact E|apply Hm; lia].
  Qed.

  Lemma wops_run : forall n d ws (s : fs), lookup (Top (StepTmp n)) s = Some Dir ->
    (forall f, file_or_none (lookup (Sub (StepTmp n) f) s)) -> NoDup (map fst ws) ->
    exists s', run (wops n d ws) s = Some s' /\ (forall p, top p <> StepTmp n -> lookup p s' = lookup p s) /\
               lookup (Top (StepTmp n)) s' = Some Dir /\
               forall f, lookup (Sub (StepTmp n) f) s' =
                         match assoc f ws with Some c => Some (File (Complete (d c))) | None => lookup (Sub (StepTmp n) f) s end.
  Proof.
    intros n d ws; induction ws as [|[g c] r IH]; intros s Hd Hs Hnd.
    - exists s; simpl; repeat split; auto.
    - inversion Hnd; subst. unfold wops; simpl flat_map. fold (wops n d r).
      cbn [run app step_op fst snd].
      rewrite (write_target_ok _ g s Hd (Hs g)).
      set (s1 := set (Sub (StepTmp n) g) (File Partial) s).
      assert (Hd1 : lookup (Top (StepTmp n)) s1 = Some Dir) by (unfold s1; rewrite lookup_set; simpl; exact Hd).
      assert (Hg1 : file_or_none (lookup (Sub (StepTmp n) g) s1)) by (unfold s1; rewrite lookup_set, path_eqb_refl; right; eexists; reflexivity).
      rewrite (write_target_ok _ g s1 Hd1 Hg1).
      set (s2 := set (Sub (StepTmp n) g) (File (Complete (d c))) s1).
      assert (L2 : forall p, lookup p s2 = if path_eqb (Sub (StepTmp n) g) p then Some (File (Complete (d c))) else lookup p s).
      { intro p. unfold s2, s1. rewrite !lookup_set. destruct (path_eqb (Sub (StepTmp n) g) p); reflexivity. }
      destruct (IH s2) as [s' [R [Fr [Hd' Hf']]]].
      + rewrite L2; simpl; exact Hd.
      + intro f. rewrite L2. destruct (path_eqb (Sub (StepTmp n) g) (Sub (StepTmp n) f)); [right; eexists; reflexivity|apply Hs].
      + assumption.
      + exists s'. repeat split; [exact R| |exact Hd'|].
        * intros p Hp. rewrite Fr by exact Hp. rewrite L2.
          destruct (path_eqb (Sub (StepTmp n) g) p) eqn:E; [apply path_eqb_eq in E; subst p; simpl in Hp; congruence|reflexivity].
        * intro f. rewrite Hf'. simpl assoc.
          destruct (String.eqb g f) eqn:E.
          -- apply String.eqb_eq in E; subst f. rewrite assoc_notin by assumption.
             rewrite L2, path_eqb_refl; reflexivity.
          -- destruct (assoc f r); [reflexivity|]. rewrite L2. simpl. rewrite Z.eqb_refl, E. reflexivity.
  Qed.

  Lemma P1_run : forall m ws n d (s : fs), Q n s -> (1 <= m)%nat -> NoDup (map fst ws) ->
    exists s1, run (P1 m ws n d) s = Some s1 /\
      lookup (Top (Step n)) s1 = Some Dir /\ lookup (Top (StepTmp n)) s1 = None /\
      (forall f, lookup (Sub (StepTmp n) f) s1 = None) /\
      (forall f, lookup (Sub (Step n) f) s1 = match assoc f ws with Some c => Some (File (Complete (d c))) | None => None end).
  Proof.
    intros m ws n d s [Qt [Qf Qs]] Hm Hnd.
    set (T := StepTmp n). set (F := Step n).
    (* rmtree tmp *)
    set (sa := remove_tree T s).
    assert (Ra : step_op (RmTree T) s = Some sa) by (simpl; destruct Qt as [E|E]; fold T in E; rewrite E; reflexivity).
    assert (La : forall p, lookup p sa = if name_eqb (top p) T then None else lookup p s) by (intro p; apply lookup_remove_tree).
    (* makedirs *)
    destruct (mkdirs_run T m sa) as [sb [Rb [Frb [_ Hb]]]]; [left; rewrite La; simpl; rewrite Z.eqb_refl; reflexivity|].
    specialize (Hb Hm).
    (* writes *)
    destruct (wops_run n d ws sb) as [sc [Rc [Frc [Hc Hfc]]]]; [exact Hb| |exact Hnd|].
    { intro f; left. rewrite Frb by discriminate. rewrite La; simpl; rewrite Z.eqb_refl; reflexivity. }
    assert (Lc : forall f, lookup (Sub T f) sc = match assoc f ws with Some c => Some (File (Complete (d c))) | None => None end).
    { intro f. unfold T; rewrite Hfc. destruct (assoc f ws); [reflexivity|]. rewrite Frb by discriminate. rewrite La; simpl; rewrite Z.eqb_refl; reflexivity. }
    assert (LcF : lookup (Top F) sc = lookup (Top F) s).
    { rewrite Frc by (simpl; discriminate). rewrite Frb by discriminate. rewrite La; reflexivity. }
    (* rmtree final *)
    set (sd := remove_tree F sc).
    assert (Rd : step_op (RmTree F) sc = Some sd) by (simpl; fold F; rewrite LcF; destruct Qf as [E|E]; fold F in E; rewrite E; reflexivity).
    assert (Ld : forall p, lookup p sd = if name_eqb (top p) F then None else lookup p sc) by (intro p; apply lookup_remove_tree).
    (* rename *)
    set (se := rename_tree T F sd).
    assert (Hne : T <> F) by discriminate.
    assert (Re : step_op (Rename T F) sd = Some se).
    { simpl. unfold do_rename. simpl name_eqb. cbv iota. rewrite !Ld. simpl. rewrite Z.eqb_refl. unfold T. rewrite Hc. reflexivity. }
    assert (Le : forall p, lookup p se = if name_eqb (top p) F then lookup (rekey F T p) sd else if name_eqb (top p) T then None else lookup p sd)
      by (intro p; apply lookup_rename_tree; exact Hne).
    exists se. split.
    - unfold P1. fold T F. cbn [run]. rewrite Ra. rewrite run_app, Rb, run_app, Rc. cbn [run]. rewrite Rd, Re. reflexivity.
    - repeat split.
      + rewrite Le; simpl; rewrite ?Z.eqb_refl; simpl; rewrite ?Z.eqb_refl. rewrite Ld; simpl. exact Hc.
      + rewrite Le; simpl; rewrite ?Z.eqb_refl; reflexivity.
      + intro f. rewrite Le; simpl; rewrite ?Z.eqb_refl; reflexivity.
      + intro f. rewrite Le; simpl; rewrite ?Z.eqb_refl; simpl; rewrite ?Z.eqb_refl. rewrite Ld; simpl. apply Lc.
  Qed.

  (* ---- a directory that holds what the writes produced loads completely ---- *)
  Lemma comp_eqb_eq : forall a b, comp_eqb a b = true -> a = b.
  Proof. intros a b; destruct a, b; simpl; intro H; try discriminate; reflexivity. Qed.

  Definition payload (d : comp -> B) : list (comp * B) := map (fun r => (snd r, d (snd r))) load_reads.

  Lemma snapshot_complete : forall ws D (d : comp -> B) n (u : fs),
    (forall f, lookup (Sub D f) u = match assoc f ws with Some c => Some (File (Complete (d c))) | None => None end) ->
    incl load_reads ws -> NoDup (map fst ws) -> elapsed_file <> None -> step_of (d CElapsed) = Some n ->
    resume_from D u = Resumed n /\ read_all D load_reads u = Some (payload d).
  Proof.
    intros ws D d n u Hl Hincl Hnd Hel Hst.
    assert (RF : forall f c, In (f, c) load_reads -> read_file D f u = Some (d c)).
    { intros f c Hin. unfold read_file. rewrite Hl, (assoc_in f c ws Hnd (Hincl _ Hin)). reflexivity. }
    split.
    - unfold Snapshot.resume_from.
      assert (FA : forallb (fun r => is_some (read_file D (fst r) u)) load_reads = true).
      { apply forallb_forall. intros [f c] Hin. simpl. rewrite (RF f c Hin). reflexivity. }
      rewrite FA. unfold elapsed_file in *.
      destruct (find (fun r => comp_eqb (snd r) CElapsed) load_reads) as [[f c]|] eqn:E; [|congruence].
      apply find_some in E. destruct E as [Hin Hc]. simpl in Hc. apply comp_eqb_eq in Hc. subst c.
      simpl. rewrite (RF f CElapsed Hin), Hst. reflexivity.
    - unfold payload. generalize (incl_refl load_reads). generalize load_reads at 1 3 4 as rs.
      induction rs as [|[f c] r IH]; intro Hsub; simpl; [reflexivity|].
      rewrite (RF f c) by (apply Hsub; left; reflexivity).
      rewrite IH by (intros x Hx; apply Hsub; right; exact Hx). reflexivity.
  Qed.

  (* ---- phase 2: the link swap ---- *)
  Lemma Inv_links : forall (u u' : fs), Inv u ->
    (forall p, top p <> LatestTmp -> top p <> Latest -> lookup p u' = lookup p u) ->
    link_or_none (lookup (Top LatestTmp) u') ->
    (lookup (Top Latest) u' = lookup (Top Latest) u \/
     exists n, lookup (Top Latest) u' = Some (Link (Step n)) /\ lookup (Top (Step n)) u = Some Dir /\ resume_from (Step n) u = Resumed n) ->
    Inv u'.
  Proof.
    intros u u' I Fr Hl HL. constructor.
    - intro k. rewrite Fr by (simpl; discriminate). apply inv_step; exact I.
    - intro k. rewrite Fr by (simpl; discriminate). apply inv_tmp; exact I.
    - exact Hl.
    - intros k f. rewrite Fr by (simpl; discriminate). apply inv_tsub; exact I.
    - assert (G : forall n, lookup (Top Latest) u' = Some (Link (Step n)) -> lookup (Top (Step n)) u = Some Dir ->
                 resume_from (Step n) u = Resumed n ->
                 exists n0, lookup (Top Latest) u' = Some (Link (Step n0)) /\ lookup (Top (Step n0)) u' = Some Dir /\ resume_from (Step n0) u' = Resumed n0).
      { intros n H1 H2 H3. exists n. repeat split; [exact H1|rewrite Fr by (simpl; discriminate); exact H2|].
        rewrite <- H3. apply resume_from_ext. intro f. apply Fr; simpl; discriminate. }
      destruct HL as [E|[n [H1 [H2 H3]]]].
      + destruct (inv_latest u I) as [H|[n [H1 [H2 H3]]]]; [left; congruence|right].
        apply (G n); congruence.
      + right. apply (G n); assumption.
  Qed.
  Lemma resume_links_same : forall (u u' : fs), Inv u ->
    (forall p, top p <> LatestTmp -> top p <> Latest -> lookup p u' = lookup p u) ->
    lookup (Top Latest) u' = lookup (Top Latest) u -> resume u' = resume u.
  Proof.
    intros u u' I Fr E. destruct (inv_latest u I) as [H|[n [H1 [H2 H3]]]].
    - rewrite !resume_no_latest by congruence. reflexivity.
    - rewrite (resume_latest u n H1 H2).
      rewrite (resume_latest u' n) by (try congruence; rewrite Fr by (simpl; discriminate); exact H2).
      apply resume_from_ext. intro f. apply Fr; simpl; discriminate.
  Qed.

  Lemma P2_steps : forall n (u : fs), Inv u ->
    exists u1 u2 u3,
      step_op (UnlinkQuiet LatestTmp) u = Some u1 /\ step_op (Symlink (Step n) LatestTmp) u1 = Some u2 /\
      step_op (Replace LatestTmp Latest) u2 = Some u3 /\
      (forall p, top p <> LatestTmp -> lookup p u1 = lookup p u) /\ lookup (Top LatestTmp) u1 = None /\
      (forall p, top p <> LatestTmp -> lookup p u2 = lookup p u) /\ lookup (Top LatestTmp) u2 = Some (Link (Step n)) /\
      (forall p, top p <> LatestTmp -> top p <> Latest -> lookup p u3 = lookup p u) /\
      lookup (Top LatestTmp) u3 = None /\ lookup (Top Latest) u3 = Some (Link (Step n)).
  Proof.
    intros n u I.
    (* unlink latest.tmp *)
    assert (X1 : exists u1, step_op (UnlinkQuiet LatestTmp) u = Some u1 /\
                 (forall p, top p <> LatestTmp -> lookup p u1 = lookup p u) /\ lookup (Top LatestTmp) u1 = None).
    { simpl. destruct (inv_ltmp u I) as [E|[t E]]; rewrite E.
      - exists u; auto.
      - exists (remove (Top LatestTmp) u). repeat split.
        + intros p Hp. rewrite lookup_remove. destruct (path_eqb (Top LatestTmp) p) eqn:E2; [apply path_eqb_eq in E2; subst p; simpl in Hp; congruence|reflexivity].
        + rewrite lookup_remove, path_eqb_refl; reflexivity. }
    destruct X1 as [u1 [S1 [F1 L1]]].
    set (u2 := set (Top LatestTmp) (Link (Step n)) u1).
    assert (S2 : step_op (Symlink (Step n) LatestTmp) u1 = Some u2) by (simpl; rewrite L1; reflexivity).
    assert (F2 : forall p, top p <> LatestTmp -> lookup p u2 = lookup p u).
    { intros p Hp. unfold u2. rewrite lookup_set.
      destruct (path_eqb (Top LatestTmp) p) eqn:E2; [apply path_eqb_eq in E2; subst p; simpl in Hp; congruence|apply F1; exact Hp]. }
    assert (L2 : lookup (Top LatestTmp) u2 = Some (Link (Step n))) by (unfold u2; rewrite lookup_set, path_eqb_refl; reflexivity).
    set (u3 := rename_tree LatestTmp Latest u2).
    assert (Hne : LatestTmp <> Latest) by discriminate.
    assert (S3 : step_op (Replace LatestTmp Latest) u2 = Some u3).
    { simpl. unfold do_rename. simpl name_eqb. cbv iota. rewrite L2.
      rewrite (F2 (Top Latest)) by (simpl; discriminate).
      destruct (inv_latest u I) as [E|[k [E _]]]; rewrite E; reflexivity. }
    assert (L3 : forall p, lookup p u3 = if name_eqb (top p) Latest then lookup (rekey Latest LatestTmp p) u2
                                         else if name_eqb (top p) LatestTmp then None else lookup p u2)
      by (intro p; apply lookup_rename_tree; exact Hne).
    exists u1, u2, u3. repeat split; try assumption.
    - intros p H1 H2. rewrite L3. apply name_eqb_neq in H1, H2. rewrite H1, H2. apply F2. apply name_eqb_neq; exact H1.
    - rewrite L3; reflexivity.
  Qed.

  Lemma P2_crash : forall n (u : fs), Inv u -> lookup (Top (Step n)) u = Some Dir -> resume_from (Step n) u = Resumed n ->
    exec_ok (P2 n) u = true /\
    (forall k, Inv (crash k (P2 n) u) /\ ((k < 3)%nat -> resume (crash k (P2 n) u) = resume u)) /\
    resume (exec (P2 n) u) = Resumed n /\ Inv (exec (P2 n) u) /\
    loaded (exec (P2 n) u) = read_all (Step n) load_reads u.
  Proof.
    intros n u I HF HR.
    destruct (P2_steps n u I) as [u1 [u2 [u3 [S1 [S2 [S3 [F1 [L1 [F2 [L2 [F3 [L3 L3']]]]]]]]]]]].
    assert (I1 : Inv u1).
    { apply (Inv_links u u1 I); [intros p H1 H2; apply F1; exact H1|left; exact L1|left; apply F1; simpl; discriminate]. }
    assert (I2 : Inv u2).
    { apply (Inv_links u u2 I); [intros p H1 H2; apply F2; exact H1|right; eexists; exact L2|left; apply F2; simpl; discriminate]. }
    assert (I3 : Inv u3).
    { apply (Inv_links u u3 I); [exact F3|left; exact L3|right; exists n; auto]. }
    assert (R1 : resume u1 = resume u).
    { apply (resume_links_same u u1 I); [intros p H1 H2; apply F1; exact H1|apply F1; simpl; discriminate]. }
    assert (R2 : resume u2 = resume u).
    { apply (resume_links_same u u2 I); [intros p H1 H2; apply F2; exact H1|apply F2; simpl; discriminate]. }
    assert (HF3 : lookup (Top (Step n)) u3 = Some Dir) by (rewrite F3 by (simpl; discriminate); exact HF).
    assert (E3 : exec (P2 n) u = u3) by (unfold P2; cbn [exec]; rewrite S1, S2, S3; reflexivity).
    assert (EX : forall f, lookup (Sub (Step n) f) u3 = lookup (Sub (Step n) f) u) by (intro f; apply F3; simpl; discriminate).
    split; [|split; [|split; [|split]]].
    - unfold P2; cbn [exec_ok]; rewrite S1, S2, S3; reflexivity.
    - intro k; split.
      + unfold crash, P2. destruct k as [|[|[|k]]]; cbn [firstn]; rewrite ?firstn_nil; cbn [exec]; rewrite ?S1, ?S2, ?S3; assumption.
      + intro Hk. unfold crash, P2. destruct k as [|[|[|k]]]; cbn [firstn]; rewrite ?firstn_nil; cbn [exec]; rewrite ?S1, ?S2, ?S3; try assumption; try reflexivity. lia.
    - rewrite E3, (resume_latest u3 n L3' HF3), <- HR. apply resume_from_ext; exact EX.
    - rewrite E3; exact I3.
    - rewrite E3, (loaded_latest u3 n L3' HF3). apply read_all_ext; exact EX.
  Qed.

  (* ---- the shape of the generated program (discharged by computation in SaveIRTie below) ---- *)
  Variable m : nat.
  Variable ws : list (string * comp).
  Hypothesis Hprog : save_prog = canon_prog m ws.
  Hypothesis Hm : (1 <= m)%nat.
  Hypothesis Hnd : NoDup (map fst ws).
  Hypothesis Hincl : incl load_reads ws.
  Hypothesis Hel : elapsed_file <> None.

  Definition wf_save (sv : save B) : Prop := step_of (sv_data sv CElapsed) = Some (sv_step sv).

  Lemma save_ops_eq : forall (s : fs) (sv : save B),
    save_ops s sv = (if skip (sv_step sv) s then [] else P1 m ws (sv_step sv) (sv_data sv)) ++ P2 (sv_step sv).
  Proof. intros s sv. unfold save_ops. rewrite Hprog. apply canon_save_ops. Qed.

  Lemma save_crash : forall (s : fs) (sv : save B), Inv s -> wf_save sv ->
    let ops := save_ops s sv in
    exec_ok ops s = true /\
    (forall k, Inv (crash k ops s) /\
               ((k < List.length ops)%nat -> resume (crash k ops s) = resume s \/ resume (crash k ops s) = Resumed (sv_step sv))) /\
    resume (exec ops s) = Resumed (sv_step sv) /\ Inv (exec ops s) /\
    (skip (sv_step sv) s = false -> loaded (exec ops s) = Some (payload (sv_data sv))) /\
    (skip (sv_step sv) s = true -> loaded (exec ops s) = loaded s).
  Proof.
    intros s sv I Hwf ops. unfold ops. rewrite save_ops_eq.
    set (n := sv_step sv). set (d := sv_data sv).
    destruct (skip n s) eqn:Hs; cbn [app].
    - (* the step latest designates: only the link is re-pointed *)
      pose proof (skip_latest s n Hs) as HL.
      destruct (inv_latest s I) as [E|[n' [H1 [H2 H3]]]]; [congruence|].
      rewrite HL in H1; inversion H1; subst n'.
      destruct (P2_crash n s I H2 H3) as [OK [PK [RE [IE LE]]]].
      split; [exact OK|split; [|split; [exact RE|split; [exact IE|split]]]].
      + intro k; split; [apply PK|]. intro Hk. left. apply PK. exact Hk.
      + intro X; discriminate.
      + intros _. rewrite LE. symmetry. apply loaded_latest; assumption.
    - pose proof (not_skip_latest s n I Hs) as HL.
      destruct (P1_run m ws n d s (Inv_Q s n I) Hm Hnd) as [s1 [R1 [HF [HT [HTs HFs]]]]].
      destruct (run_exec _ _ _ R1) as [E1 OK1].
      destruct (p1_run n (P1 m ws n d) s (P1_p1op m ws n d) (Inv_Q s n I)) as [Q1 Fr1]. rewrite E1 in Q1, Fr1.
      destruct (Inv_p1 n s s1 I HL Q1 Fr1) as [I1 Rs1].
      destruct (snapshot_complete ws (Step n) d n s1 HFs Hincl Hnd Hel Hwf) as [RF RA].
      destruct (P2_crash n s1 I1 HF RF) as [OK2 [PK [RE [IE LE]]]].
      assert (EX : exec (P1 m ws n d ++ P2 n) s = exec (P2 n) s1) by (rewrite exec_app, OK1, E1; reflexivity).
      split; [|split; [|split; [|split; [|split]]]].
      + rewrite exec_ok_app, OK1, E1. exact OK2.
      + intro k; split.
        * unfold crash. destruct (le_lt_dec k (List.length (P1 m ws n d))) as [Hk|Hk].
          -- rewrite firstn_app_le by exact Hk.
             destruct (p1_run n (firstn k (P1 m ws n d)) s (Forall_firstn _ k _ (P1_p1op m ws n d)) (Inv_Q s n I)) as [Qk Frk].
             apply (Inv_p1 n s _ I HL Qk Frk).
          -- rewrite firstn_app_ge by lia. rewrite exec_app, OK1, E1. apply PK.
        * intro Hlen. unfold crash. destruct (le_lt_dec k (List.length (P1 m ws n d))) as [Hk|Hk].
          -- rewrite firstn_app_le by exact Hk.
             destruct (p1_run n (firstn k (P1 m ws n d)) s (Forall_firstn _ k _ (P1_p1op m ws n d)) (Inv_Q s n I)) as [Qk Frk].
             left. apply (Inv_p1 n s _ I HL Qk Frk).
          -- rewrite firstn_app_ge by lia. rewrite exec_app, OK1, E1. left.
             rewrite <- Rs1. apply PK. rewrite app_length in Hlen. change (List.length (P2 n)) with 3%nat in Hlen. lia.
      + rewrite EX. exact RE.
      + rewrite EX. exact IE.
      + intros _. rewrite EX, LE. exact RA.
      + intro X; discriminate.
  Qed.
  (* ---- histories ---- *)
  Definition wf_hist (h : history B) : Prop := Forall wf_save h.

  Lemma Inv_empty : Inv [].
  Proof. constructor; intros; left; reflexivity. Qed.

  Lemma crash_nil : forall k (s : fs), crash k [] s = s.
  Proof. intros k s; unfold crash; rewrite firstn_nil; reflexivity. Qed.

  Lemma hist_crash : forall (h : history B) (s : fs) k, Inv s -> wf_hist h ->
    Inv (crash k (hist_ops s h) s) /\
    In (resume (crash k (hist_ops s h) s)) (allowed (resume s) s h k).
  Proof.
    induction h as [|sv t IH]; intros s k I Hwf.
    - simpl. rewrite crash_nil. split; [exact I|left; reflexivity].
    - inversion Hwf as [|? ? Hsv Ht]; subst.
      destruct (save_crash s sv I Hsv) as [OK [PK [RE [IE _]]]].
      unfold hist_ops, allowed in *. cbn [hist_ops_with allowed_with].
      fold (save_ops s sv). set (o := save_ops s sv) in *.
      destruct (Nat.leb (List.length o) k) eqn:Hk.
      + apply Nat.leb_le in Hk. unfold crash. rewrite firstn_app_ge by exact Hk. rewrite exec_app, OK.
        specialize (IH (exec o s) (k - List.length o)%nat IE Ht). unfold crash in IH. rewrite RE in IH. exact IH.
      + apply Nat.leb_gt in Hk. unfold crash. rewrite firstn_app_le by lia.
        destruct (PK k) as [Ik Rk]. split; [exact Ik|].
        destruct (Rk Hk) as [E|E]; unfold crash in E; rewrite E; [left; reflexivity|right; left; reflexivity].
  Qed.

  Lemma allowed_shape : forall (h : history B) prev (s : fs) k x,
    In x (allowed prev s h k) -> x = prev \/ exists sv, In sv h /\ x = Resumed (sv_step sv).
  Proof.
    induction h as [|sv t IH]; intros prev s k x Hx; unfold allowed in *; cbn [allowed_with] in Hx.
    - destruct Hx as [E|[]]; left; congruence.
    - destruct (Nat.leb (List.length (save_ops_with save_prog s sv)) k).
      + destruct (IH _ _ _ _ Hx) as [E|[sv' [Hin E]]]; right; [exists sv|exists sv']; simpl; auto.
      + destruct Hx as [E|[E|[]]]; [left; congruence|right; exists sv; simpl; auto].
  Qed.
  Lemma allowed_after_completed : forall (h : history B) prev (s : fs) k x,
    (0 < completed_with save_prog s h k)%nat -> In x (allowed prev s h k) -> exists z, x = Resumed z.
  Proof.
    intros h prev s k x Hc Hx. destruct h as [|sv t]; [simpl in Hc; lia|].
    unfold allowed in Hx. cbn [allowed_with completed_with] in *.
    destruct (Nat.leb (List.length (save_ops_with save_prog s sv)) k); [|lia].
    destruct (allowed_shape _ _ _ _ _ Hx) as [E|[sv' [_ E]]]; eexists; exact E.
  Qed.

  (* a re-save of the step latest designates writes nothing: exact only if the state is the one stored there *)
  Fixpoint coherent (s : fs) (h : history B) : Prop :=
    match h with
    | [] => True
    | sv :: t => (skip (sv_step sv) s = true -> loaded s = Some (payload (sv_data sv))) /\
                 coherent (exec (save_ops s sv) s) t
    end.

  Lemma save_loaded : forall (s : fs) (sv : save B), Inv s -> wf_save sv ->
    (skip (sv_step sv) s = true -> loaded s = Some (payload (sv_data sv))) ->
    loaded (exec (save_ops s sv) s) = Some (payload (sv_data sv)).
  Proof.
    intros s sv I Hwf Hc. destruct (save_crash s sv I Hwf) as [_ [_ [_ [_ [L0 L1]]]]].
    destruct (skip (sv_step sv) s) eqn:E; [rewrite L1 by reflexivity; apply Hc; reflexivity|apply L0; reflexivity].
  Qed.

  Lemma hist_loaded : forall (h : history B) (s : fs) sv0, Inv s -> wf_hist h -> coherent s h -> h <> [] ->
    exec_ok (hist_ops s h) s = true /\
    loaded (exec (hist_ops s h) s) = Some (payload (sv_data (last h sv0))).
  Proof.
    induction h as [|sv t IH]; intros s sv0 I Hwf Hco Hne; [congruence|].
    inversion Hwf as [|? ? Hsv Ht]; subst. destruct Hco as [Hc Hct].
    destruct (save_crash s sv I Hsv) as [OK [_ [_ [IE _]]]].
    unfold hist_ops in *. cbn [hist_ops_with]. fold (save_ops s sv).
    rewrite exec_app, exec_ok_app, OK. cbn [andb].
    destruct t as [|sv' t'].
    - cbn [hist_ops_with exec exec_ok last]. split; [reflexivity|apply save_loaded; assumption].
    - destruct (IH (exec (save_ops s sv) s) sv0 IE Ht Hct) as [A Bq]; [discriminate|].
      split; [exact A|]. rewrite Bq. reflexivity.
  Qed.

  (* ---- with a codec that round-trips, what a fresh run holds after load_state is what was saved ---- *)
  Variable V : Type.
  Variable ser : comp -> V -> B.            (* torch.save / yaml.dump of one component *)
  Variable de : comp -> B -> option V.      (* torch.load / yaml.unsafe_load *)
  Hypothesis de_ser : forall c v, de c (ser c v) = Some v.

  Definition restore (s : fs) : option (list (comp * option V)) :=
    match loaded s with
    | Some l => Some (map (fun cb => (fst cb, de (fst cb) (snd cb))) l)
    | None => None
    end.
  Definition save_of (step : Z) (mem : comp -> V) : save B := mkSave step (fun c => ser c (mem c)).

  Lemma save_restore : forall (s : fs) step (mem : comp -> V), Inv s -> wf_save (save_of step mem) ->
    (skip step s = true -> loaded s = Some (payload (sv_data (save_of step mem)))) ->
    restore (exec (save_ops s (save_of step mem)) s) = Some (map (fun r => (snd r, Some (mem (snd r)))) load_reads).
  Proof.
    intros s step mem I Hwf Hc. unfold restore. rewrite (save_loaded s (save_of step mem) I Hwf Hc).
    unfold payload. rewrite map_map. f_equal. apply map_ext. intros [f c]. simpl. rewrite de_ser. reflexivity.
  Qed.

End CrashProofs.

(* ------------------------------------------------------------------------ *)
(* tie: the regenerated gen/SaveIR.v has the shape the lemmas were proved for *)
(* ------------------------------------------------------------------------ *)
Definition the_m : nat := mkdirs_of (body_of save_prog).
Definition the_ws : list (string * comp) := writes_of (body_of save_prog).

Fixpoint nodupb (l : list string) : bool :=
  match l with [] => true | x :: r => negb (existsb (String.eqb x) r) && nodupb r end.
Lemma nodupb_sound : forall l, nodupb l = true -> NoDup l.
Proof.
  induction l as [|x r IH]; simpl; intro H; [constructor|].
  apply andb_true_iff in H; destruct H as [H1 H2]. constructor; [|apply IH; exact H2].
  intro Hin. apply negb_true_iff in H1.
  assert (E : existsb (String.eqb x) r = true) by (apply existsb_exists; exists x; split; [exact Hin|apply String.eqb_refl]).
  congruence.
Qed.
Definition inclb (a b : list (string * comp)) : bool :=
  forallb (fun r => existsb (fun w => String.eqb (fst r) (fst w) && comp_eqb (snd r) (snd w)) b) a.
Lemma inclb_sound : forall a b, inclb a b = true -> incl a b.
Proof.
  intros a b H [f c] Hin. unfold inclb in H. rewrite forallb_forall in H. specialize (H _ Hin).
  apply existsb_exists in H. destruct H as [[g c'] [Hw E]]. simpl in E.
  apply andb_true_iff in E; destruct E as [E1 E2]. apply String.eqb_eq in E1.
  destruct c, c'; simpl in E2; try discriminate; subst; exact Hw.
Qed.

(* save_snapshot = [ if latest does not designate step_N: rmtree tmp; makedirs+; writes into tmp; rmtree final;
   rename tmp final ]; unlink latest.tmp; symlink; replace *)
Lemma tie_prog : save_prog = canon_prog the_m the_ws.
Proof. reflexivity. Qed.
Lemma tie_m : (1 <= the_m)%nat.
Proof. vm_compute. repeat constructor. Qed.
Lemma tie_nodup : NoDup (map fst the_ws).
Proof. apply nodupb_sound. vm_compute. reflexivity. Qed.
(* every file load_state reads is written, under the same name, from the same component *)
Lemma tie_incl : incl load_reads the_ws.
Proof. apply inclb_sound. vm_compute. reflexivity. Qed.
Lemma tie_elapsed : elapsed_file <> None.
Proof. vm_compute. discriminate. Qed.
Lemma tie_probe : resume_probe = PLatest.
Proof. reflexivity. Qed.

(* ------------------------------------------------------------------------ *)
(* the theorems of C19                                                        *)
(* ------------------------------------------------------------------------ *)
Section Final.
  Context {B : Type}.
  Variable step_of : B -> option Z.
  Notation fs := (fs B).

  Theorem crash_safe_from : forall (h : history B) (s : fs) (k : nat),
    Inv step_of s -> wf_hist step_of h ->
    let r := resume step_of (crash k (hist_ops s h) s) in
    Inv step_of (crash k (hist_ops s h) s) /\
    In r (allowed (resume step_of s) s h k) /\ r <> Broken /\
    ((0 < completed_with save_prog s h k)%nat -> r <> Scratch).
  Proof.
    intros h s k I Hwf r.
    destruct (hist_crash step_of the_m the_ws tie_prog tie_m tie_nodup tie_incl tie_elapsed h s k I Hwf) as [Ik Hin].
    fold r in Hin. split; [exact Ik|split; [exact Hin|split]].
    - destruct (allowed_shape _ _ _ _ _ Hin) as [E|[sv [_ E]]]; [|rewrite E; discriminate].
      rewrite E. destruct (inv_resume_cases step_of s I) as [E2|[n E2]]; rewrite E2; discriminate.
    - intro Hc. destruct (allowed_after_completed the_m tie_m _ _ _ _ _ Hc Hin) as [z E]. rewrite E; discriminate.
  Qed.

  Theorem crash_safe : forall (h : history B) (k : nat), wf_hist step_of h ->
    let r := resume step_of (crash k (hist_ops [] h) []) in
    In r (allowed Scratch [] h k) /\ r <> Broken /\ ((0 < completed_with save_prog [] h k)%nat -> r <> Scratch).
  Proof.
    intros h k Hwf r.
    destruct (crash_safe_from h [] k (Inv_empty step_of) Hwf) as [_ H]. exact H.
  Qed.

  Theorem save_never_raises : forall (h : history B) (s : fs), Inv step_of s -> wf_hist step_of h ->
    exec_ok (hist_ops s h) s = true.
  Proof.
    induction h as [|sv t IH]; intros s I Hwf; [reflexivity|].
    inversion Hwf as [|? ? Hsv Ht]; subst.
    destruct (save_crash step_of the_m the_ws tie_prog tie_m tie_nodup tie_incl tie_elapsed s sv I Hsv) as [OK [_ [_ [IE _]]]].
    unfold hist_ops. cbn [hist_ops_with]. fold (save_ops s sv). rewrite exec_ok_app, OK. apply IH; assumption.
  Qed.

  Theorem history_load_exact : forall (h : history B) (s : fs) (sv0 : save B),
    Inv step_of s -> wf_hist step_of h -> coherent s h -> h <> [] ->
    loaded (exec (hist_ops s h) s) = Some (payload (sv_data (last h sv0))).
  Proof.
    intros h s sv0 I Hwf Hco Hne.
    apply (hist_loaded step_of the_m the_ws tie_prog tie_m tie_nodup tie_incl tie_elapsed h s sv0 I Hwf Hco Hne).
  Qed.

  Section Codec.
    Variable V : Type.
    Variable ser : comp -> V -> B.
    Variable de : comp -> B -> option V.
    Hypothesis de_ser : forall c v, de c (ser c v) = Some v.

    Theorem save_load_exact : forall (s : fs) (step : Z) (mem : comp -> V),
      Inv step_of s -> step_of (ser CElapsed (mem CElapsed)) = Some step ->
      (skip step s = true -> loaded s = Some (payload (fun c => ser c (mem c)))) ->
      (* every component is read from the file name it was written to ... *)
      incl load_reads the_ws /\ NoDup (map fst the_ws) /\
      (* ... and the fresh run ends up with exactly the saved values *)
      restore V de (exec (save_ops s (save_of V ser step mem)) s) =
        Some (map (fun r => (snd r, Some (mem (snd r)))) load_reads).
    Proof.
      intros s step mem I Hst Hc. split; [exact tie_incl|split; [exact tie_nodup|]].
      apply (save_restore step_of the_m the_ws tie_prog tie_m tie_nodup tie_incl tie_elapsed V ser de de_ser s step mem I Hst Hc).
    Qed.
  End Codec.
End Final.

(* ------------------------------------------------------------------------ *)
(* concrete contents for examples and refutations: (component, step, version) *)
(* ------------------------------------------------------------------------ *)
(* CB, cstep_of, csave: model/Snapshot.v *)
Lemma csave_wf : forall s v, wf_save cstep_of (csave s v).
Proof. intros s v; reflexivity. Qed.

(* the hypotheses of crash_safe / history_load_exact are satisfiable: periodic saves, a request, the
   repeated save of the last step at the end of the run *)
Definition ex_hist : history CB := [csave 1 1; csave 2 2; csave 2 2; csave 4 3].
Example ex_hist_wf : wf_hist cstep_of ex_hist.
Proof. repeat constructor. Qed.
Example ex_hist_coherent : coherent [] ex_hist.
Proof. simpl. repeat split; intro H; try reflexivity; vm_compute in H; try discriminate. Qed.
(* before any operation the directory is empty; at the end it resumes from the last save; in between it
   resumes from steps 1 and 2 (stated without fixing operation indices: they move with the generated program) *)
Example ex_hist_resumes :
  let ops := hist_ops [] ex_hist in
  let rs := map (fun k => resume cstep_of (crash k ops [])) (seq 0 (S (List.length ops))) in
  hd Broken rs = Scratch /\ last rs Broken = Resumed 4 /\
  existsb (outcome_eqb (Resumed 1)) rs = true /\ existsb (outcome_eqb (Resumed 2)) rs = true /\
  forallb (fun r => negb (outcome_eqb r Broken)) rs = true.
Proof. vm_compute. repeat split; reflexivity. Qed.
Example ex_save_load : Inv cstep_of ([] : fs CB) /\ cstep_of (CElapsed, 7, 1) = Some 7.
Proof. split; [apply Inv_empty|reflexivity]. Qed.

(* ---- the defect F9, on the translation of the code before the fix ---- *)
(* a completed save of step 1, the save of step 2 interrupted between unlink(latest) and symlink: from scratch *)
Theorem crash_unlink_symlink_refuted :
  exists (h : history CB) (k : nat), wf_hist cstep_of h /\
    (0 < completed_with save_prog_prefix [] h k)%nat /\
    resume cstep_of (crash k (hist_ops_with save_prog_prefix [] h) []) = Scratch.
Proof. exists [csave 1 1; csave 2 2], 27%nat. split; [repeat constructor|]. vm_compute. split; [lia|reflexivity]. Qed.
(* step 2 saved twice (periodic save, then after_run): interrupted inside the second write of model.pt,
   latest designates a directory with a truncated file *)
Theorem crash_resave_refuted :
  exists (h : history CB) (k : nat), wf_hist cstep_of h /\
    resume cstep_of (crash k (hist_ops_with save_prog_prefix [] h) []) = Broken.
Proof. exists [csave 1 1; csave 2 2; csave 2 2], 31%nat. split; [repeat constructor|]. vm_compute. reflexivity. Qed.

(* ---- the first version of the fix (c2ddcaf): a step directory published by an interrupted run but never
   designated by latest was kept by the next run's save of that step, which then stored nothing ---- *)
Definition stale_run1 : history CB := [csave 1 1; csave 2 2].
Definition stale_run2 : history CB := [csave 2 3].      (* the resumed run reaches step 2 again with other weights *)
Theorem resave_after_crash_stale_refuted :
  let s1 := crash 31 (hist_ops_with save_prog_c2ddcaf [] stale_run1) [] in
  resume cstep_of s1 = Resumed 1 /\
  loaded (exec (hist_ops_with save_prog_c2ddcaf s1 stale_run2) s1) <> Some (payload (sv_data (csave 2 3))).
Proof. split; [vm_compute; reflexivity|]. intro H. vm_compute in H. discriminate. Qed.
(* the same two runs on the current program: every crash point of run 1 that resumes from step 1 *)
Example resave_after_crash_current_ok :
  forallb (fun k => let s1 := crash k (hist_ops [] stale_run1) [] in
                    match loaded (exec (hist_ops s1 stale_run2) s1) with
                    | Some l => forallb (fun cb => Z.eqb (snd (snd cb)) 3) l
                    | None => false
                    end) (seq 0 (List.length (hist_ops [] stale_run1))) = true.   (* every interruption of run 1 *)
Proof. vm_compute. reflexivity. Qed.

(* ------------------------------------------------------------------------ *)
(* replay window                                                              *)
(* ------------------------------------------------------------------------ *)
Section Window.
  Context {A : Type}.
  Lemma lastn_all : forall (n : nat) (l : list A), (List.length l <= n)%nat -> lastn n l = l.
  Proof. intros n l H; unfold lastn. replace (List.length l - n)%nat with O by lia. reflexivity. Qed.
  Lemma lastn_cons : forall (n : nat) (x : A) (l : list A), (n <= List.length l)%nat -> lastn n (x :: l) = lastn n l.
  Proof. intros n x l H; unfold lastn. simpl List.length. replace (S (List.length l) - n)%nat with (S (List.length l - n)) by lia. reflexivity. Qed.
  Lemma lastn_length : forall (n : nat) (l : list A), List.length (lastn n l) = Nat.min n (List.length l).
  Proof. intros n l; unfold lastn. rewrite skipn_length. lia. Qed.

  Lemma window_append_spec : forall (cap : Z) (buf : list A) (b : A),
    (List.length buf <= Z.to_nat cap)%nat ->
    window_append cap buf b = lastn (Nat.min (List.length buf + 1) (Z.to_nat cap)) (buf ++ [b]).
  Proof.
    intros cap buf b H. unfold window_append. rewrite app_length. simpl List.length.
    destruct (Z.of_nat (List.length buf + 1) >? cap) eqn:E.
    - apply Z.gtb_lt in E.
      assert (Hc : List.length buf = Z.to_nat cap) by lia.
      rewrite Nat.min_r by lia.
      destruct buf as [|x r]; simpl in *.
      + rewrite <- Hc. reflexivity.
      + rewrite lastn_cons by (rewrite app_length; simpl; lia). rewrite lastn_all by (rewrite app_length; simpl; lia). reflexivity.
    - assert (Hc : (List.length buf + 1 <= Z.to_nat cap)%nat).
      { destruct (Z.gtb_spec (Z.of_nat (List.length buf + 1)) cap); [discriminate|lia]. }
      rewrite Nat.min_l by lia. rewrite lastn_all by (rewrite app_length; simpl; lia). reflexivity.
  Qed.

  (* from a buffer within the cap (the empty one of a fresh run, or the one load_state restored) *)
  Theorem window_exact_from : forall (cap : Z) (bs buf : list A),
    (List.length buf <= Z.to_nat cap)%nat ->
    window_run cap buf bs = lastn (Nat.min (List.length buf + List.length bs) (Z.to_nat cap)) (buf ++ bs) /\
    (List.length (window_run cap buf bs) <= Z.to_nat cap)%nat.
  Proof.
    intros cap bs; induction bs as [|b r IH]; intros buf H; unfold window_run in *; simpl fold_left.
    - rewrite app_nil_r, Nat.add_0_r. rewrite lastn_all by lia. split; [reflexivity|exact H].
    - set (buf' := window_append cap buf b).
      assert (E : buf' = lastn (Nat.min (List.length buf + 1) (Z.to_nat cap)) (buf ++ [b])) by (apply window_append_spec; exact H).
      assert (L : List.length buf' = Nat.min (List.length buf + 1) (Z.to_nat cap)).
      { rewrite E, lastn_length, app_length. simpl. lia. }
      destruct (IH buf') as [R Hl]; [lia|]. split; [|exact Hl].
      rewrite R. simpl List.length.
      destruct (le_lt_dec (List.length buf + 1) (Z.to_nat cap)) as [Hc|Hc].
      + assert (Eb : buf' = buf ++ [b]).
        { rewrite E. apply lastn_all. rewrite app_length; simpl; lia. }
        rewrite Eb, <- app_assoc. simpl. rewrite app_length. simpl. f_equal. lia.
      + assert (Hlen : List.length buf = Z.to_nat cap) by lia.
        rewrite L. rewrite !Nat.min_r by lia. rewrite Nat.min_r in E by lia.
        destruct buf as [|x t].
        * simpl in Hlen. rewrite <- Hlen. unfold lastn. rewrite !Nat.sub_0_r, !skipn_all. reflexivity.
        * simpl app in *. rewrite lastn_cons in E by (rewrite app_length; simpl in *; lia).
          rewrite lastn_all in E by (rewrite app_length; simpl in *; lia).
          rewrite E. rewrite lastn_cons by (rewrite !app_length; simpl in *; lia).
          rewrite <- app_assoc. reflexivity.
  Qed.

  (* after k = |bs| training steps of a fresh run the buffer is the last min k cap batches *)
  Theorem window_exact : forall (cap : Z) (bs : list A),
    window_run cap [] bs = lastn (Z.to_nat (Z.min (Z.of_nat (List.length bs)) cap)) bs /\
    Z.of_nat (List.length (window_run cap [] bs)) <= Z.max 0 cap.
  Proof.
    intros cap bs. destruct (window_exact_from cap bs []) as [R L]; [simpl; lia|].
    split; [|lia]. rewrite R. simpl. f_equal. lia.
  Qed.
End Window.

(* ------------------------------------------------------------------------ *)
(* serve_mode / train_mode                                                    *)
(* ------------------------------------------------------------------------ *)
Lemma dtype_eqb_eq : forall a b, dtype_eqb a b = true <-> a = b.
Proof. intros a b; destruct a, b; simpl; split; intro H; try discriminate; reflexivity. Qed.
Lemma dtype_eqb_refl : forall a, dtype_eqb a a = true.
Proof. destruct a; reflexivity. Qed.

Section ModeProofs.
  Context {T : Type}.
  Variable cast : dtype -> T -> T.
  Notation tensor := (@tensor T).
  Notation pstate := (@pstate T).

  Lemma nth_upd_same : forall {X} (i : nat) (v d : X) (l : list X), (i < List.length l)%nat -> nth i (upd i v l) d = v.
  Proof.
    intros X i v d l H. unfold upd.
    rewrite app_nth2 by (rewrite firstn_length; lia). rewrite firstn_length, Nat.min_l by lia. rewrite Nat.sub_diag.
    destruct (skipn i l) eqn:E; [|reflexivity].
    assert (List.length (skipn i l) = (List.length l - i)%nat) by apply skipn_length. rewrite E in H0; simpl in H0; lia.
  Qed.
  Lemma nth_snoc : forall {X} (l : list X) (x d : X), nth (List.length l) (l ++ [x]) d = x.
  Proof. intros X l x d. rewrite app_nth2 by lia. rewrite Nat.sub_diag. reflexivity. Qed.

  (* a parameter as train_step leaves it: a live cell in the training dtype *)
  Definition wf_param (train : dtype) (dflt : tensor) (p : pstate) : Prop :=
    (live p < List.length (cells p))%nat /\ fst (cell p (live p) dflt) = train.

  Lemma roundtrip_param : forall on_cpu serve train dflt (p : pstate), wf_param train dflt p ->
    let p' := train_param cast train (serve_param cast on_cpu serve p dflt) dflt in
    cell p' (live p') dflt = cell p (live p) dflt.
  Proof.
    intros on_cpu serve train dflt [C L M] [HL HT]. unfold cell in *. simpl in HL, HT.
    destruct (nth L C dflt) as [dt v] eqn:EC. simpl in HT. subst dt.
    unfold serve_param, train_param, to_dtype, cell. simpl.
    destruct on_cpu; simpl.
    - (* v.cpu() is v itself *)
      rewrite EC. destruct (dtype_eqb train serve) eqn:Es; simpl.
      + rewrite EC, dtype_eqb_refl. simpl. rewrite EC. unfold copy_into. simpl. rewrite dtype_eqb_refl.
        rewrite nth_upd_same by exact HL. reflexivity.
      + rewrite nth_snoc.
        assert (Es' : dtype_eqb serve train = false).
        { destruct (dtype_eqb serve train) eqn:E; [apply dtype_eqb_eq in E; subst; rewrite dtype_eqb_refl in Es; discriminate|reflexivity]. }
        rewrite Es'. simpl. rewrite nth_snoc.
        rewrite app_nth1 by (rewrite app_length; simpl; lia). rewrite app_nth1 by lia. rewrite EC.
        unfold copy_into. simpl. rewrite dtype_eqb_refl.
        rewrite nth_upd_same by (rewrite !app_length; simpl; lia). reflexivity.
    - (* a device copy *)
      rewrite app_nth1 by lia. rewrite EC. destruct (dtype_eqb train serve) eqn:Es; simpl.
      + rewrite app_nth1 by lia. rewrite EC, dtype_eqb_refl. simpl.
        rewrite app_nth1 by lia. rewrite EC, nth_snoc. unfold copy_into. simpl. rewrite dtype_eqb_refl.
        rewrite nth_upd_same by (rewrite app_length; simpl; lia). reflexivity.
      + rewrite nth_snoc.
        assert (Es' : dtype_eqb serve train = false).
        { destruct (dtype_eqb serve train) eqn:E; [apply dtype_eqb_eq in E; subst; rewrite dtype_eqb_refl in Es; discriminate|reflexivity]. }
        rewrite Es'. simpl. rewrite nth_snoc.
        rewrite app_nth1 by (rewrite !app_length; simpl; lia). rewrite app_nth1 by (rewrite app_length; simpl; lia).
        rewrite nth_snoc. unfold copy_into. simpl. rewrite dtype_eqb_refl.
        rewrite nth_upd_same by (rewrite !app_length; simpl; lia). reflexivity.
  Qed.

  Theorem mode_roundtrip_exact : forall on_cpu serve train dflt (m : list pstate),
    Forall (wf_param train dflt) m ->
    values dflt (train_mode cast train dflt (serve_mode cast on_cpu serve dflt m)) = values dflt m.
  Proof.
    intros on_cpu serve train dflt m H. unfold values, train_mode, serve_mode. rewrite !map_map.
    apply map_ext_in. intros p Hp. rewrite Forall_forall in H. apply (roundtrip_param on_cpu serve train dflt p (H p Hp)).
  Qed.

  (* over ALL tensors the forward pass reads: the round trip is exact provided every tensor that a conversion
     touches is an entry of state_dict() (so that train_params holds it) - true of xformer.Transformer today
     (the sin table `pe` is a persistent buffer); checked on the implementation over named_parameters and
     named_buffers in every mode case *)
  Lemma roundtrip_tensor : forall on_cpu serve train dflt (t : bool * pstate),
    wf_param train dflt (snd t) -> (fst t = true \/ dtype_eqb train serve = true) ->
    let t' := train_tensor cast train dflt (serve_tensor cast on_cpu serve dflt t) in
    cell (snd t') (live (snd t')) dflt = cell (snd t) (live (snd t)) dflt.
  Proof.
    intros on_cpu serve train dflt [sd p] Hwf Hsd. simpl in Hwf, Hsd.
    destruct sd.
    - unfold train_tensor, serve_tensor. simpl. apply (roundtrip_param on_cpu serve train dflt p Hwf).
    - destruct Hsd as [Hsd|Hsd]; [discriminate|].
      destruct p as [C L M]. destruct Hwf as [HL HT]. unfold cell in *. simpl in HL, HT.
      destruct (nth L C dflt) as [dt v] eqn:EC. simpl in HT. subst dt.
      unfold train_tensor, serve_tensor, train_param, to_dtype, cell. simpl.
      rewrite EC, Hsd. simpl. rewrite EC, dtype_eqb_refl. simpl. rewrite ?EC. reflexivity.
  Qed.
  Theorem mode_roundtrip_all_exact : forall on_cpu serve train dflt (m : list (bool * pstate)),
    Forall (fun t => wf_param train dflt (snd t) /\ (fst t = true \/ dtype_eqb train serve = true)) m ->
    values_all dflt (train_mode_all cast train dflt (serve_mode_all cast on_cpu serve dflt m)) = values_all dflt m.
  Proof.
    intros on_cpu serve train dflt m H. unfold values_all, train_mode_all, serve_mode_all. rewrite !map_map.
    apply map_ext_in. intros t Ht. rewrite Forall_forall in H. destruct (H t Ht) as [Hw Hs].
    apply (roundtrip_tensor on_cpu serve train dflt t Hw Hs).
  Qed.

  (* what the code does about aliasing: on the CPU with serve_dtype = train_dtype (Config forces it)
     train_params[k] IS the live parameter; whenever a conversion happens the master copy is a different cell *)
  Theorem master_aliases_live_iff : forall on_cpu serve train dflt (p : pstate), wf_param train dflt p ->
    aliased (serve_param cast on_cpu serve p dflt) = on_cpu && dtype_eqb train serve.
  Proof.
    intros on_cpu serve train dflt [C L M] [HL HT]. unfold cell in *. simpl in HL, HT.
    destruct (nth L C dflt) as [dt v] eqn:EC. simpl in HT. subst dt.
    unfold serve_param, to_dtype, cell, aliased. simpl.
    destruct on_cpu; simpl.
    - rewrite EC. destruct (dtype_eqb train serve); simpl; [apply Nat.eqb_refl|apply Nat.eqb_neq; lia].
    - rewrite app_nth1 by lia. rewrite EC. destruct (dtype_eqb train serve); simpl; apply Nat.eqb_neq; [lia|rewrite app_length; simpl; lia].
  Qed.
End ModeProofs.

Definition demo_cast (d : dtype) (v : Z) : Z := match d with BF16 => (v / 256) * 256 | _ => v end.

(* What a snapshot stores is state.model.state_dict() AS IT IS AT SAVE TIME.  The hooks run after train_step's
   closing serve_mode(), so this is the serving-precision tensor; it is the training parameter only when no
   conversion happened (serve_dtype = train_dtype: always on cpu, where Config forces it). *)
Section SnapshotOfServedModel.
  Context {T : Type}.
  Variable cast : dtype -> T -> T.
  Theorem snapshot_after_serve_exact_same_dtype : forall on_cpu train dflt (p : @pstate T), wf_param train dflt p ->
    let q := serve_param cast on_cpu train p dflt in cell q (live q) dflt = cell p (live p) dflt.
  Proof.
    intros on_cpu train dflt [C L M] [HL HT]. unfold cell in *. simpl in HL, HT.
    destruct (nth L C dflt) as [dt v] eqn:EC. simpl in HT. subst dt.
    unfold serve_param, to_dtype, cell. simpl. destruct on_cpu; simpl.
    - rewrite EC, dtype_eqb_refl. simpl. exact EC.
    - rewrite app_nth1 by lia. rewrite EC, dtype_eqb_refl. simpl. rewrite app_nth1 by lia. exact EC.
  Qed.
End SnapshotOfServedModel.

Example ex_wf_param : wf_param F32 (F32, 0) (mkP [(F32, 5)] 0 None).
Proof. split; [simpl; lia|reflexivity]. Qed.

(* the mutant of DESIGN section 9: if the conversion to the serving dtype wrote into the storage the master copy
   aliases (CPU, v.cpu() is v), the master copy would be lost.  cast BF16 drops the low byte here. *)
(* with serve_dtype <> train_dtype (the default on cuda: float16) the tensor a snapshot stores is the converted one:
   the full-precision master copy (TrainingRun.train_params) is in no snapshot.  Known finding
   `serve-precision-snapshot`; reproduced on the implementation by the correspondence with serve_dtype=bfloat16. *)
Theorem master_copy_in_snapshot_refuted :
  exists (p : @pstate Z), wf_param F32 (F32, 0) p /\
    let q := serve_param demo_cast true BF16 p (F32, 0) in
    cell q (live q) (F32, 0) <> cell p (live p) (F32, 0) /\          (* what model.pt gets *)
    (match master q with Some i => cell q i (F32, 0) | None => (F32, 0) end) = cell p (live p) (F32, 0).   (* what only train_params holds *)
Proof. exists (mkP [(F32, 1000)] 0 None). split; [split; [simpl; lia|reflexivity]|]. vm_compute. split; [intro H; discriminate|reflexivity]. Qed.

(* a tensor the forward pass reads that is NOT a state_dict entry (e.g. a non-persistent buffer) is converted by
   model.to(serve_dtype) and converted back, never restored: the hypothesis of mode_roundtrip_all_exact is needed *)
Theorem tensor_outside_state_dict_refuted :
  exists (p : @pstate Z), wf_param F32 (F32, 0) p /\
    let t' := train_tensor demo_cast F32 (F32, 0) (serve_tensor demo_cast true BF16 (F32, 0) (false, p)) in
    cell (snd t') (live (snd t')) (F32, 0) <> cell p (live p) (F32, 0).
Proof. exists (mkP [(F32, 1000)] 0 None). split; [split; [simpl; lia|reflexivity]|]. vm_compute. intro H; discriminate. Qed.

Example inplace_conversion_loses_master_refuted :
  let p := mkP [(F32, 1000)] 0 None in
  let aliased_p := mkP (cells p) (live p) (Some (live p)) in
  let served := to_dtype_inplace demo_cast BF16 aliased_p (F32, 0) in
  cell (train_param demo_cast F32 served (F32, 0)) 0%nat (F32, 0) <> cell p 0%nat (F32, 0).
Proof. vm_compute. intro H; discriminate. Qed.
