(* all_moves_for_size: the table of a size is exactly the well-formed move
   universe of that size, without repetition. *)
From Coq Require Import ZArith List Bool Lia.
From TV Require Import model.Tak proofs.ListUtil proofs.Slides spec.MoveSpec.
Import ListNotations.
Open Scope Z_scope.

Lemma in_zrange n x : In x (zrange n) <-> 0 <= x < n.
Proof.
  unfold zrange. rewrite in_map_iff. split.
  - intros (k & <- & Hk). apply in_seq in Hk. lia.
  - intros H. exists (Z.to_nat x). split; [lia|]. apply in_seq. lia.
Qed.

Lemma zrange_nodup n : NoDup (zrange n).
Proof. apply NoDup_seq_Z. Qed.

Lemma good_slide_drops n s : good_slide n s <-> good_drops n s.
Proof. reflexivity. Qed.

Definition slide_entries (n x y : Z) : list mv :=
  flat_map (fun s => flat_map (fun dl : mtype * Z =>
                        if zlen s <=? snd dl then [mkMove x y (fst dl) (Some s)] else [])
                      (dirs_for n x y))
           (all_slides (Z.to_nat n)).

Lemma in_slide_entries n x y m : 0 <= n ->
  In m (slide_entries n x y) <->
  exists s t l, good_drops n s /\ In (t, l) (dirs_for n x y) /\ zlen s <= l /\ m = mkMove x y t (Some s).
Proof.
  intros Hn. unfold slide_entries. rewrite in_flat_map. split.
  - intros (s & Hs & Hin). apply all_slides_spec in Hs. rewrite Z2Nat.id in Hs by lia.
    apply in_flat_map in Hin. destruct Hin as ((t, l) & Hdl & Hm). simpl in Hm.
    destruct (zlen s <=? l) eqn:E; [|destruct Hm]. destruct Hm as [<-|[]].
    exists s, t, l. repeat split; try apply Hs; [assumption|lia].
  - intros (s & t & l & Hs & Hdl & Hle & ->). exists s. split.
    + apply all_slides_spec. rewrite Z2Nat.id by lia. exact Hs.
    + apply in_flat_map. exists (t, l). split; [assumption|]. simpl.
      destruct (zlen s <=? l) eqn:E; [left; reflexivity|lia].
Qed.

Lemma table_square_eq n x y :
  table_square n x y =
  [mkMove x y PlaceFlat None; mkMove x y PlaceStanding None; mkMove x y PlaceCapstone None]
    ++ slide_entries n x y.
Proof. reflexivity. Qed.

Lemma in_table n m :
  In m (table n) <-> exists x y, 0 <= x < n /\ 0 <= y < n /\ In m (table_square n x y).
Proof.
  unfold table. rewrite in_flat_map. split.
  - intros (x & Hx & Hin). apply in_flat_map in Hin. destruct Hin as (y & Hy & Hm).
    apply in_zrange in Hx. apply in_zrange in Hy. eauto.
  - intros (x & y & Hx & Hy & Hm). exists x. split; [apply in_zrange; assumption|].
    apply in_flat_map. exists y. split; [apply in_zrange; assumption|assumption].
Qed.

Lemma in_table_square_xy n x y m : In m (table_square n x y) -> mx m = x /\ my m = y.
Proof.
  rewrite table_square_eq. intros H. apply in_app_or in H. destruct H as [H|H].
  - simpl in H. destruct H as [<-|[<-|[<-|[]]]]; auto.
  - unfold slide_entries in H. apply in_flat_map in H. destruct H as (s & _ & H).
    apply in_flat_map in H. destruct H as (dl & _ & H).
    destruct (zlen s <=? snd dl); [|destruct H]. destruct H as [<-|[]]. auto.
Qed.

Theorem table_spec n m : 0 <= n -> (In m (table n) <-> wf_move n m).
Proof.
  intros Hn. rewrite in_table. split.
  - intros (x & y & Hx & Hy & Hm). rewrite table_square_eq in Hm.
    apply in_app_or in Hm. destruct Hm as [Hm|Hm].
    + simpl in Hm. destruct Hm as [<-|[<-|[<-|[]]]]; unfold wf_move; simpl; auto.
    + apply in_slide_entries in Hm; [|assumption].
      destruct Hm as (s & t & l & Hs & Hdl & Hle & ->). unfold wf_move. simpl.
      assert (Hlen : 0 <= zlen s) by (unfold zlen; lia).
      unfold dirs_for in Hdl. simpl in Hdl.
      destruct Hdl as [E|[E|[E|[E|[]]]]]; injection E as <- <-; simpl;
        (split; [assumption|split; [assumption|]]); exists s; (split; [reflexivity|split; [assumption|lia]]).
  - intros (Hx & Hy & Hm). exists (mx m), (my m). split; [assumption|split; [assumption|]].
    rewrite table_square_eq. apply in_or_app. destruct m as [x y t sl]. simpl in *.
    destruct t; simpl in Hm; try (subst sl; left; simpl; tauto).
    all: right; destruct Hm as (s & -> & Hs & Hbx & Hby); apply in_slide_entries; [assumption|];
      exists s; eexists; eexists; (split; [exact Hs|]); unfold dirs_for.
    + split; [left; reflexivity|]. simpl in *. split; [lia|reflexivity].
    + split; [right; left; reflexivity|]. simpl in *. split; [lia|reflexivity].
    + split; [right; right; right; left; reflexivity|]. simpl in *. split; [lia|reflexivity].
    + split; [right; right; left; reflexivity|]. simpl in *. split; [lia|reflexivity].
Qed.

Lemma slide_entries_nodup n x y : NoDup (slide_entries n x y).
Proof.
  unfold slide_entries. apply NoDup_flat_map.
  - apply all_slides_nodup.
  - intros s _. unfold dirs_for. simpl.
    repeat match goal with |- context [if ?c then _ else _] => destruct c end; simpl;
      repeat constructor; simpl; intuition congruence.
  - intros a b m _ _ Ha Hb.
    assert (H : forall s, In m (flat_map (fun dl : mtype * Z =>
                 if zlen s <=? snd dl then [mkMove x y (fst dl) (Some s)] else []) (dirs_for n x y)) ->
                 mslides m = Some s).
    { intros s H. apply in_flat_map in H. destruct H as (dl & _ & H).
      destruct (zlen s <=? snd dl); [|destruct H]. destruct H as [<-|[]]. reflexivity. }
    apply H in Ha. apply H in Hb. congruence.
Qed.

Lemma table_square_nodup n x y : NoDup (table_square n x y).
Proof.
  rewrite table_square_eq. apply NoDup_app.
  - repeat constructor; simpl; intuition congruence.
  - apply slide_entries_nodup.
  - intros m H1 H2. unfold slide_entries in H2. apply in_flat_map in H2. destruct H2 as (s & _ & H2).
    apply in_flat_map in H2. destruct H2 as (dl & Hdl & H2).
    destruct (zlen s <=? snd dl); [|destruct H2]. destruct H2 as [<-|[]].
    simpl in H1. intuition congruence.
Qed.

Theorem table_nodup n : NoDup (table n).
Proof.
  unfold table. apply NoDup_flat_map.
  - apply zrange_nodup.
  - intros x _. apply NoDup_flat_map.
    + apply zrange_nodup.
    + intros y _. apply table_square_nodup.
    + intros a b m _ _ Ha Hb. apply in_table_square_xy in Ha. apply in_table_square_xy in Hb.
      destruct Ha, Hb. congruence.
  - intros a b m _ _ Ha Hb.
    apply in_flat_map in Ha. destruct Ha as (y1 & _ & Ha). apply in_table_square_xy in Ha.
    apply in_flat_map in Hb. destruct Hb as (y2 & _ & Hb). apply in_table_square_xy in Hb.
    destruct Ha, Hb. congruence.
Qed.
