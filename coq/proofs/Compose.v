(* Compositions across properties: results of one package restated with the
   declarative notions of another. *)
From Coq Require Import ZArith List Bool Lia.
From TV Require Import model.Tak spec.MoveSpec spec.Rules proofs.MoveRules proofs.Generator.
Import ListNotations.
Open Scope Z_scope.

Lemma wf_pos_wf p : Rules.wf_pos p -> Generator.wf p.
Proof. intros (Hs & Hl & _). split; [lia|exact Hl]. Qed.

(* C03 with "legal" read as the rulebook relation of C01 *)
Theorem generator_complete_rulebook p m p' :
  Rules.wf_pos p -> canonical m -> legal_step p m p' ->
  In m (all_moves p) /\ count_occ mv_eq_dec (all_moves p) m = 1%nat /\
  In m (table (size p)).
Proof.
  intros Hwf Hc Hl. apply (move_complete p m p' Hwf) in Hl.
  pose proof (wf_pos_wf p Hwf) as Hw.
  split; [eapply gen_complete; eassumption|]. split; [eapply gen_count_once; eassumption|].
  apply (gen_in_table p); [destruct Hw; assumption|]. eapply gen_complete; eassumption.
Qed.

Theorem table_filter_is_rulebook p :
  Rules.wf_pos p ->
  NoDup (filter (accepted p) (table (size p))) /\
  forall m, In m (filter (accepted p) (table (size p))) <-> canonical m /\ exists p', legal_step p m p'.
Proof.
  intros Hwf. destruct (populate_reaches_all p (wf_pos_wf p Hwf)) as (Hnd & Hiff).
  split; [exact Hnd|]. intros m. rewrite Hiff. split; intros (Hc & p' & H); (split; [exact Hc|]); exists p'.
  - apply move_sound; assumption.
  - apply move_complete; assumption.
Qed.
