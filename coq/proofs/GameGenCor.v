(* T01 - the theorems of C01 / C02 / C03 / C04 about the hand-written model,
   transported to the functions regenerated from the source (gen/GameGen.v)
   through the equalities of proofs/GameGenEq.v. *)
From Coq Require Import ZArith String List Bool Lia.
From TV Require Import model.Tak model.Road model.PySem spec.Rules spec.MoveSpec.
From TV Require Import proofs.PySemLemmas proofs.MoveRules proofs.Generator proofs.Compose proofs.Invariant.
From TV Require spec.RoadSpec proofs.RoadProofs.
From TV Require Import proofs.GameGenEq.
From TV Require gen.GameGen.
Import ListNotations.
Open Scope Z_scope.

Lemma wf_pos_shape p : wf_pos p -> shape p.
Proof. intros (_ & Hl & _). exact Hl. Qed.

(* ---------- C01 on the translated source ---------- *)
(* the translated move returns a successor exactly when the rulebook relation allows it, with that successor;
   EVERY move value, including a slide whose slides field is None (never `Ok`) *)
Theorem gen_move_iff p m p' : wf_pos p -> (GameGen.move p m = Ok p' <-> legal_step p m p').
Proof.
  intros Hwf. rewrite (gen_move_ok_iff p m p' (wf_pos_shape p Hwf)). apply move_iff. exact Hwf.
Qed.

(* accepted with the prescribed successor, or refused with IllegalMove exactly when the rules allow nothing:
   no third outcome (no Crash) for any move whose slide carries a tuple *)
Theorem gen_move_total p m : wf_pos p -> slide_has_drops m ->
  (exists p', GameGen.move p m = Ok p' /\ legal_step p m p') \/
  (GameGen.move p m = Illegal /\ ~ exists p', legal_step p m p').
Proof.
  intros Hwf Hd. rewrite (gen_move_eq p m (wf_pos_shape p Hwf) Hd).
  destruct (move_total p m Hwf) as [(q & Hq & Hl)|(Hn & Hl)].
  - left. exists q. rewrite Hq. split; [reflexivity|exact Hl].
  - right. rewrite Hn. split; [reflexivity|exact Hl].
Qed.

Theorem gen_move_ok_or_illegal p m : wf_pos p -> slide_has_drops m ->
  (exists p', GameGen.move p m = Ok p') \/ GameGen.move p m = Illegal.
Proof.
  intros Hwf Hd. destruct (gen_move_total p m Hwf Hd) as [(q & Hq & _)|(Hn & _)]; [left; exists q; exact Hq|right; exact Hn].
Qed.

(* ---------- C03 on the translated source ---------- *)
(* every canonical move the translated `move` accepts is listed by the translated `all_moves`, exactly once,
   and is an entry of the translated id table of the size *)
Theorem gen_generator_complete p m p' : wf_pos p -> canonical m -> GameGen.move p m = Ok p' ->
  exists l t, GameGen.all_moves p = Ok l /\ GameGen.all_moves_for_size (size p) = Ok t /\
              In m l /\ count_occ mv_eq_dec l m = 1%nat /\ In m t /\ incl l t.
Proof.
  intros Hwf Hc Hm. pose proof (wf_pos_shape p Hwf) as Hs. destruct Hwf as (Hn & Hl & Hb).
  apply (gen_move_ok_iff p m p' Hs) in Hm.
  assert (Hw : wf p) by (split; [lia|exact Hl]).
  exists (all_moves p), (table (size p)).
  split; [apply gen_all_moves_eq; [exact Hs|lia]|].
  split; [apply gen_table_eq; lia|].
  split; [eapply gen_complete; eassumption|].
  split; [eapply gen_count_once; eassumption|].
  split; [apply (gen_in_table p); [lia|eapply gen_complete; eassumption]|].
  apply gen_in_table. lia.
Qed.

(* the same with "legal" read as the rulebook relation *)
Theorem gen_generator_complete_rulebook p m p' : wf_pos p -> canonical m -> legal_step p m p' ->
  exists l, GameGen.all_moves p = Ok l /\ In m l /\ count_occ mv_eq_dec l m = 1%nat.
Proof.
  intros Hwf Hc Hl. apply (gen_move_iff p m p' Hwf) in Hl.
  destruct (gen_generator_complete p m p' Hwf Hc Hl) as (l & t & H1 & _ & H3 & H4 & _).
  exists l. auto.
Qed.

(* ---------- C04 on the translated source ---------- *)
Theorem gen_inv_step cfg p m p' : Inv cfg p -> GameGen.move p m = Ok p' -> Inv cfg p' /\ ply p' = ply p + 1.
Proof.
  intros HI Hm. apply (gen_move_ok_iff p m p' (wf_pos_shape p (inv_wf_pos cfg p HI))) in Hm.
  eapply inv_step; eassumption.
Qed.

Theorem gen_wf_step p m p' : wf_pos p -> GameGen.move p m = Ok p' -> wf_pos p'.
Proof.
  intros Hwf Hm. apply (gen_move_ok_iff p m p' (wf_pos_shape p Hwf)) in Hm. eapply wf_step; eassumption.
Qed.

(* ---------- C02 on the translated source (winner calls the TRANSLATED has_road / _walk) ---------- *)
(* the translated road search answers the declarative road question *)
Theorem gen_has_road_verdict p : RoadSpec.wf_pos p -> forall o, RoadSpec.road_verdict p o <-> GameGen.has_road p = Ok o.
Proof.
  intros Hwf o. rewrite (gen_has_road_eq p Hwf), (RoadProofs.has_road_spec p Hwf o).
  split; intros H; [rewrite H; reflexivity|injection H as H; exact H].
Qed.

Theorem gen_winner_outcome p : RoadSpec.wf_pos p -> forall r, RoadSpec.outcome p r <-> GameGen.winner p = Ok r.
Proof.
  intros Hwf r. rewrite (gen_winner_eq p Hwf). rewrite (RoadProofs.winner_spec p Hwf r).
  split; intros H; [rewrite H; reflexivity|injection H as H; exact H].
Qed.

(* ---------- the hypotheses are satisfiable: concrete non-trivial instances ---------- *)
(* the position of MoveRules.ex_pos: a lone capstone flattens a wall on the second step of a slide *)
Example gen_move_nonvacuous :
  wf_pos MoveRules.ex_pos /\ shape MoveRules.ex_pos /\ slide_has_drops MoveRules.ex_move /\
  GameGen.move MoveRules.ex_pos MoveRules.ex_move = Ok MoveRules.ex_succ /\
  (* refused, not crashed: zero drop (carry[-0:] hazard), off-board square that would alias a2 through a
     negative index, drop tuple longer than the carry *)
  GameGen.move MoveRules.ex_pos (mkMove 2 2 SlideRight (Some [0; 2])) = Illegal /\
  GameGen.move MoveRules.ex_pos (mkMove (-1) 1 PlaceFlat None) = Illegal /\
  GameGen.move MoveRules.ex_pos (mkMove 2 2 SlideLeft (Some [1; 1; 1])) = Illegal /\
  (* outside the domain: a slide without a tuple is a TypeError in the code and a Crash here *)
  GameGen.move MoveRules.ex_pos (mkMove 2 2 SlideRight None) = Crash TypeError.
Proof.
  split; [exact MoveRules.ex_wf|]. split; [apply wf_pos_shape; exact MoveRules.ex_wf|].
  split; [intros _; discriminate|]. repeat split; vm_compute; reflexivity.
Qed.

Example gen_generator_nonvacuous :
  canonical MoveRules.ex_move /\
  exists l, GameGen.all_moves MoveRules.ex_pos = Ok l /\ In MoveRules.ex_move l.
Proof.
  split; [exists [1; 1]; reflexivity|].
  destruct (gen_generator_complete MoveRules.ex_pos MoveRules.ex_move MoveRules.ex_succ MoveRules.ex_wf)
    as (l & t & H1 & _ & H3 & _).
  - exists [1; 1]. reflexivity.
  - vm_compute. reflexivity.
  - exists l. split; assumption.
Qed.

Example gen_winner_nonvacuous :
  RoadSpec.wf_pos MoveRules.ex_pos /\ GameGen.winner MoveRules.ex_pos = Ok (None, None).
Proof. split; [split; [cbn; lia|reflexivity]|vm_compute; reflexivity]. Qed.
