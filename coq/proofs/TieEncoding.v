(* Tie (G) for C06.  model/Encoding.v reads the token values straight from the
   regenerated gen/Consts.v, so "the constants the model uses" ARE the ones of
   the tree under test; what is left to tie is (a) the TOP_PIECES dictionary
   against the model's top_token, (b) the sizes / first values of the RESERVES
   and CAPSTONES tables against the numbers the domain `encodable` and decode()
   rely on, (c) pad value = EMPTY, and (d) the facts about the vocabulary the
   proofs need: distinct, byte-sized, contiguous.  All closed by computation;
   a changed constant that breaks one of them fails a Qed here. *)
From Coq Require Import ZArith List Bool.
From TV Require gen.Consts.
From TV Require Import model.Tak model.Encoding.
Import ListNotations.
Open Scope Z_scope.

(* (a) TOP_PIECES[(mine, kind)] as dumped (0 = mine, 1 = theirs; kind value) *)
Lemma tie_top_pieces :
  Consts.top_pieces =
  [(0, 0, top_token true Flat); (0, 1, top_token true Standing); (0, 2, top_token true Capstone);
   (1, 0, top_token false Flat); (1, 1, top_token false Standing); (1, 2, top_token false Capstone)].
Proof. reflexivity. Qed.

(* (b) what `encodable` calls "the vocabulary can index" *)
Lemma tie_vocab_sizes : zlen Consts.tok_RESERVES = 50 /\ zlen Consts.tok_CAPSTONES = 2.
Proof. split; reflexivity. Qed.
Lemma tie_first_values :
  hd_error Consts.tok_RESERVES = Some Consts.tok_FIRST_RESERVES_VALUE /\
  hd_error Consts.tok_CAPSTONES = Some Consts.tok_FIRST_CAPSTONES_VALUE.
Proof. split; reflexivity. Qed.

(* (c) torch.zeros pads with the value of Token.EMPTY: a padded row alone does
   not tell padding from empty squares - the mask is needed *)
Lemma tie_pad_is_empty : Consts.tok_EMPTY = pad_value.
Proof. reflexivity. Qed.

(* (d) the vocabulary *)
Definition scalar_tokens : list Z :=
  [Consts.tok_EMPTY; Consts.tok_MY_TOP_FLAT; Consts.tok_MY_FLAT; Consts.tok_MY_STANDING;
   Consts.tok_MY_CAPSTONE; Consts.tok_THEIR_TOP_FLAT; Consts.tok_THEIR_FLAT;
   Consts.tok_THEIR_STANDING; Consts.tok_THEIR_CAPSTONE; Consts.tok_WHITE_TO_PLAY;
   Consts.tok_BLACK_TO_PLAY; Consts.tok_OUTPUT_SENTINEL].
Definition vocabulary : list Z := scalar_tokens ++ Consts.tok_RESERVES ++ Consts.tok_CAPSTONES.

Fixpoint nodupb (l : list Z) : bool :=
  match l with [] => true | x :: t => negb (zmem x t) && nodupb t end.
Definition byteb (t : Z) : bool := (0 <=? t) && (t <? 256).

Lemma tie_vocabulary_distinct : nodupb vocabulary = true.
Proof. vm_compute. reflexivity. Qed.
Lemma tie_vocabulary_bytes : forallb byteb vocabulary = true.
Proof. vm_compute. reflexivity. Qed.

(* RESERVES[n] / CAPSTONES[n] is in the table and decode()'s subtraction of the
   first value gives n back, for every index of the table *)
Definition idx_ok (l : list Z) (first n : Z) : bool :=
  match py_index l n with
  | Some t => zmem t l && (t - first =? n)
  | None => false
  end.
Lemma tie_reserves_index :
  forallb (idx_ok Consts.tok_RESERVES Consts.tok_FIRST_RESERVES_VALUE) (zrange 50) = true.
Proof. vm_compute. reflexivity. Qed.
Lemma tie_capstones_index :
  forallb (idx_ok Consts.tok_CAPSTONES Consts.tok_FIRST_CAPSTONES_VALUE) (zrange 2) = true.
Proof. vm_compute. reflexivity. Qed.
