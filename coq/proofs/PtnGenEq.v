(* T14 - ptn.format_move REGENERATED from python/tak/ptn/ptn.py (gen/PtnGen.v, written against model/PySem.v) equals
   the hand-written model/Ptn.v `format_move` on the domain the model covers:
     * chr(x + ord("a")), chr(y + ord("1")), chr(d + ord("0")) get arguments in range(0x110000) (outside, Python raises
       ValueError where the model carries the number along),
     * a slide carries a tuple (sum(None) / len(None) raise TypeError; the model formats None as the empty tuple),
     * the pick-up count has at most 4300 digits (str() raises ValueError above).
   `bits` holds strings and - for a slide that picks up more than one piece - an int; "".join(map(str, bits)). *)
From Coq Require Import ZArith String List Bool Lia.
From TV Require Import model.Tak model.PySem model.Tps model.Ptn.
From TV Require Import proofs.MoveRulesUtil proofs.PySemLemmas proofs.GameGenEq proofs.TpsGenEq.
From TV Require gen.GameGen gen.PtnGen.
Import ListNotations.
Open Scope Z_scope.

Definition code_point (c : Z) : Prop := 0 <= c < 1114112.

Definition fm_domain (m : mv) : Prop :=
  code_point (mx m + 97) /\ code_point (my m + 49) /\
  (is_slide (mt m) = true ->
     exists sl, mslides m = Some sl /\ Z.abs (zsum sl) < str_limit /\
                (1 < zlen sl -> Forall (fun d => code_point (d + 48)) sl)).

Lemma py_chr_ok c : code_point c -> py_chr c = Ok c.
Proof. intros H. unfold py_chr, code_point in *. replace ((0 <=? c) && (c <? 1114112)) with true by (symmetry; bool_lia). reflexivity. Qed.

Lemma dec_digits_eq f : forall n acc, Tps.digits_fuel f n acc = Ptn.dec_digits f n acc.
Proof. induction f as [|f IH]; intros n acc; [reflexivity|]. cbn. destruct (n <? 10); [reflexivity|]. apply IH. Qed.

Lemma str_z_eq n : Tps.str_of_Z n = Ptn.str_z n.
Proof. unfold Tps.str_of_Z, Ptn.str_z, Tps.digits, Ptn.str_nat. rewrite !dec_digits_eq. reflexivity. Qed.

Lemma mapM_chr sl : Forall (fun d => code_point (d + 48)) sl ->
  py_mapM (fun d => py_chr (d + ch "0")) sl = Ok (map (fun d => d + 48) sl).
Proof.
  induction 1 as [|d l Hd _ IH]; [reflexivity|]. cbn [py_mapM map]. change (ch "0") with 48 in *.
  rewrite (py_chr_ok _ Hd). cbn [bind]. rewrite IH. reflexivity.
Qed.

Lemma mapM_str_chars l : py_mapM py_str_val (map (fun c => VStr [c]) l) = Ok (map (fun c => [c]) l).
Proof. induction l as [|c l IH]; [reflexivity|]. cbn [py_mapM map py_str_val bind]. rewrite IH. reflexivity. Qed.

Lemma concat_singletons {A} (l : list A) : concat (map (fun c => [c]) l) = l.
Proof. induction l as [|c l IH]; [reflexivity|]. cbn. rewrite IH. reflexivity. Qed.

Lemma slide_glyph_get t : is_slide t = true ->
  py_dict_get_last mtype_eqb PtnGen.slide_rmap t = Ok [slide_glyph t].
Proof. destruct t; intros H; try discriminate H; reflexivity. Qed.

Lemma place_glyph_get t : py_dict_get_default mtype_eqb PtnGen.place_rmap t (pystr "") = place_glyph t.
Proof. destruct t; reflexivity. Qed.

Theorem gen_format_move_eq m : fm_domain m -> PtnGen.format_move m = Ok (Ptn.format_move m).
Proof.
  intros (Hx & Hy & Hs). unfold PtnGen.format_move, Ptn.format_move. cbv zeta.
  rewrite place_glyph_get, gen_is_slide_eq. change (ch "a") with 97. change (ch "1") with 49.
  rewrite !py_chr_ok by (unfold code_point in *; lia). cbn [app].
  destruct (is_slide (mt m)) eqn:Et.
  - destruct (Hs eq_refl) as (sl & Hsl & Hsum & Hdrops). unfold slides_or_empty. rewrite Hsl. cbn [py_iter_opt bind ret].
    unfold py_sum, len. rewrite (slide_glyph_get _ Et). cbn [bind ret].
    assert (Hpg : place_glyph (mt m) = []) by (destruct (mt m); try discriminate Et; reflexivity).
    rewrite Hpg. rewrite Z.gtb_ltb.
    destruct (zsum sl =? 1) eqn:E1; cbn [negb app bind ret]; destruct (1 <? zlen sl) eqn:E2; cbn [bind ret app].
    all: try (rewrite mapM_chr by (apply Hdrops; lia); cbn [bind ret app]).
    all: cbn [py_mapM py_str_val bind ret]; try rewrite mapM_str_chars; try rewrite (py_str_int_eq _ Hsum); cbn [bind ret].
    all: rewrite ?py_join_nil_concat; cbn [concat app]; rewrite ?concat_singletons, ?app_nil_r, ?str_z_eq.
    all: try reflexivity; repeat (f_equal; try lia).
  - cbn [bind ret app py_mapM py_str_val]. rewrite py_join_nil_concat. cbn [concat app]. rewrite ?app_nil_r.
    try reflexivity; repeat (f_equal; try lia).
Qed.

(* outside the domain, the three ways the code raises where the model carries on *)
Theorem gen_format_move_crashes :
  PtnGen.format_move (mkMove (-98) 0 PlaceFlat None) = Crash ValueError /\
  PtnGen.format_move (mkMove 0 0 SlideLeft None) = Crash TypeError /\
  PtnGen.format_move (mkMove 0 0 SlideUp (Some [1; -49])) = Crash ValueError.
Proof. repeat split; vm_compute; reflexivity. Qed.

(* ---------- the hypotheses are satisfiable ---------- *)
Example gen_format_move_nonvacuous :
  fm_domain (mkMove 2 3 SlideRight (Some [2; 1])) /\
  PtnGen.format_move (mkMove 2 3 SlideRight (Some [2; 1])) = Ok (pystr "3c4>21") /\
  PtnGen.format_move (mkMove 0 0 PlaceCapstone None) = Ok (pystr "Ca1") /\
  PtnGen.format_move (mkMove 7 7 SlideDown (Some [1])) = Ok (pystr "h8-").
Proof.
  split.
  - unfold fm_domain, code_point. cbn [mx my mt]. split; [lia|]. split; [lia|]. intros _. exists [2; 1].
    split; [reflexivity|]. split; [pose proof str_limit_big; cbn; lia|]. intros _. repeat constructor; cbn; lia.
  - repeat split; vm_compute; reflexivity.
Qed.

(* ---------- C14 transported: every move of the move universe (sizes 3..8) is in the domain ---------- *)
From TV Require Import spec.MoveSpec proofs.PtnProofs.

Lemma wf_move8_domain m : wf_move8 m -> fm_domain m.
Proof.
  intros (n & Hn & Hx & Hy & Hm). unfold fm_domain, code_point. split; [lia|]. split; [lia|]. intros Ht.
  rewrite Ht in Hm. destruct Hm as (s & Hs & (Hne & Hpos & Hsum) & _). exists s. split; [exact Hs|].
  destruct (zsum_bounds s Hpos) as (Hlen & Hd). pose proof str_limit_big. pose proof (zlen_nonneg s).
  split; [rewrite Z.abs_eq by lia; lia|]. intros _. apply Forall_forall. intros d Hin.
  specialize (Hd d Hin). rewrite Forall_forall in Hpos. specialize (Hpos d Hin). cbv beta in Hpos. lia.
Qed.

(* writing a move of the universe and reading it back with the hand model's parser returns the move *)
Theorem gen_parse_format_move m : wf_move8 m ->
  exists s, PtnGen.format_move m = Ok s /\ parse_move s = Accept m.
Proof.
  intros H. exists (Ptn.format_move m). split; [apply gen_format_move_eq, wf_move8_domain, H|apply parse_format_move, H].
Qed.
