(* C08 / C09: the bookkeeping invariant of the search tree (model/Mcts.v), its
   preservation by every simulation, and what follows from it for the inputs
   of the regularised-policy solver and for the move that is returned. *)
From Coq Require Import ZArith QArith Qabs List Bool Lia Lqa.
From TV Require Import model.Tak model.Road model.Mcts proofs.ListUtil proofs.Table.
Import ListNotations.
Open Scope Q_scope.

(* ------------------------------------------------------------------ *)
(* lists                                                                *)
(* ------------------------------------------------------------------ *)
Lemma upd_nth_map {A B} (g : A -> B) l i (a : A) :
  map g (upd_nth l i a) = upd_nth (map g l) i (g a).
Proof. revert i; induction l as [|h t IH]; intros [|i]; simpl; auto. f_equal; auto. Qed.

Lemma upd_nth_same {A} (l : list A) i x : nth_error l i = Some x -> upd_nth l i x = l.
Proof.
  revert i; induction l as [|h t IH]; intros [|i] H; simpl in *; try discriminate; auto.
  - inversion H; reflexivity.
  - f_equal; auto.
Qed.

Lemma upd_nth_map_same {A B} (g : A -> B) l i x y :
  nth_error l i = Some x -> g y = g x -> map g (upd_nth l i y) = map g l.
Proof.
  intros H E. rewrite upd_nth_map, E. apply upd_nth_same.
  rewrite nth_error_map, H. reflexivity.
Qed.

Lemma sumn_upd l i x y :
  nth_error l i = Some x -> (sumn (upd_nth l i y) + x = sumn l + y)%nat.
Proof.
  revert i; induction l as [|h t IH]; intros [|i] H; simpl in *; try discriminate.
  - inversion H; subst. lia.
  - specialize (IH _ H). lia.
Qed.

Lemma sumq_upd l i x y :
  nth_error l i = Some x -> sumq (upd_nth l i y) + x == sumq l + y.
Proof.
  revert i; induction l as [|h t IH]; intros [|i] H; simpl in *; try discriminate.
  - inversion H; subst. ring.
  - specialize (IH _ H). lra.
Qed.

Lemma Forall_upd {A} (P : A -> Prop) l i a : Forall P l -> P a -> Forall P (upd_nth l i a).
Proof. intros H; revert i; induction H as [|h t Hh Ht IH]; intros [|i] Ha; simpl; constructor; auto. Qed.

Lemma nth_error_map' {A B} (g : A -> B) l i a :
  nth_error l i = Some a -> nth_error (map g l) i = Some (g a).
Proof. intros H. rewrite nth_error_map, H. reflexivity. Qed.

Lemma qnat_S k : qnat (S k) == qnat k + 1.
Proof. unfold qnat. rewrite Nat2Z.inj_succ. unfold Z.succ. rewrite inject_Z_plus. reflexivity. Qed.
Lemma qnat_0 : qnat 0 == 0.
Proof. reflexivity. Qed.
Lemma qnat_nonneg k : 0 <= qnat k.
Proof. unfold qnat. change 0 with (inject_Z 0). rewrite <- Zle_Qle. lia. Qed.
Lemma qnat_plus a b : qnat (a + b) == qnat a + qnat b.
Proof. unfold qnat. rewrite Nat2Z.inj_add, inject_Z_plus. reflexivity. Qed.
Lemma qnat_pos k : 0 < qnat (S k).
Proof. pose proof (qnat_S k). pose proof (qnat_nonneg k). lra. Qed.

(* the three outcomes *)
Lemma terminal_cases p o : terminal p = Some o -> o = 1 \/ o = -1 \/ o = 0.
Proof.
  unfold terminal. destruct (winner p) as [[c|] [r|]]; intros H; inversion H; auto.
  destruct (color_eqb c (to_move p)); auto.
Qed.

(* the outcome is the one Position.winner() dictates, for the side to move *)
Lemma terminal_outcome p :
  terminal p = match winner p with
               | (_, None) => None
               | (Some c, Some _) => Some (if color_eqb c (to_move p) then 1 else -1)
               | (None, Some _) => Some 0
               end.
Proof. reflexivity. Qed.

Section Search.
  Variable cutoff : Q.
  Variable mix : Q.

  Notation accepted := (accepted cutoff).
  Notation simulate := (simulate cutoff mix).
  Notation run := (run cutoff mix).
  Notation analyze := (analyze cutoff mix).
  Notation live := (live cutoff).

  (* ---------------------------------------------------------------- *)
  (* what `accepted` lists                                             *)
  (* ---------------------------------------------------------------- *)
  Definition passes (p : position) (mq : mv * Q) : bool :=
    Qle_bool cutoff (snd mq) && match move p (fst mq) with Some _ => true | None => false end.

  Definition acc_of (p : position) (l : list (mv * Q)) : list cand :=
    flat_map (fun mq : mv * Q =>
                if Qle_bool cutoff (snd mq) then
                  match move p (fst mq) with
                  | Some c => [(fst mq, snd mq, c)]
                  | None => []
                  end
                else []) l.

  Lemma accepted_acc_of p pri : accepted p pri = acc_of p (combine (table (size p)) pri).
  Proof. reflexivity. Qed.

  Lemma in_acc_of p l c :
    In c (acc_of p l) <->
    In (c_mv c, c_prior c) l /\ cutoff <= c_prior c /\ move p (c_mv c) = Some (c_pos c).
  Proof.
    unfold acc_of. rewrite in_flat_map. split.
    - intros ((m, q) & Hin & Hc). simpl in Hc.
      destruct (Qle_bool cutoff q) eqn:Eq; [|contradiction].
      destruct (move p m) as [c'|] eqn:Em; [|contradiction].
      simpl in Hc. destruct Hc as [Hc|Hc]; [|contradiction]. subst c. unfold c_mv, c_prior, c_pos; simpl.
      repeat split; auto. apply Qle_bool_iff; assumption.
    - intros (Hin & Hq & Hm). exists (c_mv c, c_prior c). split; [assumption|]. simpl.
      apply Qle_bool_iff in Hq. rewrite Hq, Hm. left.
      destruct c as [[m q] c']; reflexivity.
  Qed.

  Lemma acc_of_moves p l : map c_mv (acc_of p l) = map fst (filter (passes p) l).
  Proof.
    induction l as [|[m q] t IH]; simpl; [reflexivity|].
    unfold passes at 1; simpl.
    destruct (Qle_bool cutoff q); simpl; [|assumption].
    destruct (move p m); simpl; [f_equal|]; assumption.
  Qed.

  Lemma in_map_fst_combine {A B} (l : list A) (l' : list B) x :
    In x (map fst (combine l l')) -> In x l.
  Proof.
    revert l'; induction l as [|h t IH]; intros [|h' t']; simpl; auto; try contradiction.
    intros [H|H]; eauto.
  Qed.
  Lemma nodup_fst_combine {A B} (l : list A) (l' : list B) : NoDup l -> NoDup (map fst (combine l l')).
  Proof.
    intros H; revert l'; induction H as [|h t Hh Ht IH]; intros [|h' t']; simpl; try constructor; auto.
    intros Hin. apply Hh. eapply in_map_fst_combine; eassumption.
  Qed.
  Lemma nodup_fst_filter {A B} (f : A * B -> bool) (l : list (A * B)) :
    NoDup (map fst l) -> NoDup (map fst (filter f l)).
  Proof.
    induction l as [|h t IH]; simpl; intros H; [constructor|].
    inversion H as [|? ? Hh Ht]; subst.
    destruct (f h); simpl; auto. constructor; auto.
    intros Hin. apply Hh. apply in_map_iff in Hin. destruct Hin as (x & Ex & Hx).
    apply filter_In in Hx. apply in_map_iff. exists x. tauto.
  Qed.

  (* the accepted moves, in table order, are the table moves that pass; each once *)
  Theorem accepted_moves p pri :
    map c_mv (accepted p pri) = map fst (filter (passes p) (combine (table (size p)) pri)).
  Proof. apply acc_of_moves. Qed.

  Theorem accepted_nodup p pri : NoDup (map c_mv (accepted p pri)).
  Proof.
    rewrite accepted_moves. apply nodup_fst_filter, nodup_fst_combine, table_nodup.
  Qed.

  (* membership, by table index: id i is a child iff its prior reaches the
     cutoff and the rules accept the move; the child holds move p m *)
  Theorem accepted_spec p pri m q c :
    In (m, q, c) (accepted p pri) <->
    (exists i, nth_error (table (size p)) i = Some m /\ nth_error pri i = Some q) /\
    cutoff <= q /\ move p m = Some c.
  Proof.
    rewrite accepted_acc_of, in_acc_of. unfold c_mv, c_prior, c_pos; simpl.
    assert (E : In (m, q) (combine (table (size p)) pri) <->
                exists i, nth_error (table (size p)) i = Some m /\ nth_error pri i = Some q).
    { generalize (table (size p)) as l. intros l; revert pri.
      induction l as [|h t IH]; intros [|h' t']; simpl.
      - split; [contradiction|]. intros ([|i] & H & _); discriminate.
      - split; [contradiction|]. intros ([|i] & H & _); discriminate.
      - split; [contradiction|]. intros ([|i] & _ & H); discriminate.
      - rewrite IH. split.
        + intros [H|(i & H1 & H2)].
          * inversion H; subst. exists 0%nat. split; reflexivity.
          * exists (S i). split; assumption.
        + intros ([|i] & H1 & H2); simpl in *.
          * left. inversion H1; inversion H2; reflexivity.
          * right. exists i. split; assumption. }
    rewrite E. tauto.
  Qed.

  Lemma accepted_prior_ge p pri : Forall (fun q => cutoff <= q) (map c_prior (accepted p pri)).
  Proof.
    apply Forall_forall. intros q Hq. apply in_map_iff in Hq. destruct Hq as (c & E & Hc).
    rewrite accepted_acc_of in Hc. apply in_acc_of in Hc. subst q. tauto.
  Qed.

  (* ---------------------------------------------------------------- *)
  (* the invariant                                                     *)
  (* ---------------------------------------------------------------- *)
  Definition n_key (k : node) : option mv * position := (n_move k, n_pos k).
  Definition c_key (c : cand) : option mv * position := (Some (c_mv c), c_pos c).

  Inductive Good : node -> Prop :=
  | G_unvisited p m : Good (Node p m 0 0 0 [] [] None)
  | G_terminal p m o value k :
      terminal p = Some o ->
      value == qnat (S k) * o ->
      Good (Node p m o value (S k) [] [] None)
  | G_expanded p m v0 value sims raw probs ks :
      terminal p = None ->
      Forall Good ks ->
      sims = S (sumn (map n_sims ks)) ->
      value == v0 - sumq (map n_value ks) ->
      map n_key ks = map c_key (accepted p raw) ->
      probs = renorm (map c_prior (accepted p raw)) ->
      Good (Node p m v0 value sims raw probs (Some ks)).

  (* induction principle that reaches the children *)
  Section GoodInd.
    Variable P : node -> Prop.
    Hypothesis Hun : forall p m, P (Node p m 0 0 0 [] [] None).
    Hypothesis Hte : forall p m o value k,
        terminal p = Some o -> value == qnat (S k) * o -> P (Node p m o value (S k) [] [] None).
    Hypothesis Hex : forall p m v0 value sims raw probs ks,
        terminal p = None -> Forall Good ks -> Forall P ks ->
        sims = S (sumn (map n_sims ks)) ->
        value == v0 - sumq (map n_value ks) ->
        map n_key ks = map c_key (accepted p raw) ->
        probs = renorm (map c_prior (accepted p raw)) ->
        P (Node p m v0 value sims raw probs (Some ks)).
    Fixpoint Good_ind' (n : node) (g : Good n) {struct g} : P n :=
      match g in Good n0 return P n0 with
      | G_unvisited p m => Hun p m
      | G_terminal p m o value k Ht Hv => Hte p m o value k Ht Hv
      | G_expanded p m v0 value sims raw probs ks Ht Hall Hs Hv Hk Hp =>
        Hex p m v0 value sims raw probs ks Ht Hall
            ((fix F (l : list node) (h : Forall Good l) {struct h} : Forall P l :=
                match h in Forall _ l0 return Forall P l0 with
                | Forall_nil _ => Forall_nil P
                | @Forall_cons _ _ x t hx ht => @Forall_cons _ P x t (Good_ind' x hx) (F t ht)
                end) ks Hall)
            Hs Hv Hk Hp
      end.
  End GoodInd.

  (* a choice list is a path from the node to a leaf (a node without children) *)
  Inductive valid : list nat -> node -> Prop :=
  | V_leaf p m v0 value sims raw probs : valid [] (Node p m v0 value sims raw probs None)
  | V_inner p m v0 value sims raw probs ks c rest k :
      nth_error ks c = Some k -> valid rest k ->
      valid (c :: rest) (Node p m v0 value sims raw probs (Some ks)).

  Fixpoint validb (cs : list nat) (n : node) : bool :=
    match cs, n_kids n with
    | [], None => true
    | c :: rest, Some ks => match nth_error ks c with Some k => validb rest k | None => false end
    | _, _ => false
    end.
  Lemma validb_valid cs n : validb cs n = true <-> valid cs n.
  Proof.
    revert n; induction cs as [|c rest IH]; intros [p m v0 value sims raw probs [ks|]]; simpl.
    - split; [discriminate|]. intros H; inversion H.
    - split; [constructor|reflexivity].
    - destruct (nth_error ks c) as [k|] eqn:E.
      + rewrite IH. split; intros H.
        * econstructor; eassumption.
        * inversion H; subst. congruence.
      + split; [discriminate|]. intros H; inversion H; subst. congruence.
    - split; [discriminate|]. intros H; inversion H.
  Qed.

  Theorem good_init p : Good (root p).
  Proof. constructor. Qed.

  Lemma children_fresh l :
    Forall Good (map child_of l) /\ sumn (map n_sims (map child_of l)) = 0%nat /\
    sumq (map n_value (map child_of l)) == 0 /\ map n_key (map child_of l) = map c_key l.
  Proof.
    induction l as [|a l (A & B & C & D)]; simpl; repeat split; auto; try reflexivity.
    - constructor; [constructor|assumption].
    - lra.
    - f_equal; assumption.
  Qed.

  (* ---------------------------------------------------------------- *)
  (* one simulation keeps the invariant                                *)
  (* ---------------------------------------------------------------- *)
  Theorem simulate_good : forall cs n noise evs n' v evs',
      Good n -> valid cs n -> simulate cs n noise evs = (n', v, evs') ->
      Good n' /\ n_sims n' = S (n_sims n) /\ n_pos n' = n_pos n /\ n_move n' = n_move n /\
      n_value n' == n_value n + v.
  Proof.
    induction cs as [|c rest IH]; intros n noise evs n' v evs' Hg Hv Hs; inversion Hv; subst; simpl in Hs.
    - (* the leaf *)
      inversion Hg; subst.
      + destruct (terminal p) as [o|] eqn:Ht.
        * inversion Hs; subst. repeat split; try reflexivity.
          apply (G_terminal p m v (0 + v) 0%nat Ht). unfold qnat; simpl. ring.
        * destruct (next_eval evs) as (e, evs1). inversion Hs; subst. clear Hs.
          repeat split; try reflexivity.
          destruct (children_fresh (accepted p (priors mix p noise (fst e)))) as (A & B & C & D).
          apply G_expanded; auto; try (rewrite B; reflexivity).
          rewrite C. ring.
      + match goal with H : terminal p = Some _ |- _ => rewrite H in Hs; rename H into Ht end.
        inversion Hs; subst. repeat split; try reflexivity.
        apply (G_terminal p m v _ (S k) Ht).
        match goal with H : _ == _ |- _ => rewrite H end.
        rewrite (qnat_S (S k)). ring.
    - (* an inner node *)
      match goal with H : nth_error ks c = Some k |- _ => rewrite H in Hs; rename H into Hn end.
      destruct (simulate rest k None evs) as ((k', vk), evs1) eqn:Ek.
      inversion Hs; subst. clear Hs.
      inversion Hg as [| |? ? ? ? ? ? ? ? Ht Hall Hsim Hval Hkeys Hpr]; subst.
      assert (Hk : Good k) by (eapply Forall_forall; [eassumption|]; eapply nth_error_In; eassumption).
      match goal with H : valid rest k |- _ => destruct (IH k None evs k' vk evs' Hk H Ek) as (Hk' & Hs' & Hp' & Hm' & Hv') end.
      repeat split; try reflexivity.
      apply G_expanded; auto using Forall_upd.
      + rewrite upd_nth_map.
        pose proof (sumn_upd _ c _ (n_sims k') (nth_error_map' n_sims _ _ _ Hn)). lia.
      + rewrite upd_nth_map.
        pose proof (sumq_upd _ c _ (n_value k') (nth_error_map' n_value _ _ _ Hn)) as E.
        simpl n_value in *. lra.
      + rewrite <- Hkeys. eapply upd_nth_map_same; [eassumption|].
        unfold n_key. rewrite Hp', Hm'. reflexivity.
  Qed.

  (* what populate stores at a fresh non-terminal leaf: the evaluator's answer *)
  Theorem expansion_records_evaluator p m noise e evs :
    terminal p = None ->
    simulate [] (fresh p m) noise (e :: evs) =
    (Node p m (snd e) (0 + snd e) 1 (priors mix p noise (fst e))
          (renorm (map c_prior (accepted p (priors mix p noise (fst e)))))
          (Some (map child_of (accepted p (priors mix p noise (fst e))))), snd e, evs).
  Proof. intros H. simpl. rewrite H. reflexivity. Qed.

  (* ---------------------------------------------------------------- *)
  (* many simulations; the visit count                                 *)
  (* ---------------------------------------------------------------- *)
  Fixpoint valid_run (css : list (list nat)) (n : node) (noise : option (list Q)) (evs : list eval) : Prop :=
    match css with
    | [] => True
    | cs :: r =>
      valid cs n /\
      valid_run r (fst (fst (simulate cs n noise evs))) noise (snd (simulate cs n noise evs))
    end.

  Theorem run_good : forall css n noise evs,
      Good n -> valid_run css n noise evs ->
      Good (fst (run css n noise evs)) /\
      n_sims (fst (run css n noise evs)) = (n_sims n + length css)%nat /\
      n_pos (fst (run css n noise evs)) = n_pos n.
  Proof.
    induction css as [|cs r IH]; intros n noise evs Hg Hv; simpl.
    - repeat split; auto.
    - destruct Hv as (Hv1 & Hv2).
      destruct (simulate cs n noise evs) as ((n', v), evs') eqn:E. simpl in Hv2.
      destruct (simulate_good _ _ _ _ _ _ _ Hg Hv1 E) as (Hg' & Hs & Hp & _ & _).
      destruct (IH n' noise evs' Hg' Hv2) as (A & B & C).
      repeat split; auto.
      + rewrite B, Hs. lia.
      + rewrite C. assumption.
  Qed.

  (* the sampler gave a valid path for every simulation the loop started, and
     the choice stream did not run out before the limit *)
  Fixpoint valid_analyze (limit : nat) (css : list (list nat)) (n : node) (noise : option (list Q))
           (evs : list eval) : Prop :=
    match css with
    | [] => (limit <= n_sims n)%nat
    | cs :: r =>
      if (limit <=? n_sims n)%nat then True
      else valid cs n /\
           valid_analyze limit r (fst (fst (simulate cs n noise evs))) noise (snd (simulate cs n noise evs))
    end.

  Theorem analyze_good : forall limit css n noise evs,
      Good n -> valid_analyze limit css n noise evs ->
      Good (fst (analyze limit css n noise evs)) /\
      n_sims (fst (analyze limit css n noise evs)) = Nat.max limit (n_sims n) /\
      n_pos (fst (analyze limit css n noise evs)) = n_pos n.
  Proof.
    induction css as [|cs r IH]; intros n noise evs Hg Hv; simpl in *.
    - repeat split; auto. lia.
    - destruct (limit <=? n_sims n)%nat eqn:El.
      + apply Nat.leb_le in El. simpl. repeat split; auto. lia.
      + apply Nat.leb_gt in El. destruct Hv as (Hv1 & Hv2).
        destruct (simulate cs n noise evs) as ((n', v), evs') eqn:E. simpl in Hv2.
        destruct (simulate_good _ _ _ _ _ _ _ Hg Hv1 E) as (Hg' & Hs & Hp & _ & _).
        destruct (IH n' noise evs' Hg' Hv2) as (A & B & C).
        repeat split; auto.
        * rewrite B, Hs. lia.
        * rewrite C. assumption.
  Qed.

  (* root_visits, three readings *)
  Theorem root_visits_k css n noise evs :
    Good n -> valid_run css n noise evs ->
    n_sims (fst (run css n noise evs)) = (n_sims n + length css)%nat.
  Proof. intros Hg Hv. apply (run_good css n noise evs Hg Hv). Qed.

  Theorem root_visits_fresh limit css p noise evs :
    valid_analyze limit css (root p) noise evs ->
    n_sims (fst (analyze limit css (root p) noise evs)) = limit.
  Proof.
    intros Hv. destruct (analyze_good limit css (root p) noise evs (good_init p) Hv) as (_ & B & _).
    rewrite B. simpl. lia.
  Qed.

  Theorem root_visits_reused limit css n noise evs :
    Good n -> valid_analyze limit css n noise evs ->
    n_sims (fst (analyze limit css n noise evs)) = Nat.max limit (n_sims n).
  Proof. intros Hg Hv. apply (analyze_good limit css n noise evs Hg Hv). Qed.

  Theorem position_untouched limit css n noise evs :
    Good n -> valid_analyze limit css n noise evs ->
    n_pos (fst (analyze limit css n noise evs)) = n_pos n.
  Proof. intros Hg Hv. apply (analyze_good limit css n noise evs Hg Hv). Qed.

  (* executable forms of the two stream hypotheses (used by the Examples) *)
  Fixpoint valid_runb (css : list (list nat)) (n : node) (noise : option (list Q)) (evs : list eval) : bool :=
    match css with
    | [] => true
    | cs :: r =>
      validb cs n &&
      valid_runb r (fst (fst (simulate cs n noise evs))) noise (snd (simulate cs n noise evs))
    end.
  Lemma valid_runb_ok : forall css n noise evs, valid_runb css n noise evs = true -> valid_run css n noise evs.
  Proof.
    induction css as [|cs r IH]; intros n noise evs Hb; simpl in *; [exact I|].
    apply andb_true_iff in Hb. destruct Hb as (A & B). split.
    - apply validb_valid; assumption.
    - apply IH; assumption.
  Qed.
  Fixpoint valid_analyzeb (limit : nat) (css : list (list nat)) (n : node) (noise : option (list Q))
           (evs : list eval) : bool :=
    match css with
    | [] => (limit <=? n_sims n)%nat
    | cs :: r =>
      if (limit <=? n_sims n)%nat then true
      else validb cs n &&
           valid_analyzeb limit r (fst (fst (simulate cs n noise evs))) noise (snd (simulate cs n noise evs))
    end.
  Lemma valid_analyzeb_ok : forall limit css n noise evs,
      valid_analyzeb limit css n noise evs = true -> valid_analyze limit css n noise evs.
  Proof.
    induction css as [|cs r IH]; intros n noise evs Hb; simpl in *.
    - apply Nat.leb_le; assumption.
    - destruct (limit <=? n_sims n)%nat; [exact I|].
      apply andb_true_iff in Hb. destruct Hb as (A & B). split.
      + apply validb_valid; assumption.
      + apply IH; assumption.
  Qed.

  (* a tree whose expanded nodes all have a child admits a valid path: the
     sampler can always be served (progress) *)
  Inductive Live : node -> Prop :=
  | L_leaf p m v0 value sims raw probs : Live (Node p m v0 value sims raw probs None)
  | L_inner p m v0 value sims raw probs k ks :
      Live k -> Forall Live ks -> Live (Node p m v0 value sims raw probs (Some (k :: ks))).

  Lemma live_has_path : forall n, Live n -> exists cs, valid cs n.
  Proof.
    fix F 2. intros n H.
    destruct H as [p m v0 value sims raw probs|p m v0 value sims raw probs k ks Hk Hall].
    - exists []. constructor.
    - destruct (F k Hk) as (cs & Hcs).
      exists (0%nat :: cs). econstructor; [reflexivity|assumption].
  Qed.

  (* ---------------------------------------------------------------- *)
  (* evaluations in [-1,1]                                             *)
  (* ---------------------------------------------------------------- *)
  Inductive Bounded : node -> Prop :=
  | B_leaf p m v0 value sims raw probs :
      -1 <= v0 <= 1 -> Bounded (Node p m v0 value sims raw probs None)
  | B_inner p m v0 value sims raw probs ks :
      -1 <= v0 <= 1 -> Forall Bounded ks -> Bounded (Node p m v0 value sims raw probs (Some ks)).

  Definition ev_ok (e : eval) : Prop := -1 <= snd e <= 1.

  Lemma bounded_v0 n : Bounded n -> -1 <= n_v0 n <= 1.
  Proof. intros H; inversion H; subst; simpl; assumption. Qed.

  Lemma bounded_children l : Forall Bounded (map child_of l).
  Proof. induction l; simpl; constructor; auto. constructor. lra. Qed.

  Theorem simulate_bounded : forall cs n noise evs n' v evs',
      Bounded n -> Forall ev_ok evs -> simulate cs n noise evs = (n', v, evs') ->
      Bounded n' /\ -1 <= v <= 1 /\ Forall ev_ok evs'.
  Proof.
    induction cs as [|c rest IH]; intros n noise evs n' v evs' Hb He Hs;
      destruct n as [p m v0 value sims raw probs [ks|]]; simpl in Hs.
    - inversion Hs; subst. repeat split; auto; lra.
    - destruct (terminal p) as [o|] eqn:Ht.
      + inversion Hs; subst. destruct (terminal_cases _ _ Ht) as [E|[E|E]]; subst v;
          repeat split; auto; try lra; constructor; lra.
      + destruct evs as [|e evs1]; simpl in Hs; inversion Hs; subst; simpl.
        * repeat split; auto; try lra. constructor; [lra|apply bounded_children].
        * inversion He as [|? ? He1 He2]; subst. unfold ev_ok in He1.
          repeat split; auto; try tauto. constructor; [tauto|apply bounded_children].
    - destruct (nth_error ks c) as [k|] eqn:Hn.
      + destruct (simulate rest k None evs) as ((k', vk), evs1) eqn:Ek.
        inversion Hs; subst. inversion Hb as [|? ? ? ? ? ? ? ? Hv0 Hall]; subst.
        assert (Hk : Bounded k) by (eapply Forall_forall; [eassumption|]; eapply nth_error_In; eassumption).
        destruct (IH k None evs k' vk evs' Hk He Ek) as (A & B & C).
        repeat split; auto; try lra. constructor; auto using Forall_upd.
      + inversion Hs; subst. repeat split; auto; lra.
    - destruct (terminal p) as [o|] eqn:Ht.
      + inversion Hs; subst. destruct (terminal_cases _ _ Ht) as [E|[E|E]]; subst v;
          repeat split; auto; try lra; constructor; lra.
      + destruct evs as [|e evs1]; simpl in Hs; inversion Hs; subst; simpl.
        * repeat split; auto; try lra. constructor; [lra|apply bounded_children].
        * inversion He as [|? ? He1 He2]; subst. unfold ev_ok in He1.
          repeat split; auto; try tauto. constructor; [tauto|apply bounded_children].
  Qed.

  Lemma sum_bound ks :
    Forall (fun k => Bounded k -> - qnat (n_sims k) <= n_value k <= qnat (n_sims k)) ks ->
    Forall Bounded ks ->
    - qnat (sumn (map n_sims ks)) <= sumq (map n_value ks) <= qnat (sumn (map n_sims ks)).
  Proof.
    induction 1 as [|k t Hk Ht IH]; intros Hb; simpl.
    - pose proof qnat_0. lra.
    - inversion Hb as [|? ? Hb1 Hb2]; subst. specialize (Hk Hb1). specialize (IH Hb2).
      pose proof (qnat_plus (n_sims k) (sumn (map n_sims t))). lra.
  Qed.

  (* |value| <= visits when every evaluation is in [-1,1] *)
  Theorem abs_value_le_sims n :
    Good n -> Bounded n -> - qnat (n_sims n) <= n_value n <= qnat (n_sims n).
  Proof.
    intros Hg. induction Hg as [p m|p m o value k Ht Hv|p m v0 value sims raw probs ks Ht Hall IH Hs Hv Hk Hp]
                            using Good_ind'; intros Hb; simpl.
    - pose proof qnat_0. lra.
    - pose proof (qnat_nonneg (S k)).
      destruct (terminal_cases _ _ Ht) as [E|[E|E]]; subst o; lra.
    - inversion Hb as [|? ? ? ? ? ? ? ? Hv0 Hbk]; subst.
      pose proof (sum_bound ks IH Hbk). pose proof (qnat_S (sumn (map n_sims ks))). lra.
  Qed.

  Corollary abs_value_le_sims_abs n :
    Good n -> Bounded n -> Qabs (n_value n) <= qnat (n_sims n).
  Proof. intros Hg Hb. apply Qabs_Qle_condition. apply abs_value_le_sims; assumption. Qed.

  (* ---------------------------------------------------------------- *)
  (* C09: the solver's inputs                                          *)
  (* ---------------------------------------------------------------- *)
  Lemma good_children n ks : Good n -> n_kids n = Some ks -> Forall Good ks.
  Proof. intros Hg Hk; inversion Hg; subst; simpl in Hk; try discriminate. inversion Hk; subst; assumption. Qed.
  Lemma bounded_children_of n ks : Bounded n -> n_kids n = Some ks -> Forall Bounded ks.
  Proof. intros Hg Hk; inversion Hg; subst; simpl in Hk; try discriminate. inversion Hk; subst; assumption. Qed.

  Theorem q_in_range n ks :
    Good n -> Bounded n -> n_kids n = Some ks ->
    Forall (fun k => -1 <= q_of (n_v0 n) k <= 1) ks.
  Proof.
    intros Hg Hb Hk.
    pose proof (good_children _ _ Hg Hk) as Gk. pose proof (bounded_children_of _ _ Hb Hk) as Bk.
    pose proof (bounded_v0 _ Hb) as Hv0.
    apply Forall_forall. intros k Hin.
    assert (G : Good k) by (eapply Forall_forall in Gk; eassumption).
    assert (B : Bounded k) by (eapply Forall_forall in Bk; eassumption).
    pose proof (abs_value_le_sims k G B) as A.
    unfold q_of. destruct (n_sims k) as [|j] eqn:Es; [assumption|].
    pose proof (qnat_pos j) as Hpos. split.
    - apply Qle_shift_div_l; [assumption|]. lra.
    - apply Qle_shift_div_r; [assumption|]. lra.
  Qed.

  Lemma sumq_div l s : ~ s == 0 -> sumq (map (fun x => Qred (x / s)) l) == sumq l / s.
  Proof.
    intros Hs. induction l as [|a t IH].
    - simpl. field. assumption.
    - unfold sumq in *. cbn [map fold_right]. rewrite Qred_correct, IH. field. assumption.
  Qed.

  (* what renorm computes: every entry divided by the sum of the entries *)
  Theorem renorm_spec l :
    length (renorm l) = length l /\
    forall i x, nth_error l i = Some x ->
                exists y, nth_error (renorm l) i = Some y /\ y == x / sumq l.
  Proof.
    unfold renorm. split; [apply map_length|].
    intros i x H. rewrite nth_error_map, H.
    exists (Qred (x / Qred (sumq l))). split; [reflexivity|].
    rewrite !Qred_correct. reflexivity.
  Qed.

  Lemma sumq_pos l c : 0 < c -> l <> [] -> Forall (fun q => c <= q) l -> 0 < sumq l.
  Proof.
    intros Hc Hl H. induction H as [|a t Ha Ht IH]; [congruence|]. simpl.
    destruct t as [|b t'].
    - simpl. lra.
    - assert (0 < sumq (b :: t')) by (apply IH; discriminate). lra.
  Qed.

  (* the hypothesis of the property, on the evaluator's answer at the node:
     at least one legal move reaches the cutoff *)
  Theorem prior_is_distribution n ks :
    0 < cutoff -> Good n -> n_kids n = Some ks -> live (n_pos n) (n_raw n) = true ->
    Forall (fun x => 0 < x) (n_probs n) /\ sumq (n_probs n) == 1 /\
    length (n_probs n) = length ks.
  Proof.
    intros Hc Hg Hk Hl. inversion Hg as [| |p m v0 value sims raw probs ks' Ht Hall Hs Hv Hkeys Hp]; subst;
      simpl in Hk; try discriminate. inversion Hk; subst ks'. simpl in *.
    set (l := map c_prior (accepted p raw)) in *.
    assert (Hne : l <> []).
    { unfold l, Mcts.live in *. destruct (accepted p raw); [discriminate|]. simpl. discriminate. }
    pose proof (accepted_prior_ge p raw) as Hge. fold l in Hge.
    pose proof (sumq_pos l cutoff Hc Hne Hge) as Hpos.
    assert (Hs' : Qred (sumq l) == sumq l) by apply Qred_correct.
    unfold renorm. fold l. repeat split.
    - apply Forall_forall. intros x Hx. apply in_map_iff in Hx. destruct Hx as (y & E & Hy). subst x.
      eapply Forall_forall in Hge; [|eassumption].
      assert (E : Qred (y / Qred (sumq l)) == y / sumq l) by (rewrite !Qred_correct; reflexivity).
      assert (Hz : 0 < y / sumq l) by (apply Qlt_shift_div_l; [assumption|]; lra).
      lra.
    - rewrite sumq_div by lra. rewrite Hs'. field. lra.
    - rewrite map_length. unfold l. rewrite map_length.
      rewrite <- (map_length c_key), <- Hkeys, map_length. reflexivity.
  Qed.

  (* lambda^2 is positive at every expanded node (sims >= 1) *)
  Theorem lambda_sq_pos C N K : 0 < C -> 0 < lambda_sq C (S N) K.
  Proof.
    intros HC. unfold lambda_sq. pose proof (qnat_pos N).
    assert (0 < qnat (S N + K)) by (simpl; apply qnat_pos).
    apply Qlt_shift_div_l.
    - apply Qmult_lt_0_compat; assumption.
    - setoid_replace (0 * (qnat (S N + K) * qnat (S N + K))) with 0 by ring.
      repeat apply Qmult_lt_0_compat; assumption.
  Qed.

  Theorem good_expanded_visited n ks : Good n -> n_kids n = Some ks -> exists j, n_sims n = S j.
  Proof. intros Hg Hk; inversion Hg; subst; simpl in Hk; try discriminate. eexists; reflexivity. Qed.

  (* every child holds the parent's position after its own move; that move is
     a table move the rules accept *)
  Theorem select_root_move_legal n ks i k :
    Good n -> n_kids n = Some ks -> nth_error ks i = Some k ->
    exists m, n_move k = Some m /\ In m (table (size (n_pos n))) /\
              move (n_pos n) m = Some (n_pos k).
  Proof.
    intros Hg Hk Hn. inversion Hg as [| |p m0 v0 value sims raw probs ks' Ht Hall Hs Hv Hkeys Hp]; subst;
      simpl in Hk; try discriminate. inversion Hk; subst ks'. simpl.
    pose proof (nth_error_map' n_key _ _ _ Hn) as E. rewrite Hkeys in E.
    rewrite nth_error_map in E. destruct (nth_error (accepted p raw) i) as [c|] eqn:Ec; [|discriminate].
    simpl in E. inversion E as [[E1 E2]]. exists (c_mv c). split; [auto|].
    apply nth_error_In in Ec. destruct c as [[m q] c']. apply accepted_spec in Ec.
    destruct Ec as ((j & Hj & _) & _ & Hm). unfold c_mv, c_pos in *; simpl in *. split.
    - eapply nth_error_In; eassumption.
    - assumption.
  Qed.

  Corollary select_root_move_accepted n choice m :
    Good n -> select_root_move n choice = Some m -> move (n_pos n) m <> None.
  Proof.
    unfold select_root_move. intros Hg H.
    destruct (n_kids n) as [ks|] eqn:Hk; [|discriminate].
    destruct (nth_error ks choice) as [k|] eqn:Hn; [|discriminate].
    destruct (select_root_move_legal n ks choice k Hg Hk Hn) as (m' & E & _ & Hm).
    rewrite H in E. inversion E; subst. rewrite Hm. discriminate.
  Qed.

  (* the children are one-to-one with the accepted table moves *)
  Theorem children_one_to_one n ks :
    Good n -> n_kids n = Some ks ->
    map n_move ks = map Some (map fst (filter (passes (n_pos n)) (combine (table (size (n_pos n))) (n_raw n)))) /\
    NoDup (map n_move ks) /\
    (forall m c, In (Some m, c) (map n_key ks) <->
                 exists q, (exists i, nth_error (table (size (n_pos n))) i = Some m /\ nth_error (n_raw n) i = Some q) /\
                           cutoff <= q /\ move (n_pos n) m = Some c).
  Proof.
    intros Hg Hk. inversion Hg as [| |p m0 v0 value sims raw probs ks' Ht Hall Hs Hv Hkeys Hp]; subst;
      simpl in Hk; try discriminate. inversion Hk; subst ks'. simpl.
    assert (E : map n_move ks = map Some (map c_mv (accepted p raw))).
    { change n_move with (fun k => fst (n_key k)). rewrite <- (map_map n_key fst), Hkeys, !map_map. reflexivity. }
    repeat split.
    - rewrite E, accepted_moves. reflexivity.
    - rewrite E. apply NoDup_map_inj; [intros a b _ _ H; inversion H; reflexivity|apply accepted_nodup].
    - rewrite Hkeys. intros Hin. apply in_map_iff in Hin. destruct Hin as ([[m' q] c'] & Ec & Hin).
      unfold c_key, c_mv, c_pos in Ec; simpl in Ec. inversion Ec; subst. exists q. apply accepted_spec. assumption.
    - rewrite Hkeys. intros (q & H). apply accepted_spec in H. apply in_map_iff.
      exists (m, q, c). split; [reflexivity|assumption].
  Qed.

  (* the invariant read back, clause by clause *)
  Theorem good_expanded_reading n ks :
    Good n -> n_kids n = Some ks ->
    terminal (n_pos n) = None /\
    n_sims n = S (sumn (map n_sims ks)) /\
    n_value n == n_v0 n - sumq (map n_value ks) /\
    Forall Good ks.
  Proof.
    intros Hg Hk. inversion Hg; subst; simpl in Hk; try discriminate. inversion Hk; subst. simpl. auto.
  Qed.

  Theorem good_leaf_reading n :
    Good n -> n_kids n = None ->
    (n_sims n = 0%nat /\ n_value n = 0 /\ n_v0 n = 0) \/
    (exists o, terminal (n_pos n) = Some o /\ (o = 1 \/ o = -1 \/ o = 0) /\ n_v0 n = o /\
               n_value n == qnat (n_sims n) * o /\ (0 < n_sims n)%nat).
  Proof.
    intros Hg Hk. inversion Hg; subst; simpl in Hk; try discriminate; simpl.
    - left. auto.
    - right. exists o. split; [assumption|]. split; [eapply terminal_cases; eassumption|]. repeat split; auto. lia.
  Qed.

  Theorem child_priors_renormalised n ks :
    Good n -> n_kids n = Some ks ->
    n_probs n = renorm (map c_prior (accepted (n_pos n) (n_raw n))) /\
    map n_key ks = map c_key (accepted (n_pos n) (n_raw n)).
  Proof.
    intros Hg Hk. inversion Hg; subst; simpl in Hk; try discriminate. inversion Hk; subst. simpl. auto.
  Qed.
End Search.

(* before any visit the reported policy is the prior, whatever the solver *)
Theorem policy_before_visit solve n C : n_sims n = 0%nat -> policy_probs solve n C = n_probs n.
Proof. intros H. unfold policy_probs. rewrite H. reflexivity. Qed.

(* after a visit it is the solver applied to policy_inputs *)
Theorem policy_after_visit solve n C j i :
  n_sims n = S j -> policy_inputs n C = Some i -> policy_probs solve n C = solve i.
Proof. intros H E. unfold policy_probs. rewrite H, E. reflexivity. Qed.

(* ------------------------------------------------------------------ *)
(* Examples: the hypotheses of the implication theorems are inhabited  *)
(* ------------------------------------------------------------------ *)
Definition ex_cutoff : Q := 1 # 1000000.
Definition ex_mix : Q := 1 # 4.
Definition start3 : position := from_config (mkCfg 3 None None).
Definition uniform3 : eval := (repeat (1 # 135) 135, 1 # 4).
Definition ex_css : list (list nat) := [[]; [0%nat]; [1%nat]; [0%nat; 0%nat]].
Definition ex_tree : node := fst (run ex_cutoff ex_mix ex_css (root start3) None (repeat uniform3 4)).

(* the uniform evaluator gives a legal move the cutoff probability on the 3x3 start *)
Example ex_live_uniform : live ex_cutoff start3 (priors ex_mix start3 None (fst uniform3)) = true.
Proof. vm_compute. reflexivity. Qed.

Example ex_valid_run : valid_run ex_cutoff ex_mix ex_css (root start3) None (repeat uniform3 4).
Proof. apply valid_runb_ok. vm_compute. reflexivity. Qed.

Example ex_tree_good : Good ex_cutoff ex_tree /\ n_sims ex_tree = 4%nat /\ n_pos ex_tree = start3.
Proof.
  destruct (run_good ex_cutoff ex_mix ex_css (root start3) None (repeat uniform3 4)
                     (good_init ex_cutoff start3) ex_valid_run) as (A & B & C).
  repeat split; assumption.
Qed.

Example ex_valid_analyze : valid_analyze ex_cutoff ex_mix 4 ex_css (root start3) None (repeat uniform3 4).
Proof. apply valid_analyzeb_ok. vm_compute. reflexivity. Qed.

Example ex_tree_bounded : Bounded ex_tree.
Proof.
  assert (H : forall css n evs, Bounded n -> Forall ev_ok evs ->
                                Bounded (fst (run ex_cutoff ex_mix css n None evs))).
  { induction css as [|cs r IH]; intros n evs Hb He; simpl; [assumption|].
    destruct (simulate ex_cutoff ex_mix cs n None evs) as ((n', v), evs') eqn:E.
    destruct (simulate_bounded _ _ _ _ _ _ _ _ _ Hb He E) as (A & _ & C). apply IH; assumption. }
  apply H.
  - constructor. lra.
  - repeat constructor; unfold ev_ok; simpl; lra.
Qed.

Example ex_tree_kids : exists ks, n_kids ex_tree = Some ks /\ length ks = 9%nat /\
                                  live ex_cutoff (n_pos ex_tree) (n_raw ex_tree) = true.
Proof. eexists. split; [vm_compute; reflexivity|]. split; vm_compute; reflexivity. Qed.
