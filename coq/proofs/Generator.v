(* C03 - Position.all_moves against the executable rules (`move`) and the id
   table (`table`).

   "legal" is stated with the executable rules: `exists p', move p m = Some p'`
   (work package C01 proves `move p m = Some p'` equivalent to the rulebook
   relation `legal_step p m p'`).  `canonical m` fixes the representation of a
   move: a placement carries `mslides = None`, a slide carries `Some _`.  (The
   code accepts a placement that carries a stray drops tuple and ignores the
   tuple; such a value is a second spelling of a placement, not another move.)

   The generator is a pseudo-legal SUPERSET by design: it lists slides on the
   two opening plies, pick-ups taller than the carry limit allows to drop,
   slides that run into a wall or a capstone, placements without reserve of
   flats.  The property asks for completeness (every legal move is listed) and
   uniqueness (once), not for soundness of the generator; that is what is
   proved here, and `gen_superset_*` below exhibit the slack. *)
From Coq Require Import ZArith List Bool Lia.
From TV Require Import model.Tak proofs.ListUtil proofs.Slides spec.MoveSpec proofs.Table proofs.MoveId.
Import ListNotations.
Open Scope Z_scope.

(* ---------- vocabulary of the statements ---------- *)

(* the guard under which the model's list accesses are the code's: a board of
   size^2 stacks (Python would raise IndexError on a shorter one where the
   model's `nth` returns the default) *)
Definition wf (p : position) : Prop :=
  0 <= size p /\ zlen (board p) = size p * size p.

Definition canonical (m : mv) : Prop :=
  if is_slide (mt m) then exists s, mslides m = Some s else mslides m = None.

Definition legal (p : position) (m : mv) : Prop := exists p', move p m = Some p'.

(* "trying a move does not raise IllegalMove" (what MCTS.populate tests) *)
Definition accepted (p : position) (m : mv) : bool :=
  match move p m with Some _ => true | None => false end.

Lemma accepted_legal p m : accepted p m = true <-> legal p m.
Proof.
  unfold accepted, legal. destruct (move p m) as [q|]; split; intros H; eauto; try discriminate.
  destruct H as (q & H). discriminate.
Qed.

Definition caps_to_move (p : position) : Z :=
  match to_move p with White => wcaps p | Black => bcaps p end.

(* ---------- small facts ---------- *)

Lemma color_eqb_eq a b : color_eqb a b = true <-> a = b.
Proof. destruct a, b; simpl; split; intros H; congruence. Qed.

Lemma in_bounds_iff n x y : in_bounds n x y = true <-> 0 <= x < n /\ 0 <= y < n.
Proof. unfold in_bounds. rewrite !andb_true_iff. lia. Qed.

Lemma zsum_cons d s : zsum (d :: s) = d + zsum s.
Proof. reflexivity. Qed.

Lemma zlen_cons {A} (a : A) l : zlen (a :: l) = 1 + zlen l.
Proof. unfold zlen. cbn [length]. lia. Qed.

Lemma zlen_nonneg {A} (l : list A) : 0 <= zlen l.
Proof. unfold zlen. lia. Qed.

Lemma drops_positive s : existsb (fun d => d <? 1) s = false -> Forall (fun d => 1 <= d) s.
Proof.
  induction s as [|d s IH]; cbn [existsb]; intros H; [constructor|].
  apply orb_false_iff in H. destruct H as (Hd & Hs). constructor; [lia|auto].
Qed.

Lemma zlen_le_zsum s : Forall (fun d => 1 <= d) s -> zlen s <= zsum s.
Proof.
  induction 1 as [|d s Hd _ IH]; [unfold zlen, zsum; simpl; lia|].
  rewrite zlen_cons, zsum_cons. lia.
Qed.

(* ---------- membership in the generator's list ---------- *)

Lemma in_all_moves p m :
  In m (all_moves p) <->
  exists x y, 0 <= x < size p /\ 0 <= y < size p /\ In m (all_moves_square p x y).
Proof.
  unfold all_moves. rewrite in_flat_map. split.
  - intros (x & Hx & Hin). apply in_flat_map in Hin. destruct Hin as (y & Hy & Hm).
    apply in_zrange in Hx. apply in_zrange in Hy. eauto.
  - intros (x & y & Hx & Hy & Hm). exists x. split; [apply in_zrange; assumption|].
    apply in_flat_map. exists y. split; [apply in_zrange; assumption|assumption].
Qed.

Definition gen_slides (p : position) (x y : Z) : list mv :=
  flat_map (fun sl => flat_map (fun dl : mtype * Z =>
                        if (zlen sl <=? snd dl) && (zlen sl <=? zlen (sq p x y))
                        then [mkMove x y (fst dl) (Some sl)] else [])
                      (dirs_for (size p) x y))
           (all_slides (Z.to_nat (size p))).

Lemma in_gen_slides p x y m :
  In m (gen_slides p x y) <->
  exists s t l, In s (all_slides (Z.to_nat (size p))) /\ In (t, l) (dirs_for (size p) x y) /\
                zlen s <= l /\ zlen s <= zlen (sq p x y) /\ m = mkMove x y t (Some s).
Proof.
  unfold gen_slides. rewrite in_flat_map. split.
  - intros (s & Hs & Hin). apply in_flat_map in Hin. destruct Hin as ((t, l) & Hdl & Hm).
    cbn [fst snd] in Hm.
    destruct (zlen s <=? l) eqn:E1; destruct (zlen s <=? zlen (sq p x y)) eqn:E2;
      cbn [andb] in Hm; try (destruct Hm; fail).
    destruct Hm as [<-|[]]. exists s, t, l. repeat split; try assumption; lia.
  - intros (s & t & l & Hs & Hdl & H1 & H2 & ->). exists s. split; [assumption|].
    apply in_flat_map. exists (t, l). split; [assumption|]. cbn [fst snd].
    destruct (zlen s <=? l) eqn:E1; [|lia]. destruct (zlen s <=? zlen (sq p x y)) eqn:E2; [|lia].
    left; reflexivity.
Qed.

Lemma all_moves_square_eq p x y :
  all_moves_square p x y =
  match sq p x y with
  | [] => [mkMove x y PlaceFlat None; mkMove x y PlaceStanding None] ++
          (if 0 <? caps_to_move p then [mkMove x y PlaceCapstone None] else [])
  | top :: _ => if negb (color_eqb (pcolor top) (to_move p)) then [] else gen_slides p x y
  end.
Proof. unfold all_moves_square, gen_slides, caps_to_move. destruct (sq p x y); reflexivity. Qed.

Lemma in_all_moves_square_xy p x y m : In m (all_moves_square p x y) -> mx m = x /\ my m = y.
Proof.
  rewrite all_moves_square_eq. destruct (sq p x y) as [|top rest].
  - intros H. apply in_app_or in H. destruct H as [H|H].
    + simpl in H. destruct H as [<-|[<-|[]]]; auto.
    + destruct (0 <? caps_to_move p); [|destruct H]. destruct H as [<-|[]]. auto.
  - destruct (negb (color_eqb (pcolor top) (to_move p))); [intros []|].
    intros H. apply in_gen_slides in H. destruct H as (s & t & l & _ & _ & _ & _ & ->). auto.
Qed.

(* ---------- uniqueness ---------- *)

Lemma gen_slides_nodup p x y : NoDup (gen_slides p x y).
Proof.
  unfold gen_slides. apply NoDup_flat_map.
  - apply all_slides_nodup.
  - intros s _. unfold dirs_for. simpl.
    repeat match goal with |- context [if ?c then _ else _] => destruct c end; simpl;
      repeat constructor; simpl; intuition congruence.
  - intros a b m _ _ Ha Hb.
    assert (H : forall s, In m (flat_map (fun dl : mtype * Z =>
                 if (zlen s <=? snd dl) && (zlen s <=? zlen (sq p x y))
                 then [mkMove x y (fst dl) (Some s)] else []) (dirs_for (size p) x y)) ->
                 mslides m = Some s).
    { intros s H. apply in_flat_map in H. destruct H as (dl & _ & H).
      destruct ((zlen s <=? snd dl) && (zlen s <=? zlen (sq p x y))); [|destruct H].
      destruct H as [<-|[]]. reflexivity. }
    apply H in Ha. apply H in Hb. congruence.
Qed.

Lemma all_moves_square_nodup p x y : NoDup (all_moves_square p x y).
Proof.
  rewrite all_moves_square_eq. destruct (sq p x y) as [|top rest].
  - destruct (0 <? caps_to_move p); simpl; repeat constructor; simpl; intuition congruence.
  - destruct (negb (color_eqb (pcolor top) (to_move p))); [constructor|apply gen_slides_nodup].
Qed.

Theorem gen_nodup p : NoDup (all_moves p).
Proof.
  unfold all_moves. apply NoDup_flat_map.
  - apply zrange_nodup.
  - intros x _. apply NoDup_flat_map.
    + apply zrange_nodup.
    + intros y _. apply all_moves_square_nodup.
    + intros a b m _ _ Ha Hb. apply in_all_moves_square_xy in Ha. apply in_all_moves_square_xy in Hb.
      destruct Ha, Hb. congruence.
  - intros a b m _ _ Ha Hb.
    apply in_flat_map in Ha. destruct Ha as (y1 & _ & Ha). apply in_all_moves_square_xy in Ha.
    apply in_flat_map in Hb. destruct Hb as (y2 & _ & Hb). apply in_all_moves_square_xy in Hb.
    destruct Ha, Hb. congruence.
Qed.

(* ---------- everything generated is a table entry (every size) ---------- *)

Lemma all_moves_square_in_table_square p x y m :
  In m (all_moves_square p x y) -> In m (table_square (size p) x y).
Proof.
  rewrite all_moves_square_eq, table_square_eq. intros H. apply in_or_app.
  destruct (sq p x y) as [|top rest].
  - left. apply in_app_or in H. destruct H as [H|H].
    + simpl in H. simpl. tauto.
    + destruct (0 <? caps_to_move p); [|destruct H]. destruct H as [<-|[]]. simpl. tauto.
  - right. destruct (negb (color_eqb (pcolor top) (to_move p))); [destruct H|].
    apply in_gen_slides in H. destruct H as (s & t & l & Hs & Hdl & H1 & _ & ->).
    unfold slide_entries. apply in_flat_map. exists s. split; [assumption|].
    apply in_flat_map. exists (t, l). split; [assumption|]. cbn [fst snd].
    destruct (zlen s <=? l) eqn:E; [left; reflexivity|lia].
Qed.

Theorem gen_in_table p : 0 <= size p -> incl (all_moves p) (table (size p)).
Proof.
  intros _ m H. apply in_all_moves in H. destruct H as (x & y & Hx & Hy & Hm).
  apply in_table. exists x, y. split; [assumption|split; [assumption|]].
  apply all_moves_square_in_table_square. assumption.
Qed.

(* ---------- completeness ---------- *)

Lemma slide_go_step p dx dy x y carry nb d ds b :
  slide_go p dx dy x y carry nb (d :: ds) = Some b ->
  in_bounds (size p) (x + dx) (y + dy) = true /\
  exists carry' nb', slide_go p dx dy (x + dx) (y + dy) carry' nb' ds = Some b.
Proof.
  cbn [slide_go]. destruct (in_bounds (size p) (x + dx) (y + dy)); cbn [negb]; [|discriminate].
  intros H. split; [reflexivity|].
  destruct (getz [] (board p) (x + dx + (y + dy) * size p)) as [|top rest]; [eauto|].
  destruct (pkind top); [eauto| |discriminate].
  destruct carry as [|c [|c2 carry]]; try discriminate.
  destruct (kind_eqb (pkind c) Capstone); [eauto|discriminate].
Qed.

(* a slide that goes through keeps every visited square on the board; in
   particular the last one, `length drops` steps away from the origin *)
Lemma slide_go_last_in_bounds p dx dy : forall ds x y carry nb b,
  ds <> [] -> slide_go p dx dy x y carry nb ds = Some b ->
  in_bounds (size p) (x + zlen ds * dx) (y + zlen ds * dy) = true.
Proof.
  induction ds as [|d ds IH]; intros x y carry nb b Hne H; [congruence|].
  apply slide_go_step in H. destruct H as (Hb & carry' & nb' & H).
  destruct ds as [|d' ds'].
  - replace (zlen [d]) with 1 by reflexivity. rewrite !Z.mul_1_l. exact Hb.
  - assert (Hne' : d' :: ds' <> []) by congruence.
    specialize (IH _ _ _ _ _ Hne' H). rewrite zlen_cons.
    replace (x + (1 + zlen (d' :: ds')) * dx) with (x + dx + zlen (d' :: ds') * dx) by lia.
    replace (y + (1 + zlen (d' :: ds')) * dy) with (y + dy + zlen (d' :: ds') * dy) by lia.
    exact IH.
Qed.

(* what an accepted slide tells about its drops (read off Position._move_slide) *)
Lemma move_slide_facts p m s p' :
  move_slide p m s = Some p' ->
  2 <= ply p /\ good_drops (size p) s /\ zlen s <= zlen (sq p (mx m) (my m)) /\
  (exists top rest, sq p (mx m) (my m) = top :: rest /\ pcolor top = to_move p) /\
  in_bounds (size p) (mx m + zlen s * fst (direction (mt m))) (my m + zlen s * snd (direction (mt m))) = true.
Proof.
  unfold move_slide. destruct (ply p <? 2) eqn:Eply; [discriminate|].
  destruct (existsb (fun d => d <? 1) s) eqn:Epos; [discriminate|].
  destruct ((size p <? zsum s) || (zlen (sq p (mx m) (my m)) <? zsum s)) eqn:Elim; [discriminate|].
  destruct (zsum s <? 1) eqn:Eone; [discriminate|].
  destruct (sq p (mx m) (my m)) as [|top rest] eqn:Esq; [discriminate|].
  destruct (negb (color_eqb (pcolor top) (to_move p))) eqn:Ecol; [discriminate|].
  destruct (direction (mt m)) as (dx, dy) eqn:Edir.
  destruct (slide_go p dx dy (mx m) (my m) _ _ s) as [b|] eqn:Ego; [|discriminate].
  intros _. apply orb_false_iff in Elim. destruct Elim as (El1 & El2).
  apply drops_positive in Epos. pose proof (zlen_le_zsum s Epos) as Hls.
  assert (Hne : s <> []).
  { intros ->. unfold zsum in Eone. simpl in Eone. discriminate. }
  split; [lia|]. split; [repeat split; [assumption|assumption|lia]|].
  split; [lia|]. split.
  - exists top, rest. split; [reflexivity|]. apply negb_false_iff in Ecol. apply color_eqb_eq. assumption.
  - cbn [fst snd]. eapply slide_go_last_in_bounds; eassumption.
Qed.

(* every accepted move is well-formed for the size, up to the stray tuple of a
   placement (hence the `canonical` hypothesis) *)
Lemma legal_canonical_wf_move p m p' :
  canonical m -> move p m = Some p' -> wf_move (size p) m.
Proof.
  unfold canonical, move, wf_move. intros Hc H.
  destruct (in_bounds (size p) (mx m) (my m)) eqn:Eb; cbn [negb] in H; [|discriminate].
  apply in_bounds_iff in Eb. destruct Eb as (Hx & Hy). split; [assumption|split; [assumption|]].
  destruct (is_slide (mt m)); [|assumption].
  destruct (mslides m) as [s|]; [|discriminate]. exists s. split; [reflexivity|].
  apply move_slide_facts in H. destruct H as (_ & Hgd & _ & _ & Hib).
  apply in_bounds_iff in Hib. tauto.
Qed.

Lemma move_in_bounds p m p' : move p m = Some p' -> 0 <= mx m < size p /\ 0 <= my m < size p.
Proof.
  unfold move. destruct (in_bounds (size p) (mx m) (my m)) eqn:Eb; cbn [negb]; [|discriminate].
  intros _. apply in_bounds_iff. assumption.
Qed.

(* completeness does not need the shape of the board: `move` and `all_moves`
   read the same square; it is stated for every position, `gen_complete` below
   adds the guard *)
Lemma gen_complete_any p m p' : canonical m -> move p m = Some p' -> In m (all_moves p).
Proof.
  intros Hc H. pose proof (move_in_bounds _ _ _ H) as (Hx & Hy).
  apply in_all_moves. exists (mx m), (my m). split; [assumption|split; [assumption|]].
  rewrite all_moves_square_eq. unfold canonical in Hc. unfold move in H.
  destruct (in_bounds (size p) (mx m) (my m)); cbn [negb] in H; [|discriminate].
  destruct m as [x y t sl]. cbn [mx my mt mslides] in *.
  destruct (is_slide t) eqn:Esl.
  - (* slides *)
    destruct Hc as (s & ->). pose proof (move_slide_facts _ _ _ _ H) as (_ & Hgd & Hlen & (top & rest & Esq & Hcol) & Hib).
    cbn [mx my mt] in *. rewrite Esq.
    replace (color_eqb (pcolor top) (to_move p)) with true by (symmetry; apply color_eqb_eq; assumption).
    cbn [negb]. apply in_gen_slides. apply in_bounds_iff in Hib.
    assert (Hs : In s (all_slides (Z.to_nat (size p)))).
    { apply all_slides_spec. rewrite Z2Nat.id by lia. exact Hgd. }
    rewrite Esq in Hlen. pose proof (zlen_nonneg s) as Hs0.
    destruct t; try discriminate Esl; cbn [direction fst snd] in Hib; unfold dirs_for.
    + exists s, SlideLeft, x. repeat split; try assumption; [left; reflexivity|lia|rewrite Esq; assumption].
    + exists s, SlideRight, (size p - x - 1).
      repeat split; try assumption; [right; left; reflexivity|lia|rewrite Esq; assumption].
    + exists s, SlideUp, (size p - y - 1).
      repeat split; try assumption; [right; right; right; left; reflexivity|lia|rewrite Esq; assumption].
    + exists s, SlideDown, y.
      repeat split; try assumption; [right; right; left; reflexivity|lia|rewrite Esq; assumption].
  - (* placements *)
    subst sl. unfold move_place in H. cbn [mx my mt] in H.
    destruct ((ply p <? 2) && negb (mtype_eqb t PlaceFlat)) eqn:Eopen; [discriminate|].
    destruct (sq p x y) as [|top rest]; [|discriminate].
    destruct t; try discriminate Esl.
    + simpl. tauto.
    + simpl. tauto.
    + (* a capstone: not on an opening ply, so the reserve tested is the mover's *)
      apply in_or_app. right.
      destruct (ply p <? 2) eqn:Eply; [discriminate Eopen|].
      replace (mtype_eqb PlaceCapstone PlaceCapstone) with true in H by reflexivity.
      unfold caps_to_move.
      destruct (to_move p); cbn iota in H.
      * destruct (wcaps p <=? 0) eqn:Ecap; [discriminate|].
        destruct (0 <? wcaps p) eqn:E; [left; reflexivity|lia].
      * destruct (bcaps p <=? 0) eqn:Ecap; [discriminate|].
        destruct (0 <? bcaps p) eqn:E; [left; reflexivity|lia].
Qed.

Theorem gen_complete p m p' : wf p -> canonical m -> move p m = Some p' -> In m (all_moves p).
Proof. intros _. apply gen_complete_any. Qed.

(* ---------- the table entries the rules accept are exactly the legal moves ---------- *)

Lemma table_canonical n m : 0 <= n -> In m (table n) -> canonical m.
Proof.
  intros Hn H. apply table_spec in H; [|assumption]. destruct H as (_ & _ & H). unfold canonical.
  destruct (is_slide (mt m)); [|assumption]. destruct H as (s & Hs & _). eauto.
Qed.

Theorem table_legal_exact p m : wf p ->
  (In m (table (size p)) /\ (exists p', move p m = Some p') <->
   canonical m /\ exists p', move p m = Some p').
Proof.
  intros (Hn & _). split.
  - intros (Ht & Hl). split; [eapply table_canonical; eassumption|assumption].
  - intros (Hc & (p' & Hl)). split; [|eauto].
    apply gen_in_table; [assumption|]. eapply gen_complete_any; eassumption.
Qed.

(* the same, through the well-formed universe of C07: a canonical legal move is
   a well-formed move of the size, so it owns exactly one id *)
Theorem legal_owns_id p m : wf p -> canonical m -> (exists p', move p m = Some p') ->
  exists i, 0 <= i < zlen (table (size p)) /\ encode_move (size p) m = Some i /\
            decode_move (size p) i = Some m.
Proof.
  intros (Hn & _) Hc (p' & Hl).
  destruct (encode_move_total (size p) m Hn (legal_canonical_wf_move _ _ _ Hc Hl)) as (i & Hi & He).
  exists i. split; [assumption|split; [assumption|]]. apply encode_decode_move. assumption.
Qed.

(* MCTS.populate: trying each table entry reaches every legal continuation,
   each once, and only legal ones *)
Theorem populate_reaches_all p : wf p ->
  NoDup (filter (accepted p) (table (size p))) /\
  (forall m, In m (filter (accepted p) (table (size p))) <->
             canonical m /\ exists p', move p m = Some p').
Proof.
  intros Hwf. split; [apply NoDup_filter; apply table_nodup|].
  intros m. rewrite filter_In, accepted_legal. apply table_legal_exact. assumption.
Qed.

(* filtering the generator's list instead of the table gives the same moves,
   each once *)
Theorem legal_filter_same p : wf p ->
  NoDup (filter (accepted p) (all_moves p)) /\
  (forall m, In m (filter (accepted p) (all_moves p)) <->
             In m (filter (accepted p) (table (size p)))).
Proof.
  intros Hwf. split; [apply NoDup_filter; apply gen_nodup|].
  intros m. rewrite !filter_In. split.
  - intros (Hg & Ha). split; [|assumption]. apply gen_in_table; [apply Hwf|assumption].
  - intros (Ht & Ha). split; [|assumption]. apply accepted_legal in Ha. destruct Ha as (p' & Hl).
    eapply gen_complete_any; [|eassumption]. eapply table_canonical; [apply Hwf|eassumption].
Qed.

(* "exactly once", in counting form *)
Definition mv_eq_dec (a b : mv) : {a = b} + {a <> b}.
Proof.
  destruct (mv_eqb a b) eqn:E.
  - left. apply mv_eqb_spec. exact E.
  - right. intros H. apply mv_eqb_spec in H. congruence.
Defined.

Theorem gen_count_once p m p' : wf p -> canonical m -> move p m = Some p' ->
  count_occ mv_eq_dec (all_moves p) m = 1%nat.
Proof.
  intros Hwf Hc Hl. apply NoDup_count_occ'; [apply gen_nodup|]. eapply gen_complete; eassumption.
Qed.

(* ---------- examples: the hypotheses are satisfiable by non-trivial values ---------- *)

(* 3x3, White to move at ply 4, a white capstone on top of a black flat in the
   centre, a black wall to its right, a white flat in the corner *)
Definition ex_pos : position :=
  mkPos 3 8 0 8 1 4
    [ [mkPiece White Flat]; []; [];
      []; [mkPiece White Capstone; mkPiece Black Flat]; [mkPiece Black Standing];
      []; []; [] ].
(* the capstone alone flattens the wall *)
Definition ex_crush : mv := mkMove 1 1 SlideRight (Some [1]).
(* both pieces go up *)
Definition ex_up : mv := mkMove 1 1 SlideUp (Some [2]).

Example ex_pos_wf : wf ex_pos.
Proof. split; [simpl; lia|reflexivity]. Qed.
Example ex_crush_canonical : canonical ex_crush.
Proof. unfold canonical, ex_crush. cbn. eauto. Qed.
Example ex_crush_legal : exists p', move ex_pos ex_crush = Some p'.
Proof. eexists. vm_compute. reflexivity. Qed.
Example ex_crush_generated : In ex_crush (all_moves ex_pos).
Proof. destruct ex_crush_legal as (p' & H). exact (gen_complete _ _ _ ex_pos_wf ex_crush_canonical H). Qed.
Example ex_up_legal : exists p', move ex_pos ex_up = Some p'.
Proof. eexists. vm_compute. reflexivity. Qed.
Example ex_legal_count : length (filter (accepted ex_pos) (table (size ex_pos))) = 21%nat /\
                         length (filter (accepted ex_pos) (all_moves ex_pos)) = 21%nat /\
                         length (all_moves ex_pos) = 30%nat.
Proof. vm_compute. auto. Qed.

(* the generator is a superset: carrying both pieces onto the wall is listed
   and refused; so is every slide on an opening ply *)
Example gen_superset_blocked :
  In (mkMove 1 1 SlideRight (Some [2])) (all_moves ex_pos) /\
  move ex_pos (mkMove 1 1 SlideRight (Some [2])) = None.
Proof. split; [vm_compute; tauto|reflexivity]. Qed.
Example gen_superset_no_reserve :
  (* White has no capstone left: not listed; with flats exhausted a flat would still be listed *)
  ~ In (mkMove 0 1 PlaceCapstone None) (all_moves ex_pos) /\
  move ex_pos (mkMove 0 1 PlaceCapstone None) = None.
Proof. split; [vm_compute; intuition discriminate|reflexivity]. Qed.
Definition ex_opening : position :=
  mkPos 3 10 0 10 0 1 [ [mkPiece Black Flat]; []; []; []; []; []; []; []; [] ].
Example gen_superset_opening :
  (* ply 1: Black to move owns the flat White placed for him; the generator lists its slides *)
  In (mkMove 0 0 SlideRight (Some [1])) (all_moves ex_opening) /\
  move ex_opening (mkMove 0 0 SlideRight (Some [1])) = None.
Proof. split; [vm_compute; tauto|reflexivity]. Qed.

(* why `canonical` is in the statements: a placement carrying a stray tuple is
   accepted by the rules (tuple ignored) but is neither generated nor a table
   entry - it is the same move as the canonical spelling *)
Example stray_tuple :
  (exists p', move ex_pos (mkMove 0 1 PlaceFlat (Some [1])) = Some p') /\
  move ex_pos (mkMove 0 1 PlaceFlat (Some [1])) = move ex_pos (mkMove 0 1 PlaceFlat None) /\
  ~ canonical (mkMove 0 1 PlaceFlat (Some [1])) /\
  ~ In (mkMove 0 1 PlaceFlat (Some [1])) (table 3).
Proof.
  split; [eexists; vm_compute; reflexivity|]. split; [reflexivity|]. split; [simpl; discriminate|].
  intros H. apply table_canonical in H; [|lia]. simpl in H. discriminate.
Qed.
