(* C20 - proofs about model/Dataset.v: chunking, epochs as aligned permutations,
   truncation, replay-buffer merge, determinism of the file dataset's stream. *)
From Coq Require Import ZArith List Bool Lia Permutation Arith.
From TV Require Import model.Dataset.
Import ListNotations.

(* ------------------------------------------------------------ list facts *)

Lemma skipn_skipn' {A} (a b : nat) (l : list A) : skipn a (skipn b l) = skipn (b + a) l.
Proof.
  revert l. induction b as [|b IH]; intros l; simpl; [reflexivity|].
  destruct l as [|x l]; [apply skipn_nil|apply IH].
Qed.

Lemma nth_nil' {A} (n : nat) (d : A) : nth n [] d = d.
Proof. destruct n; reflexivity. Qed.

Lemma nth_firstn' {A} (i n : nat) (l : list A) (d : A) : i < n -> nth i (firstn n l) d = nth i l d.
Proof.
  revert i l. induction n as [|n IH]; intros i l Hi; [lia|].
  destruct l as [|x l]; [reflexivity|]. destruct i as [|i]; simpl; [reflexivity|apply IH; lia].
Qed.

Lemma nth_skipn' {A} (i n : nat) (l : list A) (d : A) : nth i (skipn n l) d = nth (n + i) l d.
Proof.
  revert l. induction n as [|n IH]; intros l; simpl; [reflexivity|].
  destruct l as [|x l]; [destruct i; reflexivity|apply IH].
Qed.

Lemma skipn_repeat {A} (x : A) (n m : nat) : skipn n (repeat x m) = repeat x (m - n).
Proof.
  revert m. induction n as [|n IH]; intros m; simpl; [rewrite Nat.sub_0_r; reflexivity|].
  destruct m as [|m]; simpl; [reflexivity|apply IH].
Qed.

Lemma find_app' {A} (p : A -> bool) (l1 l2 : list A) :
  find p (l1 ++ l2) = match find p l1 with Some x => Some x | None => find p l2 end.
Proof. induction l1 as [|a l1 IH]; simpl; [reflexivity|]. destruct (p a); [reflexivity|exact IH]. Qed.

Lemma find_none_all {A} (p : A -> bool) (l : list A) : (forall x, In x l -> p x = false) -> find p l = None.
Proof.
  induction l as [|a l IH]; intros H; simpl; [reflexivity|].
  rewrite (H a (or_introl eq_refl)). apply IH. intros x Hx. apply H. right; exact Hx.
Qed.

Lemma map_nth_seq {A} (l : list A) (d : A) : map (fun i => nth i l d) (seq 0 (length l)) = l.
Proof.
  induction l as [|a l IH]; simpl; [reflexivity|]. f_equal.
  rewrite <- seq_shift, map_map. exact IH.
Qed.

Lemma list_max_In (l : list nat) (x : nat) : In x l -> x <= list_max l.
Proof.
  intros Hx. assert (H : Forall (fun k => k <= list_max l) l) by (apply list_max_le; lia).
  rewrite Forall_forall in H. apply H; exact Hx.
Qed.

(* ------------------------------------------------------------------ chunks *)

Lemma chunks_fuel_S {A} (f bs : nat) (l : list A) :
  l <> [] -> chunks_fuel (S f) bs l = firstn bs l :: chunks_fuel f bs (skipn bs l).
Proof. destruct l; [congruence|reflexivity]. Qed.

Lemma chunks_fuel_nil {A} (f bs : nat) : chunks_fuel f bs (@nil A) = [].
Proof. destruct f; reflexivity. Qed.

Lemma chunks_fuel_indep {A} (bs : nat) : 0 < bs -> forall f1 f2 (l : list A),
  length l <= f1 -> length l <= f2 -> chunks_fuel f1 bs l = chunks_fuel f2 bs l.
Proof.
  intros Hbs. induction f1 as [|f1 IH]; intros f2 l H1 H2.
  - destruct l; [|simpl in H1; lia]. rewrite !chunks_fuel_nil. reflexivity.
  - destruct l as [|x l]; [rewrite !chunks_fuel_nil; reflexivity|].
    destruct f2 as [|f2]; [simpl in H2; lia|].
    rewrite !chunks_fuel_S by congruence. f_equal.
    assert (Hl : length (skipn bs (x :: l)) <= length l) by (rewrite skipn_length; change (length (x :: l)) with (S (length l)); lia).
    simpl in H1, H2. apply IH; lia.
Qed.

Lemma chunks_nil {A} (bs : nat) : chunks bs (@nil A) = [].
Proof. reflexivity. Qed.

Lemma chunks_cons {A} (bs : nat) (l : list A) :
  0 < bs -> l <> [] -> chunks bs l = firstn bs l :: chunks bs (skipn bs l).
Proof.
  intros Hbs Hl. unfold chunks. destruct l as [|x l]; [congruence|].
  change (length (x :: l)) with (S (length l)). rewrite chunks_fuel_S by congruence. f_equal.
  assert (Hk : length (skipn bs (x :: l)) <= length l) by (rewrite skipn_length; change (length (x :: l)) with (S (length l)); lia).
  apply chunks_fuel_indep; [exact Hbs|exact Hk|lia].
Qed.

(* induction principle that follows the recursion of chunks *)
Lemma chunks_rect {A} (bs : nat) (P : list A -> list (list A) -> Prop) :
  0 < bs -> P [] [] ->
  (forall l, l <> [] -> P (skipn bs l) (chunks bs (skipn bs l)) -> P l (firstn bs l :: chunks bs (skipn bs l))) ->
  forall l, P l (chunks bs l).
Proof.
  intros Hbs H0 Hs l. remember (length l) as n eqn:En. revert l En.
  induction n as [n IH] using lt_wf_ind. intros l En.
  destruct l as [|x l]; [exact H0|].
  rewrite chunks_cons by (assumption || congruence). apply Hs; [congruence|].
  apply (IH (length (skipn bs (x :: l)))); [|reflexivity].
  rewrite skipn_length. subst n. change (length (x :: l)) with (S (length l)). lia.
Qed.

(* concat (chunks bs l) = l *)
Theorem chunks_concat {A} (bs : nat) (l : list A) : 0 < bs -> concat (chunks bs l) = l.
Proof.
  intros Hbs. apply (chunks_rect bs (fun l cs => concat cs = l)); [exact Hbs|reflexivity|].
  intros l0 _ IH. simpl. rewrite IH. apply firstn_skipn.
Qed.

(* all chunks but the last have bs elements; every chunk (so also the last) is
   non-empty and has at most bs elements; there are ceil(|l| / bs) chunks *)
Theorem chunks_sizes {A} (bs : nat) (l : list A) : 0 < bs ->
  Forall (fun c => length c = bs) (removelast (chunks bs l)) /\
  (forall c, In c (chunks bs l) -> 0 < length c <= bs) /\
  bs * length (chunks bs l) < length l + bs /\ length l <= bs * length (chunks bs l).
Proof.
  intros Hbs.
  apply (chunks_rect bs (fun l cs =>
    Forall (fun c => length c = bs) (removelast cs) /\ (forall c, In c cs -> 0 < length c <= bs) /\
    bs * length cs < length l + bs /\ length l <= bs * length cs)); [exact Hbs| |].
  - simpl. split; [constructor|]. split; [intros c []|]. lia.
  - intros l0 Hne (IH1 & IH2 & IH3 & IH4).
    assert (Hl0 : 0 < length l0) by (destruct l0; [congruence|simpl; lia]).
    destruct (le_lt_dec (length l0) bs) as [Hle|Hgt].
    + assert (Hs : skipn bs l0 = []) by (apply skipn_all2; exact Hle).
      rewrite Hs, chunks_nil. simpl. rewrite firstn_all2 by exact Hle.
      split; [constructor|]. split; [intros c [<-|[]]; lia|]. simpl. lia.
    + assert (Hf : length (firstn bs l0) = bs) by (rewrite firstn_length; lia).
      rewrite skipn_length in IH3, IH4.
      split; [|split; [|split]].
      * simpl. destruct (chunks bs (skipn bs l0)) eqn:Ec.
        -- simpl in IH4. lia.
        -- constructor; [exact Hf|exact IH1].
      * intros c [<-|Hc]; [lia|apply IH2; exact Hc].
      * simpl. rewrite Nat.mul_succ_r. lia.
      * simpl. rewrite Nat.mul_succ_r. lia.
Qed.

Lemma chunks_length_bound {A} (bs b : nat) (l : list A) : 0 < bs -> length l <= b * bs -> length (chunks bs l) <= b.
Proof.
  intros Hbs Hl. destruct (chunks_sizes bs l Hbs) as (_ & _ & H3 & _).
  assert (bs * length (chunks bs l) < bs * (b + 1)) by lia.
  apply Nat.mul_lt_mono_pos_l in H; [lia|exact Hbs].
Qed.

(* row r of chunk b is element b*bs + r *)
Lemma nth_chunks {A} (bs : nat) (d : A) : 0 < bs -> forall b r (l : list A),
  r < bs -> nth r (nth b (chunks bs l) []) d = nth (b * bs + r) l d.
Proof.
  intros Hbs. induction b as [|b IH]; intros r l Hr.
  - destruct l as [|x l]; [rewrite chunks_nil, !nth_nil'; reflexivity|].
    rewrite chunks_cons by (assumption || congruence). simpl nth at 2. apply nth_firstn'; exact Hr.
  - destruct l as [|x l].
    + rewrite chunks_nil. rewrite !nth_nil'. reflexivity.
    + rewrite chunks_cons by (assumption || congruence).
      change (nth (S b) (firstn bs (x :: l) :: chunks bs (skipn bs (x :: l))) [])
        with (nth b (chunks bs (skipn bs (x :: l))) []).
      rewrite IH by exact Hr. rewrite nth_skipn'. f_equal. simpl. lia.
Qed.

(* the slices taken by `for i in range(0, n, bs): v[i:i+bs]` are the chunks *)
Lemma slices_chunks_fuel {A} (bs : nat) (l : list A) : forall fuel i,
  map (fun j => slice j bs l) (range_from fuel i (length l) bs) = chunks_fuel fuel bs (skipn i l).
Proof.
  induction fuel as [|f IH]; intros i; [reflexivity|]. simpl range_from.
  destruct (i <? length l) eqn:E.
  - apply Nat.ltb_lt in E.
    assert (Hne : skipn i l <> []).
    { intro H0. assert (Hlen : length (skipn i l) = 0) by (rewrite H0; reflexivity).
      rewrite skipn_length in Hlen. lia. }
    rewrite chunks_fuel_S by exact Hne. simpl map. f_equal.
    rewrite IH, skipn_skipn'. reflexivity.
  - apply Nat.ltb_ge in E. rewrite skipn_all2 by exact E. reflexivity.
Qed.

Lemma slices_chunks {A} (bs : nat) (l : list A) :
  map (fun j => slice j bs l) (starts (length l) bs) = chunks bs l.
Proof. unfold starts, chunks. rewrite slices_chunks_fuel. reflexivity. Qed.

(* ------------------------------------------------- permuting rows by index *)

Lemma permute_length (rows : list row) (perm : list nat) : length (permute rows perm) = length perm.
Proof. apply map_length. Qed.

Lemma permute_perm (rows : list row) (perm : list nat) :
  Permutation perm (seq 0 (length rows)) -> Permutation (permute rows perm) rows.
Proof.
  intros Hp. unfold permute.
  pose proof (Permutation_map (fun i => nth i rows []) Hp) as H. rewrite map_nth_seq in H. exact H.
Qed.

Lemma perm_bound (perm : list nat) (n : nat) : Permutation perm (seq 0 n) -> Forall (fun i => i < n) perm.
Proof.
  intros Hp. apply Forall_forall. intros i Hi.
  apply (Permutation_in _ Hp) in Hi. apply in_seq in Hi. lia.
Qed.

(* --------------------------------------------------- batches of an epoch *)

Definition wf_data (d : dataset) : Prop := forall f, In f d -> length (snd f) = nrows d.

Lemma batch_field_map (j : nat) (g : fname * list row -> fname * list row) (d : dataset) k rows :
  nth_error d j = Some (k, rows) -> batch_field j (map g d) = snd (g (k, rows)).
Proof.
  intros H. unfold batch_field. apply (map_nth_error g) in H.
  rewrite (nth_error_nth _ _ _ H). reflexivity.
Qed.

Lemma batches_of_column (sh : dataset) (n bs j : nat) k rows :
  nth_error sh j = Some (k, rows) -> length rows = n ->
  map (batch_field j) (batches_of sh n bs) = chunks bs rows.
Proof.
  intros H Hn. unfold batches_of. rewrite map_map. subst n. rewrite <- slices_chunks.
  apply map_ext. intros i. rewrite (batch_field_map j _ sh k rows H). reflexivity.
Qed.

Lemma batches_of_names (sh : dataset) (n bs : nat) :
  Forall (fun b => map fst b = map fst sh) (batches_of sh n bs).
Proof.
  apply Forall_forall. intros b Hb. unfold batches_of in Hb. apply in_map_iff in Hb.
  destruct Hb as (i & <- & _). rewrite map_map. reflexivity.
Qed.

Lemma shuffle_nth (d : dataset) (perm : list nat) j k rows :
  nth_error d j = Some (k, rows) -> nth_error (shuffle d perm) j = Some (k, permute rows perm).
Proof. intros H. unfold shuffle. apply (map_nth_error (fun f => (fst f, permute (snd f) perm))) in H. exact H. Qed.

Lemma epoch_unfold (d : dataset) (perm : list nat) (bs : Z) : (1 <= bs)%Z ->
  epoch d perm bs = batches_of (shuffle d perm) (nrows d) (Z.to_nat bs).
Proof. intros H. unfold epoch. destruct (bs <=? 0)%Z eqn:E; [apply Z.leb_le in E; lia|reflexivity]. Qed.

Lemma bs_pos (bs : Z) : (1 <= bs)%Z -> 0 < Z.to_nat bs.
Proof. lia. Qed.

(* field j of the batches of an epoch = the design formula chunks bs (map (nth rows) perm) *)
Theorem batches_are_chunks (d : dataset) (perm : list nat) (bs : Z) j k rows :
  (1 <= bs)%Z -> length perm = nrows d -> nth_error d j = Some (k, rows) ->
  map (batch_field j) (epoch d perm bs) = epoch_field rows perm (Z.to_nat bs) /\
  Forall (fun b => map fst b = map fst d) (epoch d perm bs).
Proof.
  intros Hbs Hlen Hj. rewrite epoch_unfold by exact Hbs. split.
  - apply (batches_of_column _ _ _ _ k); [apply shuffle_nth; exact Hj|].
    rewrite permute_length. exact Hlen.
  - assert (Hn : map fst (shuffle d perm) = map fst d) by (unfold shuffle; rewrite map_map; reflexivity).
    rewrite <- Hn. apply batches_of_names.
Qed.

Theorem batch_sizes (d : dataset) (perm : list nat) (bs : Z) j k rows :
  (1 <= bs)%Z -> length perm = nrows d -> nth_error d j = Some (k, rows) ->
  let cs := map (batch_field j) (epoch d perm bs) in
  let b := Z.to_nat bs in
  Forall (fun c => length c = b) (removelast cs) /\ (forall c, In c cs -> 0 < length c <= b) /\
  b * length (epoch d perm bs) < nrows d + b /\ nrows d <= b * length (epoch d perm bs).
Proof.
  intros Hbs Hlen Hj cs b. subst cs.
  assert (Hc : length (epoch d perm bs) = length (map (batch_field j) (epoch d perm bs))) by (rewrite map_length; reflexivity).
  rewrite Hc. destruct (batches_are_chunks d perm bs j k rows Hbs Hlen Hj) as [-> _].
  unfold epoch_field. rewrite <- Hlen, <- (permute_length rows perm).
  apply chunks_sizes. apply bs_pos; exact Hbs.
Qed.

Lemma epoch_length (d : dataset) (perm : list nat) (bs : Z) :
  (1 <= bs)%Z -> length perm = nrows d -> length (epoch d perm bs) = length (chunks (Z.to_nat bs) perm).
Proof.
  intros Hbs Hlen. rewrite epoch_unfold by exact Hbs. unfold batches_of. rewrite map_length.
  rewrite <- slices_chunks, map_length, Hlen. reflexivity.
Qed.

(* every stored row exactly once per epoch *)
Theorem epoch_is_permutation (d : dataset) (perm : list nat) (bs : Z) j k rows :
  wf_data d -> (1 <= bs)%Z -> Permutation perm (seq 0 (nrows d)) -> nth_error d j = Some (k, rows) ->
  Permutation (concat (map (batch_field j) (epoch d perm bs))) rows.
Proof.
  intros Hwf Hbs Hp Hj.
  assert (Hlen : length perm = nrows d) by (rewrite (Permutation_length Hp); apply seq_length).
  destruct (batches_are_chunks d perm bs j k rows Hbs Hlen Hj) as [-> _].
  unfold epoch_field. rewrite chunks_concat by (apply bs_pos; exact Hbs).
  apply permute_perm.
  assert (Hr : length rows = nrows d) by (apply (Hwf (k, rows)); apply nth_error_In in Hj; exact Hj).
  rewrite Hr. exact Hp.
Qed.

(* every field is permuted by the same index list *)
Theorem fields_aligned (d : dataset) (perm : list nat) (bs : Z) :
  (1 <= bs)%Z -> length perm = nrows d ->
  forall j k rows, nth_error d j = Some (k, rows) ->
  concat (map (batch_field j) (epoch d perm bs)) = map (fun i => nth i rows []) perm.
Proof.
  intros Hbs Hlen j k rows Hj.
  destruct (batches_are_chunks d perm bs j k rows Hbs Hlen Hj) as [-> _].
  unfold epoch_field. rewrite chunks_concat by (apply bs_pos; exact Hbs). reflexivity.
Qed.

(* row r of batch b, in every field, is the stored row number perm[b*bs + r] *)
Theorem fields_aligned_rowwise (d : dataset) (perm : list nat) (bs : Z) :
  wf_data d -> (1 <= bs)%Z -> Permutation perm (seq 0 (nrows d)) ->
  forall j k rows b r, nth_error d j = Some (k, rows) ->
  r < Z.to_nat bs -> b * Z.to_nat bs + r < nrows d ->
  nth (b * Z.to_nat bs + r) perm 0 < length rows /\
  nth r (batch_field j (nth b (epoch d perm bs) [])) [] = nth (nth (b * Z.to_nat bs + r) perm 0) rows [].
Proof.
  intros Hwf Hbs Hp j k rows b r Hj Hr Hin.
  assert (Hlen : length perm = nrows d) by (rewrite (Permutation_length Hp); apply seq_length).
  split.
  { assert (Hrows : length rows = nrows d) by (apply (Hwf (k, rows)); apply nth_error_In in Hj; exact Hj).
    rewrite Hrows. pose proof (perm_bound perm (nrows d) Hp) as Hb. rewrite Forall_forall in Hb.
    apply Hb. apply nth_In. lia. }
  assert (E0 : batch_field j [] = []) by (unfold batch_field; destruct j; reflexivity).
  pose proof (map_nth (batch_field j) (epoch d perm bs) [] b) as E1. rewrite E0 in E1. rewrite <- E1. clear E1.
  destruct (batches_are_chunks d perm bs j k rows Hbs Hlen Hj) as [-> _].
  unfold epoch_field. rewrite nth_chunks by (lia || exact Hr).
  unfold permute.
  rewrite (nth_indep _ [] ((fun i => nth i rows []) 0)) by (rewrite map_length; lia).
  exact (map_nth (fun i => nth i rows []) perm 0 (b * Z.to_nat bs + r)).
Qed.

(* ---------------------------------------------------------------- truncation *)

Lemma py_prefix_nonneg {A} (k : Z) (l : list A) : (0 <= k)%Z -> py_prefix k l = firstn (Z.to_nat k) l.
Proof. intros H. unfold py_prefix. destruct (0 <=? k)%Z eqn:E; [reflexivity|apply Z.leb_gt in E; lia]. Qed.

Lemma py_prefix_length_eq {A B} (k : Z) (l1 : list A) (l2 : list B) :
  length l1 = length l2 -> length (py_prefix k l1) = length (py_prefix k l2).
Proof. intros H. unfold py_prefix. destruct (0 <=? k)%Z; rewrite !firstn_length, H; reflexivity. Qed.

(* truncation (any setting, also a negative product) keeps the fields aligned *)
Lemma truncate_wf (c : config) (raw : dataset) : wf_data raw -> wf_data (truncate c raw).
Proof.
  intros Hwf. unfold truncate. destruct (nbatches c) as [b|]; [|exact Hwf].
  intros f Hf. apply in_map_iff in Hf. destruct Hf as (f0 & <- & Hf0). simpl.
  destruct raw as [|f1 raw]; [destruct Hf0|]. simpl.
  apply py_prefix_length_eq. rewrite (Hwf f0 Hf0). reflexivity.
Qed.

Theorem truncation_none (c : config) (raw : dataset) : nbatches c = None -> truncate c raw = raw.
Proof. intros H. unfold truncate. rewrite H. reflexivity. Qed.

Theorem truncation (c : config) (raw : dataset) (b : Z) :
  nbatches c = Some b -> (0 <= b)%Z -> (1 <= batch_size c)%Z -> wf_data raw ->
  let m := Z.to_nat b * Z.to_nat (batch_size c) in
  let d := truncate c raw in
  wf_data d /\ nrows d = Nat.min m (nrows raw) /\
  (forall j k rows, nth_error raw j = Some (k, rows) -> nth_error d j = Some (k, firstn m rows)) /\
  (forall perm, length perm = nrows d -> length (epoch d perm (batch_size c)) <= Z.to_nat b).
Proof.
  intros Hb Hb0 Hbs Hwf m d.
  assert (Hd : d = map (fun f => (fst f, firstn m (snd f))) raw).
  { subst d. unfold truncate. rewrite Hb. apply map_ext. intros f.
    rewrite py_prefix_nonneg by lia. subst m. rewrite Z2Nat.inj_mul by lia. reflexivity. }
  assert (Hn : nrows d = Nat.min m (nrows raw)).
  { rewrite Hd. destruct raw as [|f raw]; simpl; [lia|]. apply firstn_length. }
  split; [|split; [exact Hn|split]].
  - intros f Hf. rewrite Hn. rewrite Hd in Hf. apply in_map_iff in Hf. destruct Hf as (f0 & <- & Hf0).
    simpl. rewrite firstn_length, (Hwf f0 Hf0). reflexivity.
  - intros j k rows Hj. rewrite Hd.
    apply (map_nth_error (fun f => (fst f, firstn m (snd f)))) in Hj. exact Hj.
  - intros perm Hlen. rewrite epoch_length by assumption.
    apply chunks_length_bound; [apply bs_pos; exact Hbs|]. rewrite Hlen, Hn. subst m. lia.
Qed.

(* ------------------------------------------------------ replay buffer merge *)

Lemma write_rows_length (src dst : list row) : length (write_rows src dst) = length dst.
Proof.
  revert dst. induction src as [|s src IH]; intros dst; [destruct dst; reflexivity|].
  destruct dst as [|d dst]; [reflexivity|]. simpl. rewrite IH. reflexivity.
Qed.

Lemma write_block_length (n : nat) (src dst : list row) : length (write_block n src dst) = length dst.
Proof.
  unfold write_block. rewrite app_length, write_rows_length, <- app_length, firstn_skipn. reflexivity.
Qed.

Lemma fill_length (blocks : list (list row)) : forall n out, length (fill n blocks out) = length out.
Proof.
  induction blocks as [|b bs IH]; intros n out; simpl; [reflexivity|].
  rewrite IH. apply write_block_length.
Qed.

Lemma write_row_zero (w : nat) (s : row) : write_row s (repeat 0%Z w) = pad w s.
Proof. unfold write_row, pad. rewrite skipn_repeat. reflexivity. Qed.

Lemma write_rows_zeros (w m : nat) (b : list row) :
  write_rows b (zeros (length b + m) w) = map (pad w) b ++ zeros m w.
Proof.
  unfold zeros. induction b as [|s b IH]; simpl; [destruct (repeat _ m); reflexivity|].
  rewrite write_row_zero, IH. reflexivity.
Qed.

Lemma zeros_app (a b w : nat) : zeros (a + b) w = zeros a w ++ zeros b w.
Proof. unfold zeros. apply repeat_app. Qed.

Lemma total_rows_cons (b : list row) (bs : list (list row)) : total_rows (b :: bs) = length b + total_rows bs.
Proof. unfold total_rows. simpl. apply app_length. Qed.

(* the writing loop computes: rows in buffer order, each extended with zeros to width w *)
Lemma fill_spec (w : nat) : forall (blocks : list (list row)) (done : list row) (k : nat),
  fill (length done) blocks (done ++ zeros (total_rows blocks + k) w)
  = done ++ concat (map (map (pad w)) blocks) ++ zeros k w.
Proof.
  induction blocks as [|b bs IH]; intros done k; [reflexivity|].
  simpl fill. rewrite total_rows_cons.
  assert (Hw : write_block (length done) b (done ++ zeros (length b + total_rows bs + k) w)
               = (done ++ map (pad w) b) ++ zeros (total_rows bs + k) w).
  { unfold write_block. rewrite firstn_app, Nat.sub_diag, firstn_all, firstn_O, app_nil_r.
    rewrite skipn_app, Nat.sub_diag, skipn_all, skipn_O. simpl app.
    rewrite <- Nat.add_assoc, write_rows_zeros, app_assoc. reflexivity. }
  rewrite Hw.
  replace (length done + length b) with (length (done ++ map (pad w) b)) by (rewrite app_length, map_length; reflexivity).
  rewrite IH. simpl. rewrite <- !app_assoc. reflexivity.
Qed.

Lemma fill_zeros (w : nat) (blocks : list (list row)) :
  fill 0 blocks (zeros (total_rows blocks) w) = concat (map (map (pad w)) blocks).
Proof.
  pose proof (fill_spec w blocks [] 0) as H. simpl in H.
  rewrite Nat.add_0_r, app_nil_r in H. exact H.
Qed.

Lemma total_rows_shape (a b : list (list row)) :
  map (map (@length Z)) a = map (map (@length Z)) b -> total_rows a = total_rows b.
Proof.
  intros H. unfold total_rows. unfold row in *.
  assert (E : forall x : list (list (list Z)), length (concat x) = length (map (@length Z) (concat x)))
    by (intros x; symmetry; apply map_length).
  rewrite (E a), (E b), !concat_map, H. reflexivity.
Qed.

Lemma shape_width (a b : list (list row)) (w : nat) :
  map (map (@length Z)) a = map (map (@length Z)) b ->
  (forall r, In r (concat b) -> length r <= w) -> forall r, In r (concat a) -> length r <= w.
Proof.
  unfold row in *. intros H Hb r Hr.
  assert (H1 : In (length r) (map (@length Z) (concat a))) by (apply in_map; exact Hr).
  rewrite concat_map, H, <- concat_map in H1. apply in_map_iff in H1.
  destruct H1 as (p & Hp & Hin). rewrite <- Hp. apply Hb. exact Hin.
Qed.

(* content unchanged, padding zero (for the mask: false), width = w *)
Theorem pad_spec (w : nat) (r : row) : length r <= w ->
  length (pad w r) = w /\ firstn (length r) (pad w r) = r /\ skipn (length r) (pad w r) = repeat 0%Z (w - length r).
Proof.
  intros H. unfold pad. repeat split.
  - rewrite app_length, repeat_length. lia.
  - rewrite firstn_app, Nat.sub_diag, firstn_all, firstn_O, app_nil_r. reflexivity.
  - rewrite skipn_app, Nat.sub_diag, skipn_all, skipn_O. reflexivity.
Qed.

Theorem width_le_maxwidth (blocks : list (list row)) (r : row) : In r (concat blocks) -> length r <= maxwidth blocks.
Proof.
  intros Hr. apply in_concat in Hr. destruct Hr as (b & Hb & Hrb).
  apply Nat.le_trans with (row_width b).
  - unfold row_width. apply list_max_In. apply in_map. exact Hrb.
  - unfold maxwidth. apply list_max_In. apply in_map. exact Hb.
Qed.

Lemma fname_eqb_refl (a : fname) : fname_eqb a a = true.
Proof.
  unfold fname_eqb. rewrite Nat.eqb_refl. simpl.
  induction a as [|x a IH]; simpl; [reflexivity|]. rewrite Z.eqb_refl. exact IH.
Qed.

Lemma fname_eqb_eq (a b : fname) : fname_eqb a b = true -> a = b.
Proof.
  unfold fname_eqb. revert b. induction a as [|x a IH]; intros b H.
  - destruct b; [reflexivity|discriminate].
  - destruct b as [|y b]; [discriminate|]. simpl in H.
    apply andb_prop in H. destruct H as [H1 H2]. apply andb_prop in H2. destruct H2 as [H2 H3].
    apply Z.eqb_eq in H2. simpl in H2. subst y. f_equal. apply IH. rewrite H1. exact H3.
Qed.

Section Merge.
  Variable bufs : list dataset.
  Let keys := filter (fun k => negb (special k)) (map fst (hd [] bufs)).
  Let pos := map (get_field POSITIONS) bufs.
  Let msk := map (get_field MASK) bufs.
  Let w := maxwidth pos.
  Let npos := total_rows pos.
  Let flat := cat_replay_buffer bufs.
  Let head : dataset := map (fun k => (k, concat (map (get_field k) bufs))) keys.

  Lemma flat_eq : flat = head ++ [(POSITIONS, fill 0 pos (zeros npos w)); (MASK, fill 0 msk (zeros npos w))].
  Proof. reflexivity. Qed.

  Lemma head_not_special (k0 : fname) : special k0 = true ->
    find (fun f => fname_eqb k0 (fst f)) head = None.
  Proof.
    intros Hs. apply find_none_all. intros f Hf. subst head. apply in_map_iff in Hf.
    destruct Hf as (k & <- & Hk). simpl. subst keys. apply filter_In in Hk. destruct Hk as [_ Hk].
    destruct (fname_eqb k0 k) eqn:E; [|reflexivity].
    apply fname_eqb_eq in E. subst k. rewrite Hs in Hk. discriminate.
  Qed.

  Lemma get_positions_flat : get_field POSITIONS flat = fill 0 pos (zeros npos w).
  Proof.
    unfold get_field. rewrite flat_eq, find_app', head_not_special by reflexivity. reflexivity.
  Qed.

  Lemma get_mask_flat : get_field MASK flat = fill 0 msk (zeros npos w).
  Proof.
    unfold get_field. rewrite flat_eq, find_app', head_not_special by reflexivity. reflexivity.
  Qed.

  Lemma get_other_flat (k : fname) : In k (map fst (hd [] bufs)) -> special k = false ->
    get_field k flat = concat (map (get_field k) bufs).
  Proof.
    intros Hk Hs. unfold get_field at 1. rewrite flat_eq, find_app'.
    assert (Hin : In k keys) by (subst keys; apply filter_In; split; [exact Hk|rewrite Hs; reflexivity]).
    destruct (find (fun f => fname_eqb k (fst f)) head) as [f|] eqn:E.
    - apply find_some in E. destruct E as [Hf Hkf]. apply fname_eqb_eq in Hkf.
      subst head. apply in_map_iff in Hf. destruct Hf as (k' & <- & _). simpl in Hkf. subst k'. reflexivity.
    - exfalso. assert (H := find_none _ _ E (k, concat (map (get_field k) bufs))).
      simpl in H. rewrite fname_eqb_refl in H.
      assert (In (k, concat (map (get_field k) bufs)) head) by (subst head; apply in_map_iff; exists k; split; [reflexivity|exact Hin]).
      specialize (H H0). discriminate.
  Qed.

  (* the merge: rows in buffer order; positions (always) and mask (when it has the
     shape of positions) are the stored rows extended to the widest width; every
     other field of the first buffer's key set is concatenated *)
  Theorem merge_padding :
    get_field POSITIONS flat = concat (map (map (pad w)) pos) /\
    (map (map (@length Z)) msk = map (map (@length Z)) pos ->
       get_field MASK flat = concat (map (map (pad w)) msk)) /\
    (forall k, In k (map fst (hd [] bufs)) -> special k = false ->
       get_field k flat = concat (map (get_field k) bufs)) /\
    (forall r, In r (concat pos) -> length r <= w) /\
    (map (map (@length Z)) msk = map (map (@length Z)) pos -> forall r, In r (concat msk) -> length r <= w).
  Proof.
    split; [|split; [|split; [|split]]].
    - rewrite get_positions_flat. subst npos. apply fill_zeros.
    - intros Hshape. rewrite get_mask_flat. subst npos.
      rewrite <- (total_rows_shape _ _ Hshape). apply fill_zeros.
    - exact get_other_flat.
    - intros r Hr. apply width_le_maxwidth. exact Hr.
    - intros Hshape. apply (shape_width msk pos w Hshape). intros r Hr. apply width_le_maxwidth. exact Hr.
  Qed.

  (* every field of the merged buffer has npos rows when every buffer is rectangular in its rows *)
  Definition rb_wf : Prop := forall b, In b bufs ->
    forall k, In k (map fst (hd [] bufs)) -> length (get_field k b) = length (get_field POSITIONS b).

  Lemma concat_len_eq (f g : dataset -> list row) (l : list dataset) :
    (forall b, In b l -> length (f b) = length (g b)) -> length (concat (map f l)) = length (concat (map g l)).
  Proof.
    induction l as [|b l IH]; intros H; simpl; [reflexivity|].
    rewrite !app_length, (H b (or_introl eq_refl)), IH; [reflexivity|]. intros b' Hb'. apply H. right; exact Hb'.
  Qed.

  Lemma flat_rows : rb_wf -> forall f, In f flat -> length (snd f) = npos.
  Proof.
    intros Hwf f Hf. rewrite flat_eq in Hf. apply in_app_or in Hf. destruct Hf as [Hf|[<-|[<-|[]]]].
    - subst head. apply in_map_iff in Hf. destruct Hf as (k & <- & Hk). simpl.
      subst keys. apply filter_In in Hk. destruct Hk as [Hk _].
      subst npos pos. unfold total_rows. apply concat_len_eq. intros b Hb. apply Hwf; assumption.
    - simpl. rewrite fill_length. unfold zeros. apply repeat_length.
    - simpl. rewrite fill_length. unfold zeros. apply repeat_length.
  Qed.

  Lemma flat_npos : length (get_field POSITIONS flat) = npos.
  Proof. rewrite get_positions_flat, fill_length. unfold zeros. apply repeat_length. Qed.

  (* one epoch of the replay-buffer dataset: every merged row once, fields aligned, batch sizes *)
  Theorem rb_epoch_is_permutation (perm : list nat) (bs : Z) :
    rb_wf -> (1 <= bs)%Z -> Permutation perm (seq 0 npos) ->
    forall j k rows, nth_error flat j = Some (k, rows) ->
    let cs := map (batch_field j) (rb_epoch bufs perm bs) in
    Permutation (concat cs) rows /\
    concat cs = map (fun i => nth i rows []) perm /\
    Forall (fun c => length c = Z.to_nat bs) (removelast cs) /\
    (forall c, In c cs -> 0 < length c <= Z.to_nat bs).
  Proof.
    intros Hwf Hbs Hp j k rows Hj cs.
    assert (Hlen : length perm = npos) by (rewrite (Permutation_length Hp); apply seq_length).
    assert (Hrows : length rows = npos) by (apply (flat_rows Hwf (k, rows)); apply nth_error_In in Hj; exact Hj).
    assert (Hcs : cs = chunks (Z.to_nat bs) (permute rows perm)).
    { subst cs. unfold rb_epoch. fold flat. rewrite flat_npos.
      destruct (bs <=? 0)%Z eqn:E; [apply Z.leb_le in E; lia|].
      apply (batches_of_column _ _ _ _ k); [apply shuffle_nth; exact Hj|].
      rewrite permute_length. exact Hlen. }
    rewrite Hcs. rewrite chunks_concat by (apply bs_pos; exact Hbs).
    split; [|split; [reflexivity|]].
    - apply permute_perm. rewrite Hrows. exact Hp.
    - destruct (chunks_sizes (Z.to_nat bs) (permute rows perm) (bs_pos bs Hbs)) as (H1 & H2 & _). split; assumption.
  Qed.
End Merge.

(* row i of buffer b sits at offset |buffers before b| + i of the merge *)
Theorem merge_padding_rowwise (w : nat) (blocks : list (list row)) (b i : nat) :
  b < length blocks -> i < length (nth b blocks []) ->
  nth (total_rows (firstn b blocks) + i) (concat (map (map (pad w)) blocks)) [] = pad w (nth i (nth b blocks []) []).
Proof.
  revert b. induction blocks as [|x blocks IH]; intros b Hb Hi; [simpl in Hb; lia|].
  destruct b as [|b].
  - simpl. unfold total_rows. simpl. simpl in Hi.
    rewrite app_nth1 by (rewrite map_length; exact Hi).
    rewrite (nth_indep _ [] (pad w [])) by (rewrite map_length; exact Hi). apply map_nth.
  - simpl firstn. rewrite total_rows_cons. simpl map. simpl concat.
    rewrite app_nth2 by (rewrite map_length; lia).
    rewrite map_length. replace (length x + total_rows (firstn b blocks) + i - length x) with (total_rows (firstn b blocks) + i) by lia.
    simpl in Hb, Hi. apply IH; [lia|exact Hi].
Qed.

(* ------------------------------------------ the file dataset as a state machine *)

Section Stream.
  Variable gen : Type.
  Variable seed_gen : Z -> gen.
  Variable randperm : gen -> nat -> list nat * gen.
  Variable load : list Z -> dataset.
  Hypothesis randperm_perm : forall g n, Permutation (fst (randperm g n)) (seq 0 n).

  Notation post_init := (post_init gen seed_gen load).
  Notation next_epoch := (next_epoch gen randperm).
  Notation fastforward := (fastforward gen randperm).
  Notation iter := (iter gen randperm).
  Notation consume := (consume gen randperm).
  Notation setstate := (setstate gen seed_gen load).
  Notation getstate := (getstate gen).
  Notation step := (step gen seed_gen randperm load).
  Notation run_ops := (run_ops gen seed_gen randperm load).

  Lemma iter_eq (s : dstate gen) :
    iter s = (epoch (data s) (fst (randperm (rng s) (nrows (data s)))) (batch_size (cfg s)),
              mkState (cfg s) (data s) (snd (randperm (rng s) (nrows (data s))))).
  Proof. unfold Dataset.iter. destruct (randperm (rng s) (nrows (data s))); reflexivity. Qed.

  Lemma next_epoch_eq (s : dstate gen) :
    next_epoch s = (shuffle (data s) (fst (randperm (rng s) (nrows (data s)))),
                    mkState (cfg s) (data s) (snd (randperm (rng s) (nrows (data s))))).
  Proof. unfold Dataset.next_epoch. destruct (randperm (rng s) (nrows (data s))); reflexivity. Qed.

  Lemma iter_state (s : dstate gen) : snd (iter s) = snd (next_epoch s).
  Proof. rewrite iter_eq, next_epoch_eq. reflexivity. Qed.

  Lemma iter_keeps (s : dstate gen) : cfg (snd (iter s)) = cfg s /\ data (snd (iter s)) = data s.
  Proof. rewrite iter_eq. split; reflexivity. Qed.

  Lemma consume_S (n : nat) (s : dstate gen) :
    consume (S n) s = (fst (iter s) :: fst (consume n (snd (iter s))), snd (consume n (snd (iter s)))).
  Proof. simpl. destruct (iter s) as [e s1]. simpl. destruct (consume n s1); reflexivity. Qed.

  Lemma consume_keeps (n : nat) : forall s, cfg (snd (consume n s)) = cfg s /\ data (snd (consume n s)) = data s.
  Proof.
    induction n as [|n IH]; intros s; [split; reflexivity|].
    rewrite consume_S. simpl. destruct (IH (snd (iter s))) as [H1 H2]. destruct (iter_keeps s) as [H3 H4].
    split; congruence.
  Qed.

  (* each epoch of the file dataset yields every stored row exactly once ... *)
  Theorem iter_epoch_is_permutation (s : dstate gen) j k rows :
    wf_data (data s) -> (1 <= batch_size (cfg s))%Z -> nth_error (data s) j = Some (k, rows) ->
    Permutation (concat (map (batch_field j) (fst (iter s)))) rows.
  Proof.
    intros Hwf Hbs Hj. rewrite iter_eq. simpl fst.
    apply epoch_is_permutation with (k := k); try assumption. apply randperm_perm.
  Qed.

  (* ... with all fields of a row together: one index list serves every field *)
  Theorem iter_fields_aligned (s : dstate gen) :
    wf_data (data s) -> (1 <= batch_size (cfg s))%Z ->
    exists idx, Permutation idx (seq 0 (nrows (data s))) /\
      forall j k rows, nth_error (data s) j = Some (k, rows) ->
        length rows = nrows (data s) /\
        concat (map (batch_field j) (fst (iter s))) = map (fun i => nth i rows []) idx /\
        Forall (fun b => map fst b = map fst (data s)) (fst (iter s)).
  Proof.
    intros Hwf Hbs. exists (fst (randperm (rng s) (nrows (data s)))). split; [apply randperm_perm|].
    intros j k rows Hj. rewrite iter_eq. simpl fst.
    assert (Hlen : length (fst (randperm (rng s) (nrows (data s)))) = nrows (data s)).
    { rewrite (Permutation_length (randperm_perm _ _)). apply seq_length. }
    split; [apply (Hwf (k, rows)); apply nth_error_In in Hj; exact Hj|]. split.
    - apply fields_aligned with (k := k); assumption.
    - apply (batches_are_chunks _ _ _ j k rows); assumption.
  Qed.

  (* the same, for every epoch of a stream of any length *)
  Theorem stream_epochs_are_permutations (n : nat) : forall (s : dstate gen),
    wf_data (data s) -> (1 <= batch_size (cfg s))%Z ->
    Forall (fun e => forall j k rows, nth_error (data s) j = Some (k, rows) ->
                     Permutation (concat (map (batch_field j) e)) rows) (fst (consume n s)).
  Proof.
    induction n as [|n IH]; intros s Hwf Hbs; [constructor|].
    rewrite consume_S. simpl fst. constructor.
    - intros j k rows Hj. apply iter_epoch_is_permutation with (k := k); assumption.
    - destruct (iter_keeps s) as [Hc Hd]. specialize (IH (snd (iter s))).
      rewrite Hc, Hd in IH. apply IH; assumption.
  Qed.

  (* every epoch of a dataset constructed over a well-formed file, for any seed and truncation *)
  Theorem constructed_stream_epochs (c : config) (n : nat) :
    wf_data (load (cpath c)) -> (1 <= batch_size c)%Z ->
    Forall (fun e => forall j k rows, nth_error (truncate c (load (cpath c))) j = Some (k, rows) ->
                     Permutation (concat (map (batch_field j) e)) rows) (fst (consume n (post_init c))).
  Proof.
    intros Hwf Hbs. apply (stream_epochs_are_permutations n (post_init c)); [|exact Hbs].
    apply truncate_wf. exact Hwf.
  Qed.

  (* equal seeds (and equal file, batch size, truncation) give equal streams: the
     stream is a function of the configuration *)
  Theorem seed_determines_stream (c1 c2 : config) (n : nat) :
    cpath c1 = cpath c2 -> batch_size c1 = batch_size c2 -> nbatches c1 = nbatches c2 -> cseed c1 = cseed c2 ->
    consume n (post_init c1) = consume n (post_init c2).
  Proof. destruct c1, c2. simpl. intros -> -> -> ->. reflexivity. Qed.

  (* fast-forwarding n epochs leaves the dataset in the state consuming n epochs leaves it in *)
  Theorem fastforward_eq_consume (n : nat) : forall s, fastforward n s = snd (consume n s).
  Proof.
    induction n as [|n IH]; intros s; [reflexivity|].
    rewrite consume_S. simpl. rewrite IH, iter_state. reflexivity.
  Qed.

  Lemma consume_length (n : nat) : forall s, length (fst (consume n s)) = n.
  Proof. induction n as [|n IH]; intros s; [reflexivity|]. rewrite consume_S. simpl. rewrite IH. reflexivity. Qed.

  Lemma consume_add (n m : nat) : forall s,
    consume (n + m) s = (fst (consume n s) ++ fst (consume m (snd (consume n s))), snd (consume m (snd (consume n s)))).
  Proof.
    induction n as [|n IH]; intros s.
    - simpl. destruct (consume m s); reflexivity.
    - change (S n + m) with (S (n + m)). rewrite !consume_S, IH. reflexivity.
  Qed.

  (* ... so the epochs after a fast-forward are the stream without its first n epochs *)
  Theorem fastforward_skips_stream (n m : nat) (s : dstate gen) :
    fst (consume m (fastforward n s)) = skipn n (fst (consume (n + m) s)).
  Proof.
    rewrite fastforward_eq_consume, consume_add. simpl fst.
    rewrite skipn_app, consume_length, Nat.sub_diag, skipn_O.
    rewrite skipn_all2 by (rewrite consume_length; lia). reflexivity.
  Qed.

  Lemma step_keeps (o : op) (s : dstate gen) : cfg (snd (step o s)) = cfg s.
  Proof.
    destruct o; simpl.
    - apply iter_keeps.
    - pose proof (iter_keeps s) as [H _]. destruct (iter s); exact H.
    - rewrite fastforward_eq_consume. apply consume_keeps.
    - reflexivity.
  Qed.

  Lemma run_ops_keeps (os : list op) : forall s, cfg (snd (run_ops os s)) = cfg s.
  Proof.
    induction os as [|o os IH]; intros s; [reflexivity|].
    simpl. pose proof (step_keeps o s) as H1. destruct (step o s) as [e s1]. simpl in H1.
    specialize (IH s1). destruct (run_ops os s1) as [es s2]. simpl in *. congruence.
  Qed.

  (* __setstate__(__getstate__()) is construction from the same arguments, whatever happened before *)
  Theorem pickle_restarts (os : list op) (c : config) :
    setstate (getstate (snd (run_ops os (post_init c)))) = post_init c.
  Proof. unfold Dataset.setstate, Dataset.getstate. rewrite run_ops_keeps. reflexivity. Qed.

  Theorem pickle_restarts_stream (os : list op) (c : config) (n : nat) :
    consume n (setstate (getstate (snd (run_ops os (post_init c))))) = consume n (post_init c).
  Proof. rewrite pickle_restarts. reflexivity. Qed.
End Stream.

(* ------------------------------------------------------------------ examples *)

(* a generator that satisfies the section hypothesis: even states answer the
   reversed identity, odd states the identity *)
Definition ex_randperm (g n : nat) : list nat * nat := (if Nat.even g then rev (seq 0 n) else seq 0 n, S g).

Example ex_randperm_perm : forall g n, Permutation (fst (ex_randperm g n)) (seq 0 n).
Proof. intros g n. unfold ex_randperm. simpl. destruct (Nat.even g); [symmetry; apply Permutation_rev|reflexivity]. Qed.

Definition ex_raw : dataset :=
  [([105%Z], [[0]; [1]; [2]; [3]; [4]; [5]; [6]]%Z);                      (* "i": 7 rows, 1-D *)
   ([120%Z], [[0; 0]; [1; 1]; [4; 8]; [9; 27]; [16; 64]; [25; 125]; [36; 216]]%Z)].   (* "x": 7 rows of width 2 *)
Definition ex_cfg : config := mkConfig [] 2 (Some 3%Z) 5.
Definition ex_state : dstate nat := post_init nat Z.to_nat (fun _ => ex_raw) ex_cfg.

(* hypotheses of truncation / epoch_is_permutation / fields_aligned hold for a concrete dataset *)
Example ex_wf_raw : wf_data ex_raw.
Proof. intros f [<-|[<-|[]]]; reflexivity. Qed.

Example ex_truncation_hyps : nbatches ex_cfg = Some 3%Z /\ (0 <= 3)%Z /\ (1 <= batch_size ex_cfg)%Z /\ wf_data ex_raw.
Proof. repeat split; try reflexivity; try (simpl; lia). exact ex_wf_raw. Qed.

Example ex_wf_state : wf_data (data ex_state) /\ (1 <= batch_size (cfg ex_state))%Z /\
  nth_error (data ex_state) 1 = Some ([120%Z], [[0; 0]; [1; 1]; [4; 8]; [9; 27]; [16; 64]; [25; 125]]%Z).
Proof.
  split; [|split; [simpl; lia|reflexivity]].
  apply (truncation ex_cfg ex_raw 3); try reflexivity; try (simpl; lia). exact ex_wf_raw.
Qed.

(* 7 rows truncated to 3*2 = 6; two epochs, a pickle round trip (the stream restarts), one more batch *)
Example ex_stream :
  fst (run_ops nat Z.to_nat ex_randperm (fun _ => ex_raw) [OpIter; OpIter; OpPickle; OpTake 1] ex_state)
  = [ [ [([105], [[0]; [1]]); ([120], [[0; 0]; [1; 1]])];
        [([105], [[2]; [3]]); ([120], [[4; 8]; [9; 27]])];
        [([105], [[4]; [5]]); ([120], [[16; 64]; [25; 125]])] ];
      [ [([105], [[5]; [4]]); ([120], [[25; 125]; [16; 64]])];
        [([105], [[3]; [2]]); ([120], [[9; 27]; [4; 8]])];
        [([105], [[1]; [0]]); ([120], [[1; 1]; [0; 0]])] ];
      [];
      [ [([105], [[0]; [1]]); ([120], [[0; 0]; [1; 1]])] ] ]%Z.
Proof. reflexivity. Qed.

(* no truncation, batch size 4 does not divide 7: batches of 4 and 3 *)
Example ex_odd_batch :
  fst (iter nat ex_randperm (post_init nat Z.to_nat (fun _ => ex_raw) (mkConfig [] 4 None 4)))
  = [ [([105], [[6]; [5]; [4]; [3]]); ([120], [[36; 216]; [25; 125]; [16; 64]; [9; 27]])];
      [([105], [[2]; [1]; [0]]); ([120], [[4; 8]; [1; 1]; [0; 0]])] ]%Z.
Proof. reflexivity. Qed.

(* replay buffers of widths 2 and 3 *)
Definition ex_bufs : list dataset :=
  [ [(POSITIONS, [[7; 8]; [9; 10]]%Z); (MASK, [[1; 1]; [1; 0]]%Z); ([118%Z], [[50]; [51]]%Z)];
    [([118%Z], [[52]]%Z); (POSITIONS, [[1; 2; 3]]%Z); (MASK, [[1; 1; 1]]%Z)] ].

Example ex_merge : cat_replay_buffer ex_bufs =
  [([118], [[50]; [51]; [52]]); (POSITIONS, [[7; 8; 0]; [9; 10; 0]; [1; 2; 3]]); (MASK, [[1; 1; 0]; [1; 0; 0]; [1; 1; 1]])]%Z.
Proof. reflexivity. Qed.

Example ex_rb_hyps : rb_wf ex_bufs /\
  map (map (@length Z)) (map (get_field MASK) ex_bufs) = map (map (@length Z)) (map (get_field POSITIONS) ex_bufs) /\
  Permutation [2; 0; 1] (seq 0 (total_rows (map (get_field POSITIONS) ex_bufs))).
Proof.
  split; [|split; [reflexivity|]].
  - intros b [<-|[<-|[]]] k [<-|[<-|[<-|[]]]]; reflexivity.
  - simpl. change [0; 1; 2] with ([0; 1] ++ 2 :: []). apply Permutation_cons_app. reflexivity.
Qed.

Example ex_rb_epoch : rb_epoch ex_bufs [2; 0; 1] 2 =
  [ [([118], [[52]; [50]]); (POSITIONS, [[1; 2; 3]; [7; 8; 0]]); (MASK, [[1; 1; 1]; [1; 1; 0]])];
    [([118], [[51]]); (POSITIONS, [[9; 10; 0]]); (MASK, [[1; 0; 0]])] ]%Z.
Proof. reflexivity. Qed.
